// C22 - connection event timing and supervision follow the connection parameters.
//
// Part A (exploration of value domains): every CONNECT_IND of the product of the field alphabets is given to the real
//         link_layer<>; a connection may only be entered if the parameters satisfy the Core limits listed in registry.d/C22.py.
// Part B (E1 over received/missed patterns): from every accepted connection all patterns of N connection events are explored
//         depth first on restored snapshots; a reference clock kept by the harness decides where every event has to be scheduled,
//         how wide the receive window has to be at least and when the supervision timeout has to end the link.  At chosen nodes a
//         drain "miss until the link is dropped" checks the supervision timeout itself.
// Part C: the same with a LL_CONNECTION_UPDATE_IND in flight (transmit window of the update, new interval / timeout afterwards).
#include "../mc/mc.hpp"
#include "ll_world.hpp"
#include <bluetoe/server.hpp>
#include <bluetoe/service.hpp>
#include <bluetoe/characteristic.hpp>
#include <bluetoe/gatt_options.hpp>
#include <bluetoe/connection_callbacks.hpp>
#include <bluetoe/connection_details.hpp>

#ifndef C22_PPM
#define C22_PPM 500
#endif

namespace {

namespace bll = bluetoe::link_layer;

std::uint8_t g_value = 0x42;

using server_t = bluetoe::server<
    bluetoe::service<
        bluetoe::service_uuid16< 0x1234 >,
        bluetoe::characteristic<
            bluetoe::characteristic_uuid16< 0x5678 >,
            bluetoe::bind_characteristic_value< std::uint8_t, &g_value > > >,
    bluetoe::no_gap_service_for_gatt_servers >;

struct Observer
{
    std::uint32_t requested, established, attempt_timeout, changed, closed;
    std::uint16_t ch_interval, ch_latency, ch_timeout;
    std::uint8_t  reason;

    template < class C > void ll_connection_requested( const bll::connection_details&, const bll::connection_addresses&, C& ) { ++requested; }
    template < class C > void ll_connection_established( const bll::connection_details&, const bll::connection_addresses&, C& ) { ++established; }
    template < class C > void ll_connection_attempt_timeout( C& ) { ++attempt_timeout; }
    template < class C > void ll_connection_changed( const bll::connection_details& d, C& )
    {
        ++changed; ch_interval = d.interval(); ch_latency = d.latency(); ch_timeout = d.timeout();
    }
    template < class C > void ll_connection_closed( std::uint8_t r, C& ) { ++closed; reason = r; }
};

Observer g_obs;

using ll_t = bll::link_layer< server_t, llw::radio, bll::connection_callbacks< Observer, g_obs >, bll::sleep_clock_accuracy_ppm< C22_PPM > >;

mc::Placed< ll_t > g_ll;

constexpr std::uint32_t unit_us = 1250;
constexpr std::uint32_t tolerance_us = 2;       // rounding of the ppm arithmetic
static const unsigned sca_ppm[ 8 ] = { 500, 250, 150, 100, 75, 50, 30, 20 };    // Core Vol 6 Part B 2.3.3.1, upper bound of each class

struct Conn   { unsigned interval, latency, timeout, win_size, win_offset, sca; };
struct Update { unsigned used, delta, interval, latency, timeout, win_size, win_offset; };

// ---------------------------------------------------------------------------------------------------------------
// the limits demanded from a CONNECT_IND; returns nullptr if valid, else the name of the first limit that is violated
const char* invalid_reason( const Conn& c )
{
    if ( c.interval < 6 )                                   return "interval-below-7.5ms";
    if ( c.interval > 3200 )                                return "interval-above-4s";
    if ( c.latency > 499 )                                  return "latency-above-499";
    if ( c.timeout < 10 )                                   return "timeout-below-100ms";
    if ( c.timeout > 3200 )                                 return "timeout-above-32s";
    // timeout * 10 ms > ( 1 + latency ) * interval * 1.25 ms * 2   <=>   timeout * 4 > ( 1 + latency ) * interval
    if ( c.timeout * 4ull <  ( 1ull + c.latency ) * c.interval )  return "timeout-below-2x-latency-interval";
    if ( c.timeout * 4ull == ( 1ull + c.latency ) * c.interval )  return "timeout-equals-2x-latency-interval";
    if ( c.win_size > 8 )                                   return "winsize-above-10ms";
    if ( c.win_size > c.interval - 1 )                      return "winsize-above-interval-minus-1.25ms";
    if ( c.win_offset > c.interval )                        return "winoffset-above-interval";
    if ( c.win_size == 0 )                                  return "winsize-zero";
    return nullptr;
}

// ---------------------------------------------------------------------------------------------------------------
// reference clock
struct Ref
{
    std::uint32_t interval_us, timeout_us, ppm;
    std::uint16_t latency;
    std::uint8_t  established;      // a packet was received since the CONNECT_IND
    std::uint8_t  windowed;         // the scheduled event still uses a transmit window ( connecting / update not yet confirmed by a packet )
    std::uint32_t start_us;         // nominal start of the scheduled event ( windowed: of its transmit window ) relative to the last anchor / the CONNECT_IND
    std::uint32_t size_us;          // transmit window size ( 0 if not windowed )
    std::uint32_t slack_us;         // windowed after an update: transmitWindowOffset + size, see assumptions ( supervision band )
    std::uint16_t index;            // connecting: index of the scheduled event
    // connection update in flight
    std::uint8_t  upd_state;        // 0 none, 1 queued at the central, 2 accepted by the peripheral ( pending ), 3 applied
    std::uint16_t upd_instant;
    Update        upd;
};

Ref g_ref;

struct Snapshot
{
    unsigned char ll[ sizeof( ll_t ) ];
    Observer      obs;
    Ref           ref;
    std::uint8_t  value;
};

void save( Snapshot& s ) { std::memcpy( s.ll, g_ll.raw, sizeof s.ll ); s.obs = g_obs; s.ref = g_ref; s.value = g_value; }
void load( const Snapshot& s ) { std::memcpy( g_ll.raw, s.ll, sizeof s.ll ); g_obs = s.obs; g_ref = s.ref; g_value = s.value; }

struct Outcome
{
    std::string sig, detail;
    bool        verbose = false;
    std::vector< std::string > log;
};

struct Stats
{
    std::uint64_t steps = 0, patterns = 0, drains = 0, connects = 0;
    std::map< std::string, std::uint64_t > cls;
} g_stats;

void cls( const std::string& c ) { ++g_stats.cls[ c ]; }

bool fail( Outcome& o, const std::string& sig, const std::string& detail )
{
    if ( o.sig.empty() ) { o.sig = sig; o.detail = detail; if ( o.verbose ) o.log.push_back( "    FAIL " + sig + ": " + detail ); }
    return false;
}

std::uint32_t widening( std::uint32_t t_us ) { return std::uint32_t( std::uint64_t( t_us ) * g_ref.ppm / 1000000u ); }

const char* phase_name() { return !g_ref.established ? "connecting" : g_ref.windowed ? "after-update" : "connected"; }

// the event the link layer just scheduled against the reference clock
bool check_schedule( Outcome& o )
{
    const auto& log = g_ll->log;
    const std::uint32_t s = g_ref.start_us, e = g_ref.start_us + g_ref.size_us;
    const std::uint32_t ws = widening( s ), we = widening( e );
    if ( o.verbose )
        o.log.push_back( mc::fmt( "      scheduled event %u: window [%u,%u] us interval %u us; reference: nominal [%u,%u] us, widening >= %u / %u us (%u ppm)",
            unsigned( g_ll->connection_event_counter() ), log.ce_start_us, log.ce_end_us, log.ce_interval_us, s, e, ws, we, g_ref.ppm ) );

    if ( log.ce_interval_us != g_ref.interval_us )
        return fail( o, mc::fmt( "schedule:wrong-interval:%s", phase_name() ), mc::fmt( "interval %u us given to schedule_connection_event, connection interval is %u us", log.ce_interval_us, g_ref.interval_us ) );
    if ( log.ce_start_us > log.ce_end_us )
        return fail( o, mc::fmt( "schedule:window-inverted:%s", phase_name() ), mc::fmt( "start_receive %u us > end_receive %u us", log.ce_start_us, log.ce_end_us ) );
    // nominal position: the window has to contain the nominal anchor ( and transmit window ) at all
    if ( log.ce_start_us > s || log.ce_end_us < e )
        return fail( o, mc::fmt( "schedule:not-at-anchor-plus-k-intervals:%s", phase_name() ),
            mc::fmt( "window [%u,%u] us does not contain the nominal %s [%u,%u] us ( last anchor + whole intervals%s )", log.ce_start_us, log.ce_end_us,
                g_ref.size_us ? "transmit window" : "anchor", s, e, g_ref.size_us ? " + transmit window offset" : "" ) );
    if ( log.ce_start_us + ws > s + tolerance_us || log.ce_end_us + tolerance_us < e + we )
        return fail( o, mc::fmt( "schedule:window-widening-too-small:%s", phase_name() ),
            mc::fmt( "window [%u,%u] us, nominal [%u,%u] us, %u ppm over the elapsed time need -%u / +%u us", log.ce_start_us, log.ce_end_us, s, e, g_ref.ppm, ws, we ) );
    return true;
}

bool connect( const Conn& c, Outcome& o, bool& accepted )
{
    g_value = 0x42;
    std::memset( &g_obs, 0, sizeof g_obs );
    std::memset( &g_ref, 0, sizeof g_ref );
    g_ll.construct();
    auto& ll = g_ll.get();
    ll.run();
    if ( ll.log.adv_count != 1 ) return fail( o, "harness:not-advertising", "no advertising scheduled by run()" );

    llw::connect_ind ci;
    ci.win_size = std::uint8_t( c.win_size ); ci.win_offset = std::uint16_t( c.win_offset ); ci.interval = std::uint16_t( c.interval );
    ci.latency = std::uint16_t( c.latency ); ci.timeout = std::uint16_t( c.timeout ); ci.sca = std::uint8_t( c.sca ); ci.hop = 10;
    std::uint8_t pdu[ 40 ];
    const std::size_t n = ci.build( pdu, ll.log.adv_data );
    ll.sim_adv_received( pdu, n );
    accepted = ll.log.ce_count != 0;
    ++g_stats.connects;
    if ( o.verbose )
        o.log.push_back( mc::fmt( "  CONNECT_IND winSize %u winOffset %u interval %u latency %u timeout %u sca %u (%u ppm) + local %u ppm -> %s", c.win_size, c.win_offset, c.interval,
            c.latency, c.timeout, c.sca, sca_ppm[ c.sca ], unsigned( C22_PPM ), accepted ? "connection entered" : "ignored" ) );
    if ( !accepted )
    {
        if ( g_obs.requested != 0 ) return fail( o, "harness:requested-callback-without-connection", "" );
        return true;
    }
    if ( ll.log.ce_count != 1 ) return fail( o, "connect:more-than-one-event-scheduled", mc::fmt( "%u calls of schedule_connection_event", ll.log.ce_count ) );

    g_ref.interval_us = c.interval * unit_us; g_ref.timeout_us = c.timeout * 10000u; g_ref.latency = std::uint16_t( c.latency );
    g_ref.ppm = sca_ppm[ c.sca ] + C22_PPM;
    g_ref.windowed = 1;
    g_ref.start_us = unit_us + c.win_offset * unit_us;      // transmitWindowDelay 1.25 ms + transmitWindowOffset
    g_ref.size_us  = c.win_size * unit_us;
    return true;
}

// one connection event.  Returns false if an oracle failed or the link is gone.
bool step( bool received, Outcome& o, bool* link_gone = nullptr )
{
    auto& ll = g_ll.get();
    const unsigned p = ll.connection_event_counter();
    const auto ce_before = ll.log.ce_count, adv_before = ll.log.adv_count;
    const auto closed_before = g_obs.closed, attempt_before = g_obs.attempt_timeout, changed_before = g_obs.changed;
    ++g_stats.steps;

    bool upd_delivered = false;
    if ( received )
    {
        if ( g_ref.upd_state == 1 )
        {
            const Update& u = g_ref.upd;
            g_ref.upd_instant = std::uint16_t( p + u.delta );
            const std::uint8_t pdu[] = { 0x00, std::uint8_t( u.win_size ), std::uint8_t( u.win_offset ), std::uint8_t( u.win_offset >> 8 ), std::uint8_t( u.interval ), std::uint8_t( u.interval >> 8 ),
                std::uint8_t( u.latency ), std::uint8_t( u.latency >> 8 ), std::uint8_t( u.timeout ), std::uint8_t( u.timeout >> 8 ), std::uint8_t( g_ref.upd_instant ), std::uint8_t( g_ref.upd_instant >> 8 ) };
            if ( ll.sim_ll_control( pdu, sizeof pdu ) != 1 ) return fail( o, "harness:update-not-acknowledged", "" );
            upd_delivered = true;
            g_ref.upd_state = 2;
        }
        else
            ll.sim_empty_event();
    }
    else
        ll.sim_timeout();

    const bool closed = g_obs.closed != closed_before, attempt = g_obs.attempt_timeout != attempt_before;
    const bool gone   = closed || attempt || ll.log.adv_count != adv_before;
    const unsigned n  = ll.connection_event_counter();
    if ( link_gone ) *link_gone = gone;

    if ( o.verbose )
        o.log.push_back( mc::fmt( "  event %u (%s, nominal start %u us) %s%s => %s", p, phase_name(), g_ref.start_us, received ? "received" : "missed",
            upd_delivered ? mc::fmt( " LL_CONNECTION_UPDATE_IND winSize %u winOffset %u interval %u latency %u timeout %u instant %u", g_ref.upd.win_size, g_ref.upd.win_offset, g_ref.upd.interval,
                g_ref.upd.latency, g_ref.upd.timeout, unsigned( g_ref.upd_instant ) ).c_str() : "",
            gone ? ( closed ? mc::fmt( "link closed, reason 0x%02x", g_obs.reason ).c_str() : attempt ? "connection attempt given up" : "advertising again" )
                 : mc::fmt( "next event %u", n ).c_str() ) );

    // ---- supervision
    if ( received )
    {
        if ( gone ) return fail( o, mc::fmt( "supervision:link-dropped-after-valid-packet:%s", phase_name() ), mc::fmt( "event %u was received, yet the link is gone (reason 0x%02x)", p, g_obs.reason ) );
    }
    else if ( !g_ref.established )
    {
        // 6 connection events without a packet ( Vol 6 Part B 4.5.2 ); tests/link_layer/ll_connecting_tests.cpp pins "6 attempts"
        const unsigned missed = g_ref.index + 1u;
        if ( gone && missed < 6 )
            return fail( o, g_ref.start_us >= g_ref.timeout_us ? "supervision:closed-early:connecting-after-supervision-timeout" : "supervision:closed-early:connecting",
                mc::fmt( "connection attempt given up after %u missed events, %u us after the CONNECT_IND; while connecting 6 events ( 6 x connInterval = %u us ) have to pass, "
                         "connSupervisionTimeout ( %u us ) only counts once the connection is established", missed, g_ref.start_us, 6 * g_ref.interval_us, g_ref.timeout_us ) );
        if ( !gone && missed > 6 )
            return fail( o, "supervision:not-closed-after-timeout:connecting", mc::fmt( "still connecting after %u missed events", missed ) );
        if ( gone )
        {
            if ( closed || !attempt ) return fail( o, "supervision:wrong-callback:connecting", "a connection that was never established has to be reported through ll_connection_attempt_timeout only" );
            cls( "supervision/connecting/given-up-after-6" );
            return false;
        }
    }
    else
    {
        const std::uint32_t t = g_ref.start_us;     // the missed event was ( at least ) this long after the last valid packet
        if ( gone && t < g_ref.timeout_us )
            return fail( o, mc::fmt( "supervision:closed-early:%s", phase_name() ),
                mc::fmt( "link dropped after missing the event %u us after the last valid packet, supervision timeout is %u us", t, g_ref.timeout_us ) );
        if ( !gone && ( g_ref.windowed ? t > g_ref.timeout_us + g_ref.slack_us : t >= g_ref.timeout_us ) )
            return fail( o, mc::fmt( "supervision:not-closed-after-timeout:%s", phase_name() ),
                mc::fmt( "event %u us after the last valid packet missed, supervision timeout is %u us, link still open", t, g_ref.timeout_us ) );
        if ( gone )
        {
            if ( !closed || g_obs.reason != 0x08 ) return fail( o, mc::fmt( "supervision:wrong-reason:%s", phase_name() ), mc::fmt( "closed callbacks %u, reason 0x%02x instead of 0x08", g_obs.closed - closed_before, g_obs.reason ) );
            cls( mc::fmt( "supervision/%s/closed-after-timeout", phase_name() ) );
            return false;
        }
    }

    // ---- exactly one next event, counter advance
    if ( ll.log.ce_count != ce_before + 1 )
        return fail( o, mc::fmt( "schedule:not-exactly-one-next-event:%s", phase_name() ), mc::fmt( "%u calls of schedule_connection_event", ll.log.ce_count - ce_before ) );
    const unsigned jump = std::uint16_t( n - p );
    if ( !received && jump != 1 )
        return fail( o, "schedule:counter-advance-after-miss", mc::fmt( "event counter %u -> %u after a missed event", p, n ) );
    if ( received && ( jump < 1 || jump > g_ref.latency + 1u ) )
        return fail( o, "schedule:counter-advance-exceeds-latency", mc::fmt( "event counter %u -> %u, peripheral latency %u", p, n, unsigned( g_ref.latency ) ) );

    // ---- reference clock
    std::uint32_t since_anchor;     // nominal time of event n in old-interval terms
    if ( received )
    {
        g_ref.established = 1;
        g_ref.windowed = 0; g_ref.size_us = 0; g_ref.slack_us = 0;
        since_anchor = jump * g_ref.interval_us;
        if ( jump > 1 ) cls( "latency/events-skipped" );
    }
    else
    {
        since_anchor = g_ref.start_us + g_ref.interval_us;
        ++g_ref.index;
    }
    g_ref.start_us = since_anchor;

    if ( g_ref.upd_state == 2 )
    {
        const unsigned dist = std::uint16_t( g_ref.upd_instant - n );
        if ( dist >= 0x8000 )
            return fail( o, "update:instant-skipped", mc::fmt( "event %u scheduled, instant %u was not listened to", n, unsigned( g_ref.upd_instant ) ) );
        if ( dist == 0 )
        {
            const Update& u = g_ref.upd;
            g_ref.upd_state   = 3;
            g_ref.windowed    = 1;
            g_ref.start_us    = since_anchor + u.win_offset * unit_us;
            g_ref.size_us     = u.win_size * unit_us;
            g_ref.slack_us    = ( u.win_offset + u.win_size ) * unit_us;
            g_ref.interval_us = u.interval * unit_us;
            g_ref.timeout_us  = u.timeout * 10000u;
            g_ref.latency     = std::uint16_t( u.latency );
            if ( g_obs.changed != changed_before + 1 || g_obs.ch_interval != u.interval || g_obs.ch_latency != u.latency || g_obs.ch_timeout != u.timeout )
                return fail( o, "update:not-applied-at-instant", mc::fmt( "connection_changed callbacks %u ( interval %u latency %u timeout %u )", g_obs.changed - changed_before, g_obs.ch_interval, g_obs.ch_latency, g_obs.ch_timeout ) );
            cls( received ? "update/instant-reached-by-received-event" : "update/instant-reached-by-missed-event" );
        }
    }
    if ( g_obs.changed != changed_before && g_ref.upd_state != 3 )
        return fail( o, "update:connection-changed-without-update", "" );

    return check_schedule( o );
}

// miss events until the link layer drops the link; every step is checked by step()
bool drain( Outcome& o )
{
    ++g_stats.drains;
    // step() itself fails as soon as an event later than the supervision timeout is missed without the link being dropped
    const std::uint64_t bound = 40000;
    const std::size_t log_begin = o.log.size();
    for ( std::uint64_t i = 0; i != bound; ++i )
    {
        bool gone = false;
        if ( !step( false, o, &gone ) )
        {
            // replay output: keep the first and the last events of the drain
            if ( o.log.size() > log_begin + 16 )
            {
                o.log.erase( o.log.begin() + log_begin + 6, o.log.end() - 8 );
                o.log.insert( o.log.begin() + log_begin + 6, mc::fmt( "  ... ( %llu missed events in a row in total ) ...", (unsigned long long)( i + 1 ) ) );
            }
            return gone && o.sig.empty();
        }
    }
    return fail( o, mc::fmt( "supervision:not-closed-after-timeout:%s", phase_name() ), mc::fmt( "link still open after %llu missed events in a row", (unsigned long long)bound ) );
}

std::uint64_t drain_cost() { return g_ref.established ? g_ref.timeout_us / ( g_ref.interval_us ? g_ref.interval_us : 1 ) + 4 : 10; }

std::string conn_line( const Conn& c, const Update& u, const std::string& events, bool with_drain )
{
    std::string s = mc::fmt( "conn interval=%u latency=%u timeout=%u winsize=%u winoffset=%u sca=%u", c.interval, c.latency, c.timeout, c.win_size, c.win_offset, c.sca );
    s += mc::fmt( " upd=%u delta=%u uinterval=%u ulatency=%u utimeout=%u uwinsize=%u uwinoffset=%u", u.used, u.delta, u.interval, u.latency, u.timeout, u.win_size, u.win_offset );
    s += " events=" + ( events.empty() ? std::string( "-" ) : events ) + mc::fmt( " drain=%d", with_drain ? 1 : 0 );
    return s;
}

bool parse_line( const std::string& s, Conn& c, Update& u, std::string& events, int& with_drain )
{
    char ev[ 64 ] = "";
    if ( std::sscanf( s.c_str(), "conn interval=%u latency=%u timeout=%u winsize=%u winoffset=%u sca=%u upd=%u delta=%u uinterval=%u ulatency=%u utimeout=%u uwinsize=%u uwinoffset=%u events=%60s drain=%d",
            &c.interval, &c.latency, &c.timeout, &c.win_size, &c.win_offset, &c.sca, &u.used, &u.delta, &u.interval, &u.latency, &u.timeout, &u.win_size, &u.win_offset, ev, &with_drain ) != 15 )
        return false;
    events = ev; if ( events == "-" ) events.clear();
    return c.sca < 8 && c.win_size < 256;
}

// runs one complete case from a newly constructed link layer ( replay and determinism check )
void run_from_scratch( const Conn& c, const Update& u, const std::string& events, bool with_drain, Outcome& o )
{
    bool accepted = false;
    if ( !connect( c, o, accepted ) ) return;
    const char* const why = invalid_reason( c );
    if ( accepted && why )
    {
        fail( o, mc::fmt( "connect-accepted-invalid:%s", why ), mc::fmt( "connection entered although the CONNECT_IND violates: %s; first event scheduled with window [%u,%u] us, interval %u us",
            why, g_ll->log.ce_start_us, g_ll->log.ce_end_us, g_ll->log.ce_interval_us ) );
        return;
    }
    if ( !accepted ) return;
    if ( !check_schedule( o ) ) return;
    // part C: the update is handed to the central after the first event
    for ( std::size_t i = 0; i != events.size(); ++i )
    {
        if ( i == 1 && u.used ) { g_ref.upd = u; g_ref.upd_state = 1; }
        if ( !step( events[ i ] == 'R', o ) ) return;
    }
    if ( events.size() == 1 && u.used ) { g_ref.upd = u; g_ref.upd_state = 1; }
    if ( with_drain ) drain( o );
}

struct Explorer
{
    mc::Report&   rep;
    const mc::Args& args;
    Conn          conn;
    Update        upd;
    int           depth_max;
    std::uint64_t drain_budget;     // drain at every node if it costs at most this many events, else only near the root and at the all-received leaf
    bool          cut = false;

    void report( const std::string& events, bool with_drain, Outcome& o )
    {
        if ( o.sig.empty() ) return;
        const std::string line = conn_line( conn, upd, events, with_drain );
        if ( !rep.violations.count( o.sig ) )
        {
            Snapshot keep; save( keep );
            for ( int r = 0; r != 2; ++r )
            {
                Outcome again; run_from_scratch( conn, upd, events, with_drain, again );
                if ( again.sig != o.sig || again.detail != o.detail )
                {
                    fprintf( stderr, "NONDETERMINISM: %s / %s not reproduced from scratch (%s / %s)\n   %s\n", o.sig.c_str(), o.detail.c_str(), again.sig.c_str(), again.detail.c_str(), line.c_str() );
                    exit( 2 );
                }
                ++rep.traces_validated;
            }
            load( keep );
        }
        rep.fail( o.sig, line + " :: " + o.detail, { line } );
    }

    void maybe_drain( const std::string& events, bool all_received )
    {
        const std::uint64_t cost = drain_cost();
        if ( !( cost <= drain_budget || events.size() <= 1 || ( all_received && int( events.size() ) == depth_max ) ) ) return;
        Snapshot here; save( here );
        Outcome o;
        drain( o );
        report( events, true, o );
        load( here );
    }

    void explore( std::string& events, bool all_received )
    {
        maybe_drain( events, all_received );
        if ( int( events.size() ) == depth_max ) { ++g_stats.patterns; ++rep.evaluations; return; }
        if ( ( g_stats.steps & 0xfff ) == 0 && args.expired() ) { cut = true; return; }
        Snapshot here; save( here );
        for ( int ev = 0; ev != 2 && !cut; ++ev )
        {
            if ( ev ) load( here );
            const bool received = ev == 0;
            Outcome o;
            bool gone = false;
            events.push_back( received ? 'R' : 'M' );
            const bool ok = step( received, o, &gone );
            if ( ok ) explore( events, all_received && received );
            else { report( events, false, o ); ++g_stats.patterns; ++rep.evaluations; }   // link gone or oracle failed: the pattern ends here
            events.pop_back();
        }
    }
};

} // namespace

int main( int argc, char** argv )
{
    mc::Args a = mc::parse_args( argc, argv );
    mc::Report rep; rep.property = "C22";
    rep.unit = a.opt.count( "unit" ) ? a.opt[ "unit" ] : "C22_timing";

    if ( !a.replay.empty() )
    {
        const mc::ReplayFile rf = mc::read_replay( a.replay );
        Conn c; Update u; std::string events; int with_drain = 0;
        if ( rf.steps.empty() || !parse_line( rf.steps[ 0 ], c, u, events, with_drain ) ) { printf( "cannot parse replay file\n" ); return 2; }
        Outcome o; o.verbose = true;
        printf( "replaying on unit %s (local sleep clock accuracy %u ppm): %s\n", rep.unit.c_str(), unsigned( C22_PPM ), rf.steps[ 0 ].c_str() );
        run_from_scratch( c, u, events, with_drain != 0, o );
        for ( auto& l : o.log ) printf( "%s\n", l.c_str() );
        if ( o.sig == rf.sig ) { printf( "REPRODUCED %s: %s\n", o.sig.c_str(), o.detail.c_str() ); return 1; }
        printf( "not reproduced (outcome: %s)\n", o.sig.empty() ? "no violation" : o.sig.c_str() );
        return 0;
    }

    const bool th = a.thorough();
    const int  depth = th ? 10 : 7;
    bool cut = false;

    // ---- part A + B
    std::vector< unsigned > intervals = { 0, 5, 6, 7, 80, 3200, 3201 }, latencies = { 0, 1, 499, 500 }, timeouts = { 9, 10, 72, 3200, 3201 }, win_sizes = { 0, 1, 8, 9 };
    if ( th ) { intervals = { 0, 1, 5, 6, 7, 8, 9, 40, 80, 800, 3199, 3200, 3201, 65535 }; latencies = { 0, 1, 2, 7, 498, 499, 500, 65535 }; timeouts = { 0, 9, 10, 11, 72, 400, 3199, 3200, 3201, 65535 }; win_sizes = { 0, 1, 2, 7, 8, 9, 255 }; }

    for ( unsigned interval : intervals )
    for ( unsigned latency : latencies )
    {
        // boundary of "timeout larger than ( 1 + latency ) * interval * 2" added to the alphabet where it is a whole number of 10 ms
        std::vector< unsigned > tos = timeouts;
        const unsigned long long prod = ( 1ull + latency ) * interval;
        if ( prod % 4 == 0 && prod / 4 >= 1 && prod / 4 <= 3300 ) { tos.push_back( unsigned( prod / 4 ) ); tos.push_back( unsigned( prod / 4 + 1 ) ); if ( prod / 4 > 1 ) tos.push_back( unsigned( prod / 4 - 1 ) ); }
        std::sort( tos.begin(), tos.end() ); tos.erase( std::unique( tos.begin(), tos.end() ), tos.end() );
        std::vector< unsigned > wss = win_sizes;
        if ( interval >= 1 && interval <= 255 ) { wss.push_back( interval ); wss.push_back( interval - 1 ); }
        std::sort( wss.begin(), wss.end() ); wss.erase( std::unique( wss.begin(), wss.end() ), wss.end() );
        std::vector< unsigned > offs = { 0, 1, interval, interval + 1 };
        std::sort( offs.begin(), offs.end() ); offs.erase( std::unique( offs.begin(), offs.end() ), offs.end() );

        for ( unsigned timeout : tos )
        for ( unsigned win_size : wss )
        for ( unsigned win_offset : offs )
        for ( unsigned sca = 0; sca != 8 && !cut; ++sca )
        {
            if ( win_offset > 65535 ) continue;
            const Conn c{ interval, latency, timeout, win_size, win_offset, sca };
            Explorer ex{ rep, a, c, Update{}, depth, 40 };
            Outcome o; bool accepted = false;
            ++rep.evaluations;
            if ( !connect( c, o, accepted ) ) { ex.report( "", false, o ); continue; }
            const char* const why = invalid_reason( c );
            cls( mc::fmt( "connect/%s/%s", accepted ? "entered" : "ignored", why ? why : "valid" ) );
            if ( ( rep.evaluations % 997 ) == 5 )
                rep.sample( mc::fmt( "CONNECT_IND interval=%u latency=%u timeout=%u winSize=%u winOffset=%u sca=%u -> %s (%s)%s", c.interval, c.latency, c.timeout,
                    c.win_size, c.win_offset, c.sca, accepted ? "entered" : "ignored", why ? why : "valid",
                    accepted ? mc::fmt( "; first window [%u,%u] us, then all received/missed patterns over %d events", g_ll->log.ce_start_us, g_ll->log.ce_end_us, depth ).c_str() : "" ), 8 );
            if ( accepted && why )
            {
                fail( o, mc::fmt( "connect-accepted-invalid:%s", why ), mc::fmt( "connection entered although the CONNECT_IND violates: %s; first event scheduled with window [%u,%u] us, interval %u us",
                    why, g_ll->log.ce_start_us, g_ll->log.ce_end_us, g_ll->log.ce_interval_us ) );
                ex.report( "", false, o );
                continue;
            }
            if ( !accepted ) continue;
            if ( !check_schedule( o ) ) { ex.report( "", false, o ); continue; }
            std::string events;
            ex.explore( events, true );
            cut = cut || ex.cut;
        }
    }

    // ---- part C: connection update in flight
    {
        std::vector< unsigned > base_i = { 6, 80 }, base_l = { 0, 1 }, base_s = { 0, 7 }, new_i = { 6, 80, 3200 }, new_l = { 0, 1 }, deltas = { 2, 3 };
        if ( th ) { base_i = { 6, 7, 80 }; base_l = { 0, 1, 3 }; base_s = { 0, 3, 7 }; new_i = { 6, 7, 80, 3200 }; new_l = { 0, 1, 3 }; deltas = { 2, 3, 6 }; }
        for ( unsigned bi : base_i ) for ( unsigned bl : base_l ) for ( unsigned sca : base_s )
        for ( unsigned ni : new_i ) for ( unsigned nl : new_l ) for ( unsigned delta : deltas )
        for ( unsigned ws : { 1u, ni - 1 < 8 ? ni - 1 : 8u } ) for ( unsigned wo : { 0u, 1u, ni } )
        {
            if ( cut ) break;
            const unsigned bto = ( 1 + bl ) * bi < 72 * 4 ? 72 : 3200;
            const unsigned nto = ( 1 + nl ) * ni < 72 * 4 ? 72 : 3200;
            if ( nto * 4 <= ( 1 + nl ) * ni ) continue;     // no valid supervision timeout for this interval / latency
            const Conn c{ bi, bl, bto, 1, 0, sca };
            const Update u{ 1, delta, ni, nl, nto, ws, wo };
            Explorer ex{ rep, a, c, u, depth, 40 };
            Outcome o; bool accepted = false;
            ++rep.evaluations;
            if ( !connect( c, o, accepted ) || !accepted || !check_schedule( o ) ) { if ( o.sig.empty() ) o.sig = "harness:base-connection-refused"; ex.report( "", false, o ); continue; }
            bool gone = false;
            std::string events = "R";
            if ( !step( true, o, &gone ) ) { ex.report( events, false, o ); continue; }
            g_ref.upd = u; g_ref.upd_state = 1;
            ex.explore( events, true );
            cut = cut || ex.cut;
        }
    }

    rep.states = g_stats.patterns; rep.transitions = g_stats.steps;
    rep.traces_validated += g_stats.patterns + g_stats.drains;
    for ( auto& kv : g_stats.cls ) { rep.cls( kv.first ); rep.counters[ "class " + kv.first ] = kv.second; }
    rep.counters[ "connect requests" ] = g_stats.connects;
    rep.counters[ "patterns" ] = g_stats.patterns;
    rep.counters[ "drains" ] = g_stats.drains;
    if ( cut ) { rep.exhaustive = false; rep.notes[ "cut" ] = "deadline hit, product not completed"; }
    rep.notes[ "bound" ] = mc::fmt( "CONNECT_IND: %zu intervals x %zu latencies x (%zu timeouts + boundary values) x (%zu winSizes + interval-1, interval) x 4 winOffsets x 8 SCA; local %u ppm; "
        "all received/missed patterns over %d events from every accepted connection, drains to supervision timeout; connection update scenarios", intervals.size(), latencies.size(), timeouts.size(),
        win_sizes.size(), unsigned( C22_PPM ), depth );
    rep.write( a );
    return 0;
}
