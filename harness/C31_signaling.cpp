// C31 (b) - L2CAP signaling channel: explicit-state BFS (mc::Bfs) over the real bluetoe::l2cap::signaling_channel<>.
//
// VIA_L2CAP 0 : the channel object alone, driven through l2cap_input / l2cap_output / connection_parameter_update_request
// VIA_L2CAP 1 : the same channel inside the real bluetoe::details::l2cap<> (CID 5, between two silent recording channels
//               on CID 4 and 6); PDUs go in through handle_l2cap_input and come out through transmit_pending_l2cap_output
//
// Reference model: request status {idle, queued, transmitted}, parameter set of the accepted request, identifier of the
// outstanding request, identifier of the request completed last.
#define C31_ASAN_REPORT_EVERY_ERROR      // mc::Bfs replays failing traces in-process: every ASan error has to be reported
#include "C31_common.hpp"

#ifndef VIA_L2CAP
#define VIA_L2CAP 0
#endif

namespace {

using namespace c31;
using bytes = std::vector< std::uint8_t >;

using channel_t = bluetoe::l2cap::signaling_channel<>;

#if VIA_L2CAP
struct sig_ll : bluetoe::details::l2cap< sig_ll, base_channel_data,
                    spy< rec_channel< 4, 23, 23, 0 >, 0 >, spy< channel_t, 1 >, spy< rec_channel< 6, 23, 23, 2 >, 2 > >,
                fake_buffers
{
};
using dut_t = sig_ll;
static const char* mode_name = "via-l2cap";
#else
using dut_t = channel_t;
static const char* mode_name = "direct";
#endif

static const std::uint16_t params[ 2 ][ 4 ] = { { 0x0020, 0x0100, 0x0055, 0x0C80 }, { 0x0006, 0x0007, 0x0000, 0x000A } };

enum { st_idle = 0, st_queued = 1, st_transmitted = 2 };

struct Ev { int kind, a, b; };
enum { ev_queue, ev_poll, ev_response, ev_response_code_only, ev_command, ev_empty, ev_command_code_only };
enum { id_cur, id_other, id_zero };
enum { f_ok_accepted, f_ok_rejected, f_short4, f_short2 };

struct World
{
    mc::Placed< dut_t > dut;
    base_channel_data   cd;

    struct Ref
    {
        std::uint8_t status;        // st_*
        std::uint8_t param;         // parameter set of the accepted request (valid while status != idle)
        std::uint8_t out_id;        // identifier of the request that was emitted last (0 = none so far)
        std::uint8_t done_id;       // identifier of the request that was completed last (0 = none so far)
    } ref;

    std::vector< Ev > evs;
    // a failure inside the port (framing, memory) is stored here and picked up by the caller
    std::string port_fail_sig, port_fail_detail;

    World()
    {
        evs.push_back( Ev{ ev_queue, 0, 0 } );
        evs.push_back( Ev{ ev_poll, 0, 0 } );
        for ( int id : { id_cur, id_other, id_zero } )
            for ( int f : { f_ok_accepted, f_ok_rejected, f_short4, f_short2 } )
                evs.push_back( Ev{ ev_response, id, f } );
        evs.push_back( Ev{ ev_response_code_only, 0, 0 } );
        evs.push_back( Ev{ ev_queue, 1, 0 } );
        for ( int code : { 0x12, 0x14, 0xFF, 0x01, 0x00 } )
            for ( int id : { 1, 7, 0 } )
                evs.push_back( Ev{ ev_command, code, id } );
        evs.push_back( Ev{ ev_empty, 0, 0 } );
        evs.push_back( Ev{ ev_command_code_only, 0x12, 0 } );
        n_quick = int( evs.size() );
        // thorough: every command code with a 4-byte body
        for ( int code = 0; code != 256; ++code )
            for ( int id : { 1, 0xFF, 0 } )
                evs.push_back( Ev{ ev_command, code | 0x100, id } );
    }
    int  n_quick = 0;
    bool thorough = false;

    // Every ASan report costs ~10 ms (the run time maps and unmaps its report buffers).  An input event that has produced a
    // memory error in `mem_fail_limit` states is not tried in further states: the defect is recorded (with its shortest
    // trace, replayed twice long before the limit is reached), more reports add nothing.  Paths never continue behind a
    // failed step, so no recorded trace contains such an event except as its last step.
    static constexpr int mem_fail_limit = 32;
    std::vector< int > mem_fails;
    int  events_switched_off = 0;

    void init()
    {
        dut.construct();
        memset( &ref, 0, sizeof ref );
        env().reset( 0 );
    }

    void regions( mc::Regions& r ) { r.add( dut.raw, sizeof dut.raw ); r.add( ref ); }
    int num_events() const { return thorough ? int( evs.size() ) : n_quick; }

    std::uint8_t cur_id() const { return ref.out_id ? ref.out_id : 1; }
    std::uint8_t other_id() const { return cur_id() == 0x77 ? 0x78 : 0x77; }

    bytes pdu_of( const Ev& e ) const
    {
        switch ( e.kind )
        {
        case ev_response:
        {
            const std::uint8_t id = e.a == id_cur ? cur_id() : e.a == id_other ? other_id() : 0;
            switch ( e.b )
            {
            case f_ok_accepted: return bytes{ 0x13, id, 0x02, 0x00, 0x00, 0x00 };
            case f_ok_rejected: return bytes{ 0x13, id, 0x02, 0x00, 0x01, 0x00 };
            case f_short4:      return bytes{ 0x13, id, 0x00, 0x00 };
            default:            return bytes{ 0x13, id };
            }
        }
        case ev_response_code_only: return bytes{ 0x13 };
        case ev_command:
        {
            const std::uint8_t id = std::uint8_t( e.b );
            switch ( e.a )      // codes | 0x100: bare 4-byte command
            {
            case 0x01: return bytes{ 0x01, id, 0x02, 0x00, 0x00, 0x00 };
            case 0x12: return bytes{ 0x12, id, 0x08, 0x00, 0x10, 0x00, 0x20, 0x00, 0x00, 0x00, 0x00, 0x01 };
            case 0x14: return bytes{ 0x14, id, 0x0A, 0x00, 0x80, 0x00, 0x40, 0x00, 0x17, 0x00, 0x17, 0x00, 0x01, 0x00 };
            default:   return bytes{ std::uint8_t( e.a ), id, 0x00, 0x00 };
            }
        }
        case ev_command_code_only: return bytes{ std::uint8_t( e.a ) };
        default: return bytes{};
        }
    }

    std::string describe( int i ) const
    {
        const Ev& e = evs[ i ];
        static const char* ids[] = { "id-of-outstanding-request", "foreign-id-0x77", "id-0" };
        static const char* forms[] = { "accepted", "rejected", "truncated-to-4-bytes", "truncated-to-2-bytes" };
        switch ( e.kind )
        {
        case ev_queue: return mc::fmt( "connection_parameter_update_request(set %c)", 'A' + e.a );
        case ev_poll:  return "l2cap_output";
        case ev_response: return mc::fmt( "input ConnParamUpdateResponse(0x13) %s %s", ids[ e.a ], forms[ e.b ] );
        case ev_response_code_only: return "input 0x13 (code only, 1 byte)";
        case ev_command: return mc::fmt( "input command 0x%02x id %d%s", e.a & 0xff, e.b, e.a & 0x100 ? " (4 bytes)" : "" );
        case ev_empty: return "input empty PDU";
        default: return mc::fmt( "input 0x%02x (code only, 1 byte)", e.a );
        }
    }

    // ---- port: how the harness talks to the channel ---------------------------------------------------------------
    void port_fail( const std::string& s, const std::string& d ) { if ( port_fail_sig.empty() ) { port_fail_sig = s; port_fail_detail = d; } }

    channel_t& channel() { return static_cast< channel_t& >( dut.get() ); }

    bool queue( int p ) { return channel().connection_parameter_update_request( params[ p ][ 0 ], params[ p ][ 1 ], params[ p ][ 2 ], params[ p ][ 3 ] ); }

    // would a new request be accepted now?  (observation through the public API on a copy of the object)
    bool probe_idle()
    {
        unsigned char keep[ sizeof dut.raw ];
        memcpy( keep, dut.raw, sizeof keep );
        const bool r = queue( 0 );
        memcpy( dut.raw, keep, sizeof keep );
        return r;
    }

#if VIA_L2CAP
    void collect( std::vector< bytes >& out, int first_commit, const char* what )
    {
        environment& e = env();
        for ( int i = first_commit; i < e.n_commit; ++i )
        {
            const commit_entry& c = e.commit[ i ];
            if ( !c.ptr_ok || !c.fits || c.size < l2cap_hdr ) { port_fail( std::string( "signaling:l2cap-frame-outside-buffer:" ) + what, mc::fmt( "commit of %zu bytes, buffer %zu", c.size, c.block ) ); continue; }
            const unsigned len = c.bytes[ 0 ] | c.bytes[ 1 ] << 8, cid = c.bytes[ 2 ] | c.bytes[ 3 ] << 8;
            if ( cid != 5 ) port_fail( std::string( "signaling:l2cap-wrong-cid:" ) + what, mc::fmt( "signaling PDU framed with CID 0x%04x", cid ) );
            if ( len + l2cap_hdr != c.size ) port_fail( std::string( "signaling:l2cap-wrong-length-field:" ) + what, mc::fmt( "length field %u, frame size %zu", len, c.size ) );
            out.emplace_back( c.bytes + l2cap_hdr, c.bytes + std::min( c.size, max_copy ) );
        }
    }
#endif

    std::vector< bytes > poll()
    {
        std::vector< bytes > out;
#if VIA_L2CAP
        env().reset( 4 );
        const std::string g = guarded( [&]{ dut->transmit_pending_l2cap_output( cd ); } );
        if ( !g.empty() ) port_fail( "memory:" + g + ":signaling-output", "transmit_pending_l2cap_output: " + g );
        if ( env().log_overflow || env().buffers_available == 0 ) port_fail( "signaling:output-never-ends", "transmit_pending_l2cap_output used up every buffer the link layer had" );
        collect( out, 0, "output" );
        env().reset( 0 );
#else
        static constexpr std::size_t cap = bluetoe::details::default_att_mtu_size;
        std::uint8_t* buf = new std::uint8_t[ cap ]; memset( buf, 0xEE, cap );
        std::size_t size = cap;
        const std::string g = guarded( [&]{ dut->l2cap_output( buf, size, cd ); } );
        if ( !g.empty() ) port_fail( "memory:" + g + ":signaling-output", "l2cap_output: " + g );
        else if ( size > cap ) port_fail( "signaling:output-larger-than-offered", mc::fmt( "out_size %zu of %zu", size, cap ) );
        else if ( size ) out.emplace_back( buf, buf + size );
        delete[] buf;
#endif
        return out;
    }

    std::vector< bytes > input( const bytes& pdu )
    {
        std::vector< bytes > out;
#if VIA_L2CAP
        env().reset( 4 );
        const std::size_t n = pdu.size() + l2cap_hdr;
        std::uint8_t* f = new std::uint8_t[ n ];
        f[ 0 ] = std::uint8_t( pdu.size() ); f[ 1 ] = 0; f[ 2 ] = 5; f[ 3 ] = 0;
        std::copy( pdu.begin(), pdu.end(), f + l2cap_hdr );
        env().frame = f; env().frame_size = n;
        bool ret = true;
        const std::string g = guarded( [&]{ ret = dut->handle_l2cap_input( f, n, cd ); } );
        if ( !g.empty() ) port_fail( "memory:" + g + ":signaling-input", "handle_l2cap_input: " + g );
        else if ( !ret ) port_fail( "signaling:l2cap-frame-not-consumed", "handle_l2cap_input returned false with free buffers" );
        else if ( env().n_calls != 1 || env().calls[ 0 ].chan != 1 ) port_fail( "signaling:l2cap-frame-not-delivered", mc::fmt( "%d channel calls", env().n_calls ) );
        collect( out, 0, "reply" );
        delete[] f;
        env().reset( 0 );
#else
        static constexpr std::size_t cap = bluetoe::details::default_att_mtu_size;
        std::uint8_t* in = new std::uint8_t[ pdu.size() ]; std::copy( pdu.begin(), pdu.end(), in );
        std::uint8_t* buf = new std::uint8_t[ cap ]; memset( buf, 0xEE, cap );
        std::size_t size = cap;
        const std::size_t n = pdu.size();
        const std::string g = guarded( [&]{ dut->l2cap_input( in, n, buf, size, cd ); } );
        if ( !g.empty() ) port_fail( "memory:" + g + ":signaling-input", "l2cap_input: " + g );
        else if ( size > cap ) port_fail( "signaling:reply-larger-than-offered", mc::fmt( "out_size %zu of %zu", size, cap ) );
        else if ( size ) out.emplace_back( buf, buf + size );
        delete[] buf; delete[] in;
#endif
        return out;
    }

    // ---- oracles ------------------------------------------------------------------------------------------------------
    static std::string show( const std::vector< bytes >& v )
    {
        if ( v.empty() ) return "nothing";
        std::string r;
        for ( auto& b : v ) r += ( r.empty() ? "" : " | " ) + mc::hex( b );
        return r;
    }

    bool take_port_failure( mc::Ctx& c )
    {
        if ( port_fail_sig.empty() ) return false;
        // what the channel did with bytes it read outside the frame depends on stale memory: the observation of such a
        // step is the failure itself, nothing else
        c.obs = "[" + port_fail_sig + "]";
        c.fail( port_fail_sig, port_fail_detail );
        port_fail_sig.clear(); port_fail_detail.clear();
        return true;
    }

    // reply to something that is not the matching response: either nothing or exactly one Command Reject
    // "command not understood" echoing the (non-zero) identifier; `must` = a reject is required
    void check_reject( mc::Ctx& c, const std::vector< bytes >& out, const bytes& pdu, bool must, const char* what )
    {
        const bool has_id = pdu.size() >= 2;
        const std::uint8_t id = has_id ? pdu[ 1 ] : 0;
        if ( out.size() > 1 ) return c.fail( "signaling:multiple-replies", mc::fmt( "%zu PDUs in reply to one command", out.size() ) );
        if ( out.empty() )
        {
            if ( must ) c.fail( std::string( "signaling:command-not-rejected:" ) + what, "command with non-zero identifier was not answered with Command Reject" );
            else c.cls( std::string( what ) + "->silence" );
            return;
        }
        const bytes& r = out[ 0 ];
        if ( r.size() >= 2 && r[ 1 ] == 0 ) return c.fail( "signaling:reply-with-identifier-zero", "reply carries the invalid identifier 0: " + mc::hex( r ) );
        if ( r.size() != 6 || r[ 0 ] != 0x01 || r[ 2 ] != 2 || r[ 3 ] != 0 || r[ 4 ] != 0 || r[ 5 ] != 0 )
            return c.fail( "signaling:reject-malformed", "expected 01 <id> 02 00 00 00 (Command Reject, command not understood), got " + mc::hex( r ) );
        if ( !has_id || r[ 1 ] != id )
            return c.fail( "signaling:reject-wrong-identifier", mc::fmt( "command carried identifier 0x%02x, Command Reject carries 0x%02x", id, r[ 1 ] ) );
        c.cls( std::string( what ) + "->reject" );
    }

    void check_request_pdu( mc::Ctx& c, const bytes& r )
    {
        if ( r.size() != 12 || r[ 0 ] != 0x12 || r[ 2 ] != 8 || r[ 3 ] != 0 )
            return c.fail( "signaling:request-malformed", "expected 12 <id> 08 00 + 8 bytes, got " + mc::hex( r ) );
        const std::uint16_t* p = params[ ref.param ];
        for ( int i = 0; i != 4; ++i )
            if ( ( r[ 4 + 2 * i ] | r[ 5 + 2 * i ] << 8 ) != p[ i ] )
                return c.fail( "signaling:request-wrong-parameters", mc::fmt( "accepted request used parameter set %c, emitted PDU %s", 'A' + ref.param, mc::hex( r ).c_str() ) );
        if ( r[ 1 ] == 0 ) return c.fail( "signaling:request-identifier-zero", "request emitted with the invalid identifier 0" );
        if ( ref.done_id && r[ 1 ] == ref.done_id )
            return c.fail( "signaling:request-identifier-not-advanced", mc::fmt( "identifier 0x%02x reused for the request that follows the completed one", r[ 1 ] ) );
    }

    bool apply( int i, mc::Ctx& c )
    {
        const Ev& e = evs[ i ];
        switch ( e.kind )
        {
        case ev_queue:
        {
            const bool r = queue( e.a );
            c.obs = mc::fmt( "->%d", int( r ) );
            if ( r && ref.status != st_idle ) c.fail( "signaling:queue-accepted-while-pending", "second request accepted while one is queued / waiting for its response" );
            else if ( !r && ref.status == st_idle ) c.fail( "signaling:queue-refused-while-idle", "request refused although nothing is pending" );
            else if ( r ) { ref.status = st_queued; ref.param = std::uint8_t( e.a ); c.cls( "queue-accepted" ); }
            else c.cls( ref.status == st_queued ? "queue-refused-queued" : "queue-refused-transmitted" );
            return true;
        }
        case ev_poll:
        {
            const std::vector< bytes > out = poll();
            c.obs = "-> " + show( out );
            if ( take_port_failure( c ) ) return true;
            if ( ref.status == st_queued )
            {
                if ( out.empty() ) c.fail( "signaling:queued-request-not-emitted", "a request is queued, l2cap_output produced nothing" );
                else if ( out.size() > 1 ) c.fail( "signaling:request-emitted-again", mc::fmt( "one queued request, %zu PDUs emitted by one output round", out.size() ) );
                else
                {
                    check_request_pdu( c, out[ 0 ] );
                    ref.status = st_transmitted; ref.out_id = out[ 0 ].size() > 1 ? out[ 0 ][ 1 ] : 0;
                    c.cls( "poll-emits-request" );
                }
            }
            else if ( !out.empty() )
                c.fail( ref.status == st_transmitted ? "signaling:request-emitted-again" : "signaling:output-while-idle", "unexpected output: " + show( out ) );
            else c.cls( ref.status == st_idle ? "poll-idle" : "poll-waiting" );
            return true;
        }
        default: break;
        }

        // all remaining events are input PDUs
        if ( mem_fails.size() < evs.size() ) mem_fails.resize( evs.size(), 0 );
        if ( mem_fails[ i ] >= mem_fail_limit ) return false;
        const bytes pdu = pdu_of( e );
        const std::vector< bytes > out = input( pdu );
        const bool idle_after = probe_idle();
        c.obs = "in " + ( pdu.empty() ? std::string( "<empty>" ) : mc::hex( pdu ) ) + " -> " + show( out ) + ( idle_after ? " [idle]" : " [pending]" );
        if ( take_port_failure( c ) )
        {
            if ( c.fails.back().sig.rfind( "memory:", 0 ) == 0 && ++mem_fails[ i ] == mem_fail_limit ) ++events_switched_off;
            return true;
        }

        const bool is_response = !pdu.empty() && pdu[ 0 ] == 0x13;
        const bool was_idle    = ref.status == st_idle;

        if ( is_response && ref.status == st_transmitted )
        {
            const bool has_id   = pdu.size() >= 2;
            const bool id_match = has_id && pdu[ 1 ] == ref.out_id;
            const bool complete = pdu.size() == 6;
            if ( id_match && complete )
            {
                if ( !idle_after ) return c.fail( "signaling:matching-response-ignored", "the response to the outstanding request did not complete it" ), true;
                if ( !out.empty() ) return c.fail( "signaling:reply-to-matching-response", "a response was answered: " + show( out ) ), true;
                ref.status = st_idle; ref.done_id = ref.out_id;
                c.cls( pdu[ 4 ] ? "matching-response-rejected->completed" : "matching-response-accepted->completed" );
            }
            else if ( id_match )
            {
                // truncated response with the right identifier: the statement is silent, both outcomes are tolerated
                if ( idle_after ) { ref.status = st_idle; ref.done_id = ref.out_id; c.cls( "truncated-matching-response->completed" ); }
                else c.cls( "truncated-matching-response->ignored" );
                if ( !idle_after ) check_reject( c, out, pdu, false, "truncated-matching-response" );
            }
            else
            {
                if ( idle_after )
                    return c.fail( has_id ? "signaling:response-completes-request:foreign-identifier" : "signaling:response-completes-request:truncated-without-identifier",
                                   mc::fmt( "request was sent with identifier 0x%02x; response %s completed it (a new request is accepted)", ref.out_id, mc::hex( pdu ).c_str() ) ), true;
                check_reject( c, out, pdu, false, has_id && pdu[ 1 ] ? "foreign-response" : "response-without-valid-id" );
            }
            return true;
        }

        // no outstanding request, or not a response: the request state must not move
        if ( idle_after != was_idle )
            return c.fail( is_response ? "signaling:response-changes-state-without-outstanding-request" : "signaling:command-changes-request-state",
                           mc::fmt( "request state before: %s, afterwards a new request is %s", was_idle ? "idle" : "pending", idle_after ? "accepted" : "refused" ) ), true;

        const bool nonzero_id = pdu.size() >= 2 && pdu[ 1 ] != 0;
        if ( is_response )
            check_reject( c, out, pdu, false, "unsolicited-response" );                       // tests pin a reject, the Core allows to drop it
        else if ( pdu.empty() || pdu.size() < 2 )
            check_reject( c, out, pdu, false, "truncated-command" );
        else if ( pdu[ 0 ] == 0x01 )
            check_reject( c, out, pdu, false, nonzero_id ? "incoming-command-reject" : "incoming-command-reject-id0" );   // a response code: answering is not demanded
        else
            check_reject( c, out, pdu, nonzero_id, nonzero_id ? ( ( pdu[ 0 ] & 1 ) ? "unknown-code" : "request-code" ) : "command-id0" );
        return true;
    }

    // bounded liveness from every reachable state: collect the queued request, answer it, queue the next one; every
    // step is checked by the same oracles as above
    void drain( mc::Ctx& c )
    {
        unsigned char keep[ sizeof dut.raw ]; Ref keep_ref = ref;
        memcpy( keep, dut.raw, sizeof keep );

        // event indexes: 0 queue A, 1 poll, 2 matching response (accepted), 15 queue B
        const int script[] = { 1, 1, 2, 0, 1, 1, 3, 15, 1, 2, 1 };
        for ( int ev : script )
        {
            // a matching response only makes sense while a request is outstanding
            if ( evs[ ev ].kind == ev_response && ref.status != st_transmitted ) continue;
            if ( evs[ ev ].kind == ev_queue && ref.status != st_idle ) continue;
            mc::Ctx cc;
            apply( ev, cc );
            if ( !cc.fails.empty() ) { c.fail( cc.fails[ 0 ].sig, cc.fails[ 0 ].detail + " (lifecycle run, during: " + describe( ev ) + ")" ); break; }
        }
        if ( c.fails.empty() && ref.status != st_idle )
            c.fail( "signaling:lifecycle-request-never-completes", "queue / output / matching response did not bring the channel back to idle" );

        memcpy( dut.raw, keep, sizeof keep ); ref = keep_ref;
    }
};

} // namespace

int main( int argc, char** argv )
{
    mc::Args a = mc::parse_args( argc, argv );
    c31::symbolize_on_replay( a, argv );
    mc::Report rep; rep.property = "C31";
    rep.unit = a.opt.count( "unit" ) ? a.opt[ "unit" ] : "C31_signaling";

    static World w;
    w.thorough = a.thorough();
    mc::BfsOptions o;
    o.with_drain = true;
    o.max_depth  = 2000;        // identifiers wrap after 255 completed requests = 765 events; the search runs to the fixpoint
    mc::Bfs< World > bfs( w, rep, a, o );

    if ( !a.replay.empty() ) return bfs.replay_file( mc::read_replay( a.replay ) );

    bfs.run();
    if ( w.events_switched_off )
    {
        rep.exhaustive = false;
        rep.counters[ "input events switched off after 32 memory errors" ] = w.events_switched_off;
        rep.notes[ "switched-off" ] = "input events that raised a memory error in 32 states were not tried in the remaining states (the error is reported)";
    }
    rep.notes[ "mode" ]  = mode_name;
    rep.notes[ "bound" ] = "all reachable states of channel + reference model (fixpoint; covers the identifier wrap 255 -> 1); "
                           "33 events: 2 queue, output poll, 13 responses 0x13, 15 other commands, empty and 1-byte PDUs (thorough: + all 256 command codes x identifiers {1,0xFF,0}); lifecycle drain from every state";
    rep.write( a );
    return 0;
}
