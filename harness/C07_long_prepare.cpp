// C07, third world: long prepared writes.  A server with max_mtu_size< 512 >, shared_write_queue< 700 > and a 300 octet
// value; the client exchanged its MTU to 512 and queues elements of 1 ... 300 value octets (queue elements of 255, 256,
// 257 ... octets: the element size needs both octets of its length field), then executes or cancels.
//
// E1: BFS over the byte image of server + connection + value + reference queue.  Oracles as in C07_prepared_writes.cpp:
// a prepare never changes the value and is echoed, Execute Write(1) applies the queued elements in order (up to a failing
// element: Error Response naming the attribute, values = result of a prefix not longer than the elements before it),
// Execute Write(0) applies nothing, both release the queue.  Guarded calls: a misparsed queue that ends in a crash is a
// violation with the trace attached (built without ASan: it slows this world down by a factor of 30).
#include "../mc/mc.hpp"
#include <bluetoe/server.hpp>
#include <bluetoe/service.hpp>
#include <bluetoe/characteristic.hpp>
#include <bluetoe/write_queue.hpp>
#include <bluetoe/gatt_options.hpp>
#include <bluetoe/link_state.hpp>

namespace {

constexpr std::size_t value_size = 300;
constexpr int         queue_size = 700;
constexpr std::size_t mtu        = 512;

std::uint8_t value[ value_size ];

using server_t = bluetoe::server<
    bluetoe::max_mtu_size< mtu >,
    bluetoe::shared_write_queue< queue_size >,
    bluetoe::no_gap_service_for_gatt_servers,
    bluetoe::service<
        bluetoe::service_uuid16< 0x1234 >,
        bluetoe::characteristic< bluetoe::characteristic_uuid16< 0xAA01 >, bluetoe::bind_characteristic_value< decltype( value ), &value > >
    >
>;
using conn_t = server_t::channel_data_t< bluetoe::details::link_state >;

const int lengths[] = { 1, 250, 251, 252, 253, 255, 256, 257, 300 };
const int offsets[] = { 0, 44 };            // 44 + 256 = 300: fits exactly; 44 + 257, 44 + 300: Invalid Attribute Value Length when executed
constexpr int N_LEN = sizeof lengths / sizeof lengths[ 0 ], N_OFF = sizeof offsets / sizeof offsets[ 0 ];
enum { EV_EXECUTE = N_LEN * N_OFF, EV_CANCEL, EV_COUNT };
constexpr int MAXE = 8;

struct Elem { std::uint16_t off, len; };
inline std::uint8_t data_byte( int position, int i ) { return std::uint8_t( 0x21 + position * 0x35 + i * 7 + i / 256 ); }

struct World
{
    mc::Placed< server_t > srv;
    mc::Placed< conn_t >   con;
    struct Ref { std::uint16_t n, pad; Elem q[ MAXE ]; } ref;
    mc::Report* rep = nullptr;
    bool replaying = false;

    void regions( mc::Regions& r ) { r.add( srv.raw, sizeof srv.raw ); r.add( con.raw, sizeof con.raw ); r.add( value ); r.add( ref ); }

    struct Resp { std::vector< std::uint8_t > out; std::string guard; bool sane = true; };

    Resp att( const std::vector< std::uint8_t >& in )
    {
        Resp r;
        std::uint8_t* ib = new std::uint8_t[ in.size() ];
        std::uint8_t* ob = new std::uint8_t[ mtu ];
        memcpy( ib, in.data(), in.size() );
        std::size_t osz = mtu;
        r.guard = mc::Guard::call( [&]{ srv->l2cap_input( ib, in.size(), ob, osz, con.get() ); } );
        if ( osz > mtu ) { r.sane = false; osz = mtu; }
        if ( r.guard.empty() ) r.out.assign( ob, ob + osz );
        delete[] ib; delete[] ob;
        return r;
    }

    void init()
    {
        srv.construct(); con.construct();
        for ( std::size_t i = 0; i != value_size; ++i ) value[ i ] = std::uint8_t( i * 3 + 1 );
        memset( &ref, 0, sizeof ref );
        const Resp r = att( { 0x02, 0x00, 0x02 } );
        if ( r.out != std::vector< std::uint8_t >{ 0x03, 0x00, 0x02 } || con->negotiated_mtu() != mtu )
        {
            fprintf( stderr, "C07_long_prepare: MTU exchange to 512 answered %s\n", mc::hex( r.out ).c_str() );
            exit( 2 );
        }
    }

    int num_events() const { return EV_COUNT; }
    std::string describe( int ev ) const
    {
        if ( ev == EV_EXECUTE ) return "Execute(1)";
        if ( ev == EV_CANCEL ) return "Execute(0)";
        return mc::fmt( "Prepare(offset=%d,%d octets)", offsets[ ev / N_LEN ], lengths[ ev % N_LEN ] );
    }

    int used7() const { int u = 0; for ( int i = 0; i != ref.n; ++i ) u += ref.q[ i ].len + 7; return u; }
    int used4() const { int u = 0; for ( int i = 0; i != ref.n; ++i ) u += ref.q[ i ].len + 4; return u; }

    static std::string head( const std::vector< std::uint8_t >& v ) { return mc::hex( v.data(), std::min< std::size_t >( v.size(), 12 ) ) + ( v.size() > 12 ? mc::fmt( "...(%zu octets)", v.size() ) : std::string() ); }
    static const char* len_class( int len ) { return len + 4 < 256 ? "element-below-256" : len + 4 == 256 ? "element-of-256" : "element-above-256"; }

    bool apply( int ev, mc::Ctx& c )
    {
        std::uint8_t before[ value_size ]; memcpy( before, value, value_size );
        if ( ev < EV_EXECUTE )
        {
            const int off = offsets[ ev / N_LEN ], len = lengths[ ev % N_LEN ];
            if ( ref.n == MAXE ) return false;
            std::vector< std::uint8_t > req{ 0x16, 0x03, 0x00, std::uint8_t( off ), std::uint8_t( off >> 8 ) };
            for ( int i = 0; i != len; ++i ) req.push_back( data_byte( ref.n, i ) );
            const Resp r = att( req );
            c.obs = head( req ) + " -> " + head( r.out );
            if ( !r.guard.empty() ) { c.fail( mc::fmt( "memory-safety:%s:prepare", r.guard.c_str() ), c.obs ); return true; }
            if ( !r.sane ) { c.fail( "response-exceeds-mtu:prepare", c.obs ); return true; }
            if ( memcmp( before, value, value_size ) ) { c.fail( "prepare-changes-value:rw-value-modified", c.obs ); return true; }
            const bool error_full = r.out == std::vector< std::uint8_t >{ 0x01, 0x16, 0x03, 0x00, 0x09 };
            const bool guaranteed = used7() + len + 7 <= queue_size, impossible = used4() + len + 4 > queue_size;
            if ( error_full )
            {
                if ( guaranteed ) { c.fail( "prepare-queue-full-but-room-guaranteed:long-element", mc::fmt( "%d octets (7 octets overhead per element) of %d used, %d value octets refused", used7(), queue_size, len ) ); return true; }
                c.cls( impossible ? "prepare:queue-full:data-cannot-fit" : "prepare:queue-full:overhead-does-not-fit" );
                return true;
            }
            std::vector< std::uint8_t > echo = req; echo[ 0 ] = 0x17;
            if ( r.out != echo ) { c.fail( mc::fmt( "prepare-response-not-echo:%s", len_class( len ) ), c.obs ); return true; }
            if ( impossible ) { c.fail( "prepare-accepted-beyond-queue-capacity", c.obs ); return true; }
            ref.q[ ref.n ].off = std::uint16_t( off ); ref.q[ ref.n ].len = std::uint16_t( len ); ++ref.n;
            c.cls( mc::fmt( "prepare:accepted:%s:position%d", len_class( len ), int( ref.n ) ) );
            return true;
        }

        const bool execute = ev == EV_EXECUTE;
        // reference: apply in order, stop at the first element that does not fit the value
        static std::uint8_t sim[ MAXE + 1 ][ value_size ];
        memcpy( sim[ 0 ], before, value_size );
        int failed = -1, code = 0; bool long_element = false;
        for ( int k = 0; execute && k != ref.n; ++k )
        {
            memcpy( sim[ k + 1 ], sim[ k ], value_size );
            const Elem& e = ref.q[ k ];
            long_element = long_element || e.len + 4 >= 256;
            if ( e.off > value_size ) { failed = k; code = 0x07; break; }
            if ( std::size_t( e.off ) + e.len > value_size ) { failed = k; code = 0x0d; break; }
            for ( int i = 0; i != e.len; ++i ) sim[ k + 1 ][ e.off + i ] = data_byte( k, i );
        }
        const int applied = !execute ? 0 : failed < 0 ? ref.n : failed;
        const char* const lc = long_element ? "queue-with-element-of-256-or-more" : "short-elements";

        const Resp r = att( { 0x18, std::uint8_t( execute ) } );
        c.obs = mc::fmt( "18%02x -> %s [%d elements queued]", int( execute ), head( r.out ).c_str(), int( ref.n ) );
        if ( !r.guard.empty() )
        {
            c.fail( mc::fmt( "memory-safety:%s:execute:%s", r.guard.c_str(), lc ), mc::fmt( "Execute Write(%d) with %d queued elements: %s", int( execute ), int( ref.n ), r.guard.c_str() ) );
            return true;
        }
        if ( failed < 0 )
        {
            if ( r.out != std::vector< std::uint8_t >{ 0x19 } ) { c.fail( mc::fmt( "execute-wrong-response:%s", lc ), c.obs ); return true; }
            if ( memcmp( value, sim[ applied ], value_size ) )
            {
                std::size_t at = 0; while ( value[ at ] == sim[ applied ][ at ] ) ++at;
                c.fail( mc::fmt( "execute-wrong-result:%s", lc ),
                        mc::fmt( "Execute Write(%d) with %d queued elements: value differs from the reference at offset %zu (is %02x, expected %02x)", int( execute ), int( ref.n ), at, value[ at ], sim[ applied ][ at ] ) );
                return true;
            }
            c.cls( mc::fmt( "%s:%d-elements:%s", execute ? "execute" : "cancel", int( ref.n ), lc ) );
        }
        else
        {
            const bool err_ok = r.out.size() == 5 && r.out[ 0 ] == 0x01 && r.out[ 1 ] == 0x18 && r.out[ 2 ] == 0x03 && r.out[ 3 ] == 0x00 && r.out[ 4 ] == code;
            if ( !err_ok ) { c.fail( mc::fmt( "execute-wrong-response:failing-element:%s", lc ), mc::fmt( "element %d of %d cannot be written (error %02x expected): %s", failed, int( ref.n ), code, c.obs.c_str() ) ); return true; }
            int prefix = -1;
            for ( int k = failed; k >= 0; --k ) if ( memcmp( value, sim[ k ], value_size ) == 0 ) { prefix = k; break; }
            if ( prefix < 0 ) { c.fail( mc::fmt( "execute-wrong-result:failing-element:%s", lc ), mc::fmt( "element %d of %d fails; the value is not the result of a prefix of the elements before it", failed, int( ref.n ) ) ); return true; }
            c.cls( mc::fmt( "execute:element-%d-fails(%02x):%s:%s", failed, code, prefix == failed ? "all-before-applied" : "shorter-prefix-applied", lc ) );
        }
        memset( &ref, 0, sizeof ref );
        return true;
    }
};

} // namespace

int main( int argc, char** argv )
{
    mc::Args a = mc::parse_args( argc, argv );
    mc::Report rep; rep.property = "C07";
    rep.unit = a.opt.count( "unit" ) ? a.opt[ "unit" ] : "C07_long_prepare";
    static World w;
    w.rep = &rep;
    mc::BfsOptions o;
    o.max_depth = int( a.num( "depth", a.thorough() ? 5 : 4 ) );
    o.max_states = 1000000;
    mc::Bfs< World > bfs( w, rep, a, o );
    if ( !a.replay.empty() ) { w.replaying = true; return bfs.replay_file( mc::read_replay( a.replay ) ); }
    bfs.run();
    rep.counters[ "state_bytes" ] = bfs.isz;
    rep.notes[ "world" ] = "server<max_mtu_size<512>, shared_write_queue<700>>, value of 300 octets, client MTU 512; prepares of {1,250,251,252,253,255,256,257,300} octets at offset {0,44}, Execute 0|1";
    rep.write( a );
    return 0;
}
