// C02 - Discovery returns exactly the in-range matching attributes.
// E2: for one generated server configuration (reference attribute table from gen/servers.py) the full product
//     {Find Information, Read By Type, Read By Group Type} x (start,end) in {0..last+2,0xFFFF}^2 x every attribute type x MTUs
// is sent to the real bluetoe::server<> via l2cap_input(); every case is continued as a GATT client would (start := last+1)
// so that the closure "every matching attribute is enumerated exactly once" is decided as well.
#include "mc/mc.hpp"
#include <iterator>
#include <algorithm>
#include <bluetoe/server.hpp>
#include CFG_HEADER

using namespace gattdb;

namespace {

enum { FI = 0, RBT = 1, RBGT = 2 };
const char* const kind_names[] = { "find-information", "read-by-type", "read-by-group-type" };
const std::uint8_t opcodes[] = { 0x04, 0x08, 0x10 };

struct Case { int kind; std::uint16_t s, e; Type type; std::uint16_t mtu; bool near_base = false; };   // near_base: type is a near miss of a base UUID form

struct Entry { std::uint16_t handle, end; Type type; };
struct Resp
{
    enum K { error, data, malformed, empty, crashed } k = malformed;
    bool partial = false;    // well formed header, but the length is not a multiple of the pair / tuple size
    std::uint8_t code = 0; std::uint16_t err_handle = 0;
    std::vector< Entry > e;
    unsigned len = 0;        // FI: 4/18, RBT/RBGT: length byte
};

struct Fail { std::string sig, detail; };

struct Checker
{
    Db db;
    Client< gen::server_t > cl;
    mc::Report* rep = nullptr;
    std::string suffix;     // ":cfg-with-include" for configurations whose handle table is already inconsistent (C04)

    std::string case_line( const Case& c ) const
    {
        return mc::fmt( "case kind=%d s=%u e=%u mtu=%u near=%d type=%s", c.kind, c.s, c.e, c.mtu, int( c.near_base ), mc::hex( c.type.b, c.type.n ).c_str() );
    }
    std::string case_text( const Case& c ) const
    {
        return mc::fmt( "%s %s 0x%04x..0x%04x type %s mtu %u", db.name, kind_names[ c.kind ], c.s, c.e, c.kind == FI ? "-" : c.type.str().c_str(), c.mtu );
    }

    bool matches( const Case& c, const ref_attr& a ) const
    {
        if ( c.kind == FI ) return true;
        if ( c.kind == RBGT && a.kind != k_service ) return false;
        return Type::of( a ).same( c.type );
    }

    // reference: attributes with handle in [lo,hi] that match, ascending
    std::vector< const ref_attr* > reference( const Case& c, std::uint32_t lo, std::uint32_t hi ) const
    {
        std::vector< const ref_attr* > r;
        for ( std::size_t i = 0; i != db.n_attrs; ++i )
            if ( db.attrs[ i ].handle >= lo && db.attrs[ i ].handle <= hi && matches( c, db.attrs[ i ] ) ) r.push_back( &db.attrs[ i ] );
        return r;
    }

    void send( const Case& c, std::uint16_t s )
    {
        cl.range_request( opcodes[ c.kind ], s, c.e, c.type.b, c.kind == FI ? 0 : c.type.n );
    }

    Resp parse( const Case& c )
    {
        Resp r;
        if ( !cl.problem.empty() ) { r.k = Resp::crashed; return r; }
        if ( cl.is_error() ) { r.k = Resp::error; r.code = cl.error_code(); r.err_handle = cl.error_handle(); return r; }
        const std::uint8_t* o = cl.out(); const std::size_t n = cl.out_n;
        if ( n < 2 ) return r;
        if ( c.kind == FI )
        {
            if ( o[ 0 ] != 0x05 || ( o[ 1 ] != 1 && o[ 1 ] != 2 ) ) return r;
            r.len = o[ 1 ] == 1 ? 4 : 18;
            if ( n == 2 ) { r.k = Resp::empty; return r; }
            if ( ( n - 2 ) % r.len ) { r.partial = true; return r; }
            for ( std::size_t p = 2; p != n; p += r.len ) r.e.push_back( Entry{ rd16( o + p ), 0, Type::raw( o + p + 2, r.len - 2 ) } );
        }
        else if ( c.kind == RBT )
        {
            if ( o[ 0 ] != 0x09 || o[ 1 ] < 2 ) return r;
            r.len = o[ 1 ];
            if ( n == 2 ) { r.k = Resp::empty; return r; }
            if ( ( n - 2 ) % r.len ) { r.partial = true; return r; }
            for ( std::size_t p = 2; p != n; p += r.len ) r.e.push_back( Entry{ rd16( o + p ), 0, Type() } );
        }
        else
        {
            if ( o[ 0 ] != 0x11 || ( o[ 1 ] != 6 && o[ 1 ] != 20 ) ) return r;
            r.len = o[ 1 ];
            if ( n == 2 ) { r.k = Resp::empty; return r; }
            if ( ( n - 2 ) % r.len ) { r.partial = true; return r; }
            for ( std::size_t p = 2; p != n; p += r.len ) r.e.push_back( Entry{ rd16( o + p ), rd16( o + p + 2 ), Type() } );
        }
        r.k = Resp::data;
        return r;
    }

    // checks of one response to the request (s..c.e); returns the first failure (signature without suffix) or ""
    Fail check_single( const Case& c, std::uint16_t s, const Resp& r ) const
    {
        const char* kn = kind_names[ c.kind ];
        const std::string io = " [request " + cl.in_hex() + " -> " + cl.out_hex() + "]";
        if ( r.k == Resp::crashed ) return Fail{ mc::fmt( "crash:%s:%s", kn, cl.problem.c_str() ), "server crashed / overran the output buffer" + io };
        if ( r.k == Resp::malformed && r.partial )
            return Fail{ mc::fmt( "malformed-response:%s:partial-entry", kn ), mc::fmt( "response of %zu octets is not a whole number of entries of %u octets", cl.out_n, r.len ) + io };
        if ( r.k == Resp::malformed ) return Fail{ mc::fmt( "malformed-response:%s", kn ), "response is neither an Error Response nor a well formed data response" + io };
        if ( r.k == Resp::empty )
        {
            const bool none = !( s != 0 && s <= c.e ) || reference( c, s, c.e ).empty();
            return Fail{ mc::fmt( "empty-data-response:%s:%s", kn, none ? "no-match" : "match-exists" ), mc::fmt( "data response without a single attribute instead of %s", none ? "Attribute Not Found" : "the matching attributes" ) + io };
        }
        const bool valid_range = s != 0 && s <= c.e;
        const std::vector< const ref_attr* > R = valid_range ? reference( c, s, c.e ) : std::vector< const ref_attr* >();
        if ( r.k == Resp::error )
        {
            if ( r.code == 0x0A && valid_range )
            {
                bool readable = false;
                for ( auto a : R ) readable = readable || a->readable || c.kind != RBT;
                if ( readable )
                    return Fail{ c.kind == FI ? mc::fmt( "not-found-although-match:%s:start-%s", kn, db.on_off( s ) ) : mc::fmt( "not-found-although-match:%s:type%u", kn, c.type.n * 8 ),
                                 mc::fmt( "Attribute Not Found although attribute 0x%04x (%s) matches and lies in 0x%04x..0x%04x", R[ 0 ]->handle, kind_name( R[ 0 ]->kind ), s, c.e ) + io };
            }
            return Fail{};
        }
        std::uint32_t prev = 0;
        for ( const Entry& en : r.e )
        {
            const ref_attr* a = db.find( en.handle );
            if ( en.handle < s || en.handle > c.e )
                return Fail{ mc::fmt( "handle-out-of-range:%s:%s:end-%s", kn, !valid_range ? "invalid-range" : en.handle > c.e ? "above-end" : "below-start", db.on_off( c.e ) ),
                             mc::fmt( "returned handle 0x%04x is outside the requested range 0x%04x..0x%04x", en.handle, s, c.e ) + io };
            if ( !a )
                return Fail{ mc::fmt( "unknown-handle:%s", kn ), mc::fmt( "returned handle 0x%04x does not exist in the declared database", en.handle ) + io };
            if ( c.kind == FI && !( en.type.n == ( a->type128 ? 16 : 2 ) && memcmp( en.type.b, a->type, en.type.n ) == 0 ) )
                return Fail{ mc::fmt( "type-mismatch:%s:%s", kn, ( a->flags & 1 ) ? "auto-uuid-characteristic" : "explicit-uuid" ), mc::fmt( "handle 0x%04x reported with type %s, declared type is %s", en.handle, en.type.str().c_str(), Type::of( *a ).str().c_str() ) + io };
            if ( c.kind != FI && !matches( c, *a ) )
                return Fail{ mc::fmt( "type-mismatch:%s:%s", kn, c.near_base ? "near-miss-of-base-uuid" : kind_name( a->kind ) ),
                             mc::fmt( "handle 0x%04x (%s, type %s) returned for requested type %s", en.handle, kind_name( a->kind ), Type::of( *a ).str().c_str(), c.type.str().c_str() ) + io };
            if ( en.handle <= prev )
                return Fail{ mc::fmt( "not-ascending:%s", kn ), mc::fmt( "handle 0x%04x follows 0x%04x", en.handle, prev ) + io };
            if ( c.kind == RBGT && en.end < en.handle )
                return Fail{ mc::fmt( "group-end-below-start:%s", kn ), mc::fmt( "group 0x%04x..0x%04x", en.handle, en.end ) + io };
            prev = c.kind == RBGT ? en.end : en.handle;
        }
        return Fail{};
    }

    std::string req_class( const Case& c ) const
    {
        if ( c.s == 0 || c.s > c.e ) return mc::fmt( "%s:%s", kind_names[ c.kind ], c.s == 0 ? "start-zero" : "start>end" );
        std::string t = c.kind == FI ? "" : mc::fmt( ":type%u", c.type.n * 8 );
        return mc::fmt( "%s%s:s-%s:e-%s", kind_names[ c.kind ], t.c_str(), db.pos_class( c.s ), c.e == 0xFFFF ? "ffff" : db.pos_class( c.e ) );
    }

    // evaluates one case: the request and its continuation. returns failures (at most one per oracle)
    std::vector< Fail > eval( const Case& c, std::string* outcome = nullptr )
    {
        std::vector< Fail > fails;
        cl.set_mtu( c.mtu );
        struct Pass { std::uint16_t first, last; unsigned len; };
        std::vector< Pass > passes;
        std::vector< std::uint16_t > got;
        std::uint32_t cur = c.s;
        bool first = true, closure_applicable = c.s != 0 && c.s <= c.e;
        std::string oc;
        for ( std::size_t iter = 0; iter != db.n_attrs + 4; ++iter )
        {
            send( c, std::uint16_t( cur ) );
            const Resp r = parse( c );
            if ( first )
                oc = r.k == Resp::error ? mc::fmt( "error%02x", r.code ) : r.k == Resp::data ? ( r.e.size() == 1 ? "data1" : "dataN" ) : r.k == Resp::crashed ? "crash" : r.k == Resp::empty ? "empty" : "malformed";
            Fail f = check_single( c, std::uint16_t( cur ), r );
            if ( !f.sig.empty() )
            {
                if ( first ) fails.push_back( f );
                closure_applicable = false;   // the continuation request is a case of its own and reported there
                break;
            }
            if ( r.k == Resp::error )
            {
                if ( r.code == 0x0A ) break;
                // Read By Type may answer with the error of the first matching attribute when that one is not readable (Core spec 3.F.3.4.4.1)
                const ref_attr* a = db.find( r.err_handle );
                if ( c.kind == RBT && a && !a->readable && r.err_handle >= cur && r.err_handle <= c.e && matches( c, *a ) && r.err_handle != 0xFFFF )
                {
                    cur = r.err_handle + 1u; first = false;
                    if ( cur > c.e ) break;
                    continue;
                }
                // any other error.  Unsupported Group Type for everything but <<Primary Service>> in 16 bit form is pinned by
                // read_by_group_type_tests; invalid ranges are answered with Invalid Handle: no enumeration takes place.
                const bool primary16 = c.type.n == 2 && c.type.b[ 0 ] == 0x00 && c.type.b[ 1 ] == 0x28;
                if ( !closure_applicable || ( c.kind == RBGT && !primary16 ) ) { closure_applicable = false; break; }
                bool any = false;
                for ( auto a2 : reference( c, cur, c.e ) ) any = any || a2->readable || c.kind != RBT;
                if ( any )
                {
                    if ( first )
                        fails.push_back( Fail{ mc::fmt( "error-instead-of-data:%s", kind_names[ c.kind ] ),
                                               mc::fmt( "error 0x%02x although matching attributes exist in 0x%04x..0x%04x [request %s -> %s]", r.code, cur, c.e, cl.in_hex().c_str(), cl.out_hex().c_str() ) } );
                    closure_applicable = false;
                }
                break;
            }
            if ( !closure_applicable ) break;   // invalid range answered with data: judged by the single response checks only
            Pass p{ r.e.front().handle, r.e.back().handle, r.len };
            passes.push_back( p );
            for ( auto& en : r.e ) got.push_back( en.handle );
            const std::uint32_t last = c.kind == RBGT ? r.e.back().end : r.e.back().handle;
            first = false;
            if ( last >= c.e || last == 0xFFFF ) break;
            cur = last + 1u;
        }
        if ( outcome ) *outcome = oc;
        if ( !closure_applicable || !fails.empty() ) return fails;

        // closure: the union of all passes is the reference list, each attribute exactly once
        const std::vector< const ref_attr* > R = reference( c, c.s, c.e );
        for ( auto a : R )
        {
            const std::size_t n = std::count( got.begin(), got.end(), a->handle );
            if ( n == 1 || ( c.kind == RBT && !a->readable ) ) continue;
            if ( n > 1 )
            {
                fails.push_back( Fail{ mc::fmt( "closure-duplicate:%s", kind_names[ c.kind ] ), mc::fmt( "attribute 0x%04x enumerated %zu times when iterating 0x%04x..0x%04x", a->handle, n, c.s, c.e ) } );
                break;
            }
            std::string mech = "chain-ended-early";
            for ( auto& p : passes )
                if ( p.first < a->handle && a->handle < p.last )
                {
                    bool other;
                    if ( c.kind == FI ) other = ( p.len == 18 ) != ( a->type128 != 0 );
                    else if ( c.kind == RBT ) other = std::min< unsigned >( std::min< unsigned >( a->vlen, c.mtu - 4 ), 253 ) != p.len - 2;
                    else other = ( p.len == 20 ) != ( db.svcs[ a->svc ].uuid128 != 0 );
                    mech = c.kind == RBT ? ( other ? "skipped-other-value-length" : "skipped-same-value-length" ) : ( other ? "skipped-other-uuid-size" : "skipped-same-uuid-size" );
                }
                else if ( a->handle < p.first && ( &p == &passes.front() ) ) mech = "passed-over-at-start";
            fails.push_back( Fail{ mc::fmt( "closure-missed:%s:%s", kind_names[ c.kind ], mech.c_str() ),
                                   mc::fmt( "iterating %s over 0x%04x..0x%04x (start := last+1) never returns matching attribute 0x%04x (%s); returned handles:", kind_names[ c.kind ], c.s, c.e, a->handle, kind_name( a->kind ) )
                                   + [&]{ std::string s; for ( auto h : got ) s += mc::fmt( " %04x", h ); return s; }() } );
            break;
        }
        return fails;
    }
};

bool parse_case( const std::string& l, Case& c )
{
    unsigned kind, s, e, mtu, near = 0; char type[ 64 ] = "";
    if ( sscanf( l.c_str(), "case kind=%u s=%u e=%u mtu=%u near=%u type=%63s", &kind, &s, &e, &mtu, &near, type ) < 5 ) return false;
    c.near_base = near != 0;
    c.kind = int( kind ); c.s = std::uint16_t( s ); c.e = std::uint16_t( e ); c.mtu = std::uint16_t( mtu );
    auto b = mc::unhex( type );
    c.type = Type::raw( b.data(), b.size() );
    return true;
}

} // namespace

int main( int argc, char** argv )
{
    mc::Args a = mc::parse_args( argc, argv );
    mc::Report rep; rep.property = "C02"; rep.unit = a.opt.count( "unit" ) ? a.opt[ "unit" ] : std::string( "C02_discovery-" ) + gen::config_name;

    static Checker ck;
    ck.db = gen::db(); ck.rep = &rep;
    ck.cl.init();
    ck.suffix = "";   // (was ":cfg-with-include" while the handle table of services with include declarations was inconsistent, C04)

    if ( !a.replay.empty() )
    {
        mc::ReplayFile rf = mc::read_replay( a.replay );
        int rc = 0;
        ck.cl.verbose = true;
        for ( auto& st : rf.steps )
        {
            Case c;
            if ( !parse_case( st, c ) ) { printf( "unparsable step: %s\n", st.c_str() ); continue; }
            printf( "replaying %s\n", ck.case_text( c ).c_str() );
            for ( auto& f : ck.eval( c ) )
            {
                printf( "  FAIL %s: %s\n", ( f.sig + ck.suffix ).c_str(), f.detail.c_str() );
                if ( f.sig + ck.suffix == rf.sig ) { printf( "REPRODUCED %s\n", rf.sig.c_str() ); rc = 1; }
            }
        }
        if ( !rc ) printf( "not reproduced\n" );
        return rc;
    }

    const Db& db = ck.db;
    // alphabets
    std::vector< std::uint16_t > hs;
    for ( std::uint32_t h = 0; h <= std::uint32_t( db.last_handle() ) + 2; ++h ) hs.push_back( std::uint16_t( h ) );
    hs.push_back( 0xFFFF );
    const std::uint16_t mtus_all[] = { 23, 24, 48, 65, 247 };
    std::vector< std::uint16_t > mtus( std::begin( mtus_all ), std::end( mtus_all ) );
    // servers with a larger MTU: around the limit of the 8 bit length field of a Read By Type / Read By Group Type response
    if ( gen::server_mtu > 247 )
        for ( std::uint16_t m : { 255, 256, 257, 258, 259, 260, 512 } ) if ( m <= gen::server_mtu ) mtus.push_back( m );

    std::vector< Type > rbt_types;
    auto add_type = [&]( std::vector< Type >& v, const Type& t ) { for ( auto& x : v ) if ( x.n == t.n && memcmp( x.b, t.b, t.n ) == 0 ) return; v.push_back( t ); };
    for ( std::size_t i = 0; i != db.n_attrs; ++i ) { Type t = Type::of( db.attrs[ i ] ); add_type( rbt_types, t ); if ( t.n == 2 ) add_type( rbt_types, t.expanded() ); }
    for ( std::uint16_t t : { 0x2800, 0x2801, 0x2802, 0x2803, 0x2901, 0x2902, 0x7777 } ) { add_type( rbt_types, Type::u16( t ) ); }
    add_type( rbt_types, Type::u16( 0x7777 ).expanded() );
    { const std::uint8_t u[ 16 ] = { 1, 2, 3, 4, 5, 6, 7, 8, 9, 10, 11, 12, 13, 14, 15, 16 }; add_type( rbt_types, Type::raw( u, 16 ) ); }
    std::vector< Type > rbgt_types;
    add_type( rbgt_types, Type::u16( 0x2800 ) ); add_type( rbgt_types, Type::u16( 0x2800 ).expanded() ); add_type( rbgt_types, Type::u16( 0x2801 ) );
    add_type( rbgt_types, Type::u16( 0x2803 ) ); add_type( rbgt_types, Type::u16( 0x7777 ) ); add_type( rbgt_types, rbt_types.back() );

    // Read By Group Type's primary/secondary discrimination is the subject of C03: not evaluated here for servers with secondary services
    const bool with_rbgt = !db.has_secondary;
    rep.notes[ "configuration" ] = db.decl;
    rep.notes[ "excluded-declarations" ] = db.excluded;
    rep.notes[ "scope" ] = with_rbgt ? "Find Information, Read By Type, Read By Group Type" : "Find Information, Read By Type (Read By Group Type on servers with secondary services is decided by C03)";

    bool cut = false;
    std::uint64_t n = 0;
    // near misses of the Bluetooth base UUID form: every 16 bit type of the database, expanded to 128 bit, with exactly one of the
    // 16 octets changed (this includes the two octets above the 16 bit value and the 16 bit value itself). Asked with the default MTU only.
    std::vector< Type > near_types;
    for ( std::size_t i = 0; i != db.n_attrs; ++i )
        if ( !db.attrs[ i ].type128 )
            for ( int octet = 0; octet != 16; ++octet )
            {
                Type t = Type::of( db.attrs[ i ] ).expanded();
                t.b[ octet ] ^= 0x12;
                add_type( near_types, t );
            }
    const std::vector< std::uint16_t > default_mtu{ 23 };
    rep.counters[ "read-by-type near-miss base UUID types" ] = near_types.size();

    for ( int pass = FI; pass <= RBGT + 1 && !cut; ++pass )
    {
        const int kind = pass == RBGT + 1 ? int( RBT ) : pass;
        if ( kind == RBGT && !with_rbgt ) continue;
        std::vector< Type > none{ Type::u16( 0 ) };
        const std::vector< Type >& types = pass == RBGT + 1 ? near_types : kind == FI ? none : kind == RBT ? rbt_types : rbgt_types;
        for ( auto& t : types )
            for ( auto mtu : pass == RBGT + 1 ? default_mtu : mtus )
                for ( auto s : hs )
                {
                    for ( auto e : hs )
                    {
                        Case c{ kind, s, e, t, mtu, pass == RBGT + 1 };
                        std::string outcome;
                        auto fails = ck.eval( c, &outcome );
                        ++rep.evaluations; ++n;
                        rep.cls( ck.req_class( c ) + ( pass == RBGT + 1 ? ":near-base-uuid" : "" ) + "->" + outcome );
                        for ( auto& f : fails )
                            rep.fail( f.sig + ck.suffix, ck.case_text( c ) + ": " + f.detail, { ck.case_line( c ) } );
                        if ( ( n % 9973 ) == 1 && fails.empty() && c.s && c.s <= c.e )
                            rep.sample( ck.case_text( c ) + " => " + ck.cl.out_hex().substr( 0, 60 ), 8 );
                    }
                    if ( a.expired() ) { cut = true; break; }
                    if ( cut ) break;
                }
    }
    rep.traces_validated = ck.cl.requests;
    rep.counters[ "attributes" ] = db.n_attrs;
    rep.counters[ "handle-alphabet" ] = hs.size();
    rep.counters[ "read-by-type types" ] = rbt_types.size();
    rep.counters[ "requests" ] = ck.cl.requests;
    if ( cut ) { rep.exhaustive = false; rep.notes[ "cut" ] = mc::fmt( "deadline hit after %llu cases", (unsigned long long)n ); }

    // every reported violation has to reproduce (determinism)
    for ( auto& v : rep.violations )
    {
        Case c; bool ok = parse_case( v.second.trace[ 0 ], c );
        for ( int k = 0; k != 2 && ok; ++k )
        {
            bool hit = false;
            for ( auto& f : ck.eval( c ) ) hit = hit || f.sig + ck.suffix == v.first;
            ok = hit;
        }
        if ( !ok ) { fprintf( stderr, "NONDETERMINISM: %s not reproduced\n", v.first.c_str() ); return 2; }
    }
    rep.write( a );
    return 0;
}
