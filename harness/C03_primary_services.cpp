// C03 - Primary service discovery never reports secondary services.
// E2: for one generated server configuration the full product
//   Read By Group Type <<Primary Service>>      x (start,end) in {0..last+2,0xFFFF}^2 x MTUs
//   Find By Type Value <<Primary Service>> x UUID x (start,end)                        x MTUs   (UUID: every service UUID of the server + unknown)
// is sent to the real bluetoe::server<>; every case is continued like the GATT procedures do (start := end group handle + 1).
#include "mc/mc.hpp"
#include <iterator>
#include <algorithm>
#include <bluetoe/server.hpp>
#include CFG_HEADER

using namespace gattdb;

namespace {

enum { RBGT = 0, FBTV = 1 };
const char* const kn[] = { "rbgt", "fbtv" };
const char* const kind_long[] = { "read-by-group-type", "find-by-type-value" };

struct Case { int kind; std::uint16_t s, e; Type value; std::uint16_t mtu; };
struct Entry { std::uint16_t handle, end; Type uuid; };
struct Resp
{
    enum K { error, data, malformed, empty, crashed } k = malformed;
    std::uint8_t code = 0;
    std::vector< Entry > e;
};
struct Fail { std::string sig, detail; };

struct Checker
{
    Db db;
    Client< gen::server_t > cl;

    std::string case_line( const Case& c ) const { return mc::fmt( "case kind=%d s=%u e=%u mtu=%u value=%s", c.kind, c.s, c.e, c.mtu, mc::hex( c.value.b, c.value.n ).c_str() ); }
    std::string case_text( const Case& c ) const
    {
        return mc::fmt( "%s %s <<Primary Service>> 0x%04x..0x%04x%s mtu %u", db.name, kind_long[ c.kind ], c.s, c.e, c.kind == FBTV ? ( " uuid " + c.value.str() ).c_str() : "", c.mtu );
    }

    const ref_service* service_at( std::uint16_t h ) const
    {
        for ( std::size_t i = 0; i != db.n_svcs; ++i ) if ( db.svcs[ i ].start == h ) return &db.svcs[ i ];
        return nullptr;
    }
    static Type uuid_of( const ref_service& s ) { return Type::raw( s.uuid, s.uuid128 ? 16 : 2 ); }
    static bool same_bytes( const Type& a, const Type& b ) { return a.n == b.n && memcmp( a.b, b.b, a.n ) == 0; }

    bool matches( const Case& c, const ref_service& s ) const
    {
        if ( s.secondary ) return false;
        return c.kind == RBGT || same_bytes( uuid_of( s ), c.value );
    }
    std::vector< const ref_service* > reference( const Case& c, std::uint32_t lo, std::uint32_t hi ) const
    {
        std::vector< const ref_service* > r;
        for ( std::size_t i = 0; i != db.n_svcs; ++i )
            if ( db.svcs[ i ].start >= lo && db.svcs[ i ].start <= hi && matches( c, db.svcs[ i ] ) ) r.push_back( &db.svcs[ i ] );
        return r;
    }

    void send( const Case& c, std::uint16_t s )
    {
        if ( c.kind == RBGT ) { const std::uint8_t t[] = { 0x00, 0x28 }; cl.range_request( 0x10, s, c.e, t, 2 ); }
        else { std::uint8_t t[ 18 ] = { 0x00, 0x28 }; memcpy( t + 2, c.value.b, c.value.n ); cl.range_request( 0x06, s, c.e, t, 2 + c.value.n ); }
    }

    Resp parse( const Case& c )
    {
        Resp r;
        if ( !cl.problem.empty() ) { r.k = Resp::crashed; return r; }
        if ( cl.is_error() ) { r.k = Resp::error; r.code = cl.error_code(); return r; }
        const std::uint8_t* o = cl.out(); const std::size_t n = cl.out_n;
        if ( c.kind == RBGT )
        {
            if ( n < 2 || o[ 0 ] != 0x11 || ( o[ 1 ] != 6 && o[ 1 ] != 20 ) ) return r;
            if ( n == 2 ) { r.k = Resp::empty; return r; }
            if ( ( n - 2 ) % o[ 1 ] ) return r;
            for ( std::size_t p = 2; p != n; p += o[ 1 ] ) r.e.push_back( Entry{ rd16( o + p ), rd16( o + p + 2 ), Type::raw( o + p + 4, o[ 1 ] - 4 ) } );
        }
        else
        {
            if ( n < 1 || o[ 0 ] != 0x07 ) return r;
            if ( n == 1 ) { r.k = Resp::empty; return r; }
            if ( ( n - 1 ) % 4 ) return r;
            for ( std::size_t p = 1; p != n; p += 4 ) r.e.push_back( Entry{ rd16( o + p ), rd16( o + p + 2 ), Type() } );
        }
        r.k = Resp::data;
        return r;
    }

    Fail check_single( const Case& c, std::uint16_t s, const Resp& r ) const
    {
        const char* k = kn[ c.kind ];
        const std::string io = " [request " + cl.in_hex() + " -> " + cl.out_hex() + "]";
        if ( r.k == Resp::crashed ) return Fail{ mc::fmt( "%s-crash:%s", k, cl.problem.c_str() ), "server crashed / overran the output buffer" + io };
        if ( r.k == Resp::malformed ) return Fail{ mc::fmt( "%s-malformed-response", k ), "response is neither an Error Response nor a well formed data response" + io };
        if ( r.k == Resp::empty ) return Fail{ mc::fmt( "%s-empty-data-response", k ), "data response without a single service" + io };
        const bool valid_range = s != 0 && s <= c.e;
        if ( r.k == Resp::error )
        {
            if ( r.code == 0x0A && valid_range )
            {
                auto R = reference( c, s, c.e );
                if ( !R.empty() )
                    return Fail{ mc::fmt( "%s-not-found-although-primary-exists%s", k, R[ 0 ]->has_include ? ":service-with-include" : "" ),
                                 mc::fmt( "Attribute Not Found although the primary service 0x%04x..0x%04x starts inside 0x%04x..0x%04x", R[ 0 ]->start, R[ 0 ]->end, s, c.e ) + io };
            }
            return Fail{};
        }
        std::uint32_t prev = 0;
        for ( const Entry& en : r.e )
        {
            const ref_service* sv = service_at( en.handle );
            const ref_attr* a = db.find( en.handle );
            const bool in_range = en.handle >= s && en.handle <= c.e;
            // the range check of Read By Group Type is decided by C02; Find By Type Value is not part of C02
            if ( c.kind == FBTV && !in_range )
                return Fail{ mc::fmt( "%s-handle-out-of-range:%s:end-%s", k, !valid_range ? "invalid-range" : en.handle > c.e ? "above-end" : "below-start", db.on_off( c.e ) ),
                             mc::fmt( "found handle 0x%04x is outside the requested range 0x%04x..0x%04x", en.handle, s, c.e ) + io };
            if ( !sv )
                return Fail{ db.has_include ? mc::fmt( "%s-reports-non-service", k ) : mc::fmt( "%s-reports-non-service:%s", k, a ? kind_name( a->kind ) : "unknown-handle" ),
                             mc::fmt( "handle 0x%04x (%s) is not the handle of a service declaration", en.handle, a ? kind_name( a->kind ) : "no attribute" ) + io };
            if ( sv->secondary )
                return Fail{ mc::fmt( "%s-returns-secondary", k ),
                             mc::fmt( "secondary service 0x%04x..0x%04x (uuid %s) reported by primary service discovery", sv->start, sv->end, uuid_of( *sv ).str().c_str() ) + io };
            if ( c.kind == FBTV && !same_bytes( uuid_of( *sv ), c.value ) )
                return Fail{ mc::fmt( "%s-wrong-uuid", k ), mc::fmt( "service 0x%04x has uuid %s, requested %s", sv->start, uuid_of( *sv ).str().c_str(), c.value.str().c_str() ) + io };
            if ( c.kind == RBGT && !same_bytes( uuid_of( *sv ), en.uuid ) )
                return Fail{ mc::fmt( "%s-wrong-uuid", k ), mc::fmt( "service 0x%04x reported with uuid %s, declared %s", sv->start, en.uuid.str().c_str(), uuid_of( *sv ).str().c_str() ) + io };
            const bool last_service = sv == &db.svcs[ db.n_svcs - 1 ];
            if ( en.end != sv->end && !( last_service && en.end == 0xFFFF ) )
                return Fail{ mc::fmt( "%s-wrong-group-end:%s", k, sv->has_include ? "service-with-include" : "plain" ),
                             mc::fmt( "service 0x%04x reported with end group handle 0x%04x, declared end is 0x%04x", sv->start, en.end, sv->end ) + io };
            if ( en.handle <= prev )
                return Fail{ mc::fmt( "%s-not-ascending", k ), mc::fmt( "service 0x%04x follows group end 0x%04x", en.handle, prev ) + io };
            prev = en.end;
        }
        return Fail{};
    }

    std::string req_class( const Case& c ) const
    {
        if ( c.s == 0 || c.s > c.e ) return mc::fmt( "%s:%s", kn[ c.kind ], c.s == 0 ? "start-zero" : "start>end" );
        std::string v;
        if ( c.kind == FBTV )
        {
            bool prim = false, sec = false;
            for ( std::size_t i = 0; i != db.n_svcs; ++i )
                if ( same_bytes( uuid_of( db.svcs[ i ] ), c.value ) ) ( db.svcs[ i ].secondary ? sec : prim ) = true;
            v = mc::fmt( ":uuid%u-%s", c.value.n * 8, prim && sec ? "primary+secondary" : prim ? "primary" : sec ? "secondary" : "unknown" );
        }
        return mc::fmt( "%s%s:s-%s:e-%s", kn[ c.kind ], v.c_str(), db.pos_class( c.s ), c.e == 0xFFFF ? "ffff" : db.pos_class( c.e ) );
    }

    std::vector< Fail > eval( const Case& c, std::string* outcome = nullptr )
    {
        std::vector< Fail > fails;
        cl.set_mtu( c.mtu );
        std::vector< std::uint16_t > got;
        std::uint32_t cur = c.s;
        bool first = true, closure_applicable = c.s != 0 && c.s <= c.e;
        std::string oc;
        for ( std::size_t iter = 0; iter != db.n_svcs + 4; ++iter )
        {
            send( c, std::uint16_t( cur ) );
            const Resp r = parse( c );
            if ( first )
                oc = r.k == Resp::error ? mc::fmt( "error%02x", r.code ) : r.k == Resp::data ? ( r.e.size() == 1 ? "data1" : "dataN" ) : r.k == Resp::crashed ? "crash" : r.k == Resp::empty ? "empty" : "malformed";
            Fail f = check_single( c, std::uint16_t( cur ), r );
            if ( !f.sig.empty() )
            {
                if ( first ) fails.push_back( f );
                closure_applicable = false;
                break;
            }
            if ( r.k == Resp::error )
            {
                if ( r.code != 0x0A && closure_applicable && !reference( c, cur, c.e ).empty() )
                {
                    if ( first )
                        fails.push_back( Fail{ mc::fmt( "%s-error-instead-of-data", kn[ c.kind ] ), mc::fmt( "error 0x%02x although a primary service starts in 0x%04x..0x%04x [request %s -> %s]", r.code, cur, c.e, cl.in_hex().c_str(), cl.out_hex().c_str() ) } );
                    closure_applicable = false;
                }
                break;
            }
            if ( !closure_applicable ) break;
            for ( auto& en : r.e ) got.push_back( en.handle );
            const std::uint32_t last = r.e.back().end;
            first = false;
            if ( last >= c.e || last == 0xFFFF ) break;
            cur = last + 1u;
        }
        if ( outcome ) *outcome = oc;
        if ( !closure_applicable || !fails.empty() ) return fails;
        for ( auto sv : reference( c, c.s, c.e ) )
        {
            const std::size_t n = std::count( got.begin(), got.end(), sv->start );
            if ( n == 1 ) continue;
            std::string hs; for ( auto h : got ) hs += mc::fmt( " %04x", h );
            fails.push_back( Fail{ mc::fmt( n ? "%s-closure-duplicate" : "%s-closure-missed-primary", kn[ c.kind ] ),
                                   mc::fmt( "iterating over 0x%04x..0x%04x (start := end group handle + 1) returns the primary service 0x%04x %zu times; returned services:%s", c.s, c.e, sv->start, n, hs.c_str() ) } );
            break;
        }
        return fails;
    }
};

// Every signature raised on a server with include_service names that fact: the handle table of such a server is already
// inconsistent (C04) and the discovery results are a consequence of it. Exception: a *secondary* service reported as primary.
std::string final_sig( const Db& db, const std::string& sig )
{
    if ( !db.has_include || sig.find( "-with-include" ) != std::string::npos || sig.find( "-returns-secondary" ) != std::string::npos ) return sig;
    return sig + ":cfg-with-include";
}

bool parse_case( const std::string& l, Case& c )
{
    unsigned kind, s, e, mtu; char v[ 64 ] = "";
    if ( sscanf( l.c_str(), "case kind=%u s=%u e=%u mtu=%u value=%63s", &kind, &s, &e, &mtu, v ) < 4 ) return false;
    c.kind = int( kind ); c.s = std::uint16_t( s ); c.e = std::uint16_t( e ); c.mtu = std::uint16_t( mtu );
    auto b = mc::unhex( v );
    c.value = Type::raw( b.data(), b.size() );
    return true;
}

} // namespace

int main( int argc, char** argv )
{
    mc::Args a = mc::parse_args( argc, argv );
    mc::Report rep; rep.property = "C03"; rep.unit = a.opt.count( "unit" ) ? a.opt[ "unit" ] : std::string( "C03_primary_services-" ) + gen::config_name;

    static Checker ck;
    ck.db = gen::db();
    ck.cl.init();

    if ( !a.replay.empty() )
    {
        mc::ReplayFile rf = mc::read_replay( a.replay );
        int rc = 0;
        ck.cl.verbose = true;
        for ( auto& st : rf.steps )
        {
            Case c;
            if ( !parse_case( st, c ) ) { printf( "unparsable step: %s\n", st.c_str() ); continue; }
            printf( "replaying %s\n", ck.case_text( c ).c_str() );
            for ( auto& f : ck.eval( c ) )
            {
                printf( "  FAIL %s: %s\n", final_sig( ck.db, f.sig ).c_str(), f.detail.c_str() );
                if ( final_sig( ck.db, f.sig ) == rf.sig ) { printf( "REPRODUCED %s\n", rf.sig.c_str() ); rc = 1; }
            }
        }
        if ( !rc ) printf( "not reproduced\n" );
        return rc;
    }

    const Db& db = ck.db;
    std::vector< std::uint16_t > hs;
    for ( std::uint32_t h = 0; h <= std::uint32_t( db.last_handle() ) + 2; ++h ) hs.push_back( std::uint16_t( h ) );
    hs.push_back( 0xFFFF );
    const std::uint16_t mtus[] = { 23, 24, 48, 65, 247 };
    std::vector< Type > values;
    auto add_value = [&]( const Type& t ) { for ( auto& x : values ) if ( Checker::same_bytes( x, t ) ) return; values.push_back( t ); };
    for ( std::size_t i = 0; i != db.n_svcs; ++i ) add_value( Checker::uuid_of( db.svcs[ i ] ) );
    // near misses: every service UUID with its first / its last byte changed
    for ( std::size_t i = 0; i != db.n_svcs; ++i )
        for ( int pos = 0; pos != 2; ++pos )
        {
            Type t = Checker::uuid_of( db.svcs[ i ] );
            t.b[ pos ? t.n - 1 : 0 ] ^= 0x40;
            add_value( t );
        }
    // every prefix and every suffix (length 0..16) of every service UUID: only the exact length and content is that service
    for ( std::size_t i = 0; i != db.n_svcs; ++i )
    {
        const Type u = Checker::uuid_of( db.svcs[ i ] );
        for ( std::size_t len = 0; len <= u.n; ++len )
        {
            add_value( Type::raw( u.b, len ) );
            add_value( Type::raw( u.b + ( u.n - len ), len ) );
        }
    }
    add_value( Type::u16( 0x7777 ) );
    { const std::uint8_t u[ 16 ] = { 1, 2, 3, 4, 5, 6, 7, 8, 9, 10, 11, 12, 13, 14, 15, 16 }; add_value( Type::raw( u, 16 ) ); }

    rep.notes[ "configuration" ] = db.decl;
    rep.notes[ "excluded-declarations" ] = db.excluded;

    bool cut = false;
    std::uint64_t n = 0;
    for ( int kind = RBGT; kind <= FBTV && !cut; ++kind )
    {
        std::vector< Type > none{ Type::u16( 0x2800 ) };
        for ( auto& v : kind == RBGT ? none : values )
            for ( auto mtu : mtus )
                for ( auto s : hs )
                {
                    for ( auto e : hs )
                    {
                        Case c{ kind, s, e, v, mtu };
                        std::string outcome;
                        auto fails = ck.eval( c, &outcome );
                        ++rep.evaluations; ++n;
                        rep.cls( ck.req_class( c ) + "->" + outcome );
                        for ( auto& f : fails ) rep.fail( final_sig( db, f.sig ), ck.case_text( c ) + ": " + f.detail, { ck.case_line( c ) } );
                        if ( ( n % 4999 ) == 1 && fails.empty() && c.s && c.s <= c.e ) rep.sample( ck.case_text( c ) + " => " + ck.cl.out_hex().substr( 0, 60 ), 8 );
                    }
                    if ( a.expired() ) { cut = true; break; }
                }
    }
    rep.traces_validated = ck.cl.requests;
    std::uint64_t prim = 0, sec = 0;
    for ( std::size_t i = 0; i != db.n_svcs; ++i ) ( db.svcs[ i ].secondary ? sec : prim )++;
    rep.counters[ "primary services" ] = prim; rep.counters[ "secondary services" ] = sec;
    rep.counters[ "handle-alphabet" ] = hs.size(); rep.counters[ "uuid values" ] = values.size(); rep.counters[ "requests" ] = ck.cl.requests;
    if ( cut ) { rep.exhaustive = false; rep.notes[ "cut" ] = mc::fmt( "deadline hit after %llu cases", (unsigned long long)n ); }

    for ( auto& v : rep.violations )
    {
        Case c; bool ok = parse_case( v.second.trace[ 0 ], c );
        for ( int k = 0; k != 2 && ok; ++k )
        {
            bool hit = false;
            for ( auto& f : ck.eval( c ) ) hit = hit || final_sig( db, f.sig ) == v.first;
            ok = hit;
        }
        if ( !ok ) { fprintf( stderr, "NONDETERMINISM: %s not reproduced\n", v.first.c_str() ); return 2; }
    }
    rep.write( a );
    return 0;
}
