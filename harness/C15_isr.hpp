// Thorough extension of the C15 / C16 / C17 world: the device under test is the real
// bluetoe::nrf52_details::nrf52_radio_base< CallBacks, Hardware, ll_data_pdu_buffer<...> > with its own
// schedule_connection_event(), radio_interrupt_handler() and run(); only `Hardware` (register access) is a scripted fake.
// So the decision table "which buffer function is called for which (anchor, pdu, crc) triple" is part of the DUT.
// Built on the host against /verif/stubs/nrf.h; the four CMSIS intrinsics the header uses are defined here.
#ifndef VERIF_C15_ISR_HPP
#define VERIF_C15_ISR_HPP

#include <cstdint>
inline void          __WFI() {}
inline std::uint32_t __get_PRIMASK() { return 0; }
inline void          __disable_irq() {}
inline void          __set_PRIMASK( std::uint32_t ) {}

#include <bluetoe/nrf52.hpp>
#include "C15_world.hpp"

namespace c15 {

struct FakeHwState
{
    std::uint8_t*       rx_buf;  std::size_t rx_size;    // configure_receive_train
    const std::uint8_t* tx_buf;  std::size_t tx_size;    // configure_final_transmit
    std::uint8_t        valid_anchor, valid_pdu, valid_crc; // scripted answer of received_pdu()
};

struct FakeHw
{
    static FakeHwState st;
    static void ( *isr )( void* );
    static void* that;

    using lock_guard = hooked_lock_guard;

    static void init( void ( *i )( void* ), void* t ) { isr = i; that = t; }
    static int  pdu_gap_required_by_encryption() { return 0; }
    static void configure_radio_channel( unsigned ) {}
    static void configure_transmit_train( const write_buffer& ) {}
    static void configure_final_transmit( const write_buffer& b ) { st.tx_buf = b.buffer; st.tx_size = b.size; }
    static void configure_receive_train( const read_buffer& b )   { st.rx_buf = b.buffer; st.rx_size = b.size; }
    static void stop_radio() {}
    static void store_timer_anchor( int ) {}
    static std::tuple< bool, bool, bool > received_pdu() { return std::tuple< bool, bool, bool >{ st.valid_anchor != 0, st.valid_pdu != 0, st.valid_crc != 0 }; }
    static std::uint32_t now() { return 0; }
    static void setup_identity_resolving( const std::uint8_t* ) {}
    static bool resolving_address_invalid() { return false; }
    static bool schedule_advertisment_event_timer( bluetoe::link_layer::delta_time, std::uint32_t, std::uint32_t ) { return true; }
    static void schedule_connection_event_timer( std::uint32_t, std::uint32_t, std::uint32_t ) {}
    static void stop_timeout_timer() {}
    static std::pair< bool, bluetoe::link_layer::delta_time > can_stop_connection_event_timer( std::uint32_t ) { return { false, bluetoe::link_layer::delta_time() }; }
    static bool user_timer_anchor_moved() { return false; }
    static std::uint32_t static_random_address_seed() { return 1; }
    static void set_access_address_and_crc_init( std::uint32_t, std::uint32_t ) {}
    static void set_phy( bluetoe::link_layer::phy_ll_encoding::phy_ll_encoding_t, bluetoe::link_layer::phy_ll_encoding::phy_ll_encoding_t ) {}
};

FakeHwState FakeHw::st;
void ( *FakeHw::isr )( void* ) = nullptr;
void* FakeHw::that = nullptr;

struct fake_sleep_clock
{
    using meta_type = bluetoe::nrf::nrf_details::sleep_clock_source_meta_type;
    static void start_clocks() {}
    static void stop_high_frequency_crystal_oscilator() {}
};

template < std::size_t TX, std::size_t RX >
struct IsrRadio : bluetoe::nrf52_details::nrf52_radio_base< IsrRadio< TX, RX >, FakeHw,
                        bluetoe::link_layer::ll_data_pdu_buffer< TX, RX, IsrRadio< TX, RX > >, fake_sleep_clock >
{
    using base = bluetoe::nrf52_details::nrf52_radio_base< IsrRadio< TX, RX >, FakeHw,
                        bluetoe::link_layer::ll_data_pdu_buffer< TX, RX, IsrRadio< TX, RX > >, fake_sleep_clock >;

    std::uint8_t rx_cnt, tx_cnt;
    std::uint8_t last_callback;     // 1: timeout(), 2: end_event()

    IsrRadio() : rx_cnt( 0 ), tx_cnt( 0 ), last_callback( 0 ) {}

    void increment_receive_packet_counter()  { rx_cnt = std::uint8_t( ( rx_cnt + 1 ) % IDM ); }
    void increment_transmit_packet_counter() { tx_cnt = std::uint8_t( ( tx_cnt + 1 ) % IDM ); }

    // CallBacks of the scheduled radio
    void adv_received( const read_buffer& ) {}
    void adv_timeout() {}
    void timeout() { last_callback = 1; }
    void end_event( bluetoe::link_layer::connection_event_events ) { last_callback = 2; }
    void try_event_cancelation() {}
    void user_timer( bool ) {}
    bool is_scan_request_in_filter( const bluetoe::link_layer::device_address& ) const { return true; }

    // ---- driver ---------------------------------------------------------------------------------------------------
    static constexpr bool real_isr = true;
    static constexpr std::size_t tx_size = TX, rx_size = RX;
    static const char* dut_name() { return "real nrf52_radio_base (schedule_connection_event, radio_interrupt_handler, run) with a scripted fake Hardware"; }
    static void extra_regions( mc::Regions& r ) { r.add( FakeHw::st ); }

    // radio objects have static storage duration on the target: the flags the constructor leaves alone start as zero
    template < class P > static void place( P& p )
    {
        memset( &FakeHw::st, 0, sizeof FakeHw::st );
        memset( p.raw, 0, sizeof p.raw );
        new ( p.raw ) IsrRadio();
    }

    bool can_receive() const { return this->allocate_receive_buffer().size != 0; }

    bool event_begin( read_buffer& rb )
    {
        using bluetoe::link_layer::delta_time;
        this->schedule_connection_event( 7, delta_time( 20000 ), delta_time( 21000 ), delta_time( 30000 ) );
        rb = read_buffer{ FakeHw::st.rx_buf, FakeHw::st.rx_size };
        return rb.buffer == &this->empty_receive_[ 0 ];
    }

    bool event_radio( int fault, bool, read_buffer, write_buffer& trans )
    {
        FakeHw::st.valid_anchor = fault != 1;               // 1: lost
        FakeHw::st.valid_crc    = fault == 0 || fault == 3; // 2: CRC error
        FakeHw::st.valid_pdu    = fault == 0;               // 3: MIC error
        FakeHw::st.tx_buf = nullptr; FakeHw::st.tx_size = 0;
        FakeHw::isr( FakeHw::that );                        // RADIO DISABLED after the reception / the timeout
        if ( this->state_ != base::state::evt_transmiting_closing ) return false;
        trans = write_buffer{ FakeHw::st.tx_buf, FakeHw::st.tx_size };
        return true;
    }

    bool event_end( bool answered )
    {
        if ( answered ) FakeHw::isr( FakeHw::that );       // RADIO DISABLED after the transmission
        if ( !this->evt_timeout_ && !this->end_evt_ ) return false;
        last_callback = 0;
        this->run();
        return last_callback == ( answered ? 2 : 1 ) && this->state_ == base::state::idle;
    }
};

} // namespace c15

#endif
