// Shared by the C02, C03 and C04 harnesses: the reference attribute table produced by /verif/gen/servers.py and a tiny ATT
// client that drives the real bluetoe::server<> through l2cap_input().
#ifndef VERIF_C02_GATTDB_HPP
#define VERIF_C02_GATTDB_HPP

#include "mc/mc.hpp"
#include <iterator>
#include <algorithm>
#include <cstdint>
#include <cstddef>

namespace gattdb {

enum kind : std::uint8_t { k_service, k_include, k_chardecl, k_value, k_cccd, k_userdesc, k_descriptor };

inline const char* kind_name( std::uint8_t k )
{
    static const char* const n[] = { "service-declaration", "include-declaration", "characteristic-declaration", "characteristic-value", "cccd", "user-description", "descriptor" };
    return k < 7 ? n[ k ] : "?";
}

struct ref_attr
{
    std::uint16_t handle;
    std::uint8_t  kind;
    std::uint8_t  type128;        // 1: 128 bit attribute type
    std::uint8_t  type[ 16 ];     // little endian, 2 or 16 bytes used
    std::uint8_t  svc;            // index into ref_service
    std::uint8_t  readable;
    std::uint8_t  flags;          // bit 0: characteristic without explicit UUID (UUID derived from the service UUID)
    std::uint16_t vlen;           // expected value (initial value for bound characteristic values)
    std::uint8_t  value[ 320 ];
};

struct ref_service
{
    std::uint16_t start, end;
    std::uint8_t  secondary;
    std::uint8_t  uuid128;
    std::uint8_t  uuid[ 16 ];
    std::uint16_t first, count;   // attribute indices
    std::uint8_t  has_include;
};

struct Db
{
    const char* name; const char* decl; const char* excluded;
    const ref_attr* attrs; std::size_t n_attrs;
    const ref_service* svcs; std::size_t n_svcs;
    bool has_include, has_secondary;

    std::uint16_t last_handle() const { return attrs[ n_attrs - 1 ].handle; }
    const ref_attr* find( std::uint16_t h ) const
    {
        for ( std::size_t i = 0; i != n_attrs; ++i ) if ( attrs[ i ].handle == h ) return &attrs[ i ];
        return nullptr;
    }
    // index of the first attribute with handle >= h, n_attrs if none
    std::size_t lower_bound( std::uint16_t h ) const
    {
        std::size_t i = 0;
        while ( i != n_attrs && attrs[ i ].handle < h ) ++i;
        return i;
    }
    // class of a handle used in signatures / outcome classes
    const char* pos_class( std::uint16_t h ) const
    {
        if ( h == 0 ) return "zero";
        if ( find( h ) ) return "on-attribute";
        if ( h < attrs[ 0 ].handle ) return "before-first";
        if ( h > last_handle() ) return "beyond-last";
        return "in-gap";
    }
    const char* on_off( std::uint16_t h ) const { return find( h ) ? "on-attribute" : "off-attribute"; }
};

// attribute type as it is compared on the air: 2 or 16 bytes; a 16 bit type also matches its Bluetooth base UUID expansion
struct Type
{
    std::uint8_t b[ 16 ]; std::uint8_t n;
    static Type u16( std::uint16_t v ) { Type t; memset( &t, 0, sizeof t ); t.b[ 0 ] = v & 0xff; t.b[ 1 ] = v >> 8; t.n = 2; return t; }
    static Type raw( const std::uint8_t* p, std::size_t n ) { Type t; memset( &t, 0, sizeof t ); memcpy( t.b, p, n ); t.n = std::uint8_t( n ); return t; }
    static Type of( const ref_attr& a ) { return raw( a.type, a.type128 ? 16 : 2 ); }
    Type expanded() const
    {
        static const std::uint8_t base[ 12 ] = { 0xFB, 0x34, 0x9B, 0x5F, 0x80, 0x00, 0x00, 0x80, 0x00, 0x10, 0x00, 0x00 };
        if ( n == 16 ) return *this;
        Type t; memcpy( t.b, base, 12 ); t.b[ 12 ] = b[ 0 ]; t.b[ 13 ] = b[ 1 ]; t.b[ 14 ] = 0; t.b[ 15 ] = 0; t.n = 16; return t;
    }
    bool same( const Type& o ) const { Type x = expanded(), y = o.expanded(); return memcmp( x.b, y.b, 16 ) == 0; }
    std::string str() const { std::string s; for ( int i = n; i-- > 0; ) s += mc::fmt( "%02x", b[ i ] ); return s; }
};

// ATT client on top of the real server
template < class Server >
struct Client
{
    using connection_t = typename Server::template channel_data_t< bluetoe::details::link_state >;
    static constexpr std::size_t guard = 16, max_mtu = 512;

    mc::Placed< Server >       srv;
    mc::Placed< connection_t > con;
    std::uint8_t  outbuf[ guard + max_mtu + guard ];
    std::uint8_t  inbuf[ 64 ];
    std::size_t   in_n = 0, out_n = 0;
    std::uint16_t mtu = 23;
    std::string   problem;          // "" | "signal-11" | "asan" | "output-overrun" | "output-larger-than-mtu"
    std::uint64_t requests = 0;
    bool          verbose = false;

    void init() { srv.construct(); con.construct(); }
    void set_mtu( std::uint16_t m ) { mtu = m; con->client_mtu( m ); }

    const std::uint8_t* out() const { return outbuf + guard; }

    void request( const std::uint8_t* p, std::size_t n )
    {
        memcpy( inbuf, p, n ); in_n = n;
        memset( outbuf, 0xA5, sizeof outbuf );
        out_n = mtu;
        ++requests;
        problem = mc::Guard::call( [&]{ srv->l2cap_input( inbuf, in_n, outbuf + guard, out_n, con.get() ); } );
        if ( problem.empty() )
        {
            if ( out_n > mtu ) problem = "output-larger-than-mtu";
            for ( std::size_t i = 0; i != guard; ++i )
                if ( outbuf[ i ] != 0xA5 || outbuf[ guard + mtu + i ] != 0xA5 ) problem = "output-overrun";
        }
        else out_n = 0;
        if ( verbose ) printf( "    mtu %u  %s -> %s %s\n", mtu, mc::hex( inbuf, in_n ).c_str(), mc::hex( out(), std::min< std::size_t >( out_n, max_mtu ) ).c_str(), problem.c_str() );
    }

    void range_request( std::uint8_t opcode, std::uint16_t s, std::uint16_t e, const std::uint8_t* tail, std::size_t tn )
    {
        std::uint8_t b[ 64 ] = { opcode, std::uint8_t( s & 0xff ), std::uint8_t( s >> 8 ), std::uint8_t( e & 0xff ), std::uint8_t( e >> 8 ) };
        memcpy( b + 5, tail, tn );
        request( b, 5 + tn );
    }

    bool is_error() const { return out_n == 5 && out()[ 0 ] == 0x01; }
    std::uint8_t  error_code() const { return out()[ 4 ]; }
    std::uint16_t error_handle() const { return out()[ 2 ] | ( out()[ 3 ] << 8 ); }
    std::string   in_hex() const { return mc::hex( inbuf, in_n ); }
    std::string   out_hex() const { return mc::hex( out(), std::min< std::size_t >( out_n, max_mtu ) ); }
};

inline std::uint16_t rd16( const std::uint8_t* p ) { return std::uint16_t( p[ 0 ] | ( p[ 1 ] << 8 ) ); }

} // namespace gattdb

#endif
