// Shared by the C19 harnesses: the device under test is the real
//     ll_l2cap_sdu_buffer< radio, radio, MTU >   with   radio : ll_data_pdu_buffer< RING, RING, radio >
// (the way link_layer<> stacks the two classes; the "receive callback" is the radio itself as in
// tests/link_layer/ll_l2cap_sdu_buffer_tests.cpp).  Configuration by -DC19_MTU=<n> -DC19_MAX=<max rx/tx size> [-DC19_NRF].
#ifndef VERIF_C19_COMMON_HPP
#define VERIF_C19_COMMON_HPP

#include "../mc/mc.hpp"
#include <cstddef>
#if defined( __SANITIZE_ADDRESS__ )
#include <sanitizer/asan_interface.h>
#else
#define ASAN_POISON_MEMORY_REGION( a, n ) ( (void)( a ), (void)( n ) )
#endif
#include <bluetoe/ll_data_pdu_buffer.hpp>
#include <bluetoe/ll_l2cap_sdu_buffer.hpp>

#ifdef C19_NRF
#include "bluetoe/bindings/nordic/include/bluetoe/nrf.hpp"
namespace c19 { using layout_t = bluetoe::nrf_details::encrypted_pdu_layout; static const char* const layout_name = "nrf-encrypted"; }
#else
namespace c19 { using layout_t = bluetoe::link_layer::default_pdu_layout; static const char* const layout_name = "default"; }
#endif

#ifndef C19_MTU
#define C19_MTU 65
#endif
#ifndef C19_MAX
#define C19_MAX 29
#endif

// see C18_pdu_ring.cpp: the search itself churns through small heap blocks, nothing under test uses the heap
extern "C" const char* __asan_default_options() { return "quarantine_size_mb=1:thread_local_quarantine_size_kb=64:suppress_equal_pcs=0:symbolize=0:fast_unwind_on_fatal=1:malloc_context_size=2:print_legend=0"; }

namespace c19 { template < std::size_t TX, std::size_t RX > struct radio; }
namespace bluetoe { namespace link_layer {
    template < std::size_t TX, std::size_t RX > struct pdu_layout_by_radio< c19::radio< TX, RX > > { using pdu_layout = c19::layout_t; };
} }

namespace c19 {

using bluetoe::link_layer::read_buffer;
using bluetoe::link_layer::write_buffer;

constexpr int MTU  = C19_MTU;
constexpr int MAXS = C19_MAX;                                                   // max_rx_size() == max_tx_size() (header + payload)
constexpr int OVER = int( layout_t::data_channel_pdu_memory_size( 0 ) ) - 2;    // layout overhead
constexpr int LLOH = 2 + OVER;                                                  // bytes in memory in front of the LL payload
constexpr int MAXBODY = MAXS - 2;                                               // largest LL payload on air
// both rings hold two PDUs of maximum size (61 for the default 29: the link layer's default buffer_sizes<>); with
// Size >= 2 * largest block the ring never gets into the state reported under C18
constexpr std::size_t RING = 2 * ( MAXS + OVER ) + 3;
constexpr std::size_t RING_MIN = 2 * ( 29 + OVER ) + 3;
// the direction a harness does not exercise gets the small ring (keeps the state image small)
#ifdef C19_TX_WORLD
constexpr std::size_t RING_TX = RING, RING_RX = RING_MIN;
#else
constexpr std::size_t RING_TX = RING_MIN, RING_RX = RING;
#endif

template < std::size_t TX, std::size_t RX >
struct radio : bluetoe::link_layer::ll_data_pdu_buffer< TX, RX, radio< TX, RX > >
{
    struct lock_guard { lock_guard() {} };
    void increment_receive_packet_counter() {}
    void increment_transmit_packet_counter() {}
    void pdu_receive_data_callback( const write_buffer& ) {}
    // the harness plays the radio hardware
    read_buffer  hw_allocate_receive_buffer() const { return this->allocate_receive_buffer(); }
    write_buffer hw_received( read_buffer b ) { return this->received( b ); }
    write_buffer hw_next_transmit() { return this->next_transmit(); }
};

using radio_t = radio< RING_TX, RING_RX >;
using base_t  = bluetoe::link_layer::ll_data_pdu_buffer< RING_TX, RING_RX, radio_t >;
using dut_t   = bluetoe::link_layer::ll_l2cap_sdu_buffer< radio_t, radio_t, MTU >;

constexpr std::size_t SDU_BUF = MTU + 2 + OVER + 4;     // what the class reserves for one SDU incl. LL header and L2CAP header

// mc::Guard::call without the signal-mask system call (handlers are installed with SA_NODEFER and an empty mask)
template < class F >
std::string guarded( F&& f )
{
    mc::Guard::install();
    const int before = mc::Guard::asan_errors();
    if ( sigsetjmp( mc::Guard::jb(), 0 ) == 0 ) { mc::Guard::armed() = 1; f(); mc::Guard::armed() = 0; }
    else return mc::fmt( "signal-%d", int( mc::Guard::last_signal() ) );
    return mc::Guard::asan_errors() != before ? "asan" : "";
}

// field map of the object for the frame oracle
struct Span { std::size_t off, len; const char* name; };
inline std::vector< Span > field_map()
{
    std::vector< Span > m;
    m.push_back( Span{ offsetof( base_t, buffer_ ), RING_TX, "ll_data_pdu_buffer::buffer_[transmit part]" } );
    m.push_back( Span{ offsetof( base_t, buffer_ ) + RING_TX, RING_RX, "ll_data_pdu_buffer::buffer_[receive part]" } );
    m.push_back( Span{ offsetof( base_t, receive_buffer_ ), sizeof( base_t::receive_buffer_ ), "ll_data_pdu_buffer::receive_buffer_ (ring)" } );
    m.push_back( Span{ offsetof( base_t, max_rx_size_ ), sizeof( std::size_t ), "max_rx_size_" } );
    m.push_back( Span{ offsetof( base_t, transmit_buffer_ ), sizeof( base_t::transmit_buffer_ ), "ll_data_pdu_buffer::transmit_buffer_ (ring)" } );
    m.push_back( Span{ offsetof( base_t, max_tx_size_ ), sizeof( std::size_t ), "max_tx_size_" } );
    m.push_back( Span{ offsetof( base_t, sequence_number_ ), offsetof( dut_t, receive_buffer_ ) - offsetof( base_t, sequence_number_ ), "sequence numbers / empty PDU" } );
    m.push_back( Span{ offsetof( dut_t, receive_buffer_ ), SDU_BUF, "receive_buffer_" } );
    m.push_back( Span{ offsetof( dut_t, receive_buffer_ ) + SDU_BUF, offsetof( dut_t, receive_size_ ) - offsetof( dut_t, receive_buffer_ ) - SDU_BUF, "padding behind receive_buffer_" } );
    m.push_back( Span{ offsetof( dut_t, receive_size_ ), 2, "receive_size_" } );
    m.push_back( Span{ offsetof( dut_t, receive_size_ ) + 2, offsetof( dut_t, receive_buffer_used_ ) - offsetof( dut_t, receive_size_ ) - 2, "padding behind receive_size_" } );
    m.push_back( Span{ offsetof( dut_t, receive_buffer_used_ ), sizeof( std::size_t ), "receive_buffer_used_" } );
    m.push_back( Span{ offsetof( dut_t, transmit_buffer_ ), SDU_BUF, "transmit_buffer_" } );
    m.push_back( Span{ offsetof( dut_t, transmit_buffer_ ) + SDU_BUF, offsetof( dut_t, transmit_size_ ) - offsetof( dut_t, transmit_buffer_ ) - SDU_BUF, "padding behind transmit_buffer_" } );
    m.push_back( Span{ offsetof( dut_t, transmit_size_ ), 2, "transmit_size_" } );
    m.push_back( Span{ offsetof( dut_t, transmit_size_ ) + 2, offsetof( dut_t, transmit_buffer_used_ ) - offsetof( dut_t, transmit_size_ ) - 2, "padding behind transmit_size_" } );
    m.push_back( Span{ offsetof( dut_t, transmit_buffer_used_ ), sizeof( std::size_t ), "transmit_buffer_used_" } );
    return m;
}

// first byte that differs outside the spans named in `allowed`; returns "" if none
inline std::string frame_diff( const std::uint8_t* pre, const std::uint8_t* post, const std::vector< Span >& map, std::initializer_list< const char* > allowed )
{
    for ( std::size_t i = 0; i != sizeof( dut_t ); ++i )
    {
        if ( pre[ i ] == post[ i ] ) continue;
        const char* where = "(unnamed bytes of the object)";
        std::size_t rel = i;
        for ( auto& s : map ) if ( i >= s.off && i < s.off + s.len ) { where = s.name; rel = i - s.off; break; }
        bool ok = false;
        for ( const char* a : allowed ) if ( !strcmp( a, where ) ) ok = true;
        if ( !ok ) return mc::fmt( "byte %zu of %s changed (%02x -> %02x)", rel, where, pre[ i ], post[ i ] );
    }
    return "";
}

// The object sits at the start of a heap block that continues with a poisoned slack area: ASan (recover mode) reports the
// first byte written behind the object and then lets the copy go on - the slack keeps a long overflow (up to 251 bytes per
// fragment) away from the harness' own heap.
constexpr std::size_t SLACK = 2048;
inline dut_t* new_dut_block()
{
    char* p = static_cast< char* >( ::operator new( sizeof( dut_t ) + SLACK ) );
    memset( p + sizeof( dut_t ), 0xCD, SLACK );
    ASAN_POISON_MEMORY_REGION( p + sizeof( dut_t ), SLACK );
    return reinterpret_cast< dut_t* >( p );
}

} // namespace c19

#endif
