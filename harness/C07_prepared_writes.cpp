// C07 - Prepared writes are deferred, per-client and applied in order.
// E1: explicit-state BFS over the real bluetoe::server< shared_write_queue< QUEUE >, ... > with three connection objects.
// State = byte image of server + 3 connections + bound values + handler value + reference queue.
//
// Attributes: two plain read/write values, a read-only value, a value that requires encryption, an invalid handle, a
// value behind a write handler, a value behind a write handler that requires encryption and the CCCD of a notifying
// value that requires encryption (every kind of writable attribute has its own access function in bluetoe).
// Events per connection: Prepare Write( attribute x offset class x length class ), Execute Write( 0 | 1 | 2 ),
// Write Request, client_disconnected(), toggle link encryption.
//
// Oracles
//  * a Prepare Write never changes a value (bound values and the value behind a write handler);
//  * acceptance: a Prepare Write is refused for permission reasons exactly when a (zero length) Write Request to the same
//    attribute on the same connection is refused for permission / authentication / encryption reasons - decided by
//    issuing that Write Request on the same state and restoring the state afterwards;
//  * exclusiveness: while another client holds the queue the answer is Prepare Queue Full (0x09);
//  * capacity: accepted if the documented sizing rule (7 bytes overhead per element) guarantees room, refused if the data
//    physically cannot fit; in between the implementation decides and the reference follows;
//  * Execute(1) of the owner applies the reference queue in order; if an element fails: Error Response naming the failing
//    attribute and the values equal the result of some prefix of the queue not longer than the elements before the failing
//    one (ATT leaves the values undefined, tests/att/execute_write_tests.cpp pins "all before the failing one");
//    Execute(0) changes nothing; both release the queue, as does client_disconnected(); Execute(2) is rejected and changes
//    nothing; an Execute of a client that does not hold the queue does not touch the queue of the owner;
//  * after every step every connection is probed (state restored afterwards): a client can prepare iff nobody else holds
//    the queue.
#include "../mc/mc.hpp"
#include <bluetoe/server.hpp>
#include <bluetoe/service.hpp>
#include <bluetoe/characteristic.hpp>
#include <bluetoe/write_queue.hpp>
#include <bluetoe/encryption.hpp>
#include <bluetoe/link_state.hpp>

#ifndef QUEUE
#define QUEUE 64
#endif
#ifndef LITE
#define LITE 0
#endif

namespace {

constexpr int S = QUEUE;

// ---- values -----------------------------------------------------------------------------------------------------
std::uint8_t v_rw1[ 20 ];
std::uint8_t v_rw2[ 2 ];
std::uint8_t v_ro[ 2 ];
std::uint8_t v_enc[ 4 ];

// variable length value (up to 8 bytes) behind a pair of free handlers: a write sets bytes [offset, offset+size) and the
// length to offset+size - the obvious implementation of a writable string/blob
struct HandlerValue { std::uint8_t buf[ 8 ]; std::uint8_t len; std::uint8_t pad[ 3 ]; std::uint32_t write_calls; } hv;

std::uint8_t hv_write( std::size_t offset, std::size_t write_size, const std::uint8_t* value )
{
    ++hv.write_calls;
    if ( offset > sizeof hv.buf ) return bluetoe::error_codes::invalid_offset;
    if ( offset + write_size > sizeof hv.buf ) return bluetoe::error_codes::invalid_attribute_value_length;
    for ( std::size_t i = 0; i != write_size; ++i ) hv.buf[ offset + i ] = value[ i ];
    hv.len = std::uint8_t( offset + write_size );
    return bluetoe::error_codes::success;
}

std::uint8_t hv_read( std::size_t offset, std::size_t read_size, std::uint8_t* out_buffer, std::size_t& out_size )
{
    if ( offset > hv.len ) return bluetoe::error_codes::invalid_offset;
    out_size = std::min< std::size_t >( read_size, hv.len - offset );
    for ( std::size_t i = 0; i != out_size; ++i ) out_buffer[ i ] = hv.buf[ offset + i ];
    return bluetoe::error_codes::success;
}

// the same kind of value, but the characteristic requires encryption
HandlerValue hv2;
std::uint8_t v_enc_notify[ 2 ];

std::uint8_t hv2_write( std::size_t offset, std::size_t write_size, const std::uint8_t* value )
{
    ++hv2.write_calls;
    if ( offset > sizeof hv2.buf ) return bluetoe::error_codes::invalid_offset;
    if ( offset + write_size > sizeof hv2.buf ) return bluetoe::error_codes::invalid_attribute_value_length;
    for ( std::size_t i = 0; i != write_size; ++i ) hv2.buf[ offset + i ] = value[ i ];
    hv2.len = std::uint8_t( offset + write_size );
    return bluetoe::error_codes::success;
}

std::uint8_t hv2_read( std::size_t offset, std::size_t read_size, std::uint8_t* out_buffer, std::size_t& out_size )
{
    if ( offset > hv2.len ) return bluetoe::error_codes::invalid_offset;
    out_size = std::min< std::size_t >( read_size, hv2.len - offset );
    for ( std::size_t i = 0; i != out_size; ++i ) out_buffer[ i ] = hv2.buf[ offset + i ];
    return bluetoe::error_codes::success;
}

// handles: 1 service; 2/3 rw1; 4/5 rw2; 6/7 read only; 8/9 requires_encryption; 10/11 handler value;
//          12/13 handler value that requires encryption; 14/15/16 notifying value that requires encryption and its CCCD
using server_t = bluetoe::server<
    bluetoe::shared_write_queue< QUEUE >,
    bluetoe::no_gap_service_for_gatt_servers,
    bluetoe::service<
        bluetoe::service_uuid16< 0x1234 >,
        bluetoe::characteristic< bluetoe::characteristic_uuid16< 0xAA01 >, bluetoe::bind_characteristic_value< decltype( v_rw1 ), &v_rw1 > >,
        bluetoe::characteristic< bluetoe::characteristic_uuid16< 0xAA02 >, bluetoe::bind_characteristic_value< decltype( v_rw2 ), &v_rw2 > >,
        bluetoe::characteristic< bluetoe::characteristic_uuid16< 0xAA03 >, bluetoe::bind_characteristic_value< decltype( v_ro ), &v_ro >, bluetoe::no_write_access >,
        bluetoe::characteristic< bluetoe::characteristic_uuid16< 0xAA04 >, bluetoe::bind_characteristic_value< decltype( v_enc ), &v_enc >, bluetoe::requires_encryption >,
        bluetoe::characteristic< bluetoe::characteristic_uuid16< 0xAA05 >, bluetoe::free_write_blob_handler< &hv_write >, bluetoe::free_read_blob_handler< &hv_read > >,
        bluetoe::characteristic< bluetoe::characteristic_uuid16< 0xAA06 >, bluetoe::free_write_blob_handler< &hv2_write >, bluetoe::free_read_blob_handler< &hv2_read >, bluetoe::requires_encryption >,
        bluetoe::characteristic< bluetoe::characteristic_uuid16< 0xAA07 >, bluetoe::bind_characteristic_value< decltype( v_enc_notify ), &v_enc_notify >, bluetoe::notify, bluetoe::requires_encryption >
    >
>;
using conn_t = server_t::channel_data_t< bluetoe::details::link_state >;

enum AttrKind { A_RW1, A_RW2, A_RO, A_ENC, A_INVALID, A_HANDLER, A_ENC_HANDLER, A_ENC_CCCD, A_COUNT };
inline bool needs_encryption( int a ) { return a == A_ENC || a == A_ENC_HANDLER || a == A_ENC_CCCD; }
struct Attr { std::uint16_t handle; std::uint8_t size; const char* name; };
const Attr attrs[ A_COUNT ] = {
    { 3, sizeof v_rw1, "rw-value" }, { 5, sizeof v_rw2, "second-rw-value" }, { 7, sizeof v_ro, "read-only-value" },
    { 9, sizeof v_enc, "requires_encryption-value" }, { 0x0040, 2, "invalid-handle" }, { 11, sizeof hv.buf, "handler-value" },
    { 13, sizeof hv2.buf, "requires_encryption-handler-value" }, { 16, 2, "requires_encryption-cccd" } };

struct Arena
{
    std::uint8_t rw1[ 20 ], rw2[ 2 ], ro[ 2 ], enc[ 4 ], hbuf[ 8 ], hlen, h2buf[ 8 ], h2len, encn[ 2 ];
    std::uint8_t cccd[ 3 ];     // CCCD flags of the protected notifying value, per connection
    bool operator==( const Arena& o ) const { return memcmp( this, &o, sizeof *this ) == 0; }
    bool operator!=( const Arena& o ) const { return !( *this == o ); }
    std::uint8_t* mem( int a ) { return a == A_RW1 ? rw1 : a == A_RW2 ? rw2 : a == A_RO ? ro : a == A_ENC ? enc : a == A_HANDLER ? hbuf : a == A_ENC_HANDLER ? h2buf : nullptr; }
};

Arena arena_values()
{
    Arena a; memset( &a, 0, sizeof a );
    memcpy( a.rw1, v_rw1, sizeof v_rw1 ); memcpy( a.rw2, v_rw2, sizeof v_rw2 ); memcpy( a.ro, v_ro, sizeof v_ro );
    memcpy( a.enc, v_enc, sizeof v_enc ); memcpy( a.hbuf, hv.buf, sizeof hv.buf ); a.hlen = hv.len;
    memcpy( a.h2buf, hv2.buf, sizeof hv2.buf ); a.h2len = hv2.len; memcpy( a.encn, v_enc_notify, sizeof v_enc_notify );
    return a;
}

const char* changed_attr( const Arena& a, const Arena& b )
{
    if ( memcmp( a.rw1, b.rw1, sizeof a.rw1 ) ) return attrs[ A_RW1 ].name;
    if ( memcmp( a.rw2, b.rw2, sizeof a.rw2 ) ) return attrs[ A_RW2 ].name;
    if ( memcmp( a.ro, b.ro, sizeof a.ro ) ) return attrs[ A_RO ].name;
    if ( memcmp( a.enc, b.enc, sizeof a.enc ) ) return attrs[ A_ENC ].name;
    if ( memcmp( a.hbuf, b.hbuf, sizeof a.hbuf ) || a.hlen != b.hlen ) return attrs[ A_HANDLER ].name;
    if ( memcmp( a.h2buf, b.h2buf, sizeof a.h2buf ) || a.h2len != b.h2len ) return attrs[ A_ENC_HANDLER ].name;
    if ( memcmp( a.cccd, b.cccd, sizeof a.cccd ) ) return attrs[ A_ENC_CCCD ].name;
    return "requires_encryption-notify-value";
}

// ---- events ---------------------------------------------------------------------------------------------------------
constexpr int NCONN = 3;
constexpr int N_PREPARE = A_COUNT * 4 * 4;
enum { EV_EXEC0 = N_PREPARE, EV_EXEC1, EV_EXEC2, EV_WRITE, EV_DISCONNECT, EV_TOGGLE, EV_PER_CONN };
constexpr int MAX_DATA = 18;              // 23 - 5
constexpr int MAXE = QUEUE / 4 + 1;       // more elements than can physically be stored

// the data bytes of a queued element are a function of ( owner, position in the queue, index ): no need to store them
struct Elem { std::uint8_t attr, off, len; };
inline std::uint8_t data_byte( int conn, int position, int i ) { return std::uint8_t( 0x40 * ( conn + 1 ) + position * 5 + i ); }

struct World
{
    mc::Placed< server_t > srv;
    mc::Placed< conn_t >   con[ NCONN ];

    struct Ref {
        std::int8_t   owner;                // -1: queue is free
        std::uint8_t  n;                    // elements queued
        std::uint8_t  enc[ NCONN ];         // link encrypted?
        std::uint8_t  pad;
        std::uint16_t used6;                // bytes used with the implementation's layout ( data + 6 ) - only to pick interesting lengths
        Elem          q[ MAXE ];
    } ref;

    mc::Regions regs;
    std::vector< std::uint8_t > snap, snap2, pre;
    std::uint64_t noop_steps = 0;
    const char* kind = "?";             // kind of the current event (member: has to survive a siglongjmp)
    mc::Report* rep = nullptr;
    bool replaying = false;
    std::vector< bool > cls_seen = std::vector< bool >( 1 << 16, false );
    std::uint64_t requests = 0;

    World() { regions( regs ); snap.resize( regs.size() ); snap2.resize( regs.size() ); pre.resize( regs.size() ); }

    void regions( mc::Regions& r )
    {
        r.add( srv.raw, sizeof srv.raw );
        for ( auto& c : con ) r.add( c.raw, sizeof c.raw );
        r.add( v_rw1 ); r.add( v_rw2 ); r.add( v_ro ); r.add( v_enc ); r.add( hv ); r.add( hv2 ); r.add( v_enc_notify ); r.add( ref );
    }

    void init()
    {
        srv.construct();
        for ( auto& c : con ) c.construct();
        for ( std::size_t i = 0; i != sizeof v_rw1; ++i ) v_rw1[ i ] = std::uint8_t( 0x10 + i );
        v_rw2[ 0 ] = 0x31; v_rw2[ 1 ] = 0x32;
        v_ro[ 0 ] = 0x41; v_ro[ 1 ] = 0x42;
        for ( std::size_t i = 0; i != sizeof v_enc; ++i ) v_enc[ i ] = std::uint8_t( 0x51 + i );
        memset( &hv, 0, sizeof hv );
        hv.buf[ 0 ] = 0x61; hv.buf[ 1 ] = 0x62; hv.buf[ 2 ] = 0x63; hv.len = 3;
        memset( &hv2, 0, sizeof hv2 );
        hv2.buf[ 0 ] = 0x71; hv2.buf[ 1 ] = 0x72; hv2.len = 2;
        v_enc_notify[ 0 ] = 0x81; v_enc_notify[ 1 ] = 0x82;
        memset( &ref, 0, sizeof ref );
        ref.owner = -1;
    }

    // values + the CCCD flags stored in the three connection objects
    Arena arena()
    {
        Arena a = arena_values();
        for ( int i = 0; i != NCONN; ++i ) a.cccd[ i ] = std::uint8_t( con[ i ]->client_configurations().flags( 0 ) );
        return a;
    }

    int num_events() const { return NCONN * EV_PER_CONN; }

    static bool lite_enabled( int idx )
    {
        if ( !LITE ) return true;
        if ( idx >= N_PREPARE ) return idx != EV_EXEC2;
        const int a = idx / 16, o = ( idx / 4 ) % 4, l = idx % 4;
        if ( l != 1 ) return false;
        if ( a == A_RW1 ) return o == 0 || o == 1 || o == 2;
        if ( a == A_RW2 || a == A_ENC || a == A_RO || a == A_HANDLER || a == A_ENC_HANDLER || a == A_ENC_CCCD ) return o == 0;
        return false;
    }

    std::string describe( int ev ) const
    {
        const char conn = char( 'A' + ev / EV_PER_CONN );
        const int idx = ev % EV_PER_CONN;
        if ( idx < N_PREPARE )
        {
            const int a = idx / 16, o = ( idx / 4 ) % 4, l = idx % 4;
            static const char* const on[] = { "0", "1", "size", "size+1" };
            static const char* const ln[] = { "0", "1", "max-that-fits", "max-that-fits+1" };
            return mc::fmt( "%c:Prepare(%s,offset=%s,len=%s)", conn, attrs[ a ].name, on[ o ], ln[ l ] );
        }
        switch ( idx )
        {
        case EV_EXEC0: return mc::fmt( "%c:Execute(0)", conn );
        case EV_EXEC1: return mc::fmt( "%c:Execute(1)", conn );
        case EV_EXEC2: return mc::fmt( "%c:Execute(2)", conn );
        case EV_WRITE: return mc::fmt( "%c:Write(rw-value)", conn );
        case EV_DISCONNECT: return mc::fmt( "%c:client_disconnected", conn );
        default: return mc::fmt( "%c:toggle-encryption", conn );
        }
    }

    // ---- calls into bluetoe ---------------------------------------------------------------------------------------
    struct Resp
    {
        std::uint8_t d[ 32 ]; std::size_t n; bool sane;
        bool is_error() const { return n == 5 && d[ 0 ] == 0x01; }
        std::uint8_t code() const { return d[ 4 ]; }
        bool is( std::initializer_list< std::uint8_t > l ) const { return n == l.size() && std::equal( l.begin(), l.end(), d ); }
    };

    Resp att( int c, const std::uint8_t* in, std::size_t n )
    {
        Resp r; memset( r.d, 0xEE, sizeof r.d ); r.n = 23;
        srv->l2cap_input( in, n, r.d, r.n, con[ c ].get() );
        r.sane = r.n <= 23;
        for ( std::size_t i = 23; i != sizeof r.d; ++i ) if ( r.d[ i ] != 0xEE ) r.sane = false;
        if ( r.n > sizeof r.d ) r.n = sizeof r.d;
        ++requests;
        return r;
    }

    static bool permission_code( std::uint8_t code )
    {
        return code == 0x01 || code == 0x02 || code == 0x03 || code == 0x05 || code == 0x08 || code == 0x0C || code == 0x0F;
    }

    template < class F >
    void cls( mc::Ctx& c, unsigned key, F text )
    {
        if ( cls_seen[ key & 0xffff ] ) return;
        cls_seen[ key & 0xffff ] = true;
        c.cls( text() );
    }

    int owner_relation( int c ) const { return ref.owner < 0 ? 0 : ref.owner == c ? 1 : 2; }
    static const char* relation_name( int r ) { return r == 0 ? "queue-free" : r == 1 ? "own-queue" : "queue-held-by-other"; }
    const char* link_name( int c ) const { return ref.enc[ c ] ? "encrypted-link" : "unencrypted-link"; }

    int used7() const { int u = 0; for ( int i = 0; i != ref.n; ++i ) u += ref.q[ i ].len + 7; return u; }
    int used4() const { int u = 0; for ( int i = 0; i != ref.n; ++i ) u += ref.q[ i ].len + 4; return u; }

    void release_queue() { ref.owner = -1; ref.n = 0; ref.used6 = 0; memset( ref.q, 0, sizeof ref.q ); }

    std::string hex_resp( const Resp& r ) const { return mc::hex( r.d, r.n ); }

    // ---- probes after every step: who can prepare? ---------------------------------------------------------------------
    void ownership_probes( mc::Ctx& c, const char* after )
    {
        regs.save( snap2.data() );
        for ( int x = 0; x != NCONN && c.fails.empty(); ++x )
        {
            static const std::uint8_t req[] = { 0x16, 0x03, 0x00, 0x00, 0x00 };
            const Resp r = att( x, req, sizeof req );
            const bool accepted = r.n == 5 && r.d[ 0 ] == 0x17;
            const int rel = owner_relation( x );
            if ( rel == 2 )
            {
                if ( !( r.is_error() && r.code() == 0x09 ) )
                    c.fail( mc::fmt( "queue-not-exclusive:after-%s", after ),
                            mc::fmt( "connection %c holds the queue, a Prepare Write of connection %c is answered %s instead of Prepare Queue Full", 'A' + ref.owner, 'A' + x, hex_resp( r ).c_str() ) );
            }
            else if ( !accepted && used7() + 7 <= S )
            {
                c.fail( mc::fmt( "%s:after-%s", rel == 0 ? "queue-not-released" : "owner-locked-out", after ),
                        mc::fmt( "%s, %d of %d bytes used, but a Prepare Write of connection %c is answered %s", rel == 0 ? "nobody holds the queue" : "the connection holds the queue itself", used7(), S, 'A' + x, hex_resp( r ).c_str() ) );
            }
            regs.load( snap2.data() );
        }
    }

    // ---- events ----------------------------------------------------------------------------------------------------
    bool prepare( int c, int idx, mc::Ctx& ctx )
    {
        const int a = idx / 16, o = ( idx / 4 ) % 4, l = idx % 4;
        const Attr& at = attrs[ a ];
        const int off = o == 0 ? 0 : o == 1 ? 1 : o == 2 ? at.size : at.size + 1;
        const int room = S - int( ref.used6 ) - 6;                // data bytes that still fit with the implementation's layout
        const int fit = std::min( MAX_DATA, room );
        int len;
        if ( l == 0 ) len = 0;
        else if ( l == 1 ) len = 1;
        else if ( l == 2 ) { if ( room < 0 ) len = MAX_DATA; else if ( fit <= 1 ) return false; else len = fit; }
        else { if ( room < 0 || fit + 1 > MAX_DATA ) return false; len = fit + 1; }

        std::uint8_t req[ 5 + MAX_DATA ] = { 0x16, std::uint8_t( at.handle ), std::uint8_t( at.handle >> 8 ), std::uint8_t( off ), 0 };
        for ( int i = 0; i != len; ++i ) req[ 5 + i ] = data_byte( c, ref.n, i );
        const std::size_t req_size = 5 + len;

        // would a Write Request to this attribute be refused for permission reasons?  (decided on this very state)
        regs.save( snap.data() );
        const std::uint8_t wreq[] = { 0x12, req[ 1 ], req[ 2 ] };
        const Resp wr = att( c, wreq, sizeof wreq );
        regs.load( snap.data() );
        const bool write_refused = wr.is_error() && permission_code( wr.code() );

        const Arena before = arena();
        const std::uint32_t calls_before = hv.write_calls + hv2.write_calls;
        const Resp r = att( c, req, req_size );
        const bool accepted = r.n >= 1 && r.d[ 0 ] == 0x17;
        const int rel = owner_relation( c );

        if ( replaying || ( rep && rep->samples.size() < 6 ) )
            ctx.obs = mc::fmt( "%s -> %s [Write Request to the attribute: %s; %s, %s, %d elements queued]", mc::hex( req, req_size ).c_str(), hex_resp( r ).c_str(),
                               hex_resp( wr ).c_str(), link_name( c ), relation_name( rel ), int( ref.n ) );

        if ( !r.sane ) { ctx.fail( "response-exceeds-mtu:prepare", ctx.obs ); return true; }

        const Arena after = arena();
        if ( after != before )
        {
            if ( hv.write_calls + hv2.write_calls != calls_before )
                ctx.fail( "prepare-changes-value:write-handler-called-with-zero-length",
                          mc::fmt( "Prepare Write to the handler based value called the write handler with offset 0 and size 0: value length %d -> %d (%s -> %s)",
                                   int( a == A_HANDLER ? before.hlen : before.h2len ), int( a == A_HANDLER ? after.hlen : after.h2len ), mc::hex( req, req_size ).c_str(), hex_resp( r ).c_str() ) );
            else
                ctx.fail( mc::fmt( "prepare-changes-value:%s-modified", changed_attr( before, after ) ),
                          mc::fmt( "Prepare Write %s -> %s modified the %s", mc::hex( req, req_size ).c_str(), hex_resp( r ).c_str(), changed_attr( before, after ) ) );
            return true;
        }

        if ( write_refused )
        {
            if ( !r.is_error() )
            {
                ctx.fail( mc::fmt( "prepare-accepted-but-write-refused:%s:%s", at.name, link_name( c ) ),
                          mc::fmt( "Write Request answered %s, Prepare Write %s answered %s", hex_resp( wr ).c_str(), mc::hex( req, req_size ).c_str(), hex_resp( r ).c_str() ) );
                return true;
            }
            cls( ctx, 0x1000 + a * 64 + ref.enc[ c ] * 32 + rel * 8 + ( r.code() == wr.code() ? 1 : 0 ) + ( r.code() == 0x09 ? 2 : 0 ), [&]{
                return mc::fmt( "prepare:%s:%s:%s:refused-like-write(code %02x, write %02x)", at.name, link_name( c ), relation_name( rel ), r.code(), wr.code() ); } );
            return true;
        }

        // the Write Request is permitted
        if ( r.is_error() && r.code() != 0x09 )
        {
            ctx.fail( mc::fmt( "prepare-refused-but-write-permitted:%s:%s", at.name, link_name( c ) ),
                      mc::fmt( "Write Request to handle 0x%04x answered %s, but Prepare Write %s answered %s (error 0x%02x)", unsigned( at.handle ), hex_resp( wr ).c_str(),
                               mc::hex( req, req_size ).c_str(), hex_resp( r ).c_str(), unsigned( r.code() ) ) );
            return true;
        }
        if ( !accepted && !r.is_error() )
        {
            ctx.fail( "prepare-response-malformed", ctx.obs.empty() ? hex_resp( r ) : ctx.obs );
            return true;
        }
        if ( rel == 2 )
        {
            if ( accepted )
            {
                ctx.fail( "prepare-accepted-while-other-client-holds-queue",
                          mc::fmt( "connection %c holds the queue, Prepare Write %s of connection %c answered %s", 'A' + ref.owner, mc::hex( req, req_size ).c_str(), 'A' + c, hex_resp( r ).c_str() ) );
                return true;
            }
            cls( ctx, 0x2000 + a * 4 + ref.enc[ c ], [&]{ return mc::fmt( "prepare:%s:%s:queue-held-by-other:queue-full", at.name, link_name( c ) ); } );
            return true;
        }
        const bool guaranteed = used7() + len + 7 <= S;
        const bool impossible = used4() + len + 4 > S || ref.n == MAXE;
        if ( !accepted )
        {
            if ( guaranteed )
            {
                ctx.fail( mc::fmt( "prepare-queue-full-but-room-guaranteed:%s", relation_name( rel ) ),
                          mc::fmt( "%d elements with %d bytes (7 bytes overhead each) queued of %d, Prepare Write with %d data bytes answered %s", int( ref.n ), used7(), S, len, hex_resp( r ).c_str() ) );
                return true;
            }
            cls( ctx, 0x3000 + rel * 2 + ( impossible ? 1 : 0 ), [&]{ return mc::fmt( "prepare:%s:queue-full:%s", relation_name( rel ), impossible ? "data-cannot-fit" : "overhead-does-not-fit" ); } );
            return true;
        }
        if ( impossible )
        {
            ctx.fail( "prepare-accepted-beyond-queue-capacity",
                      mc::fmt( "%d elements with %d bytes of handle/offset/data queued in a queue of %d, Prepare Write with %d data bytes accepted", int( ref.n ), used4(), S, len ) );
            return true;
        }
        if ( r.n != req_size || memcmp( r.d + 1, req + 1, req_size - 1 ) != 0 )
        {
            ctx.fail( "prepare-response-not-echo", mc::fmt( "%s -> %s", mc::hex( req, req_size ).c_str(), hex_resp( r ).c_str() ) );
            return true;
        }
        Elem& e = ref.q[ ref.n ];
        e.attr = std::uint8_t( a ); e.off = std::uint8_t( off ); e.len = std::uint8_t( len );
        ++ref.n; ref.used6 = std::uint16_t( ref.used6 + len + 6 ); ref.owner = std::int8_t( c );
        cls( ctx, 0x4000 + a * 256 + o * 64 + std::min( l, 3 ) * 16 + rel * 4 + ( guaranteed ? 1 : 0 ) + ref.enc[ c ] * 2, [&]{
            return mc::fmt( "prepare:%s:offset-class%d:len-class%d:%s:%s:accepted%s", at.name, o, l, link_name( c ), relation_name( rel ), guaranteed ? "" : "(beyond documented guarantee)" ); } );
        return true;
    }

    // apply one queue element to a copy of the values; 0 = applied, else the ATT error code ( 0xff: refused for security )
    int apply_elem( Arena& v, int k, int c ) const
    {
        const Elem& e = ref.q[ k ];
        const Attr& at = attrs[ e.attr ];
        if ( needs_encryption( e.attr ) && !ref.enc[ c ] ) return 0xff;
        if ( e.off > at.size ) return 0x07;
        if ( e.off + e.len > at.size ) return 0x0d;
        if ( e.attr == A_ENC_CCCD )
        {   // only a write at offset 0 has an effect; the two configuration bits are in the first octet
            if ( e.off == 0 && e.len != 0 ) v.cccd[ c ] = data_byte( c, k, 0 ) & 3;
            return 0;
        }
        for ( int i = 0; i != e.len; ++i ) v.mem( e.attr )[ e.off + i ] = data_byte( c, k, i );
        if ( e.attr == A_HANDLER ) v.hlen = std::uint8_t( e.off + e.len );
        if ( e.attr == A_ENC_HANDLER ) v.h2len = std::uint8_t( e.off + e.len );
        return 0;
    }

    bool execute( int c, int flag, mc::Ctx& ctx )
    {
        const std::uint8_t req[] = { 0x18, std::uint8_t( flag ) };
        const Arena before = arena();
        const int rel = owner_relation( c );
        const Resp r = att( c, req, sizeof req );
        const Arena after = arena();
        if ( replaying || ( rep && rep->samples.size() < 6 ) )
            ctx.obs = mc::fmt( "%s -> %s [%s, %d elements queued]", mc::hex( req, 2 ).c_str(), hex_resp( r ).c_str(), relation_name( rel ), int( ref.n ) );
        if ( !r.sane ) { ctx.fail( "response-exceeds-mtu:execute", ctx.obs ); return true; }

        const char* const kind = flag == 0 ? "cancel" : flag == 1 ? "execute" : "execute-with-invalid-flag";
        if ( flag == 2 )
        {
            if ( !( r.is_error() && r.d[ 1 ] == 0x18 ) ) { ctx.fail( "execute-invalid-flag-not-rejected", hex_resp( r ) ); return true; }
            if ( after != before ) { ctx.fail( "execute-invalid-flag-changes-value", mc::fmt( "%s modified", changed_attr( before, after ) ) ); return true; }
            cls( ctx, 0x5000 + rel, [&]{ return mc::fmt( "execute(2):%s:rejected(code %02x)", relation_name( rel ), r.code() ); } );
        }
        else if ( flag == 0 || rel != 1 )
        {
            if ( !r.is( { 0x19 } ) ) { ctx.fail( mc::fmt( "%s-wrong-response:%s", kind, relation_name( rel ) ), hex_resp( r ) ); return true; }
            if ( after != before )
            {
                ctx.fail( mc::fmt( "%s-changes-value:%s", kind, relation_name( rel ) ),
                          mc::fmt( "Execute Write(%d) of connection %c (%s, %d elements queued by %c) modified the %s", flag, 'A' + c, relation_name( rel ), int( ref.n ), ref.owner < 0 ? '-' : 'A' + ref.owner, changed_attr( before, after ) ) );
                return true;
            }
            cls( ctx, 0x5100 + flag * 16 + rel * 4 + ( ref.n ? 1 : 0 ), [&]{ return mc::fmt( "execute(%d):%s:%s:nothing-applied", flag, relation_name( rel ), ref.n ? "elements-queued" : "queue-empty" ); } );
            if ( rel == 1 ) release_queue();
        }
        else
        {
            // owner executes: apply the reference queue in order
            static Arena sim[ MAXE + 1 ];
            sim[ 0 ] = before;
            int failed = -1, code = 0;
            for ( int k = 0; k != ref.n; ++k )
            {
                sim[ k + 1 ] = sim[ k ];
                code = apply_elem( sim[ k + 1 ], k, c );
                if ( code ) { failed = k; break; }
            }
            if ( failed < 0 )
            {
                if ( !r.is( { 0x19 } ) ) { ctx.fail( "execute-wrong-response:all-elements-valid", mc::fmt( "%d valid elements queued, Execute Write(1) answered %s", int( ref.n ), hex_resp( r ).c_str() ) ); return true; }
                if ( after != sim[ ref.n ] )
                {
                    Arena rev = before;
                    for ( int k = ref.n; k-- > 0; ) apply_elem( rev, k, c );
                    const char* how = after == before ? "nothing-applied" : after == rev && ref.n > 1 ? "applied-in-reverse-order" : "values-differ";
                    for ( int k = 0; k < ref.n && !strcmp( how, "values-differ" ); ++k ) if ( after == sim[ k ] ) how = "only-a-prefix-applied";
                    // one signature for every wrong result of a successful execute; the diagnosis is part of the detail only
                    ctx.fail( "execute-wrong-result",
                              mc::fmt( "[%s] %d elements queued by connection %c; after Execute Write(1) the %s differs from the result of applying them in order (rw-value is %s, expected %s)",
                                       how, int( ref.n ), 'A' + c, changed_attr( after, sim[ ref.n ] ), mc::hex( after.rw1, sizeof after.rw1 ).c_str(), mc::hex( sim[ ref.n ].rw1, sizeof after.rw1 ).c_str() ) );
                    return true;
                }
                cls( ctx, 0x5200 + std::min< int >( ref.n, 15 ), [&]{ return mc::fmt( "execute(1):own-queue:%d-elements-applied", int( ref.n ) ); } );
            }
            else
            {
                const Attr& at = attrs[ ref.q[ failed ].attr ];
                const bool err_ok = r.is_error() && r.d[ 1 ] == 0x18 && ( code == 0xff || ( r.code() == code && r.d[ 2 ] == ( at.handle & 0xff ) && r.d[ 3 ] == ( at.handle >> 8 ) ) );
                if ( !err_ok )
                {
                    ctx.fail( "execute-wrong-response:failing-element",
                              mc::fmt( "element %d of %d (handle 0x%04x, offset %d, %d bytes) cannot be written (expected error 0x%02x for that handle), Execute Write(1) answered %s", failed, int( ref.n ), unsigned( at.handle ), int( ref.q[ failed ].off ), int( ref.q[ failed ].len ), unsigned( code ), hex_resp( r ).c_str() ) );
                    return true;
                }
                int prefix = -1;
                for ( int k = failed; k >= 0; --k ) if ( after == sim[ k ] ) { prefix = k; break; }
                if ( prefix < 0 )
                {
                    ctx.fail( "execute-wrong-result:failing-element",
                              mc::fmt( "element %d of %d fails; the values after Execute Write(1) are not the result of any prefix of the elements before it (%s differs)", failed, int( ref.n ), changed_attr( after, sim[ failed ] ) ) );
                    return true;
                }
                cls( ctx, 0x5300 + std::min( failed, 7 ) * 16 + ( prefix == failed ? 1 : 0 ) + ( code == 0xff ? 2 : code == 0x07 ? 4 : 8 ), [&]{
                    return mc::fmt( "execute(1):own-queue:element-%d-fails(%02x):%s", failed, code, prefix == failed ? "all-before-applied" : "shorter-prefix-applied" ); } );
            }
            release_queue();
        }
        return true;
    }

    bool write( int c, mc::Ctx& ctx )
    {
        const std::uint8_t req[] = { 0x12, 0x03, 0x00, std::uint8_t( 0xC0 + c ), 0x5A };
        Arena expect = arena();
        expect.rw1[ 0 ] = req[ 3 ]; expect.rw1[ 1 ] = req[ 4 ];
        const Resp r = att( c, req, sizeof req );
        if ( replaying || ( rep && rep->samples.size() < 6 ) ) ctx.obs = mc::fmt( "%s -> %s", mc::hex( req, sizeof req ).c_str(), hex_resp( r ).c_str() );
        if ( !r.is( { 0x13 } ) ) { ctx.fail( "write-request-refused", hex_resp( r ) ); return true; }
        if ( arena() != expect ) { ctx.fail( "write-request-wrong-result", mc::fmt( "%s differs", changed_attr( arena(), expect ) ) ); return true; }
        cls( ctx, 0x6000 + owner_relation( c ), [&]{ return mc::fmt( "write:%s", relation_name( owner_relation( c ) ) ); } );
        return true;
    }

    bool body( int ev, mc::Ctx& ctx )
    {
        const int c = ev / EV_PER_CONN, idx = ev % EV_PER_CONN;
        if ( !lite_enabled( idx ) ) return false;
        if ( idx < N_PREPARE ) { kind = "prepare"; return prepare( c, idx, ctx ); }
        switch ( idx )
        {
        case EV_EXEC0: kind = "cancel"; return execute( c, 0, ctx );
        case EV_EXEC1: kind = "execute"; return execute( c, 1, ctx );
        case EV_EXEC2: kind = "execute-with-invalid-flag"; return execute( c, 2, ctx );
        case EV_WRITE: kind = "write"; return write( c, ctx );
        case EV_DISCONNECT:
        {
            kind = "disconnect";
            Arena before = arena();
            before.cccd[ c ] = 0;               // the subscriptions of the connection end with the connection
            srv->client_disconnected( con[ c ].get() );
            con[ c ].construct();               // the next connection uses a fresh connection object at the same address
            cls( ctx, 0x7000 + owner_relation( c ) * 2 + ( ref.n ? 1 : 0 ), [&]{ return mc::fmt( "disconnect:%s:%s", relation_name( owner_relation( c ) ), ref.n ? "elements-queued" : "queue-empty" ); } );
            if ( ref.owner == c ) release_queue();
            ref.enc[ c ] = 0;
            if ( arena() != before ) ctx.fail( "disconnect-changes-value", changed_attr( arena(), before ) );
            return true;
        }
        default:
            kind = "toggle-encryption";
            ref.enc[ c ] ^= 1;
            con[ c ]->is_encrypted( ref.enc[ c ] != 0 );
            con[ c ]->pairing_status( ref.enc[ c ] ? bluetoe::device_pairing_status::unauthenticated_key : bluetoe::device_pairing_status::no_key );
            return true;
        }
    }

    bool apply( int ev, mc::Ctx& ctx )
    {
        bool enabled = false;
        kind = "?";
        regs.save( pre.data() );
        // like mc::Guard::call(), but without saving the signal mask (one system call per transition less)
        mc::Guard::install();
        if ( sigsetjmp( mc::Guard::jb(), 0 ) == 0 )
        {
            mc::Guard::armed() = 1;
            enabled = body( ev, ctx );
            mc::Guard::armed() = 0;
        }
        else
        {
            ctx.fail( mc::fmt( "memory-safety:signal-%d:%s", int( mc::Guard::last_signal() ), kind ), "crash while handling " + describe( ev ) );
            return true;
        }
        if ( !enabled ) return false;
        // The probes are a function of the state image: a step that left the image untouched ends in a state that was
        // probed when it was reached ( the initial state is probed by main() ).
        if ( ctx.fails.empty() )
        {
            regs.save( snap.data() );
            if ( snap != pre ) ownership_probes( ctx, kind ); else ++noop_steps;
        }

        return true;
    }
};

} // namespace

int main( int argc, char** argv )
{
    mc::Args a = mc::parse_args( argc, argv );
    mc::Report rep; rep.property = "C07";
    rep.unit = a.opt.count( "unit" ) ? a.opt[ "unit" ] : mc::fmt( "C07_prepared_writes-q%d", QUEUE );
    static World w;
    w.rep = &rep;
    mc::BfsOptions o;
    o.max_depth = int( a.num( "depth", LITE ? ( a.thorough() ? 10 : 8 ) : ( a.thorough() ? 7 : 5 ) ) );
    o.max_states = a.thorough() ? 7000000 : 3000000;
    mc::Bfs< World > bfs( w, rep, a, o );
    if ( !a.replay.empty() ) { w.replaying = true; return bfs.replay_file( mc::read_replay( a.replay ) ); }
    {   // probes on the initial state
        w.init();
        mc::Ctx c; w.ownership_probes( c, "construction" );
        for ( auto& f : c.fails ) rep.fail( f.sig, "initial state: " + f.detail, {} );
    }
    bfs.run();
    rep.counters[ "att_requests" ] = w.requests;
    rep.counters[ "steps_without_state_change" ] = w.noop_steps;
    rep.counters[ "state_bytes" ] = bfs.isz;
    rep.counters[ "events" ] = std::uint64_t( w.num_events() );
    rep.notes[ "alphabet" ] = LITE ? "reduced alphabet (14 events per connection)" : "full alphabet (134 events per connection)";
    rep.write( a );
    return 0;
}
