// C26 - the white list behaves as a bounded set.
// E1: BFS to fixpoint over the real white list object (software list alone, radio backed list alone, both inside the real
// link_layer<>) with a reference "set of at most N addresses".  After every mutating call *all* queries are evaluated for
// *all* addresses of the universe and compared with the reference.
//
// build variants: -DC26_W=1 software list alone            white_list<3>::impl< radio without white list >
//                 -DC26_W=2 radio backed list alone        white_list<3>::impl< set-model radio with 3 entries >
//                 -DC26_W=3 link_layer< ..., llw::radio (4 entries), white_list<3> >   -> radio backed
//                 -DC26_W=4 link_layer< ..., radio announcing 2 entries, white_list<3> > -> software
#include "../mc/mc.hpp"
#include <bluetoe/white_list.hpp>
#include <bluetoe/address.hpp>

#ifndef C26_W
#define C26_W 1
#endif

#if C26_W >= 3
#include <bluetoe/server.hpp>
#include <bluetoe/service.hpp>
#include <bluetoe/characteristic.hpp>
#include "ll_world.hpp"
#endif

namespace {

using bluetoe::link_layer::device_address;

// universe: 0 and 1 differ only in the address type, 3 differs from 0 in one bit of the last byte, 4 only exists to fill a
// list of 4 entries
static const std::uint8_t addr_bytes[ 5 ][ 6 ] = {
    { 0x11, 0x22, 0x33, 0x44, 0x55, 0x66 },
    { 0x11, 0x22, 0x33, 0x44, 0x55, 0x66 },
    { 0xc0, 0x0f, 0x15, 0x08, 0x11, 0x47 },
    { 0x11, 0x22, 0x33, 0x44, 0x55, 0x67 },
    { 0x66, 0x55, 0x44, 0x33, 0x22, 0x11 } };
static const bool addr_random[ 5 ] = { false, true, true, false, true };

device_address addr( int i ) { return device_address( addr_bytes[ i ], addr_random[ i ] ); }
const char* addr_name( int i ) { static const char* n[] = { "P:11..66", "R:11..66", "R:c0..47", "P:11..67", "R:66..11" }; return n[ i ]; }

// ---- the four devices under test ------------------------------------------------------------------------------------
#if C26_W == 1
    struct no_radio { static constexpr std::size_t radio_maximum_white_list_entries = 0; };
    struct dut_t : no_radio, bluetoe::link_layer::white_list< 3 >::impl< no_radio, dut_t > {};
    static constexpr int capacity = 3, universe = 4;
    static const char* const dut_name = "software-alone";
    static constexpr bool radio_backed = false;
#elif C26_W == 2
    // boring set model with the radio_* interface of scheduled_radio; deliberately not the same data structure as the
    // software list ( flags per slot instead of a fill level )
    struct set_radio
    {
        static constexpr std::size_t radio_maximum_white_list_entries = 3;
        device_address slot[ 3 ]; std::uint8_t used[ 3 ]; std::uint8_t cf, sf;
        std::uint32_t calls;      // number of radio_* calls (delegation must be 1:1)
        set_radio() : cf( 0 ), sf( 0 ), calls( 0 ) { for ( auto& u : used ) u = 0; }

        bool radio_is_in_white_list( const device_address& a ) const { ++const_cast< set_radio* >( this )->calls; return has( a ); }
        bool has( const device_address& a ) const { for ( int i = 0; i != 3; ++i ) if ( used[ i ] && slot[ i ] == a ) return true; return false; }
        bool radio_add_to_white_list( const device_address& a )
        {
            ++calls;
            if ( has( a ) ) return true;
            for ( int i = 0; i != 3; ++i ) if ( !used[ i ] ) { slot[ i ] = a; used[ i ] = 1; return true; }
            return false;
        }
        bool radio_remove_from_white_list( const device_address& a )
        {
            ++calls;
            for ( int i = 0; i != 3; ++i ) if ( used[ i ] && slot[ i ] == a ) { used[ i ] = 0; return true; }
            return false;
        }
        std::size_t radio_white_list_free_size() const { ++const_cast< set_radio* >( this )->calls; return std::size_t( !used[ 0 ] ) + !used[ 1 ] + !used[ 2 ]; }
        void radio_clear_white_list() { ++calls; used[ 0 ] = used[ 1 ] = used[ 2 ] = 0; }
        void radio_connection_request_filter( bool b ) { ++calls; cf = b; }
        bool radio_connection_request_filter() const { ++const_cast< set_radio* >( this )->calls; return cf; }
        void radio_scan_request_filter( bool b ) { ++calls; sf = b; }
        bool radio_scan_request_filter() const { ++const_cast< set_radio* >( this )->calls; return sf; }
        bool radio_is_connection_request_in_filter( const device_address& a ) const { ++const_cast< set_radio* >( this )->calls; return !cf || has( a ); }
        bool radio_is_scan_request_in_filter( const device_address& a ) const { ++const_cast< set_radio* >( this )->calls; return !sf || has( a ); }
    };
    struct dut_t : set_radio, bluetoe::link_layer::white_list< 3 >::impl< set_radio, dut_t > {};
    static constexpr int capacity = 3, universe = 4;
    static const char* const dut_name = "radio-backed-alone";
    static constexpr bool radio_backed = true;
#else
    std::uint8_t char_value = 0;
    using server_t = bluetoe::server<
        bluetoe::no_gap_service_for_gatt_servers,
        bluetoe::service< bluetoe::service_uuid16< 0x1234 >,
            bluetoe::characteristic< bluetoe::characteristic_uuid16< 0x2345 >, bluetoe::bind_characteristic_value< std::uint8_t, &char_value > > > >;
  #if C26_W == 3
    using dut_t = bluetoe::link_layer::link_layer< server_t, llw::radio, bluetoe::link_layer::white_list< 3 > >;
    static constexpr int capacity = 4, universe = 5;     // llw::radio has 4 entries, see assumptions
    static const char* const dut_name = "radio-backed-in-link-layer";
    static constexpr bool radio_backed = true;
  #else
    template < std::size_t T, std::size_t R, class CB >
    struct small_radio : llw::radio< T, R, CB > { static constexpr std::size_t radio_maximum_white_list_entries = 2; };
    using dut_t = bluetoe::link_layer::link_layer< server_t, small_radio, bluetoe::link_layer::white_list< 3 > >;
    static constexpr int capacity = 3, universe = 4;
    static const char* const dut_name = "software-in-link-layer";
    static constexpr bool radio_backed = false;
  #endif
#endif

struct World
{
    mc::Placed< dut_t > dut;
    struct Ref { std::uint8_t member[ 8 ]; std::uint8_t conn, scan; } ref;
    unsigned char before[ sizeof( dut_t ) ];    // scratch (not part of the state)

    void init()
    {
        dut.construct();
        memset( &ref, 0, sizeof ref );
    }
    void regions( mc::Regions& r ) { r.add( dut.raw, sizeof dut.raw ); r.add( ref ); }

    // events
    enum { ev_add = 0, ev_remove = universe, ev_clear = 2 * universe, ev_conn_on, ev_conn_off, ev_scan_on, ev_scan_off, ev_query, ev_count };
    int num_events() const { return ev_count; }
    std::string describe( int ev ) const
    {
        if ( ev < ev_remove ) return mc::fmt( "add_to_white_list(%s)", addr_name( ev ) );
        if ( ev < ev_clear ) return mc::fmt( "remove_from_white_list(%s)", addr_name( ev - ev_remove ) );
        switch ( ev )
        {
            case ev_clear: return "clear_white_list()";
            case ev_conn_on: return "connection_request_filter(true)";
            case ev_conn_off: return "connection_request_filter(false)";
            case ev_scan_on: return "scan_request_filter(true)";
            case ev_scan_off: return "scan_request_filter(false)";
        }
        return "all queries (must not change anything)";
    }

    int ref_size() const { int n = 0; for ( int i = 0; i != universe; ++i ) n += ref.member[ i ]; return n; }
    static bool twins( int a, int b ) { return a != b && memcmp( addr_bytes[ a ], addr_bytes[ b ], 6 ) == 0; }

    // every query for every address against the reference.  op = name of the operation just executed, target = its
    // address (or -1)
    void check_all( const char* op, int target, mc::Ctx& c )
    {
        const dut_t& d = dut.get();
        // the address the operation was about first: one defect, one signature
        for ( int k = 0; k != universe; ++k )
        {
            const int i = target < 0 ? k : k == 0 ? target : k <= target ? k - 1 : k;
            const bool is = d.is_in_white_list( addr( i ) );
            if ( is != bool( ref.member[ i ] ) )
            {
                const char* kind = i == target ? ( is ? "target-still-member" : "target-not-member" )
                                 : ( target >= 0 && twins( i, target ) ) ? ( is ? "type-twin-appeared" : "type-twin-lost" )
                                 : ( is ? "other-address-appeared" : "other-address-lost" );
                c.fail( mc::fmt( "membership:after-%s:%s", op, kind ),
                        mc::fmt( "%s: after %s is_in_white_list(%s) = %d, a set would say %d", dut_name, op, addr_name( i ), is, ref.member[ i ] ) );
                return;
            }
        }
        const std::size_t fs = d.white_list_free_size();
        if ( fs != std::size_t( capacity - ref_size() ) )
        {
            c.fail( mc::fmt( "free-size:after-%s", op ), mc::fmt( "%s: white_list_free_size() = %zu with %d of %d entries used", dut_name, fs, ref_size(), capacity ) );
            return;
        }
        if ( d.connection_request_filter() != bool( ref.conn ) ) { c.fail( mc::fmt( "filter-flag:connection:after-%s", op ), mc::fmt( "%s: connection_request_filter() != %d", dut_name, ref.conn ) ); return; }
        if ( d.scan_request_filter() != bool( ref.scan ) ) { c.fail( mc::fmt( "filter-flag:scan:after-%s", op ), mc::fmt( "%s: scan_request_filter() != %d", dut_name, ref.scan ) ); return; }
        for ( int i = 0; i != universe; ++i )
        {
            const bool cf = d.is_connection_request_in_filter( addr( i ) ), sf = d.is_scan_request_in_filter( addr( i ) );
            const bool ecf = !ref.conn || ref.member[ i ], esf = !ref.scan || ref.member[ i ];
            if ( cf != ecf )
            {
                c.fail( mc::fmt( "filter:connection:%s", cf ? "accepts-non-member" : ( ref.conn ? "rejects-member" : "rejects-while-filter-off" ) ),
                        mc::fmt( "%s: is_connection_request_in_filter(%s) = %d; filter %s, member %d", dut_name, addr_name( i ), cf, ref.conn ? "on" : "off", ref.member[ i ] ) );
                return;
            }
            if ( sf != esf )
            {
                c.fail( mc::fmt( "filter:scan:%s", sf ? "accepts-non-member" : ( ref.scan ? "rejects-member" : "rejects-while-filter-off" ) ),
                        mc::fmt( "%s: is_scan_request_in_filter(%s) = %d; filter %s, member %d", dut_name, addr_name( i ), sf, ref.scan ? "on" : "off", ref.member[ i ] ) );
                return;
            }
            c.cls( mc::fmt( "query:conn-filter-%s:scan-filter-%s:%s:%s", ref.conn ? "on" : "off", ref.scan ? "on" : "off", ref.member[ i ] ? "member" : "non-member",
                            ( cf ? ( sf ? "both-accept" : "conn-accepts" ) : ( sf ? "scan-accepts" : "both-reject" ) ) ) );
        }
    }

    bool apply( int ev, mc::Ctx& c )
    {
        const bool en = apply_impl( ev, c );
#if C26_W == 2
        dut->calls = 0;     // the call counter is an observation, not part of the state
#endif
        return en;
    }

    // radio backed list: exactly one radio call per call of the white list interface
    void one_call( const char* op, mc::Ctx& c )
    {
#if C26_W == 2
        if ( dut->calls != 1 ) c.fail( mc::fmt( "delegation:call-count:%s", op ), mc::fmt( "%u radio calls for one %s", unsigned( dut->calls ), op ) );
        dut->calls = 0;
#endif
    }

    bool apply_impl( int ev, mc::Ctx& c )
    {
        dut_t& d = dut.get();
        const int n = ref_size();
        if ( ev < ev_remove )
        {
            const int i = ev;
            const bool r = d.add_to_white_list( addr( i ) );
            one_call( "add", c );
            const bool expect = ref.member[ i ] || n < capacity;
            c.obs = mc::fmt( "->%d", r );
            const char* situation = ref.member[ i ] ? ( n == capacity ? "member-of-full-list" : "member" ) : ( n == capacity ? "full" : "room" );
            if ( r != expect )
            {
                c.fail( mc::fmt( "add-return:%s:%s", r ? "accepted" : "refused", situation ),
                        mc::fmt( "%s: add_to_white_list(%s) returned %d with %d of %d entries used, already member: %d", dut_name, addr_name( i ), r, n, capacity, ref.member[ i ] ) );
                return true;
            }
            if ( r ) ref.member[ i ] = 1;
            c.cls( mc::fmt( "add:%s:%s", situation, r ? "true" : "false" ) );
            check_all( "add", i, c );
            return true;
        }
        if ( ev < ev_clear )
        {
            const int i = ev - ev_remove;
            const bool r = d.remove_from_white_list( addr( i ) );
            one_call( "remove", c );
            c.obs = mc::fmt( "->%d", r );
            if ( r != bool( ref.member[ i ] ) )
            {
                c.fail( mc::fmt( "remove-return:%s", r ? "true-although-absent" : "false-although-member" ),
                        mc::fmt( "%s: remove_from_white_list(%s) returned %d, member: %d", dut_name, addr_name( i ), r, ref.member[ i ] ) );
                return true;
            }
            // position of the removed entry matters for a swap-with-last implementation: class by fill level
            c.cls( mc::fmt( "remove:%s:fill%d", r ? "member" : "absent", n ) );
            ref.member[ i ] = 0;
            check_all( "remove", i, c );
            return true;
        }
        switch ( ev )
        {
            case ev_clear:    d.clear_white_list(); one_call( "clear", c ); memset( ref.member, 0, sizeof ref.member ); c.cls( mc::fmt( "clear:fill%d", n ) ); check_all( "clear", -1, c ); break;
            case ev_conn_on:  d.connection_request_filter( true ); one_call( "filter", c );  ref.conn = 1; check_all( "connection-filter-on", -1, c ); break;
            case ev_conn_off: d.connection_request_filter( false ); one_call( "filter", c ); ref.conn = 0; check_all( "connection-filter-off", -1, c ); break;
            case ev_scan_on:  d.scan_request_filter( true ); one_call( "filter", c );  ref.scan = 1; check_all( "scan-filter-on", -1, c ); break;
            case ev_scan_off: d.scan_request_filter( false ); one_call( "filter", c ); ref.scan = 0; check_all( "scan-filter-off", -1, c ); break;
            case ev_query:
            {
                memcpy( before, dut.raw, sizeof before );
#if C26_W == 2
                d.calls = 0;
#endif
                check_all( "query", -1, c );
#if C26_W == 2
                // 2 + 3 * universe queries -> exactly as many radio calls (1:1 delegation), nothing else touched
                if ( c.fails.empty() && d.calls != 3u + 3u * universe )
                    c.fail( "delegation:call-count:query", mc::fmt( "%u radio calls for %u queries", unsigned( d.calls ), 3u + 3u * universe ) );
                d.calls = 0;
#endif
                if ( c.fails.empty() && memcmp( before, dut.raw, sizeof before ) != 0 )
                    c.fail( "query-changes-state", mc::fmt( "%s: the const queries changed the object", dut_name ) );
                c.prune = true;     // same state
                break;
            }
        }
        return true;
    }
};

World w;

} // namespace

int main( int argc, char** argv )
{
    mc::Args a = mc::parse_args( argc, argv );
    mc::Report rep; rep.property = "C26"; rep.unit = a.opt.count( "unit" ) ? a.opt[ "unit" ] : "C26_white_list";
    mc::BfsOptions o; o.max_depth = 64;
    mc::Bfs< World > bfs( w, rep, a, o );
    if ( !a.replay.empty() ) return bfs.replay_file( mc::read_replay( a.replay ) );
    bfs.run();
    rep.exhaustive = rep.exhaustive && rep.fixpoint;
    rep.notes[ "dut" ] = dut_name;
    rep.notes[ "bound" ] = mc::fmt( "all reachable states of the real object (%zu bytes) for a universe of %d addresses, capacity %d; every query for every address after every call",
                                    sizeof( dut_t ), universe, capacity );
    rep.counters[ "object_bytes" ] = sizeof( dut_t );
    rep.write( a );
    return 0;
}
