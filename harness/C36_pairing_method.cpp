// C36 - pairing method selection matches the IO capability mapping.
//
// E2 (complete finite product): every local configuration
//      {no input, yes/no, keyboard} x {no output, numeric output} x {OOB callback absent, present} x {MITM option off, on}
// of ONE security manager variant (SM_VARIANT: 0 legacy_security_manager, 1 lesc_security_manager, 2 security_manager;
// IN_SLICE optionally restricts the unit to one input capability) is instantiated for real; a fresh SM + connection gets one well-formed Pairing Request
//      remote IO capability 0..4 x OOB flag x AuthReq x (thorough: key size, key distribution)
// and the harness observes (1) the Pairing Response, (2) the algorithm stored in the connection data (public accessor)
// and (3) - legacy pairing - the temporary key that is handed to c1() in the Pairing Confirm step, i.e. the method that
// is really *used*.
//
// Oracle: independent encoding of Core v5.x Vol 3 Part H 2.3.5.1, tables 2.5 (IO capability mapping), 2.6/2.7 (OOB and
// MITM rules for legacy / LESC) and 2.8 (IO capability matrix), from the responder's point of view.
#include "../mc/mc.hpp"

#include <tuple>
#include <type_traits>

#include <bluetoe/link_state.hpp>
#include <bluetoe/security_manager.hpp>
#include <bluetoe/address.hpp>

#ifndef SM_VARIANT
#define SM_VARIANT 0
#endif

// ---------------------------------------------------------------------------------------------------------------------
// scripted IO objects (referenced by the option templates, therefore with external linkage)
static constexpr int KEYBOARD_PASSKEY = 271828;   // what the "user" types on the local keyboard
static const std::uint8_t OOB_BYTES[ 16 ]     = { 0xF1, 0x50, 0xA0, 0xAE, 0xB7, 0xAA, 0xBA, 0xC8, 0x19, 0x22, 0xB6, 0x15, 0x4C, 0x23, 0x94, 0x7A };
static const std::uint8_t DISPLAY_BYTES[ 16 ] = { 0xC7, 0x4C, 0x00 };   // passkey 019655 created by the toolbox

struct c36_io_t
{
    int display_calls, displayed, yes_no_calls, passkey_calls;

    void sm_pairing_numeric_output( int key ) { ++display_calls; displayed = key; }
    void sm_pairing_yes_no( bluetoe::pairing_yes_no_response& ) { ++yes_no_calls; }   // pairing_yes_no<>: answer stays pending
    bool sm_pairing_yes_no() { ++yes_no_calls; return true; }                           // pairing_keyboard<> as documented
    int  sm_pairing_passkey() { ++passkey_calls; return KEYBOARD_PASSKEY; }
} c36_io;

struct c36_oob_t
{
    bool have;
    int  calls;

    std::pair< bool, bluetoe::oob_authentication_data_t > sm_oob_authentication_data( const bluetoe::link_layer::device_address& )
    {
        ++calls;
        bluetoe::oob_authentication_data_t d = {{ 0 }};
        if ( have ) std::copy( OOB_BYTES, OOB_BYTES + 16, d.begin() );
        return { have, d };
    }
} c36_oob;

struct c36_toolbox_log_t
{
    int c1_calls, create_passkey_calls;
    std::uint8_t last_tk[ 16 ];
} c36_tb;

namespace {

namespace bd = bluetoe::details;
namespace ll = bluetoe::link_layer;
using bd::uint128_t;

constexpr int VARIANT = SM_VARIANT;
const char* const VARIANT_NAME = VARIANT == 0 ? "legacy" : VARIANT == 1 ? "lesc" : "combined";

// ---------------------------------------------------------------------------------------------------------------------
// fake toolbox: values are irrelevant for this property, c1() records the temporary key it is given
struct toolbox
{
    ll::device_address local_address() const { return ll::public_device_address( { 0xb6, 0xb5, 0xb4, 0xb3, 0xb2, 0xb1 } ); }

    uint128_t create_srand() { return uint128_t{{ 0xE0, 0x2E, 0x70, 0xC6, 0x4E, 0x27, 0x88, 0x63, 0x0E, 0x6F, 0xAD, 0x56, 0x21, 0xD5, 0x83, 0x57 }}; }
    uint128_t create_passkey()
    {
        ++c36_tb.create_passkey_calls;
        uint128_t r; std::copy( DISPLAY_BYTES, DISPLAY_BYTES + 16, r.begin() );
        return r;
    }
    uint128_t c1( const uint128_t& tk, const uint128_t& r, const uint128_t& p1, const uint128_t& p2 ) const
    {
        ++c36_tb.c1_calls;
        std::copy( tk.begin(), tk.end(), c36_tb.last_tk );
        uint128_t out;
        for ( int i = 0; i != 16; ++i ) out[ i ] = std::uint8_t( tk[ i ] ^ r[ i ] ^ p1[ i ] ^ p2[ 15 - i ] ^ 0x5a );
        return out;
    }
    uint128_t s1( const uint128_t& tk, const uint128_t& a, const uint128_t& b )
    {
        uint128_t out;
        for ( int i = 0; i != 16; ++i ) out[ i ] = std::uint8_t( tk[ i ] + a[ i ] + 3 * b[ i ] );
        return out;
    }

    bool is_valid_public_key( const std::uint8_t* ) const { return true; }
    std::pair< bd::ecdh_public_key_t, bd::ecdh_private_key_t > generate_keys() { return { bd::ecdh_public_key_t{{ 1 }}, bd::ecdh_private_key_t{{ 2 }} }; }
    uint128_t select_random_nonce() { return uint128_t{{ 3 }}; }
    bd::ecdh_shared_secret_t p256( const std::uint8_t*, const std::uint8_t* ) { return bd::ecdh_shared_secret_t{{ 4 }}; }
    uint128_t f4( const std::uint8_t*, const std::uint8_t*, const uint128_t&, std::uint8_t ) { return uint128_t{{ 5 }}; }
    std::pair< uint128_t, uint128_t > f5( const bd::ecdh_shared_secret_t, const uint128_t&, const uint128_t&, const ll::device_address&, const ll::device_address& ) { return { uint128_t{{ 6 }}, uint128_t{{ 7 }} }; }
    uint128_t f6( const uint128_t&, const uint128_t&, const uint128_t&, const uint128_t&, const bd::io_capabilities_t&, const ll::device_address&, const ll::device_address& ) { return uint128_t{{ 8 }}; }
    std::uint32_t g2( const std::uint8_t*, const std::uint8_t*, const uint128_t&, const uint128_t& ) { return 123456; }
};

// ---------------------------------------------------------------------------------------------------------------------
// configuration axes -> option lists
template < int > struct in_opt;
template <> struct in_opt< 0 > { using type = bluetoe::pairing_no_input; };
template <> struct in_opt< 1 > { using type = bluetoe::pairing_yes_no< c36_io_t, c36_io >; };
template <> struct in_opt< 2 > { using type = bluetoe::pairing_keyboard< c36_io_t, c36_io >; };

template < int > struct out_opt;
template <> struct out_opt< 0 > { using type = bluetoe::pairing_no_output; };
template <> struct out_opt< 1 > { using type = bluetoe::pairing_numeric_output< c36_io_t, c36_io >; };

template < int > struct oob_opt;
template <> struct oob_opt< 0 > { using type = std::tuple<>; };
template <> struct oob_opt< 1 > { using type = std::tuple< bluetoe::oob_authentication_callback< c36_oob_t, c36_oob > >; };

template < int > struct mitm_opt;
template <> struct mitm_opt< 0 > { using type = std::tuple<>; };
template <> struct mitm_opt< 1 > { using type = std::tuple< bluetoe::require_man_in_the_middle_protection >; };

using manager_t = std::conditional_t< VARIANT == 0, bluetoe::legacy_security_manager,
                  std::conditional_t< VARIANT == 1, bluetoe::lesc_security_manager, bluetoe::security_manager > >;

// same construction as tests/security_manager/test_sm.hpp: the SM implementation derives from nothing, the fixture
// derives from the implementation and from the toolbox (CRTP: security_functions() casts to the fixture)
template < class... Options >
struct fixture : manager_t::template impl< fixture< Options... >, Options... >, toolbox
{
    using impl_t = typename manager_t::template impl< fixture< Options... >, Options... >;
    using conn_t = typename impl_t::template channel_data_t< bd::link_state >;
};

template < class Tuple > struct fixture_of;
template < class... O > struct fixture_of< std::tuple< O... > > { using type = fixture< O... >; };

template < int In, int Out, int Oob, int Mitm >
using fixture_for = typename fixture_of< decltype( std::tuple_cat(
    std::declval< std::tuple< typename in_opt< In >::type, typename out_opt< Out >::type > >(),
    std::declval< typename oob_opt< Oob >::type >(),
    std::declval< typename mitm_opt< Mitm >::type >() ) ) >::type;

// l2cap_input() of the LESC capable managers instantiates io_capabilities_matrix<>::sm_pairing_request_yes_no(), which
// needs input_capabilities::sm_pairing_request_yes_no( state ).  Detect whether the input option provides it.
template < class In, class Conn, class = void >
struct has_yes_no_request : std::false_type {};
template < class In, class Conn >
struct has_yes_no_request< In, Conn, std::void_t< decltype( In::sm_pairing_request_yes_no( std::declval< Conn& >() ) ) > > : std::true_type {};

// ---------------------------------------------------------------------------------------------------------------------
enum Method { M_NONE = -1, M_JW = 0, M_OOB, M_DISPLAY, M_INPUT, M_NC };

const char* mname( int m )
{
    switch ( m )
    {
        case M_JW:      return "just-works";
        case M_OOB:     return "oob";
        case M_DISPLAY: return "passkey-responder-displays";
        case M_INPUT:   return "passkey-responder-inputs";
        case M_NC:      return "numeric-comparison";
        default:        return "none";
    }
}

int from_impl( bd::legacy_pairing_algorithm a )
{
    switch ( a )
    {
        case bd::legacy_pairing_algorithm::just_works:            return M_JW;
        case bd::legacy_pairing_algorithm::oob_authentication:    return M_OOB;
        case bd::legacy_pairing_algorithm::passkey_entry_display: return M_DISPLAY;
        case bd::legacy_pairing_algorithm::passkey_entry_input:   return M_INPUT;
    }
    return 100 + int( a );
}

int from_impl( bd::lesc_pairing_algorithm a )
{
    switch ( a )
    {
        case bd::lesc_pairing_algorithm::just_works:            return M_JW;
        case bd::lesc_pairing_algorithm::oob_authentication:    return M_OOB;
        case bd::lesc_pairing_algorithm::passkey_entry_display: return M_DISPLAY;
        case bd::lesc_pairing_algorithm::passkey_entry_input:   return M_INPUT;
        case bd::lesc_pairing_algorithm::numeric_comparison:    return M_NC;
    }
    return 100 + int( a );
}

struct Case
{
    std::uint8_t oob_rt;      // OOB callback (if configured) returns data for this remote device
    std::uint8_t req[ 7 ];    // Pairing Request
};

struct Obs
{
    char         crash[ 24 ];
    int          rsp_len;
    std::uint8_t rsp[ 16 ];
    int          proto;         // -1 no pairing in progress, 0 legacy, 1 LESC (from the connection state)
    int          stored;        // Method stored in the connection data
    int          used;          // legacy: Method derived from the TK given to c1() in the confirm step
    int          confirm_len;
    int          oob_calls, display_calls, displayed, passkey_calls, create_passkey_calls;
};

template < class F >
void dispatch( F& sm, typename F::conn_t& conn, const std::uint8_t* in, std::size_t n, std::uint8_t* out, std::size_t& on )
{
    if constexpr ( F::l2cap_ok )
    {
        sm.l2cap_input( in, n, out, on, conn );
    }
    else
    {
        // public entry point does not compile for this configuration: call the opcode handlers l2cap_input() would call
        if ( in[ 0 ] == 0x01 )
        {
            if constexpr ( VARIANT == 1 ) sm.lesc_handle_pairing_request( in, n, out, on, conn );
            else                          sm.handle_pairing_request( in, n, out, on, conn );
        }
        else
        {
            if constexpr ( VARIANT != 1 ) sm.legacy_handle_pairing_confirm( in, n, out, on, conn );
        }
    }
}

template < int In, int Out, int Oob, int Mitm >
struct Runner
{
    struct F : fixture_for< In, Out, Oob, Mitm >
    {
        using conn_t = typename fixture_for< In, Out, Oob, Mitm >::conn_t;
        static constexpr bool l2cap_ok = VARIANT == 0 || has_yes_no_request< typename in_opt< In >::type, conn_t >::value;
    };

    static Obs run( const Case& c )
    {
        static mc::Placed< F > sm;
        static mc::Placed< typename F::conn_t > conn;

        memset( &c36_io, 0, sizeof c36_io );
        memset( &c36_tb, 0, sizeof c36_tb );
        c36_oob.calls = 0;
        c36_oob.have  = c.oob_rt != 0;

        sm.construct();
        conn.construct();
        conn->remote_connection_created( ll::random_device_address( { 0xa6, 0xa5, 0xa4, 0xa3, 0xa2, 0xa1 } ) );

        Obs o; memset( &o, 0, sizeof o );
        o.proto = -1; o.stored = M_NONE; o.used = M_NONE;

        const std::size_t mtu = VARIANT == 0 ? 23 : 65;
        std::uint8_t out[ 65 ];
        std::size_t  n = mtu;
        memset( out, 0xEE, sizeof out );

        const std::string crash = mc::Guard::call( [&]{ dispatch( sm.get(), conn.get(), c.req, sizeof c.req, out, n ); } );
        snprintf( o.crash, sizeof o.crash, "%s", crash.c_str() );
        if ( !crash.empty() ) return o;

        o.rsp_len = int( n );
        memcpy( o.rsp, out, std::min< std::size_t >( n, sizeof o.rsp ) );
        o.oob_calls = c36_oob.calls;

        const bd::sm_pairing_state st = conn->state();
        if ( st == bd::sm_pairing_state::legacy_pairing_requested )
        {
            o.proto = 0;
            if constexpr ( VARIANT != 1 ) o.stored = from_impl( conn->legacy_pairing_algorithm() );
        }
        else if ( st == bd::sm_pairing_state::lesc_pairing_requested )
        {
            o.proto = 1;
            if constexpr ( VARIANT != 0 ) o.stored = from_impl( conn->lesc_pairing_algorithm() );
        }

        if ( o.proto == 0 )
        {
            // next protocol step: Pairing Confirm; the SM derives the temporary key from the stored algorithm
            std::uint8_t confirm[ 17 ] = { 0x03, 1, 2, 3, 4, 5, 6, 7, 8, 9, 10, 11, 12, 13, 14, 15, 16 };
            n = mtu;
            const std::string crash2 = mc::Guard::call( [&]{ dispatch( sm.get(), conn.get(), confirm, sizeof confirm, out, n ); } );
            if ( !crash2.empty() ) { snprintf( o.crash, sizeof o.crash, "%s", crash2.c_str() ); return o; }
            o.confirm_len = int( n );
            if ( n == 17 && out[ 0 ] == 0x03 && c36_tb.c1_calls == 1 )
            {
                static const std::uint8_t zero[ 16 ] = { 0 };
                std::uint8_t kb[ 16 ] = { 0 };
                bd::write_32bit( kb, std::uint32_t( KEYBOARD_PASSKEY ) );
                o.used = memcmp( c36_tb.last_tk, zero, 16 ) == 0          ? M_JW
                       : memcmp( c36_tb.last_tk, OOB_BYTES, 16 ) == 0     ? M_OOB
                       : memcmp( c36_tb.last_tk, DISPLAY_BYTES, 16 ) == 0 ? M_DISPLAY
                       : memcmp( c36_tb.last_tk, kb, 16 ) == 0            ? M_INPUT : 99;
            }
            o.display_calls        = c36_io.display_calls;
            o.displayed            = c36_io.displayed;
            o.passkey_calls        = c36_io.passkey_calls;
            o.create_passkey_calls = c36_tb.create_passkey_calls;
        }
        return o;
    }
};

struct Cfg
{
    int  in, out, oob, mitm;
    bool l2cap_ok;
    Obs ( *run )( const Case& );
    std::string name() const
    {
        static const char* const i[] = { "no-input", "yes-no", "keyboard" };
        static const char* const o[] = { "no-output", "numeric-output" };
        return mc::fmt( "%s+%s+%s+%s", i[ in ], o[ out ], oob ? "oob-callback" : "no-oob", mitm ? "mitm" : "no-mitm" );
    }
    std::string io_name() const
    {
        static const char* const i[] = { "no-input", "yes-no", "keyboard" };
        static const char* const o[] = { "no-output", "numeric-output" };
        return mc::fmt( "%s+%s", i[ in ], o[ out ] );
    }
};

#define CFG( I, O, B, M ) Cfg{ I, O, B, M, Runner< I, O, B, M >::F::l2cap_ok, &Runner< I, O, B, M >::run }
#define CFG_IN( I ) CFG( I, 0, 0, 0 ), CFG( I, 1, 0, 0 ), CFG( I, 0, 1, 0 ), CFG( I, 1, 1, 0 ), CFG( I, 0, 0, 1 ), CFG( I, 1, 0, 1 ), CFG( I, 0, 1, 1 ), CFG( I, 1, 1, 1 )
// IN_SLICE selects one local input capability (0 no input, 1 yes/no, 2 keyboard) to keep the translation units small
#ifdef IN_SLICE
const Cfg cfgs[] = { CFG_IN( IN_SLICE ) };
#else
const Cfg cfgs[] = { CFG_IN( 0 ), CFG_IN( 1 ), CFG_IN( 2 ) };
#endif
constexpr int n_cfgs = sizeof cfgs / sizeof cfgs[ 0 ];

const Cfg* find_cfg( int in, int out, int oob, int mitm )
{
    for ( const Cfg& c : cfgs )
        if ( c.in == in && c.out == out && c.oob == oob && c.mitm == mitm ) return &c;
    return nullptr;
}

// ---------------------------------------------------------------------------------------------------------------------
// Oracle.  Core v5.x Vol 3 Part H 2.3.5.1
//
// Table 2.5: local input capability (rows) x local output capability (columns) -> IO capability
enum Io { DisplayOnly = 0, DisplayYesNo = 1, KeyboardOnly = 2, NoInputNoOutput = 3, KeyboardDisplay = 4 };
const char* const io_names[] = { "DisplayOnly", "DisplayYesNo", "KeyboardOnly", "NoInputNoOutput", "KeyboardDisplay" };
const int table_2_5[ 3 ][ 2 ] = {
    /* no input */ { NoInputNoOutput, DisplayOnly },
    /* yes / no */ { NoInputNoOutput, DisplayYesNo },
    /* keyboard */ { KeyboardOnly,    KeyboardDisplay } };

// Table 2.8: [ responder ][ initiator ], seen from the responder:
//   J just works; D passkey entry, responder displays and initiator inputs;
//   I passkey entry, responder inputs (initiator displays, or both input); N numeric comparison
//                                  initiator: DispOnly DispYesNo KbdOnly NoIO KbdDisplay
const char table_2_8_legacy[ 5 ][ 6 ] = {
    /* responder DisplayOnly     */ "JJDJD",
    /* responder DisplayYesNo    */ "JJDJD",
    /* responder KeyboardOnly    */ "IIIJI",
    /* responder NoInputNoOutput */ "JJJJJ",
    /* responder KeyboardDisplay */ "IIDJI" };
const char table_2_8_lesc[ 5 ][ 6 ] = {
    /* responder DisplayOnly     */ "JJDJD",
    /* responder DisplayYesNo    */ "JNDJN",
    /* responder KeyboardOnly    */ "IIIJI",
    /* responder NoInputNoOutput */ "JJJJJ",
    /* responder KeyboardDisplay */ "INDJN" };

int cell( bool lesc, int responder, int initiator )
{
    switch ( ( lesc ? table_2_8_lesc : table_2_8_legacy )[ responder ][ initiator ] )
    {
        case 'J': return M_JW;
        case 'D': return M_DISPLAY;
        case 'I': return M_INPUT;
        default:  return M_NC;
    }
}

// Tables 2.6 (legacy) / 2.7 (LESC): OOB rule, then MITM rule, then the IO capability matrix
int spec_method( bool lesc, int r_io, bool r_oob, bool r_mitm, int i_io, bool i_oob, bool i_mitm )
{
    if ( lesc ? ( r_oob || i_oob ) : ( r_oob && i_oob ) ) return M_OOB;
    if ( !r_mitm && !i_mitm ) return M_JW;
    return cell( lesc, r_io, i_io );
}

// self check of the hand written tables: what one side displays the other side inputs (r != i), the methods that do
// not distinguish the roles are symmetric, LESC differs from legacy exactly where both sides have display + yes/no
bool tables_consistent()
{
    for ( int l = 0; l != 2; ++l )
        for ( int r = 0; r != 5; ++r )
            for ( int i = 0; i != 5; ++i )
            {
                const int a = cell( l, r, i ), b = cell( l, i, r );
                if ( r != i && a == M_DISPLAY && b != M_INPUT ) return false;
                if ( r != i && a == M_INPUT && b != M_DISPLAY ) return false;
                if ( ( a == M_JW || a == M_NC ) && a != b ) return false;
                const bool both_confirm = ( r == DisplayYesNo || r == KeyboardDisplay ) && ( i == DisplayYesNo || i == KeyboardDisplay );
                if ( ( cell( true, r, i ) == M_NC ) != both_confirm ) return false;
                if ( !both_confirm && cell( true, r, i ) != cell( false, r, i ) ) return false;
            }
    return true;
}

struct Fail { std::string sig, detail; };

std::string describe( const Cfg& cfg, const Case& c, const Obs& o )
{
    return mc::fmt( "%s SM, local %s (callback returns %s): request %s -> response %s, protocol %s, stored %s, used %s",
        VARIANT_NAME, cfg.name().c_str(), cfg.oob ? ( c.oob_rt ? "data" : "none" ) : "-",
        mc::hex( c.req, 7 ).c_str(), o.crash[ 0 ] ? o.crash : mc::hex( o.rsp, std::min( o.rsp_len, 16 ) ).c_str(),
        o.proto < 0 ? "none" : o.proto ? "lesc" : "legacy", mname( o.stored ), mname( o.used ) );
}

std::string step_line( const Cfg& cfg, const Case& c )
{
    return mc::fmt( "cfg=%s oobrt=%d req=%s", cfg.name().c_str(), int( c.oob_rt ), mc::hex( c.req, 7 ).c_str() );
}

// Does the matrix cell ( local IO of cfg, remote IO of the request ) come out wrong even when *both* sides ask for MITM?
// (tells a wrong matrix cell from a misapplied MITM rule)
bool cell_wrong_with_both_mitm( const Cfg& cfg, const Case& c, bool lesc, int matrix_cell, std::uint64_t& extra_evals )
{
    const Cfg* twin = find_cfg( cfg.in, cfg.out, cfg.oob, 1 );
    if ( !twin ) return false;
    Case c2 = c;
    c2.req[ 3 ] |= 0x04;
    const Obs o2 = twin->run( c2 );
    ++extra_evals;
    return o2.stored != matrix_cell;
}

struct Judge
{
    std::uint64_t extra_evals = 0, folded = 0, lesc_oob_not_advertised = 0;

    struct View { int io; bool oob, mitm; };

    // "" / rank 0 if the selected method is what the tables demand for this view of the local side, else the signature
    // of the broken rule; rank orders the explanations from basic to specific
    std::string classify( const View& v, const Cfg& cfg, const Case& c, bool lesc, int chosen, int& rank )
    {
        const int  i_io   = c.req[ 1 ];
        const bool i_oob  = c.req[ 2 ] != 0;
        const bool i_mitm = ( c.req[ 3 ] & 0x04 ) != 0;
        const char* const proto = lesc ? "lesc" : "legacy";
        const int expected = spec_method( lesc, v.io, v.oob, v.mitm, i_io, i_oob, i_mitm );
        const int mcell    = cell( lesc, v.io, i_io );

        rank = 0;
        if ( chosen == expected ) return "";
        if ( expected == M_OOB ) { rank = 3; return mc::fmt( "method:oob-not-chosen:%s:%s", VARIANT_NAME, proto ); }
        if ( chosen == M_OOB )   { rank = 3; return mc::fmt( "method:oob-wrongly-chosen:%s:%s", VARIANT_NAME, proto ); }
        if ( !v.mitm && !i_mitm && chosen == mcell ) { rank = 1; return mc::fmt( "method:mitm-rule-ignored:%s", proto ); }
        if ( ( v.mitm || i_mitm ) && chosen == M_JW && !( v.mitm && i_mitm ) && !cell_wrong_with_both_mitm( cfg, c, lesc, mcell, extra_evals ) )
        {
            rank = 2;
            return mc::fmt( "method:mitm-rule-misapplied:%s:only-%s-asks-for-mitm", proto, v.mitm ? "local" : "remote" );
        }
        rank = 4;
        return mc::fmt( "method:matrix-cell:%s:%s-%s", proto, io_names[ v.io ], io_names[ i_io ] );
    }

    void operator()( const Cfg& cfg, const Case& c, const Obs& o, std::vector< Fail >& fails, std::string& cls )
    {
        const int  l_io   = table_2_5[ cfg.in ][ cfg.out ];
        const bool l_oob  = cfg.oob && c.oob_rt;
        const bool l_mitm = cfg.mitm != 0;
        const int  i_io   = c.req[ 1 ];
        const bool i_oob  = c.req[ 2 ] != 0;
        const bool i_mitm = ( c.req[ 3 ] & 0x04 ) != 0;
        const bool i_sc   = ( c.req[ 3 ] & 0x08 ) != 0;
        const bool lesc   = VARIANT != 0 && i_sc;
        const char* const proto = lesc ? "lesc" : "legacy";
        const std::string d = describe( cfg, c, o );

        if ( o.crash[ 0 ] ) { fails.push_back( Fail{ mc::fmt( "crash:%s:pairing-request:%s", o.crash, VARIANT_NAME ), d } ); return; }

        const bool is_rsp  = o.rsp_len == 7 && o.rsp[ 0 ] == 0x02;
        const bool is_fail = o.rsp_len == 2 && o.rsp[ 0 ] == 0x05;

        if ( VARIANT == 1 && !i_sc )
        {
            // LESC only manager: legacy pairing is refused (pinned by tests/security_manager/pairing_tests.cpp)
            if ( is_fail && o.proto == -1 ) { cls = mc::fmt( "lesc/legacy-request/pairing-failed-%02x", o.rsp[ 1 ] ); return; }
            fails.push_back( Fail{ "protocol:legacy-request-not-refused:lesc", d } );
            return;
        }
        if ( !is_rsp )
        {
            fails.push_back( Fail{ mc::fmt( "response:well-formed-request-refused:%s:%s", VARIANT_NAME, proto ), d } );
            return;
        }

        // (1) Pairing Response advertises the local configuration
        if ( o.rsp[ 1 ] != l_io )
        {
            fails.push_back( Fail{ mc::fmt( "response:io-capability:%s", cfg.io_name().c_str() ),
                mc::fmt( "advertised IO capability %d, table 2.5 says %d (%s); ", o.rsp[ 1 ], l_io, io_names[ l_io ] ) + d } );
        }
        // OOB data flag.  Legacy pairing: the callback's 128 bit are the TK, "callback has data" = "OOB data present"
        // (pinned for the legacy manager by pairing_tests.cpp).  LESC: OOB data would be the peer's (r, C); what the
        // 128 bit of oob_authentication_callback<> mean there is not defined anywhere and the LESC OOB protocol is not
        // implemented, so the weaker reading applies: a LESC response need not advertise the callback's data (counted),
        // but the method has to fit the flag that was advertised (see below).  A set flag without data is wrong anyway.
        const bool adv_oob = ( o.rsp[ 2 ] & 1 ) != 0;
        if ( lesc && l_oob && !adv_oob )
            ++lesc_oob_not_advertised;
        else if ( o.rsp[ 2 ] != ( l_oob ? 1 : 0 ) )
        {
            fails.push_back( Fail{ mc::fmt( "response:oob-flag-%s:%s:%s", l_oob ? "missing" : "spurious", VARIANT_NAME, proto ),
                mc::fmt( "OOB data flag %d in the response although the local OOB callback %s (callback invoked %d times); ",
                    o.rsp[ 2 ], l_oob ? "has data for the remote device" : "is absent / has no data", o.oob_calls ) + d } );
        }
        if ( ( ( o.rsp[ 3 ] & 0x04 ) != 0 ) != l_mitm )
        {
            fails.push_back( Fail{ mc::fmt( "response:mitm-flag:%s:%s", VARIANT_NAME, proto ), "MITM bit of the response does not reflect require_man_in_the_middle_protection; " + d } );
        }
        if ( ( ( o.rsp[ 3 ] & 0x08 ) != 0 ) != ( VARIANT != 0 ) )
        {
            fails.push_back( Fail{ mc::fmt( "response:sc-flag:%s:%s", VARIANT_NAME, proto ), "SC bit of the response does not reflect the security manager's abilities; " + d } );
        }

        // pairing protocol
        if ( o.proto != ( lesc ? 1 : 0 ) )
        {
            fails.push_back( Fail{ mc::fmt( "protocol:wrong-pairing-protocol:%s:%s", VARIANT_NAME, proto ), d } );
            return;
        }

        // (2) the method.  Reference view of the local side = what the configuration demands.  Where the response
        // deviated from that (reported above), the value that was really advertised is an acceptable view of that field
        // too (it is what the peer computes with): a SM that is consistent with what it advertised has one defect, not
        // two.  The method is wrong if it is wrong under every acceptable view; the most basic explanation is reported.
        const int chosen = o.stored;
        std::vector< View > views;
        {
            const int  ios[ 2 ]   = { l_io, o.rsp[ 1 ] <= 4 ? o.rsp[ 1 ] : l_io };
            const bool oobs[ 2 ]  = { lesc ? adv_oob : l_oob, adv_oob };
            const bool mitms[ 2 ] = { l_mitm, ( o.rsp[ 3 ] & 0x04 ) != 0 };
            for ( int a = 0; a != 2; ++a ) for ( int b = 0; b != 2; ++b ) for ( int m = 0; m != 2; ++m )
            {
                const View v{ ios[ a ], oobs[ b ], mitms[ m ] };
                bool dup = false;
                for ( const View& w : views ) dup = dup || ( w.io == v.io && w.oob == v.oob && w.mitm == v.mitm );
                if ( !dup ) views.push_back( v );
            }
        }
        int best = 99; std::string best_sig; View best_view = views[ 0 ];
        for ( const View& v : views )
        {
            int rank = 0;
            const std::string sig = classify( v, cfg, c, lesc, chosen, rank );
            if ( rank < best ) { best = rank; best_sig = sig; best_view = v; }
        }
        const int expected = spec_method( lesc, best_view.io, best_view.oob, best_view.mitm, i_io, i_oob, i_mitm );
        const char* rule = expected == M_OOB ? "oob" : ( !best_view.mitm && !i_mitm ) ? "no-mitm" : "matrix";
        if ( best == 0 && !( best_view.io == l_io && best_view.oob == ( lesc ? adv_oob : l_oob ) && best_view.mitm == l_mitm ) ) ++folded;

        if ( best != 0 )
            fails.push_back( Fail{ best_sig, mc::fmt( "Core spec (%s; local %s/oob %d/mitm %d, remote %s/oob %d/mitm %d) demands %s, SM selected %s; ",
                lesc ? "table 2.7+2.8 LESC" : "table 2.6+2.8 legacy", io_names[ best_view.io ], best_view.oob, best_view.mitm,
                io_names[ i_io ], i_oob, i_mitm, mname( expected ), mname( chosen ) ) + d } );

        // (3) legacy: the method that is used in the next step is the stored one (not looked at after (2) failed)
        if ( !lesc && best == 0 && o.used != chosen )
            fails.push_back( Fail{ mc::fmt( "method:stored-vs-used:%s", proto ),
                mc::fmt( "confirm step (response length %d) derived its temporary key by %s although %s was selected; ", o.confirm_len, mname( o.used ), mname( chosen ) ) + d } );

        cls = mc::fmt( "%s/%s/%s x %s -> %s%s", proto, rule, io_names[ best_view.io ], io_names[ i_io ], mname( chosen ), best == 0 ? "" : " (!)" );
    }
};

bool same_obs( const Obs& a, const Obs& b ) { return memcmp( &a, &b, sizeof a ) == 0; }

const Cfg* cfg_by_name( const std::string& n )
{
    for ( const Cfg& c : cfgs ) if ( c.name() == n ) return &c;
    return nullptr;
}

int replay( const mc::Args& a )
{
    const mc::ReplayFile rf = mc::read_replay( a.replay );
    int rc = 0;
    Judge judge;
    for ( const std::string& s : rf.steps )
    {
        char name[ 128 ] = { 0 }, hexreq[ 32 ] = { 0 };
        int oobrt = 0;
        if ( sscanf( s.c_str(), "cfg=%127s oobrt=%d req=%31s", name, &oobrt, hexreq ) != 3 ) { printf( "unparsable step: %s\n", s.c_str() ); continue; }
        const Cfg* cfg = cfg_by_name( name );
        const std::vector< std::uint8_t > req = mc::unhex( hexreq );
        if ( !cfg || req.size() != 7 ) { printf( "unknown configuration / request: %s\n", s.c_str() ); continue; }
        Case c; c.oob_rt = std::uint8_t( oobrt ); memcpy( c.req, req.data(), 7 );
        const Obs o = cfg->run( c );
        std::vector< Fail > fails; std::string cls;
        judge( *cfg, c, o, fails, cls );
        printf( "  step: %s\n    -> %s\n", s.c_str(), describe( *cfg, c, o ).c_str() );
        for ( const Fail& f : fails )
        {
            printf( "    FAIL %s: %s\n", f.sig.c_str(), f.detail.c_str() );
            if ( f.sig == rf.sig ) { printf( "REPRODUCED %s\n", f.sig.c_str() ); rc = 1; }
        }
    }
    if ( !rc ) printf( "not reproduced\n" );
    return rc;
}

} // namespace

int main( int argc, char** argv )
{
    mc::Args a = mc::parse_args( argc, argv );
    mc::Report rep; rep.property = "C36";
    rep.unit = a.opt.count( "unit" ) ? a.opt[ "unit" ] : std::string( "C36_pairing_method-" ) + VARIANT_NAME;

    if ( !tables_consistent() ) { fprintf( stderr, "C36: oracle tables are inconsistent\n" ); return 2; }
    if ( !a.replay.empty() ) return replay( a );

    // request alphabet
    std::vector< std::uint8_t > auth_reqs, key_sizes, key_dists;
    if ( a.thorough() )
    {
        for ( int v = 0; v != 256; ++v ) auth_reqs.push_back( std::uint8_t( v ) );
        for ( int v = 7; v <= 16; ++v ) key_sizes.push_back( std::uint8_t( v ) );
        key_dists = { 0x00, 0x0f };
    }
    else
    {
        for ( int v = 0; v != 8; ++v ) auth_reqs.push_back( std::uint8_t( ( v & 1 ? 0x04 : 0 ) | ( v & 2 ? 0x08 : 0 ) | ( v & 4 ? 0x01 : 0 ) ) );
        key_sizes = { 16 };
        key_dists = { 0x07 };
    }

    Judge judge;
    bool cut = false;
    std::uint64_t calls = 0;
    for ( int ci = 0; ci != n_cfgs && !cut; ++ci )
    {
        const Cfg& cfg = cfgs[ ci ];
        ++rep.counters[ "configurations" ];
        if ( !cfg.l2cap_ok )
        {
            // a declaration that does not compile is not behaviour: no violation, but an excluded configuration.
            // The selection code of such a configuration is exercised nevertheless (opcode handlers called directly).
            ++rep.counters[ "configurations excluded from the l2cap_input() product (do not compile; handlers called directly)" ];
            std::string& note = rep.notes[ "excluded configurations" ];
            if ( note.empty() )
                note = mc::fmt( "%s security manager: l2cap_input() does not compile with pairing_keyboard<> (io_capabilities_matrix<>::sm_pairing_request_yes_no() "
                                "needs pairing_keyboard<>::sm_pairing_request_yes_no(), which does not exist); not a violation; the request handler is called directly "
                                "for: ", VARIANT_NAME );
            else
                note += ", ";
            note += cfg.name();
        }
        for ( int oobrt = cfg.oob ? 1 : 0; oobrt >= 0 && !cut; --oobrt )
            for ( int io = 0; io != 5 && !cut; ++io )
                for ( int oobflag = 0; oobflag != 2; ++oobflag )
                {
                    for ( std::uint8_t ar : auth_reqs )
                        for ( std::uint8_t ks : key_sizes )
                            for ( std::uint8_t ikd : key_dists )
                                for ( std::uint8_t rkd : key_dists )
                                {
                                    Case c; c.oob_rt = std::uint8_t( oobrt );
                                    const std::uint8_t req[ 7 ] = { 0x01, std::uint8_t( io ), std::uint8_t( oobflag ), ar, ks, ikd, rkd };
                                    memcpy( c.req, req, 7 );

                                    const Obs o = cfg.run( c );
                                    ++rep.evaluations; ++rep.traces_validated;
                                    calls += o.proto == 0 ? 2 : 1;

                                    std::vector< Fail > fails; std::string cls;
                                    judge( cfg, c, o, fails, cls );
                                    if ( !cls.empty() ) rep.cls( cls );
                                    for ( const Fail& f : fails )
                                    {
                                        const bool is_new = rep.violations.count( f.sig ) == 0;
                                        rep.fail( f.sig, f.detail, { step_line( cfg, c ) } );
                                        if ( is_new )
                                        {
                                            // determinism: the same case gives the same observation again (twice)
                                            if ( !same_obs( o, cfg.run( c ) ) || !same_obs( o, cfg.run( c ) ) )
                                            {
                                                fprintf( stderr, "NONDETERMINISM: %s: %s\n", f.sig.c_str(), step_line( cfg, c ).c_str() );
                                                return 2;
                                            }
                                        }
                                    }
                                    if ( fails.empty() && ( rep.evaluations % 97 ) == 13 ) rep.sample( describe( cfg, c, o ), 6 );
                                }
                    if ( a.expired() ) cut = true;
                }
    }
    rep.transitions = calls;
    rep.counters[ "calls into the security manager" ] = calls;
    rep.counters[ "companion evaluations for classification" ] = judge.extra_evals;
    rep.counters[ "method deviations folded into a response deviation of the same case" ] = judge.folded;
    rep.counters[ "LESC responses that do not advertise the OOB callback's data (accepted, method judged by the advertised flag)" ] = judge.lesc_oob_not_advertised;
    rep.exhaustive = !cut;
    if ( cut ) rep.notes[ "cut" ] = "deadline hit; product not completed";
    rep.notes[ "bound" ] = mc::fmt( "%s security manager: %d local configurations (of 24 per manager) x OOB callback result x remote IO 0..4 x OOB flag x %zu AuthReq values x %zu key sizes x %zu^2 key distributions",
        VARIANT_NAME, n_cfgs, auth_reqs.size(), key_sizes.size(), key_dists.size() );
    rep.write( a );
    return 0;
}
