// C13 - notification requests from interrupt context / another thread are neither lost nor duplicated.
// E3: all interleavings, at single memory-access granularity (load / store; |= and &= are a load followed by a store, as
// LDRB/ORR/STRB on the Cortex-M targets), of producer operations (queue_notification / queue_indication) with consumer
// operations (dequeue, confirm) on the real notification_queue<>.  The scheduling points are obtained without touching the
// repository: the header is included with uint8_t mapped to a yielding byte type.
// Oracle: the call/return history of every execution, extended by a final sequential drain, must be linearizable w.r.t. the
// sequential set model of C12.
#include "../mc/mc.hpp"
#include "../mc/sched.hpp"
#include "../mc/linearize.hpp"
#include <cstdint>
#include <cstdlib>
#include <utility>
#include <cassert>
#include <algorithm>
#include <iterator>
#include <tuple>
#include <type_traits>

namespace verif {
    struct hooked_byte
    {
        unsigned char v;
        hooked_byte() : v( 0 ) {}
        hooked_byte( int x ) : v( (unsigned char)x ) {}
        operator int() const { mc::Sched::point(); return v; }                                   // load
        hooked_byte& operator=( int x ) { mc::Sched::point(); v = (unsigned char)x; return *this; } // store
        hooked_byte& operator=( const hooked_byte& o ) { int x = o; return *this = x; }
        hooked_byte& operator|=( int x ) { int l = *this; return *this = ( l | x ); }              // load, then store
        hooked_byte& operator&=( int x ) { int l = *this; return *this = ( l & x ); }
        hooked_byte& operator^=( int x ) { int l = *this; return *this = ( l ^ x ); }
    };
}
namespace std { using hooked_byte = ::verif::hooked_byte; }
#define uint8_t hooked_byte
#include <bluetoe/notification_queue.hpp>
#undef uint8_t

namespace {

struct empty_mixin {};
template < int... S > using sizes = std::tuple< std::integral_constant< int, S >... >;
using entry = bluetoe::details::notification_queue_entry_type;

int clock_ = 0;
std::vector< mc::HOp > hist;

// kinds: 0 queue_notification(arg)->ret   1 queue_indication(arg)->ret   2 dequeue->(ret=type 0/1/2, ret2=index)   3 confirm
template < int... S >
struct set_spec
{
    static constexpr int total = ( 0 + ... + S );
    unsigned char pn[ 16 ] = {}, pi[ 16 ] = {}, outstanding = 0;
    static int level_of( int idx ) { const int sz[] = { S... }; int l = 0; while ( idx >= sz[ l ] ) { idx -= sz[ l ]; ++l; } return l; }
    bool dequeuable( int i ) const { return pn[ i ] || ( pi[ i ] && !outstanding ); }
    bool apply( const mc::HOp& o )
    {
        if ( o.kind == 0 ) { if ( bool( o.ret ) != !pn[ o.arg ] ) return false; pn[ o.arg ] = 1; return true; }
        if ( o.kind == 1 ) { if ( bool( o.ret ) != !pi[ o.arg ] ) return false; pi[ o.arg ] = 1; return true; }
        if ( o.kind == 3 ) { outstanding = 0; return true; }
        // no priority demand here: the scan of a dequeue is not atomic, so a request queued behind the scan position may
        // legitimately be overtaken by a lower priority one (priority order of the *sequential* queue is C12)
        bool any = false;
        for ( int i = 0; i != total; ++i ) if ( dequeuable( i ) ) any = true;
        if ( o.ret == 0 ) return !any;
        const int idx = int( o.ret2 );
        if ( idx < 0 || idx >= total ) return false;
        if ( o.ret == 1 ) { if ( !pn[ idx ] ) return false; pn[ idx ] = 0; return true; }
        if ( !pi[ idx ] || outstanding ) return false; pi[ idx ] = 0; outstanding = 1; return true;
    }
};

struct pop { int kind; int idx; };

template < int... S >
struct Case
{
    using queue_t = bluetoe::notification_queue< sizes< S... >, empty_mixin >;
    static constexpr int total = ( 0 + ... + S );
    mc::Placed< queue_t > q;
    std::vector< pop > prefill, producer_ops;
    int dequeues = 1;
    bool confirm = false;

    static std::string name()
    {
        std::string n = "sizes<"; const int sz[] = { S... };
        for ( int i = 0; i != int( sizeof...( S ) ); ++i ) n += ( i ? "," : "" ) + std::to_string( sz[ i ] );
        return n + ">";
    }
    void call( int thread, int kind, int idx )
    {
        mc::HOp o; o.thread = thread; o.kind = kind; o.arg = idx; o.t_call = clock_++;
        if ( kind == 0 ) o.ret = q->queue_notification( idx );
        else if ( kind == 1 ) o.ret = q->queue_indication( idx );
        else if ( kind == 3 ) q->indication_confirmed();
        else { auto r = q->dequeue_indication_or_confirmation(); o.ret = r.first == entry::empty ? 0 : r.first == entry::notification ? 1 : 2; o.ret2 = long( r.second ); }
        o.t_ret = clock_++;
        hist.push_back( o );
    }
    void setup()
    {
        q.construct(); clock_ = 0; hist.clear();
        for ( auto& p : prefill ) call( 2, p.kind, p.idx );
    }
    void producer( bool isr ) { for ( std::size_t i = 0; i != producer_ops.size(); ++i ) { if ( i && isr ) mc::Sched::isr_return(); call( 0, producer_ops[ i ].kind, producer_ops[ i ].idx ); } }
    void consumer( bool isr )
    {
        for ( int i = 0; i != dequeues; ++i )
        {
            if ( i && isr ) mc::Sched::isr_return();
            call( 1, 2, 0 );
            if ( confirm && hist.back().ret == 2 ) call( 1, 3, 0 );
        }
    }
    // final drain + linearizability; returns "" or "<class>|<text>"
    std::string check()
    {
        for ( int i = 0; i != 2 * total + 2; ++i )
        {
            call( 2, 3, 0 );
            call( 2, 2, 0 );
            if ( hist.back().ret == 0 ) break;
        }
        if ( mc::linearizable( hist, set_spec< S... >() ) ) return "";
        // classify
        int queued[ 2 ][ 16 ] = {}, accepted[ 2 ][ 16 ] = {}, got[ 2 ][ 16 ] = {};
        for ( auto& o : hist )
        {
            if ( o.kind == 0 || o.kind == 1 ) { ++queued[ o.kind ][ o.arg ]; if ( o.ret ) ++accepted[ o.kind ][ o.arg ]; }
            if ( o.kind == 2 && o.ret != 0 && o.ret2 < 16 ) ++got[ o.ret - 1 ][ o.ret2 ];
        }
        // lost: fewer transmissions than requests reported as newly queued.  duplicated: sent more often than requests were reported as newly queued.
        std::string cls = "other";
        for ( int k = 0; k != 2; ++k ) for ( int i = 0; i != total; ++i )
        {
            if ( got[ k ][ i ] < accepted[ k ][ i ] ) cls = "lost";
            else if ( got[ k ][ i ] > accepted[ k ][ i ] && cls != "lost" ) cls = "duplicated";
        }
        std::string h;
        for ( auto& o : hist )
        {
            static const char* kn[] = { "queue_notification", "queue_indication", "dequeue", "confirm" };
            h += mc::fmt( "T%d %s", o.thread, kn[ o.kind ] );
            if ( o.kind < 2 ) h += mc::fmt( "(%ld)->%ld", o.arg, o.ret );
            if ( o.kind == 2 ) h += o.ret == 0 ? std::string( "->empty" ) : mc::fmt( "->%s,%ld", o.ret == 1 ? "notification" : "indication", o.ret2 );
            h += mc::fmt( " [%d,%d]; ", o.t_call, o.t_ret );
        }
        return cls + "|history not linearizable w.r.t. the set model (T0 producer, T1 consumer, T2 sequential prefix/drain): " + h;
    }
};

std::string ops_name( const std::vector< pop >& v )
{
    std::string s; for ( auto& p : v ) s += mc::fmt( "%c%d", p.kind == 0 ? 'n' : 'i', p.idx ); return s.empty() ? "-" : s;
}

// mode 0: both preemptible (threads); 1: producer is an interrupt of the consumer; 2: consumer is an interrupt of the producer
template < int... S >
void run( const mc::Args& a, mc::Report& rep, const std::vector< pop >& prefill, const std::vector< pop >& prod, int dequeues, bool confirm, int mode,
          const mc::ReplayFile* rf, int& rc )
{
    static Case< S... > c;
    c.prefill = prefill; c.producer_ops = prod; c.dequeues = dequeues; c.confirm = confirm;
    static const char* mn[] = { "thread", "isr-producer", "isr-consumer" };
    const std::string name = Case< S... >::name() + mc::fmt( ":pre=%s:prod=%s:deq=%d%s:%s", ops_name( prefill ).c_str(), ops_name( prod ).c_str(), dequeues, confirm ? "c" : "", mn[ mode ] );
    mc::Sched s; mc::SchedOptions o; o.isr_mode = mode != 0;
    std::vector< std::function< void() > > bodies;
    if ( mode == 2 ) bodies = { [&]{ c.producer( false ); }, [&]{ c.consumer( true ); } };   // thread 0 = main context
    else             bodies = { [&]{ c.consumer( false ); }, [&]{ c.producer( mode == 1 ); } };
    if ( rf )
    {
        if ( rf->steps.empty() || rf->steps[ 0 ] != name ) return;
        std::vector< int > sch; for ( std::size_t i = 1; i < rf->steps.size(); ++i ) sch.push_back( atoi( rf->steps[ i ].c_str() ) );
        std::vector< int > tids;
        std::string f = s.replay( [&]{ c.setup(); }, bodies, [&]{ return c.check(); }, o, sch, &tids );
        printf( "replayed %s\n context order at the scheduling points:", name.c_str() ); for ( int t : tids ) printf( " %d", t );
        printf( "\n%s\n", f.empty() ? "history is linearizable" : f.c_str() );
        if ( !f.empty() ) { printf( "REPRODUCED\n" ); rc = 1; }
        return;
    }
    std::set< std::string > outcomes;
    auto res = s.explore( [&]{ c.setup(); }, bodies, [&]{
            std::string f = c.check();
            std::string oc; for ( auto& h : hist ) if ( h.thread != 2 ) oc += mc::fmt( "%d%ld.%ld,", h.kind, h.ret, h.ret2 );
            outcomes.insert( oc );
            return f; }, o, [&]{ return a.expired(); },
        [&]( const std::vector< int >& sch, const std::string& f ) {
            std::vector< std::string > t{ name }; for ( int x : sch ) t.push_back( std::to_string( x ) );
            for ( int k = 0; k != 2; ++k )
                if ( s.replay( [&]{ c.setup(); }, bodies, [&]{ return c.check(); }, o, sch ) != f ) { fprintf( stderr, "NONDETERMINISM in %s\n", name.c_str() ); exit( 2 ); }
            const std::string cls = f.substr( 0, f.find( '|' ) );
            // which memory relation: is the entry hit by the producer in the same queue byte as an entry the consumer can remove?
            rep.fail( mc::fmt( "not-linearizable:%s:%s", mn[ mode ], cls.c_str() ), name + ": " + f.substr( f.find( '|' ) + 1 ), t );
            return true; } );
    rep.evaluations += res.schedules; rep.transitions += res.points; rep.states += res.schedules; rep.traces_validated += res.schedules;
    rep.exhaustive = rep.exhaustive && res.complete;
    rep.counters[ "schedules" ] += res.schedules;
    rep.counters[ "programs" ]++;
    for ( auto& oc : outcomes ) rep.cls( Case< S... >::name() + ":" + oc );
    if ( ( rep.counters[ "programs" ] % 97 ) == 1 )
        rep.sample( name + mc::fmt( ": %llu schedules, %zu distinct result vectors", (unsigned long long)res.schedules, outcomes.size() ), 10 );
}

template < int... S >
void family( const mc::Args& a, mc::Report& rep, const mc::ReplayFile* rf, int& rc )
{
    constexpr int total = ( 0 + ... + S );
    std::vector< pop > all;
    for ( int k = 0; k != 2; ++k ) for ( int i = 0; i != total; ++i ) all.push_back( pop{ k, i } );
    // sequential prefixes: nothing / every single pending request / two pending requests
    std::vector< std::vector< pop > > prefills{ {} };
    for ( auto& p : all ) prefills.push_back( { p } );
    for ( std::size_t i = 0; i != all.size(); ++i ) for ( std::size_t j = i + 1; j != all.size(); ++j ) prefills.push_back( { all[ i ], all[ j ] } );
    std::vector< std::vector< pop > > prods;
    for ( auto& p : all ) prods.push_back( { p } );
    if ( a.thorough() || total <= 3 ) for ( auto& p : all ) for ( auto& r : all ) prods.push_back( { p, r } );
    for ( int mode = 0; mode != 3; ++mode )
        for ( auto& pre : prefills )
            for ( auto& pr : prods )
                for ( int deq = 1; deq <= ( a.thorough() ? 2 : ( total <= 2 ? 2 : 1 ) ); ++deq )
                    for ( int conf = 0; conf != 2; ++conf )
                    {
                        if ( mode == 0 && ( pr.size() + deq > 3 || ( !a.thorough() && pr.size() + deq > 2 && total > 2 ) ) ) continue;
                        if ( a.expired() ) { rep.exhaustive = false; return; }
                        run< S... >( a, rep, pre, pr, deq, conf, mode, rf, rc );
                    }
}

} // namespace

int main( int argc, char** argv )
{
    mc::Args a = mc::parse_args( argc, argv );
    mc::Report rep; rep.property = "C13"; rep.unit = a.opt.count( "unit" ) ? a.opt[ "unit" ] : "C13_notify_isr";
    mc::ReplayFile rf; const mc::ReplayFile* prf = nullptr; int rc = 0;
    if ( !a.replay.empty() ) { rf = mc::read_replay( a.replay ); prf = &rf; }
    const std::string fam = a.opt.count( "family" ) ? a.opt[ "family" ] : "all";
#define F( N, ... ) if ( fam == "all" || fam == N ) family< __VA_ARGS__ >( a, rep, prf, rc );
    F( "2", 2 ) F( "4", 4 ) F( "5", 5 ) F( "1", 1 ) F( "1_2", 1, 2 ) F( "2_1", 2, 1 ) F( "2_3", 2, 3 )
    if ( prf ) return rc;
    rep.notes[ "bound" ] = "all interleavings (no preemption bound) of every listed program: sequential prefix of <=2 requests, producer with 1-2 requests, consumer with 1-2 dequeues (+confirm); thread mode and both interrupt nestings";
    rep.notes[ "scope" ] = "single-entry priority levels (sizes containing 1) keep their state in plain bools, which the byte hook cannot split: there only operation-level interleavings are explored";
    rep.write( a );
    return 0;
}
