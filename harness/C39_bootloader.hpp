// C39 helpers: recording flash handler, access log, reference checksum, guard-page input block.
#ifndef VERIF_C39_BOOTLOADER_HPP
#define VERIF_C39_BOOTLOADER_HPP

#include "../mc/mc.hpp"
#include <sys/mman.h>
#include <unistd.h>
#include <bluetoe/server.hpp>
#include <bluetoe/services/bootloader.hpp>

// Deterministic sanitizer behaviour also when the harness is started by hand: every error is reported (no
// de-duplication by PC, otherwise a replay of the same trace would be silent), nothing is symbolized.
extern "C" __attribute__(( used, visibility( "default" ) )) const char* __asan_default_options()
{
    return "halt_on_error=0:detect_leaks=0:handle_segv=0:handle_abort=0:handle_sigfpe=0:handle_sigbus=0:handle_sigill=0:"
           "allow_user_segv_handler=1:print_summary=0:detect_stack_use_after_return=0:suppress_equal_pcs=0:symbolize=0:quarantine_size_mb=1:malloc_context_size=0:fast_unwind_on_malloc=1";
}

namespace c39 {

#ifndef C39_PAGE
#define C39_PAGE 16
#endif
#ifndef C39_REGIONS
#define C39_REGIONS 1
#endif

constexpr std::size_t   page      = C39_PAGE;
constexpr std::uintptr_t mem_lo   = 0x0c0;     // backing store of the simulated flash: [mem_lo, mem_hi)
constexpr std::uintptr_t mem_hi   = 0x240;
constexpr std::size_t   mem_size  = mem_hi - mem_lo;
constexpr std::uintptr_t addr_max = ~std::uintptr_t( 0 );

struct region { std::uintptr_t start, end; };
#if C39_REGIONS == 1
constexpr region regions[] = { { 0x100, 0x200 } };
using white_list = bluetoe::bootloader::white_list< bluetoe::bootloader::memory_region< 0x100, 0x200 > >;
#else
constexpr region regions[] = { { 0x100, 0x140 }, { 0x180, 0x200 } };
using white_list = bluetoe::bootloader::white_list< bluetoe::bootloader::memory_region< 0x100, 0x140 >, bluetoe::bootloader::memory_region< 0x180, 0x200 > >;
#endif
constexpr std::size_t num_regions = sizeof regions / sizeof regions[ 0 ];

// lies [addr, addr+size) entirely inside ONE white-listed region?
inline bool inside( std::uintptr_t addr, std::size_t size )
{
    if ( addr + size < addr ) return false;
    for ( auto& r : regions ) if ( addr >= r.start && addr + size <= r.end ) return true;
    return false;
}
inline bool at_region_end( std::uintptr_t addr ) { for ( auto& r : regions ) if ( addr == r.end ) return true; return false; }

// reference checksum (FNV-1a): order and length sensitive
constexpr std::uint32_t crc_seed = 2166136261u;
inline std::uint32_t crc_byte( std::uint32_t crc, std::uint8_t b ) { return ( crc ^ b ) * 16777619u; }
inline std::uint32_t crc_bytes( const std::uint8_t* p, std::size_t n, std::uint32_t crc ) { for ( ; n; --n, ++p ) crc = crc_byte( crc, *p ); return crc; }
inline std::uint32_t crc_addr( std::uintptr_t a ) { std::uint32_t c = crc_seed; for ( unsigned i = 0; i != sizeof a; ++i, a >>= 8 ) c = crc_byte( c, a & 0xff ); return c; }
inline std::uint8_t  original( std::uintptr_t a ) { return std::uint8_t( ( a * 7 + 3 ) & 0x7f ); }   // factory content of the flash (< 0x80; client data is >= 0x80)

// --- access log (observation of one step, not part of the state) ---------------------------------------------
enum Kind : std::uint8_t { A_START_FLASH, A_READ_MEM, A_PUBLIC_READ, A_PUBLIC_CRC, A_CRC_RANGE, A_RUN, A_RESET };
inline const char* kind_name( Kind k )
{
    static const char* n[] = { "start_flash", "read_mem", "public_read_mem", "public_checksum32", "checksum32(range)", "run", "reset" };
    return n[ k ];
}
struct Access { Kind kind; std::uintptr_t addr; std::size_t size; std::uint8_t data[ 16 ]; };
struct Log
{
    Access a[ 24 ]; int n; bool overflow;
    void clear() { n = 0; overflow = false; }
    Access* add( Kind k, std::uintptr_t addr, std::size_t size )
    {
        if ( n == 24 ) { overflow = true; return nullptr; }
        Access& x = a[ n++ ]; x.kind = k; x.addr = addr; x.size = size; memset( x.data, 0, sizeof x.data );
        return &x;
    }
};
inline Log& log() { static Log l; return l; }

// --- the recording user handler (base class of the controller, i.e. part of the server object) --------------------
struct flash_handler
{
    std::uint8_t mem[ mem_size ];
    std::uint8_t flashing;          // start_flash calls not yet completed by end_flash
    std::uint8_t cp_notify_req, data_ind_req;

    flash_handler() : flashing( 0 ), cp_notify_req( 0 ), data_ind_req( 0 )
    {
        for ( std::size_t i = 0; i != mem_size; ++i ) mem[ i ] = original( mem_lo + i );
    }
    static bool backed( std::uintptr_t addr, std::size_t size ) { return addr + size >= addr && addr >= mem_lo && addr + size <= mem_hi; }

    bluetoe::bootloader::error_codes start_flash( std::uintptr_t address, const std::uint8_t* values, std::size_t size )
    {
        if ( Access* x = log().add( A_START_FLASH, address, size ) ) memcpy( x->data, values, std::min< std::size_t >( size, sizeof x->data ) );
        if ( backed( address, size ) ) memcpy( &mem[ address - mem_lo ], values, size );
        if ( flashing != 255 ) ++flashing;
        return bluetoe::bootloader::error_codes::success;
    }
    bluetoe::bootloader::error_codes run( std::uintptr_t start_addr ) { log().add( A_RUN, start_addr, 0 ); return bluetoe::bootloader::error_codes::success; }
    bluetoe::bootloader::error_codes reset() { log().add( A_RESET, 0, 0 ); return bluetoe::bootloader::error_codes::success; }
    std::pair< const std::uint8_t*, std::size_t > get_version()
    {
        static const std::uint8_t version[] = { 0x47, 0x11 };
        return { version, sizeof version };
    }
    void read_mem( std::uintptr_t address, std::size_t size, std::uint8_t* destination )
    {
        log().add( A_READ_MEM, address, size );
        if ( backed( address, size ) ) memcpy( destination, &mem[ address - mem_lo ], size );
        else if ( size <= 64 ) memset( destination, 0x7e, size );
    }
    std::uint32_t range_crc( std::uintptr_t start_addr, std::size_t size ) const
    {
        return backed( start_addr, size ) ? crc_bytes( &mem[ start_addr - mem_lo ], size, crc_seed ) : 0;
    }
    std::uint32_t checksum32( std::uintptr_t start_addr, std::size_t size ) { log().add( A_CRC_RANGE, start_addr, size ); return range_crc( start_addr, size ); }
    std::uint32_t checksum32( const std::uint8_t* start_addr, std::size_t size, std::uint32_t old_crc ) { return crc_bytes( start_addr, size, old_crc ); }
    std::uint32_t checksum32( std::uintptr_t start_addr ) { return crc_addr( start_addr ); }
    bluetoe::bootloader::error_codes public_read_mem( std::uintptr_t address, std::size_t size, std::uint8_t* destination )
    {
        log().add( A_PUBLIC_READ, address, size );
        if ( backed( address, size ) ) memcpy( destination, &mem[ address - mem_lo ], size );
        else if ( size <= 64 ) memset( destination, 0x7e, size );
        return bluetoe::bootloader::error_codes::success;
    }
    std::uint32_t public_checksum32( std::uintptr_t start_addr, std::size_t size ) { log().add( A_PUBLIC_CRC, start_addr, size ); return range_crc( start_addr, size ); }
    void control_point_notification_call_back() { cp_notify_req = 1; }
    void data_indication_call_back() { data_ind_req = 1; }
};

// --- input block that ends exactly at an inaccessible page: any read behind the PDU faults -----------------------
struct GuardedInput
{
    std::uint8_t* end_;
    GuardedInput()
    {
        const long ps = sysconf( _SC_PAGESIZE );
        void* p = mmap( nullptr, 2 * ps, PROT_READ | PROT_WRITE, MAP_PRIVATE | MAP_ANONYMOUS, -1, 0 );
        if ( p == MAP_FAILED || mprotect( static_cast< char* >( p ) + ps, ps, PROT_NONE ) != 0 ) { perror( "C39: guard page" ); exit( 2 ); }
        end_ = static_cast< std::uint8_t* >( p ) + ps;
    }
    const std::uint8_t* place( const std::uint8_t* pdu, std::size_t n )
    {
        memset( end_ - 64, 0x5a, 64 );
        memcpy( end_ - n, pdu, n );
        return end_ - n;
    }
};

// --- guarded call: like mc::Guard::call, but the signal handler runs on the normal stack.  (mc::Guard uses an alternate
// signal stack; ASan's longjmp interceptor then re-reads /proc/self/maps on every siglongjmp, which costs ~10 ms per
// fault - far too slow for a search in which every state has a few faulting successors.)
struct Guarded
{
    static sigjmp_buf& jb() { static sigjmp_buf b; return b; }
    static volatile int& armed() { static volatile int a = 0; return a; }
    static volatile int& last_signal() { static volatile int s = 0; return s; }
    static void handler( int sig )
    {
        if ( armed() ) { last_signal() = sig; armed() = 0; siglongjmp( jb(), 1 ); }
        signal( sig, SIG_DFL );
        raise( sig );
    }
    static void install()
    {
        static bool done = false;
        if ( done ) return;
        done = true;
        struct sigaction sa; memset( &sa, 0, sizeof sa );
        sa.sa_handler = &handler; sa.sa_flags = SA_NODEFER;
        for ( int s : { SIGSEGV, SIGBUS, SIGFPE, SIGABRT, SIGILL } ) sigaction( s, &sa, nullptr );
    }
    template < class F >
    static std::string call( F&& f )
    {
        install();
        const int before = mc::Guard::asan_errors();
        if ( sigsetjmp( jb(), 0 ) == 0 ) { armed() = 1; f(); armed() = 0; }
        else return mc::fmt( "signal-%d", (int)last_signal() );
        if ( mc::Guard::asan_errors() != before ) return "asan";
        return "";
    }
};

} // namespace c39
#endif
