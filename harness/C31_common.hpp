// C31 - shared pieces: fake link layer handing out exact-size heap blocks, spying channel wrapper, recording
// channels, deterministic security-function stubs.
#ifndef VERIF_C31_COMMON_HPP
#define VERIF_C31_COMMON_HPP

#include "../mc/mc.hpp"
#include <unistd.h>

#include <bluetoe/l2cap.hpp>
#include <bluetoe/l2cap_channels.hpp>
#include <bluetoe/l2cap_signaling_channel.hpp>

namespace c31 {

static constexpr int         max_log     = 16;
static constexpr std::size_t max_copy    = 96;
static constexpr std::size_t l2cap_hdr   = 4;

// one call of a channel's l2cap_input (kind 0) / l2cap_output (kind 1), as seen by the spy wrapper
struct call_entry
{
    int          kind;
    int          chan;          // index in the channel list (0 = ATT, 1 = signaling, 2 = SM)
    bool         in_ptr_ok;     // input == frame + 4
    std::size_t  in_size;
    bool         out_ptr_ok;    // output == current block + 4
    bool         cap_ok;        // output + offered lies inside the block handed out by the link layer
    std::size_t  offered;
    std::size_t  produced;
    bool         returned;      // the channel function came back
    std::uint8_t bytes[ max_copy ];
};

struct commit_entry
{
    std::size_t  size;
    bool         ptr_ok;        // buffer.second == start of the block handed out last
    bool         fits;          // size <= size of that block
    std::size_t  block;
    std::uint8_t bytes[ max_copy ];
};

// everything the fake link layer and the spies observe during one evaluation; lives outside the DUT image
struct environment
{
    int          n_calls;   call_entry   calls[ max_log ];
    int          n_commit;  commit_entry commit[ max_log ];
    int          n_alloc;   std::size_t  alloc_req[ max_log ];
    bool         log_overflow;

    int          buffers_available;     // allocate_l2cap_output_buffer() succeeds this many times
    std::uint8_t* cur;  std::size_t cur_size;
    std::vector< std::uint8_t* > blocks;

    const std::uint8_t* frame;  std::size_t frame_size;

    // script for the recording channels
    int          reply_mode;            // 0 no reply, 1 one byte, 2 fill everything that was offered
    int          out_mode;              // 0: two bytes, 1: fill everything that was offered
    bool         pending[ 3 ];          // channel has something to send in l2cap_output
    volatile unsigned sink;

    void reset( int bufs )
    {
        for ( auto b : blocks ) delete[] b;
        blocks.clear();
        n_calls = n_commit = n_alloc = 0; log_overflow = false;
        buffers_available = bufs; cur = nullptr; cur_size = 0;
        frame = nullptr; frame_size = 0;
        reply_mode = 0; out_mode = 0; pending[ 0 ] = pending[ 1 ] = pending[ 2 ] = false;
        sink = 0;
    }
};

inline environment& env() { static environment e; return e; }

// The link layer side of the l2cap<> contract, as link_layer<>::allocate_l2cap_output_buffer() implements it:
// a request for n bytes of payload yields a buffer of n + 4 bytes ( L2CAP header included ), `first` = n + 4.
// Every buffer is its own exact-size heap block, so that ASan red zones sit directly behind the last byte.
struct fake_buffers
{
    std::pair< std::size_t, std::uint8_t* > allocate_l2cap_output_buffer( std::size_t size )
    {
        environment& e = env();
        if ( e.n_alloc < max_log ) e.alloc_req[ e.n_alloc ] = size; else e.log_overflow = true;
        ++e.n_alloc;

        if ( e.buffers_available == 0 )
            return { 0, nullptr };
        --e.buffers_available;

        e.cur_size = size + l2cap_hdr;
        e.cur      = new std::uint8_t[ e.cur_size ];
        std::memset( e.cur, 0xEE, e.cur_size );
        e.blocks.push_back( e.cur );
        return { e.cur_size, e.cur };
    }

    void commit_l2cap_output_buffer( std::pair< std::size_t, std::uint8_t* > b )
    {
        environment& e = env();
        if ( e.n_commit >= max_log ) { e.log_overflow = true; return; }
        commit_entry& c = e.commit[ e.n_commit++ ];
        c.size   = b.first;
        c.ptr_ok = b.second == e.cur && e.cur != nullptr;
        c.block  = e.cur_size;
        c.fits   = c.ptr_ok && b.first <= e.cur_size;
        std::memset( c.bytes, 0, sizeof c.bytes );
        if ( c.ptr_ok )
            std::memcpy( c.bytes, e.cur, std::min( std::min( b.first, e.cur_size ), max_copy ) );
    }
};

// wraps a real channel and records every call the l2cap layer makes
template < class Real, int Idx >
struct spy : Real
{
    template < class CD >
    void l2cap_input( const std::uint8_t* in, std::size_t n, std::uint8_t* out, std::size_t& out_size, CD& cd )
    {
        environment& e = env();
        call_entry dummy; call_entry& c = e.n_calls < max_log ? e.calls[ e.n_calls ] : dummy;
        if ( e.n_calls >= max_log ) e.log_overflow = true;
        ++e.n_calls;
        c.kind = 0; c.chan = Idx; c.in_ptr_ok = in == e.frame + l2cap_hdr; c.in_size = n;
        c.out_ptr_ok = e.cur && out == e.cur + l2cap_hdr;
        c.cap_ok     = e.cur && c.out_ptr_ok && out_size + l2cap_hdr <= e.cur_size;
        c.offered = out_size; c.produced = 0; c.returned = false;
        Real::l2cap_input( in, n, out, out_size, cd );
        c.produced = out_size; c.returned = true;
        std::memset( c.bytes, 0, sizeof c.bytes );
        if ( c.cap_ok && out_size <= c.offered ) std::memcpy( c.bytes, out, std::min( out_size, max_copy - l2cap_hdr ) );
    }

    template < class CD >
    void l2cap_output( std::uint8_t* out, std::size_t& out_size, CD& cd )
    {
        environment& e = env();
        call_entry dummy; call_entry& c = e.n_calls < max_log ? e.calls[ e.n_calls ] : dummy;
        if ( e.n_calls >= max_log ) e.log_overflow = true;
        ++e.n_calls;
        c.kind = 1; c.chan = Idx; c.in_ptr_ok = true; c.in_size = 0;
        c.out_ptr_ok = e.cur && out == e.cur + l2cap_hdr;
        c.cap_ok     = e.cur && c.out_ptr_ok && out_size + l2cap_hdr <= e.cur_size;
        c.offered = out_size; c.produced = 0; c.returned = false;
        Real::l2cap_output( out, out_size, cd );
        c.produced = out_size; c.returned = true;
        std::memset( c.bytes, 0, sizeof c.bytes );
        if ( c.cap_ok && out_size <= c.offered ) std::memcpy( c.bytes, out, std::min( out_size, max_copy - l2cap_hdr ) );
    }
};

// minimal channel with the interface bluetoe::details::l2cap_channel documents; reads every input byte it is given and
// writes as much as the script says (up to everything that was offered)
template < std::uint16_t Cid, std::size_t MinMtu, std::size_t MaxMtu, int Idx >
struct rec_channel
{
    static constexpr std::uint16_t channel_id               = Cid;
    static constexpr std::size_t   minimum_channel_mtu_size = MinMtu;
    static constexpr std::size_t   maximum_channel_mtu_size = MaxMtu;

    template < class PreviousData >
    using channel_data_t = PreviousData;

    static void fill( std::uint8_t* out, std::size_t n )
    {
        for ( std::size_t i = 0; i != n; ++i ) out[ i ] = std::uint8_t( 0xA0 + Idx * 0x10 + ( i & 15 ) );
    }

    template < class CD >
    void l2cap_input( const std::uint8_t* in, std::size_t n, std::uint8_t* out, std::size_t& out_size, CD& )
    {
        environment& e = env();
        unsigned s = 0;
        for ( std::size_t i = 0; i != n; ++i ) s += in[ i ];
        e.sink = e.sink + s;
        const std::size_t want = e.reply_mode == 0 ? 0 : e.reply_mode == 1 ? 1 : out_size;
        fill( out, want );
        out_size = want;
    }

    template < class CD >
    void l2cap_output( std::uint8_t* out, std::size_t& out_size, CD& )
    {
        environment& e = env();
        if ( !e.pending[ Idx ] ) { out_size = 0; return; }
        e.pending[ Idx ] = false;
        const std::size_t want = e.out_mode == 0 ? std::min< std::size_t >( 2, out_size ) : out_size;
        fill( out, want );
        out_size = want;
    }
};

struct base_channel_data {};

// mc::Guard::call without saving the signal mask (one system call less per evaluation; the handlers are installed with
// SA_NODEFER, so nothing stays blocked after the siglongjmp)
template < class F >
inline const char* guarded( F&& f )
{
    mc::Guard::install();
    const int before = mc::Guard::asan_errors();
    if ( sigsetjmp( mc::Guard::jb(), 0 ) == 0 )
    {
        mc::Guard::armed() = 1;
        f();
        mc::Guard::armed() = 0;
    }
    else
        return "signal";
    return mc::Guard::asan_errors() != before ? "asan" : "";
}

// --replay runs: start again with symbolized ASan reports (the exploration runs with symbolize=0)
inline void symbolize_on_replay( const mc::Args& a, char** argv )
{
    if ( a.replay.empty() || getenv( "C31_REEXEC" ) ) return;
    const char* old = getenv( "ASAN_OPTIONS" );
    const std::string opts = std::string( old ? old : "" ) + ( old && *old ? ":" : "" ) + "symbolize=1";
    setenv( "ASAN_OPTIONS", opts.c_str(), 1 );
    setenv( "C31_REEXEC", "1", 1 );
    fflush( stdout );
    execv( "/proc/self/exe", argv );
    // if exec fails the replay simply goes on without symbols
}

} // namespace c31

// Millions of tiny exact-size blocks are allocated and freed: keep ASan's quarantine small and do not record allocation
// stacks (only red zones are needed here).  Keys given in ASAN_OPTIONS by the driver still take precedence.
//
// C31_ASAN_REPORT_EVERY_ERROR (BFS units): in recover mode ASan reports an error only once per program counter
// (suppress_equal_pcs); mc::Bfs re-executes a failing trace twice in the same process and would not see the report
// again.  With suppress_equal_pcs=0 every over-read / over-write is reported, so "asan" is a deterministic observation.
// Reports are not symbolized during exploration (thousands of them may be printed); a --replay run re-executes itself
// with symbolize=1 (c31::symbolize_on_replay), nothing but constants may be used in here (ASan is not initialised yet).
extern "C" __attribute__(( used, visibility( "default" ) )) const char* __asan_default_options()
{
#ifdef C31_ASAN_REPORT_EVERY_ERROR
    return "quarantine_size_mb=1:malloc_context_size=0:thread_local_quarantine_size_kb=64:suppress_equal_pcs=0:symbolize=0:fast_unwind_on_fatal=1:print_legend=0:color=never";
#else
    return "quarantine_size_mb=1:malloc_context_size=0:thread_local_quarantine_size_kb=64";
#endif
}

#endif
