// C18 (second unit) - can the users of pdu_ring_buffer reach the state in which an *empty* ring refuses an allocation?
//
// DUT: the real ll_data_pdu_buffer< 61, 61, radio > (the link layer's default buffer_sizes<>) with max_rx_size() raised
// through its public setter, which documents every value up to ReceiveSize - layout_overhead as valid.
// E1: BFS to depth 9 (quick) / 12 (thorough) per max_rx_size value.  Events: the radio receives a data PDU of some length (allocate_receive_buffer, fill, received),
// the link layer consumes the oldest PDU (next_received, free_received).
// Every event ends with the environment action "reception with CRC error": the radio gets a buffer, writes 0xEE all over it
// and does not commit it (keeps dead bytes canonical, so the fixpoint is reached).
// Oracles: received PDUs come back in order and byte exact; allocate_receive_buffer() "can return an empty buffer if the
// receive buffers are all still allocated" - so it must not return an empty buffer while no received PDU is stored.
#include "../mc/mc.hpp"
#include <bluetoe/ll_data_pdu_buffer.hpp>

#ifdef C18_NRF
#include "bluetoe/bindings/nordic/include/bluetoe/nrf.hpp"
using layout_t = bluetoe::nrf_details::encrypted_pdu_layout;
static const char* const layout_name = "nrf-encrypted";
#else
using layout_t = bluetoe::link_layer::default_pdu_layout;
static const char* const layout_name = "default";
#endif

extern "C" const char* __asan_default_options() { return "quarantine_size_mb=1:thread_local_quarantine_size_kb=64:suppress_equal_pcs=0:symbolize=0:fast_unwind_on_fatal=1:malloc_context_size=2:print_legend=0"; }

namespace {
    template < std::size_t TX, std::size_t RX > struct radio;
}
namespace bluetoe { namespace link_layer {
    template < std::size_t TX, std::size_t RX > struct pdu_layout_by_radio< radio< TX, RX > > { using pdu_layout = layout_t; };
} }

namespace {

using bluetoe::link_layer::read_buffer;
using bluetoe::link_layer::write_buffer;

template < std::size_t TX, std::size_t RX >
struct radio : bluetoe::link_layer::ll_data_pdu_buffer< TX, RX, radio< TX, RX > >
{
    using base = bluetoe::link_layer::ll_data_pdu_buffer< TX, RX, radio< TX, RX > >;
    struct lock_guard { lock_guard() {} };
    std::uint32_t rx_count = 0, tx_count = 0;
    void increment_receive_packet_counter() { rx_count = ( rx_count + 1 ) & 3; }
    void increment_transmit_packet_counter() { tx_count = ( tx_count + 1 ) & 3; }
    read_buffer  radio_allocate() const { return this->allocate_receive_buffer(); }
    write_buffer radio_received( read_buffer b ) { return this->received( b ); }
};

constexpr std::size_t RING = 61;
using dut_t = radio< RING, RING >;
constexpr int OVER = int( dut_t::layout_overhead );

template < class F >
std::string guarded( F&& f )
{
    mc::Guard::install();
    const int before = mc::Guard::asan_errors();
    if ( sigsetjmp( mc::Guard::jb(), 0 ) == 0 ) { mc::Guard::armed() = 1; f(); mc::Guard::armed() = 0; }
    else return mc::fmt( "signal-%d", int( mc::Guard::last_signal() ) );
    return mc::Guard::asan_errors() != before ? "asan" : "";
}

struct World
{
    dut_t* dut = nullptr;           // exact size heap block
    int    max_rx = 29;

    struct Ref
    {
        std::uint8_t n, sn, next_id, pad_;
        struct E { std::uint8_t id, len; } e[ 24 ];
    } ref;

    std::vector< int > lens;
    void configure( int m )
    {
        max_rx = m;
        std::set< int > s{ 1, 5, 27, m - 2 };
        lens.clear();
        for ( int l : s ) if ( l >= 1 && l <= m - 2 ) lens.push_back( l );
    }

    void init()
    {
        if ( !dut ) dut = static_cast< dut_t* >( ::operator new( sizeof( dut_t ) ) );
        memset( dut, 0xCD, sizeof( dut_t ) );
        new ( dut ) dut_t();
        dut->max_rx_size( max_rx );
        crc_error_reception();
        memset( &ref, 0, sizeof ref );
    }
    void regions( mc::Regions& r ) { if ( !dut ) dut = static_cast< dut_t* >( ::operator new( sizeof( dut_t ) ) ); r.add( dut, sizeof( dut_t ) ); r.add( ref ); }

    int num_events() const { return int( lens.size() ) + 1; }
    std::string describe( int ev ) const
    {
        if ( ev < int( lens.size() ) ) return mc::fmt( "radio receives a data PDU with %d payload bytes", lens[ ev ] );
        return "link layer consumes the oldest PDU (next_received + free_received)";
    }

    static std::uint8_t body_byte( int id, int i ) { return std::uint8_t( 0x80 | ( id << 4 ) | ( i & 15 ) ); }

    void crc_error_reception()
    {
        read_buffer rb = dut->radio_allocate();
        if ( rb.size && rb.buffer >= dut->receive_buffer() && rb.buffer + rb.size <= dut->receive_buffer() + RING ) memset( rb.buffer, 0xEE, rb.size );
    }

    bool apply( int ev, mc::Ctx& c )
    {
        if ( ev < int( lens.size() ) )
        {
            const int len = lens[ ev ];
            read_buffer rb{ nullptr, 0 };
            bool stored = false;
            const std::string g = guarded( [&]
            {
                rb = dut->radio_allocate();
                if ( rb.size == 0 ) return;
                if ( rb.size < std::size_t( 2 + OVER + len ) ) return;
                memset( rb.buffer, 0xEE, rb.size );
                layout_t::header( rb.buffer, std::uint16_t( 0x02 | ( ref.sn ? 0x08 : 0 ) | ( len << 8 ) ) );
                std::uint8_t* b = layout_t::body( rb ).first;
                for ( int i = 0; i != len; ++i ) b[ i ] = body_byte( ref.next_id, i );
                dut->radio_received( rb );
                stored = true;
                crc_error_reception();
            } );
            if ( !g.empty() ) { c.fail( "memory:" + g + ":receive", describe( ev ) ); return true; }
            if ( rb.size == 0 )
            {
                if ( ref.n == 0 )
                    c.fail( "rx-buffer-refused:receive-ring-empty",
                            mc::fmt( "max_rx_size(%d) on a %zu byte receive ring: no received PDU is stored, yet allocate_receive_buffer() returns an empty buffer - "
                                     "the radio has to ignore all traffic and nothing can change the ring any more (reception stalls for good)", max_rx, RING ) );
                else { c.cls( "receive:no-buffer-while-pdus-stored" ); c.prune = true; }
                c.obs = "no buffer";
                return true;
            }
            if ( rb.size != std::size_t( max_rx + OVER ) ) { c.fail( "rx-buffer-wrong-size", mc::fmt( "allocate_receive_buffer() returned %zu bytes, max_rx_size() is %d", rb.size, max_rx ) ); return true; }
            if ( !stored ) return false;
            if ( ref.n == 24 ) { c.fail( "harness:fifo-capacity", "" ); return true; }
            ref.e[ ref.n ].id = ref.next_id; ref.e[ ref.n ].len = std::uint8_t( len ); ++ref.n;
            ref.next_id = ( ref.next_id + 1 ) & 1;
            ref.sn ^= 1;
            c.cls( ref.n == 1 ? "receive:into-empty-ring" : "receive:behind-others" );
            c.obs = mc::fmt( "stored, %d PDUs", int( ref.n ) );
            return true;
        }
        if ( ref.n == 0 ) return false;
        write_buffer nb{ nullptr, 0 };
        std::string g = guarded( [&]{ nb = dut->next_received(); } );
        if ( !g.empty() ) { c.fail( "memory:" + g + ":next_received", "" ); return true; }
        const int len = ref.e[ 0 ].len, id = ref.e[ 0 ].id;
        if ( nb.size == 0 ) { c.fail( "rx-pdu-lost", mc::fmt( "%d PDUs received and not freed, next_received() is empty", int( ref.n ) ) ); return true; }
        if ( nb.size != std::size_t( 2 + OVER + len ) || ( layout_t::header( nb.buffer ) >> 8 ) != len ) { c.fail( "rx-pdu-wrong-size", mc::fmt( "expected %d payload bytes, got a PDU of %zu bytes", len, nb.size ) ); return true; }
        const std::uint8_t* b = layout_t::body( nb ).first;
        for ( int i = 0; i != len; ++i ) if ( b[ i ] != body_byte( id, i ) ) { c.fail( "rx-pdu-bytes-changed", mc::fmt( "payload byte %d of PDU id%d", i, id ) ); return true; }
        g = guarded( [&]{ dut->free_received(); crc_error_reception(); } );
        if ( !g.empty() ) { c.fail( "memory:" + g + ":free_received", "" ); return true; }
        for ( int i = 1; i < ref.n; ++i ) ref.e[ i - 1 ] = ref.e[ i ];
        --ref.n; ref.e[ ref.n ].id = 0; ref.e[ ref.n ].len = 0;
        c.cls( ref.n ? "consume:more-left" : "consume:ring-empty-now" );
        c.obs = mc::fmt( "freed id%d len%d, %d left", id, len, int( ref.n ) );
        return true;
    }
};

} // namespace

int main( int argc, char** argv )
{
    mc::Args a = mc::parse_args( argc, argv );
    mc::Report total; total.property = "C18";
    total.unit = a.opt.count( "unit" ) ? a.opt[ "unit" ] : mc::fmt( "C18_rx_stall-%s", layout_name );
    static World w;
    const std::vector< int > sizes = { 29, 30, 31, 32, 40, int( RING ) - OVER };
    std::string only;
    if ( !a.replay.empty() )
    {
        std::ifstream f( a.replay ); std::string l;
        while ( std::getline( f, l ) ) if ( l.rfind( "detail ", 0 ) == 0 ) only = l.substr( 7, l.find( ':' ) - 7 );
    }
    total.exhaustive = true; total.fixpoint = true;
    for ( std::size_t i = 0; i != sizes.size(); ++i )
    {
        const std::string name = mc::fmt( "max_rx_size=%d", sizes[ i ] );
        if ( !only.empty() && only != name ) continue;
        w.configure( sizes[ i ] );
        mc::Report rep; rep.property = "C18"; rep.unit = total.unit;
        mc::Args pa = a; pa.start = mc::now_s(); pa.deadline = a.remaining() / double( sizes.size() - i );
        mc::BfsOptions o; o.max_states = 3000000; o.max_depth = int( a.num( "depth", a.thorough() ? 12 : 9 ) );
        mc::Bfs< World > bfs( w, rep, pa, o );
        if ( !a.replay.empty() ) return bfs.replay_file( mc::read_replay( a.replay ) );
        bfs.run();
        total.states += rep.states; total.transitions += rep.transitions; total.evaluations += rep.evaluations;
        total.traces_validated += rep.traces_validated;
        total.exhaustive = total.exhaustive && rep.exhaustive; total.fixpoint = total.fixpoint && rep.fixpoint;
        for ( auto& cl : rep.classes ) total.cls( name + ":" + cl );
        for ( auto& s : rep.samples ) total.sample( name + ": " + s, 6 );
        total.counters[ "states " + name ] = rep.states;
        total.max_depth_completed = total.max_depth_completed < 0 ? rep.max_depth_completed : std::min( total.max_depth_completed, rep.max_depth_completed );
        for ( auto& n : rep.notes ) total.notes[ name + " " + n.first ] = n.second;
        for ( auto& v : rep.violations )
        {
            const bool isnew = total.fail( v.first, name + ": " + v.second.detail, v.second.trace );
            if ( !isnew ) total.violations[ v.first ].count += v.second.count - 1; else total.violations[ v.first ].count = v.second.count;
            total.notes[ "configurations with " + v.first ] += name + " ";
        }
    }
    total.notes[ "configuration" ] = mc::fmt( "ll_data_pdu_buffer<61,61,radio> (%s layout), max_rx_size in {29,30,31,32,40,%d}, payloads {1,5,27,max}", layout_name, int( RING ) - OVER );
    total.write( a );
    return 0;
}
