// C08 - ATT MTU negotiation bounds every PDU.
// E1: explicit-state BFS (to fixpoint) over the real bluetoe::server<max_mtu_size<MTU>, ...> + one connection object.
// Events are Exchange MTU Requests (valid and malformed); after every transition a battery of probes (long read, read
// blob, read by type, find information, read multiple, read by group type, find by type value, error response,
// notification, indication) is run on the reached state (state restored after each probe) and compared with the
// reference mtu = min( server max, last valid client MTU ).
//
// Every request and every response buffer is an exact-size heap block (ASan red zones); response buffers are 512 bytes
// (and, for l2cap_output, additionally exactly the server's maximum - the size the real l2cap<> layer hands in), so that
// clipping to the negotiated MTU has to be done by the server itself.
#include "../mc/mc.hpp"
#include <bluetoe/server.hpp>
#include <bluetoe/service.hpp>
#include <bluetoe/characteristic.hpp>
#include <bluetoe/gatt_options.hpp>
#include <bluetoe/link_state.hpp>
#include <bluetoe/write_queue.hpp>

#ifndef MTU
#define MTU 65
#endif

namespace {

constexpr std::size_t   long_size = 250;
constexpr std::size_t   big_buffer = 512;
constexpr std::uint16_t server_max = MTU;

std::uint8_t v_long[ long_size ];
std::uint8_t v_small;

#define SMALL_CHAR( n ) bluetoe::characteristic< bluetoe::characteristic_uuid16< 0xBB00 + n >, bluetoe::fixed_uint8_value< n > >

// handles: 1 service, 2/3/4 long value (declaration, value, CCCD), 5/6 small value, 7.. fixed one byte values
using server_t = bluetoe::server<
    bluetoe::max_mtu_size< MTU >,
    bluetoe::shared_write_queue< 600 >,     // room for one Prepare Write Request of 512 octets
    bluetoe::no_gap_service_for_gatt_servers,
    bluetoe::service<
        bluetoe::service_uuid16< 0x1234 >,
        bluetoe::characteristic<
            bluetoe::characteristic_uuid16< 0xAA01 >,
            bluetoe::bind_characteristic_value< decltype( v_long ), &v_long >,
            bluetoe::notify, bluetoe::indicate >,
        bluetoe::characteristic<
            bluetoe::characteristic_uuid16< 0xAA02 >,
            bluetoe::bind_characteristic_value< std::uint8_t, &v_small > >,
        SMALL_CHAR( 1 ), SMALL_CHAR( 2 ), SMALL_CHAR( 3 ), SMALL_CHAR( 4 ), SMALL_CHAR( 5 ), SMALL_CHAR( 6 ),
        SMALL_CHAR( 7 ), SMALL_CHAR( 8 ), SMALL_CHAR( 9 ), SMALL_CHAR( 10 ), SMALL_CHAR( 11 ), SMALL_CHAR( 12 ),
        SMALL_CHAR( 13 ), SMALL_CHAR( 14 ), SMALL_CHAR( 15 ), SMALL_CHAR( 16 )
    >
>;
using conn_t = server_t::channel_data_t< bluetoe::details::link_state >;

constexpr std::uint16_t h_long = 3, h_cccd = 4, h_small = 6, h_last = 6 + 2 * 16;

using bytes = std::vector< std::uint8_t >;

struct Event { int kind; std::uint16_t value; int len; };   // kind 0: well formed (3 bytes) with client mtu value; kind 1: malformed length len

struct World
{
    mc::Placed< server_t > srv;
    mc::Placed< conn_t >   con;
    struct Ref {
        std::uint16_t mtu;          // min( server max, last valid client mtu )
        std::uint16_t client;       // last valid client mtu
        std::uint16_t exchanges;    // 0: never exchanged, 1: at least one valid exchange (saturating)
        std::uint16_t pad;
    } ref;

    std::vector< Event > events;
    mc::Report* rep = nullptr;          // probe failures whose signature is already recorded do not stop the exploration
    std::uint64_t suppressed = 0;
    mc::Regions regs;
    std::vector< std::uint8_t > snap;
    std::uint64_t probes = 0;

    World( bool thorough )
    {
        std::set< std::uint16_t > vals = { 0, 22, 23, 24, 50, std::uint16_t( MTU - 1 ), MTU, MTU + 1, 0x0100, 0xFFFF };
        if ( thorough )
        {
            for ( unsigned v = 0; v <= MTU + 2u; ++v ) vals.insert( std::uint16_t( v ) );
            for ( unsigned v : { 255u, 256u, 257u, 0x0117u, 0x1700u, 0x7FFFu, 0x8000u, 0xFF17u, 0xFFFEu } ) vals.insert( std::uint16_t( v ) );
        }
        for ( auto v : vals ) events.push_back( Event{ 0, v, 3 } );
        for ( int l : { 1, 2, 4, 5 } ) events.push_back( Event{ 1, 0, l } );
        regions( regs );
        snap.resize( regs.size() );
    }

    void regions( mc::Regions& r )
    {
        r.add( srv.raw, sizeof srv.raw ); r.add( con.raw, sizeof con.raw );
        r.add( v_long ); r.add( v_small ); r.add( ref );
    }

    static bool notify_cb( const bluetoe::details::notification_data& item, void* that, bluetoe::details::notification_type type )
    {
        conn_t& c = static_cast< World* >( that )->con.get();
        switch ( type )
        {
        case bluetoe::details::notification_type::notification: return c.queue_notification( item.client_characteristic_configuration_index() );
        case bluetoe::details::notification_type::indication:   return c.queue_indication( item.client_characteristic_configuration_index() );
        case bluetoe::details::notification_type::confirmation: c.indication_confirmed(); return true;
        }
        return true;
    }

    // ---- guarded calls into bluetoe with exact-size heap blocks -------------------------------------------------
    struct Resp { bytes out; std::string guard; bool oversize = false; std::size_t dirty_from = 0; bool dirty = false; };

    // bytes [ keep, cap ) of the output block must still carry the fill pattern
    static void scan_tail( Resp& r, const std::uint8_t* ob, std::size_t cap, std::size_t keep )
    {
        for ( std::size_t i = cap; i > keep; --i )
            if ( ob[ i - 1 ] != 0xEE ) { r.dirty = true; r.dirty_from = i - 1; break; }
    }

    Resp att( const bytes& in, std::size_t cap, std::size_t clean_beyond )
    {
        Resp r;
        std::uint8_t* ib = new std::uint8_t[ in.size() ];
        std::uint8_t* ob = new std::uint8_t[ cap ];
        memcpy( ib, in.data(), in.size() );
        memset( ob, 0xEE, cap );
        std::size_t osz = cap;
        r.guard = mc::Guard::call( [&]{ srv->l2cap_input( ib, in.size(), ob, osz, con.get() ); } );
        if ( osz > cap ) { r.oversize = true; osz = cap; }
        r.out.assign( ob, ob + osz );
        scan_tail( r, ob, cap, std::max( clean_beyond, osz ) );
        delete[] ib; delete[] ob;
        ++probes;
        return r;
    }

    Resp output( std::size_t cap, std::size_t clean_beyond )
    {
        Resp r;
        std::uint8_t* ob = new std::uint8_t[ cap ];
        memset( ob, 0xEE, cap );
        std::size_t osz = cap;
        r.guard = mc::Guard::call( [&]{ srv->l2cap_output( ob, osz, con.get() ); } );
        if ( osz > cap ) { r.oversize = true; osz = cap; }
        r.out.assign( ob, ob + osz );
        scan_tail( r, ob, cap, std::max( clean_beyond, osz ) );
        delete[] ob;
        ++probes;
        return r;
    }

    void init()
    {
        srv.construct();
        con.construct();
        for ( std::size_t i = 0; i != long_size; ++i ) v_long[ i ] = std::uint8_t( i + 1 );
        v_small = 0x5A;
        memset( &ref, 0, sizeof ref );
        ref.mtu = 23; ref.client = 23;
        srv->notification_callback( &notify_cb, this );
        // subscribe to notifications and indications of the long value
        Resp r = att( bytes{ 0x12, std::uint8_t( h_cccd ), 0x00, 0x03, 0x00 }, big_buffer, 23 );
        if ( r.out != bytes{ 0x13 } ) { fprintf( stderr, "C08 harness: unexpected attribute layout (CCCD write answered %s)\n", mc::hex( r.out ).c_str() ); exit( 2 ); }
    }

    int num_events() const { return int( events.size() ); }
    std::string describe( int ev ) const
    {
        const Event& e = events[ ev ];
        return e.kind == 0 ? mc::fmt( "ExchangeMTU(client=%u)", unsigned( e.value ) ) : mc::fmt( "ExchangeMTU(malformed,len=%d)", e.len );
    }

    static const char* value_class( std::uint16_t v )
    {
        return v < 23 ? "below23" : v == 23 ? "eq23" : v < server_max ? "below-server-max" : v == server_max ? "eq-server-max" : "above-server-max";
    }

    void save() { regs.save( snap.data() ); }
    void restore() { regs.load( snap.data() ); }

    // A failing *probe* leaves implementation and reference in step (the state is restored after every probe), so the
    // exploration may go on behind it: the first occurrence of a signature is reported (with its shortest trace), later
    // occurrences are only counted.  Without this a known defect would hide every multi-step defect behind it.
    void pfail( mc::Ctx& c, const std::string& sig, const std::string& detail )
    {
        if ( rep && rep->violations.count( sig ) ) { ++suppressed; ++rep->violations[ sig ].count; return; }
        c.fail( sig, detail );
    }

    // common checks on a response; returns false if the caller should stop looking at this response
    bool basic( mc::Ctx& c, const char* what, const Resp& r, std::size_t limit, const char* input_class )
    {
        if ( !r.guard.empty() ) { pfail( c, mc::fmt( "memory-safety:%s:%s", r.guard.c_str(), what ), mc::fmt( "%s: %s while handling the request (mtu %u)", what, r.guard.c_str(), unsigned( ref.mtu ) ) ); return false; }
        if ( r.oversize ) { pfail( c, mc::fmt( "out-size-exceeds-buffer:%s", what ), mc::fmt( "%s: returned size bigger than the buffer handed in", what ) ); return false; }
        if ( r.out.size() > limit )
        {
            pfail( c, mc::fmt( "pdu-exceeds-mtu:%s:%s", what, input_class ),
                    mc::fmt( "%s: PDU of %zu bytes although the negotiated MTU is %u (server max %u, client %u): %s...", what, r.out.size(), unsigned( ref.mtu ), unsigned( server_max ), unsigned( ref.client ), mc::hex( r.out.data(), std::min< std::size_t >( r.out.size(), 12 ) ).c_str() ) );
            return false;
        }
        if ( r.dirty )
        {
            pfail( c, mc::fmt( "writes-beyond-mtu:%s", what ), mc::fmt( "%s: output buffer modified at offset %zu, beyond the negotiated MTU %u", what, r.dirty_from, unsigned( ref.mtu ) ) );
            return false;
        }
        return true;
    }

    void expect_exact( mc::Ctx& c, const char* what, const Resp& r, const bytes& expected )
    {
        if ( r.out == expected ) return;
        const char* how = r.out.size() < expected.size() ? "shorter-than-mtu-allows" : r.out.size() > expected.size() ? "longer-than-expected" : "content";
        pfail( c, mc::fmt( "wrong-response:%s:%s", what, how ),
                mc::fmt( "%s at mtu %u: expected %zu bytes %s..., got %zu bytes %s...", what, unsigned( ref.mtu ), expected.size(),
                         mc::hex( expected.data(), std::min< std::size_t >( expected.size(), 10 ) ).c_str(), r.out.size(),
                         mc::hex( r.out.data(), std::min< std::size_t >( r.out.size(), 10 ) ).c_str() ) );
    }

    static bytes cat( bytes a, const std::uint8_t* p, std::size_t n ) { a.insert( a.end(), p, p + n ); return a; }

    // all probes on the current state; the state is restored after each of them
    void run_probes( mc::Ctx& c )
    {
        const std::size_t mtu = ref.mtu;
        const char* ic = mtu < server_max ? "mtu-below-server-max" : "mtu-eq-server-max";
        save();

        if ( con->negotiated_mtu() != mtu )
        {
            pfail( c, mc::fmt( "negotiated-mtu-wrong:%s", ic ), mc::fmt( "connection_data::negotiated_mtu() = %u, reference %zu (server max %u, last valid client mtu %u)", unsigned( con->negotiated_mtu() ), mtu, unsigned( server_max ), unsigned( ref.client ) ) );
            return;
        }

        auto done = [&]() { restore(); return !c.fails.empty(); };

        {   // long read: exactly mtu bytes
            Resp r = att( bytes{ 0x0A, h_long, 0x00 }, big_buffer, mtu );
            if ( basic( c, "read", r, mtu, ic ) ) expect_exact( c, "read", r, cat( bytes{ 0x0B }, v_long, mtu - 1 ) );
            if ( done() ) return;
        }
        {   // read blob at the interesting offsets
            const std::size_t offs[] = { 0, 1, long_size - ( mtu - 1 ), long_size - ( mtu - 1 ) + 1, long_size - 1, long_size };
            for ( std::size_t off : offs )
            {
                Resp r = att( bytes{ 0x0C, h_long, 0x00, std::uint8_t( off ), std::uint8_t( off >> 8 ) }, big_buffer, mtu );
                if ( basic( c, "read-blob", r, mtu, ic ) )
                    expect_exact( c, "read-blob", r, cat( bytes{ 0x0D }, v_long + off, std::min( mtu - 1, long_size - off ) ) );
                if ( done() ) return;
            }
            Resp r = att( bytes{ 0x0C, h_long, 0x00, std::uint8_t( long_size + 1 ), 0x00 }, big_buffer, mtu );
            if ( basic( c, "read-blob", r, mtu, ic ) ) expect_exact( c, "read-blob-behind-end", r, bytes{ 0x01, 0x0C, h_long, 0x00, 0x07 } );
            if ( done() ) return;
        }
        {   // read by type of the long value: one handle/value pair, value clipped to mtu - 4
            Resp r = att( bytes{ 0x08, 0x01, 0x00, 0xFF, 0xFF, 0x01, 0xAA }, big_buffer, mtu );
            if ( basic( c, "read-by-type", r, mtu, ic ) )
                expect_exact( c, "read-by-type", r, cat( bytes{ 0x09, std::uint8_t( mtu - 2 ), h_long, 0x00 }, v_long, mtu - 4 ) );
            if ( done() ) return;
        }
        {   // read by type of all characteristic declarations: list of 7 byte entries
            Resp r = att( bytes{ 0x08, 0x01, 0x00, 0xFF, 0xFF, 0x03, 0x28 }, big_buffer, mtu );
            if ( basic( c, "read-by-type-declarations", r, mtu, ic ) )
            {
                if ( r.out.size() < 9 || r.out[ 0 ] != 0x09 || r.out[ 1 ] != 7 || ( r.out.size() - 2 ) % 7 != 0 )
                    pfail( c, "wrong-response:read-by-type-declarations:malformed", mc::fmt( "mtu %zu: %s", mtu, mc::hex( r.out ).c_str() ) );
                else
                    c.cls( r.out.size() + 7 > mtu ? "declarations:filled-up-to-mtu" : "declarations:all-fit" );
            }
            if ( done() ) return;
        }
        {   // find information over the whole table: list of 4 byte entries
            Resp r = att( bytes{ 0x04, 0x01, 0x00, 0xFF, 0xFF }, big_buffer, mtu );
            if ( basic( c, "find-information", r, mtu, ic ) )
            {
                const std::size_t want = 2 + 4 * std::min< std::size_t >( ( mtu - 2 ) / 4, h_last );
                if ( r.out.size() < 6 || r.out[ 0 ] != 0x05 || r.out[ 1 ] != 0x01 || ( r.out.size() - 2 ) % 4 != 0 )
                    pfail( c, "wrong-response:find-information:malformed", mc::fmt( "mtu %zu: %s", mtu, mc::hex( r.out ).c_str() ) );
                else
                {
                    for ( std::size_t i = 2, h = 1; i < r.out.size(); i += 4, ++h )
                        if ( r.out[ i ] != h || r.out[ i + 1 ] != 0 ) { pfail( c, "wrong-response:find-information:handles", mc::fmt( "mtu %zu: %s", mtu, mc::hex( r.out ).c_str() ) ); break; }
                    c.cls( r.out.size() == want ? ( want + 4 > mtu ? "find-information:filled-up-to-mtu" : "find-information:whole-table-fits" ) : "find-information:less-than-possible" );
                }
            }
            if ( done() ) return;
        }
        {   // read multiple: long + long and small + long are both cut at mtu
            Resp r = att( bytes{ 0x0E, h_long, 0x00, h_long, 0x00 }, big_buffer, mtu );
            if ( basic( c, "read-multiple", r, mtu, ic ) ) expect_exact( c, "read-multiple", r, cat( bytes{ 0x0F }, v_long, mtu - 1 ) );
            if ( done() ) return;
            r = att( bytes{ 0x0E, h_small, 0x00, h_long, 0x00 }, big_buffer, mtu );
            if ( basic( c, "read-multiple", r, mtu, ic ) ) expect_exact( c, "read-multiple", r, cat( bytes{ 0x0F, v_small }, v_long, mtu - 2 ) );
            if ( done() ) return;
        }
        {   // read by group type, find by type value, error response: short PDUs, only the bound
            Resp r = att( bytes{ 0x10, 0x01, 0x00, 0xFF, 0xFF, 0x00, 0x28 }, big_buffer, mtu );
            if ( basic( c, "read-by-group-type", r, mtu, ic ) ) expect_exact( c, "read-by-group-type", r, bytes{ 0x11, 0x06, 0x01, 0x00, std::uint8_t( h_last ), 0x00, 0x34, 0x12 } );
            if ( done() ) return;
            r = att( bytes{ 0x06, 0x01, 0x00, 0xFF, 0xFF, 0x00, 0x28, 0x34, 0x12 }, big_buffer, mtu );
            if ( basic( c, "find-by-type-value", r, mtu, ic ) ) expect_exact( c, "find-by-type-value", r, bytes{ 0x07, 0x01, 0x00, std::uint8_t( h_last ), 0x00 } );
            if ( done() ) return;
            r = att( bytes{ 0x0A, 0x00, 0x70 }, big_buffer, mtu );
            if ( basic( c, "error-response", r, mtu, ic ) ) expect_exact( c, "error-response", r, bytes{ 0x01, 0x0A, 0x00, 0x70, 0x01 } );
            if ( done() ) return;
        }
        // Requests that are longer than the negotiated MTU (a transport with larger buffers delivers them; a client might
        // use the MTU out of the Exchange MTU Response): whatever the answer is, it has to respect the MTU.
        {
            std::set< std::size_t > lengths{ mtu + 1, big_buffer };
            for ( std::size_t len : lengths )
            {
                const std::size_t odd = len % 2 ? len : len - 1;    // Read Multiple needs an odd PDU size
                auto pdu = [&]( std::initializer_list< std::uint8_t > head, std::size_t n, bool fill_with_handles = false ) {
                    bytes b( head );
                    for ( std::size_t i = b.size(); i < n; ++i ) b.push_back( fill_with_handles ? std::uint8_t( ( i - 1 ) % 2 == 0 ? h_long : 0 ) : std::uint8_t( 0xA0 + i % 0x50 ) );
                    return b; };
                struct { const char* what; bytes req; } const reqs[] = {
                    { "overlong-prepare-write",      pdu( { 0x16, h_long, 0x00, 0x00, 0x00 }, len ) },
                    { "overlong-write-request",      pdu( { 0x12, h_long, 0x00 }, len ) },
                    { "overlong-write-request",      pdu( { 0x12, h_long, 0x00 }, std::min< std::size_t >( len, 3 + long_size ) ) },   // longest write that fits the value
                    { "overlong-write-command",      pdu( { 0x52, h_long, 0x00 }, len ) },
                    { "overlong-signed-write",       pdu( { 0xD2, h_long, 0x00 }, len ) },
                    { "overlong-exchange-mtu",       pdu( { 0x02, 0xF7, 0x00 }, len ) },
                    { "overlong-find-information",   pdu( { 0x04, 0x01, 0x00, 0xFF, 0xFF }, len ) },
                    { "overlong-find-by-type-value", pdu( { 0x06, 0x01, 0x00, 0xFF, 0xFF, 0x00, 0x28, 0x34, 0x12 }, len ) },
                    { "overlong-read-by-type",       pdu( { 0x08, 0x01, 0x00, 0xFF, 0xFF, 0x01, 0xAA }, len ) },
                    { "overlong-read",               pdu( { 0x0A, h_long, 0x00 }, len ) },
                    { "overlong-read-blob",          pdu( { 0x0C, h_long, 0x00, 0x00, 0x00 }, len ) },
                    { "overlong-read-multiple",      pdu( { 0x0E }, odd, true ) },
                    { "overlong-read-by-group-type", pdu( { 0x10, 0x01, 0x00, 0xFF, 0xFF, 0x00, 0x28 }, len ) },
                    { "overlong-execute-write",      pdu( { 0x18, 0x01 }, len ) },
                    { "overlong-confirmation",       pdu( { 0x1E }, len ) },
                    { "overlong-unknown-opcode",     pdu( { 0x3F }, len ) } };
                for ( auto& q : reqs )
                {
                    if ( q.req.size() <= mtu ) continue;
                    Resp r = att( q.req, big_buffer, mtu );
                    if ( basic( c, q.what, r, mtu, ic ) )
                    {
                        if ( q.req[ 0 ] == 0x16 )
                        {   // Prepare Write Response: the request, cut at the MTU
                            bytes want( q.req.begin(), q.req.begin() + mtu ); want[ 0 ] = 0x17;
                            expect_exact( c, q.what, r, want );
                        }
                        else if ( q.req[ 0 ] == 0x0E )
                            expect_exact( c, q.what, r, cat( bytes{ 0x0F }, v_long, mtu - 1 ) );
                        else if ( q.req[ 0 ] == 0x52 || q.req[ 0 ] == 0xD2 || q.req[ 0 ] == 0x1E )
                        {
                            if ( q.req[ 0 ] != 0x1E && !r.out.empty() ) pfail( c, mc::fmt( "wrong-response:%s:command-answered", q.what ), mc::hex( r.out ) );
                        }
                        else if ( r.out.empty() )
                            pfail( c, mc::fmt( "wrong-response:%s:no-answer", q.what ), mc::fmt( "request of %zu octets (opcode %02x) not answered", q.req.size(), q.req[ 0 ] ) );
                    }
                    if ( done() ) return;
                }
            }
        }
        // notification and indication of the long value: exactly mtu bytes.  First with the buffer size the real
        // l2cap<> layer passes ( the server's maximum MTU ), then with a 512 byte buffer.
        for ( int ind = 0; ind != 2; ++ind )
        {
            const std::size_t caps[] = { server_max, big_buffer };
            for ( std::size_t cap : caps )
            {
                const bool queued = ind ? srv->indicate( v_long ) : srv->notify( v_long );
                if ( !queued ) { c.fail( "harness:notification-not-queued", "notify()/indicate() returned false" ); restore(); return; }
                Resp r = output( cap, mtu );
                const char* what = ind ? "indication" : "notification";
                const std::string cls = cap == server_max ? "buffer=server-max" : "buffer=512";
                // one mechanism ( l2cap_output() ) serves notifications and indications: one signature for both
                if ( basic( c, "l2cap_output", r, mtu, cls.c_str() ) )
                    expect_exact( c, what, r, cat( bytes{ std::uint8_t( ind ? 0x1D : 0x1B ), h_long, 0x00 }, v_long, mtu - 3 ) );
                if ( done() ) return;
            }
        }
        c.cls( mc::fmt( "probes-ok:mtu%s", mtu == 23 ? "=23" : mtu == server_max ? "=server-max" : "-between" ) );
    }

    bool apply( int ev, mc::Ctx& c )
    {
        const Event& e = events[ ev ];
        bytes in;
        if ( e.kind == 0 ) in = bytes{ 0x02, std::uint8_t( e.value ), std::uint8_t( e.value >> 8 ) };
        else
        {   // payload bytes that would be a valid, large client MTU if the length check was missing
            const bytes full{ 0x02, 0xF7, 0x00, 0x01, 0x02 };
            in.assign( full.begin(), full.begin() + e.len );
        }
        const std::uint16_t before = ref.mtu;
        const bool valid = e.kind == 0 && e.value >= 23;
        if ( valid ) { ref.client = e.value; ref.mtu = std::min< std::uint16_t >( server_max, e.value ); ref.exchanges = 1; }

        Resp r = att( in, big_buffer, std::max( before, ref.mtu ) );
        c.obs = mc::fmt( "%s -> %s (mtu %u)", mc::hex( in ).c_str(), mc::hex( r.out ).c_str(), unsigned( ref.mtu ) );
        const std::string cl = e.kind == 0 ? value_class( e.value ) : mc::fmt( "malformed-len%d", e.len );
        if ( !basic( c, "exchange-mtu", r, before, cl.c_str() ) ) return true;

        if ( valid )
        {
            const bytes want{ 0x03, std::uint8_t( server_max & 0xff ), std::uint8_t( server_max >> 8 ) };
            if ( r.out != want )
            {
                const bool err = r.out.size() == 5 && r.out[ 0 ] == 0x01;
                c.fail( mc::fmt( "exchange-mtu:%s:%s", err ? "valid-request-rejected" : "response-does-not-carry-server-max", cl.c_str() ),
                        mc::fmt( "request %s answered %s, expected %s", mc::hex( in ).c_str(), mc::hex( r.out ).c_str(), mc::hex( want ).c_str() ) );
                return true;
            }
            c.cls( "exchange:accepted:" + cl + ( before == ref.mtu ? ":mtu-unchanged" : before < ref.mtu ? ":mtu-grows" : ":mtu-shrinks" ) );
        }
        else
        {
            if ( !( r.out.size() == 5 && r.out[ 0 ] == 0x01 && r.out[ 1 ] == 0x02 ) )
            {
                c.fail( mc::fmt( "exchange-mtu:invalid-request-not-rejected:%s", cl.c_str() ),
                        mc::fmt( "request %s answered %s, expected an Error Response", mc::hex( in ).c_str(), mc::hex( r.out ).c_str() ) );
                return true;
            }
            c.cls( mc::fmt( "exchange:rejected:%s:code%02x", cl.c_str(), r.out[ 4 ] ) );
        }
        run_probes( c );
        // a failing probe says "mtu changed although ..." in terms of the event that led here
        if ( !valid && !c.fails.empty() )
            for ( auto& f : c.fails ) f.detail = "after rejected " + describe( ev ) + ": " + f.detail;
        return true;
    }
};

} // namespace

int main( int argc, char** argv )
{
    mc::Args a = mc::parse_args( argc, argv );
    mc::Report rep; rep.property = "C08";
    rep.unit = a.opt.count( "unit" ) ? a.opt[ "unit" ] : mc::fmt( "C08_att_mtu-mtu%d", int( MTU ) );
    static World w( a.thorough() );
    if ( !a.replay.empty() )
    {
        // the alphabet differs between the tiers: rebuild the events from the text of the recorded steps
        mc::ReplayFile rf = mc::read_replay( a.replay );
        w.events.clear();
        std::vector< int > evs;
        for ( auto& s : rf.steps )
        {
            unsigned v = 0; int l = 0;
            const char* p = strstr( s.c_str(), "client=" ); const char* q = strstr( s.c_str(), "len=" );
            if ( p && sscanf( p, "client=%u", &v ) == 1 ) w.events.push_back( Event{ 0, std::uint16_t( v ), 3 } );
            else if ( q && sscanf( q, "len=%d", &l ) == 1 ) w.events.push_back( Event{ 1, 0, l } );
            else { printf( "unparsable step: %s\n", s.c_str() ); return 2; }
            evs.push_back( int( evs.size() ) );
        }
        // a probe failure ends the probe battery; to reach the later probes the last step is repeated with the
        // signatures seen so far muted (exactly what the exploration does)
        std::vector< mc::Ctx::Fail > fails;
        w.rep = &rep;
        printf( "replaying %zu steps on unit %s%s\n", evs.size(), rep.unit.c_str(), evs.empty() ? " (probes on the initial state)" : "" );
        w.init();
        mc::Ctx c;
        for ( std::size_t i = 0; i + 1 < evs.size(); ++i )
        {
            c.clear(); w.apply( evs[ i ], c );
            printf( "  step %zu: %s -> %s\n", i, w.describe( evs[ i ] ).c_str(), c.obs.c_str() );
            for ( auto& f : c.fails ) printf( "    FAIL %s: %s\n", f.sig.c_str(), f.detail.c_str() );
        }
        std::vector< std::uint8_t > before( w.regs.size() );
        w.regs.save( before.data() );
        for ( int pass = 0; pass != 32; ++pass )
        {
            w.regs.load( before.data() );
            c.clear();
            if ( evs.empty() ) w.run_probes( c ); else w.apply( evs.back(), c );
            if ( pass == 0 && !evs.empty() ) printf( "  step %zu: %s -> %s\n", evs.size() - 1, w.describe( evs.back() ).c_str(), c.obs.c_str() );
            if ( c.fails.empty() ) break;
            for ( auto& f : c.fails ) { printf( "    FAIL %s: %s\n", f.sig.c_str(), f.detail.c_str() ); fails.push_back( f ); rep.fail( f.sig, f.detail, {} ); }
        }
        for ( auto& f : fails ) if ( f.sig == rf.sig ) { printf( "REPRODUCED %s: %s\n", f.sig.c_str(), f.detail.c_str() ); return 1; }
        printf( "not reproduced\n" );
        return 0;
    }
    w.rep = &rep;
    {   // the initial state is probed as well ( nothing exchanged: mtu 23 ); every probe kind is run even if one fails
        w.init();
        for ( int guard = 0; guard != 32; ++guard )
        {
            mc::Ctx c; w.run_probes( c );
            for ( auto& k : c.classes ) rep.cls( k );
            if ( c.fails.empty() ) break;
            for ( auto& f : c.fails ) rep.fail( f.sig, "initial state (no exchange): " + f.detail, {} );
        }
    }
    mc::BfsOptions o;
    mc::Bfs< World > bfs( w, rep, a, o );
    bfs.run();
    rep.evaluations += w.probes;
    rep.counters[ "att_requests_and_outputs" ] = w.probes;
    rep.counters[ "events" ] = std::uint64_t( w.num_events() );
    rep.counters[ "probe_failures_of_already_reported_signatures" ] = w.suppressed;
    rep.notes[ "bound" ] = mc::fmt( "server max_mtu_size %d; %d events; BFS over byte images to %s: covers every sequence of Exchange MTU requests over the alphabet of any length", int( MTU ), w.num_events(), rep.fixpoint ? "fixpoint" : "the depth bound" );
    rep.write( a );
    return 0;
}
