// C04 - Attribute handles are consistent with the declared database.
// E2 over configurations: for one generated server declaration (reference table from gen/servers.py) every attribute index and
// every handle 0..last+2,0xFFFF is evaluated against handle_index_mapping<> and against the ATT view (Find Information, Read).
//   section map      : handle_by_index(i) == reference handle (=> non-zero, unique, increasing, fixed handles honoured),
//                      attribute_at(i).uuid == reference type, index_by_handle(handle) == i, number_of_attributes
//   section lower    : first_index_by_handle(h) == reference lower bound, index_by_handle(h) invalid for handles without attribute
//   section att      : Find Information h..h names the reference type; Read returns the reference value (service, include and
//                      characteristic declarations, descriptors, initial values); no attribute answers on a handle without attribute
//   section include  : include declarations name first/last handle and UUID of the included service (also evaluated when `map` failed)
#include "mc/mc.hpp"
#include <iterator>
#include <algorithm>
#include <bluetoe/server.hpp>
#include CFG_HEADER

using namespace gattdb;

namespace {

struct Fail { std::string sig, detail; };

struct Checker
{
    using server_t = gen::server_t;
    using mapping  = bluetoe::details::handle_index_mapping< server_t >;
    static constexpr std::size_t invalid_index = bluetoe::details::invalid_attribute_index;

    Db db;
    Client< server_t > cl;
    mc::Report* rep = nullptr;
    bool verbose = false;
    std::uint64_t evals = 0;

    void cls( const std::string& c ) { if ( rep ) rep->cls( c ); }
    void say( const std::string& s ) { if ( verbose ) printf( "    %s\n", s.c_str() ); }

    const char* svc_class( const ref_attr& a ) const { return db.svcs[ a.svc ].has_include ? "service-with-include" : db.has_include ? "cfg-with-include" : "plain"; }

    // ---------------------------------------------------------------------------------------------
    std::vector< Fail > section_map()
    {
        std::vector< Fail > f;
        ++evals;
        if ( std::size_t( server_t::number_of_attributes ) != db.n_attrs )
        {
            f.push_back( Fail{ "attribute-count:mismatch", mc::fmt( "server has %zu attributes, the declaration has %zu", std::size_t( server_t::number_of_attributes ), db.n_attrs ) } );
            return f;
        }
        std::uint16_t prev = 0;
        for ( std::size_t i = 0; i != db.n_attrs; ++i )
        {
            const ref_attr& a = db.attrs[ i ];
            std::uint16_t h = 0; std::uint16_t type = 0; std::size_t back = 0;
            const std::string p = mc::Guard::call( [&]{ h = mapping::handle_by_index( i ); type = server_t::attribute_at( i ).uuid; back = mapping::index_by_handle( a.handle ); } );
            ++evals;
            say( mc::fmt( "index %zu (%s): handle_by_index -> 0x%04x (declared 0x%04x), type 0x%04x, index_by_handle(0x%04x) -> %zd %s", i, kind_name( a.kind ), h, a.handle, type, a.handle, (ssize_t)back, p.c_str() ) );
            if ( !p.empty() ) { f.push_back( Fail{ "map-crash:" + p, mc::fmt( "index %zu", i ) } ); return f; }
            const std::uint16_t want_type = a.type128 ? 0x0001 : rd16( a.type );
            if ( type != want_type )
            {
                f.push_back( Fail{ mc::fmt( "attribute-type:mismatch:%s", kind_name( a.kind ) ), mc::fmt( "attribute_at(%zu).uuid = 0x%04x, declaration order says %s (0x%04x)", i, type, kind_name( a.kind ), want_type ) } );
                return f;
            }
            if ( h != a.handle )
            {
                const char* how = h == 0 ? "the invalid handle 0" : h <= prev ? "not increasing" : "not the declared handle";
                f.push_back( Fail{ mc::fmt( "handle-by-index:mismatch:%s", svc_class( a ) ), std::string( how ) + ": " +
                                   mc::fmt( "handle_by_index(%zu) = 0x%04x for the %s of service %u; declared handle is 0x%04x (previous attribute has 0x%04x)", i, h, kind_name( a.kind ), a.svc, a.handle, prev ) } );
                return f;
            }
            if ( back != i )
            {
                f.push_back( Fail{ mc::fmt( "index-by-handle:mismatch:%s", svc_class( a ) ), mc::fmt( "index_by_handle(0x%04x) = %zd, attribute index is %zu", a.handle, (ssize_t)back, i ) } );
                return f;
            }
            cls( mc::fmt( "map:%s:ok", kind_name( a.kind ) ) );
            prev = h;
        }
        return f;
    }

    std::vector< std::uint16_t > handle_alphabet() const
    {
        std::vector< std::uint16_t > hs;
        for ( std::uint32_t h = 0; h <= std::uint32_t( db.last_handle() ) + 2; ++h ) hs.push_back( std::uint16_t( h ) );
        hs.push_back( 0xFFFF );
        return hs;
    }

    std::vector< Fail > section_lower()
    {
        std::vector< Fail > f;
        for ( auto h : handle_alphabet() )
        {
            if ( h == 0 ) continue;   // 0 is not a handle; every caller filters it
            std::size_t first = 0, exact = 0;
            const std::string p = mc::Guard::call( [&]{ first = mapping::first_index_by_handle( h ); exact = mapping::index_by_handle( h ); } );
            ++evals;
            const std::size_t lb = db.lower_bound( h );
            const std::size_t want_first = lb == db.n_attrs ? invalid_index : lb;
            const std::size_t want_exact = db.find( h ) ? lb : invalid_index;
            say( mc::fmt( "handle 0x%04x (%s): first_index_by_handle -> %zd (want %zd), index_by_handle -> %zd (want %zd) %s", h, db.pos_class( h ), (ssize_t)first, (ssize_t)want_first, (ssize_t)exact, (ssize_t)want_exact, p.c_str() ) );
            if ( !p.empty() ) { f.push_back( Fail{ "lower-crash:" + p, mc::fmt( "handle 0x%04x", h ) } ); return f; }
            if ( first != want_first )
            {
                f.push_back( Fail{ mc::fmt( "first-index-by-handle:mismatch:%s", db.pos_class( h ) ), mc::fmt( "first_index_by_handle(0x%04x) = %zd, the first attribute with a handle >= 0x%04x has index %zd", h, (ssize_t)first, h, (ssize_t)want_first ) } );
                return f;
            }
            if ( exact != want_exact )
            {
                f.push_back( Fail{ mc::fmt( "index-by-handle:%s:%s", want_exact == invalid_index ? "phantom" : "mismatch", db.pos_class( h ) ), mc::fmt( "index_by_handle(0x%04x) = %zd, expected %zd", h, (ssize_t)exact, (ssize_t)want_exact ) } );
                return f;
            }
            cls( mc::fmt( "lower:%s:%s", db.pos_class( h ), want_first == invalid_index ? "invalid" : "index" ) );
        }
        return f;
    }

    // compares a Read Response with the reference value of a declaration; returns a failure or sig ""
    Fail compare_value( const ref_attr& a, const std::uint8_t* v, std::size_t n ) const
    {
        const std::string got = mc::hex( v, n ), want = mc::hex( a.value, a.vlen );
        const std::string d = mc::fmt( "Read of handle 0x%04x (%s) returns %s, the declaration implies %s", a.handle, kind_name( a.kind ), got.c_str(), want.c_str() );
        // a value longer than MTU - 1 is cut by a Read Request
        const std::size_t want_n = std::min< std::size_t >( a.vlen, cl.mtu - 1 );
        if ( n == want_n && memcmp( v, a.value, n ) == 0 ) return Fail{};
        if ( a.kind == k_chardecl && n == a.vlen )
        {
            if ( v[ 0 ] != a.value[ 0 ] ) return Fail{ "char-decl:wrong-properties", d };
            if ( memcmp( v + 1, a.value + 1, 2 ) != 0 ) return Fail{ mc::fmt( "char-decl:wrong-value-handle:%s", svc_class( a ) ), d };
            return Fail{ mc::fmt( "char-decl:wrong-uuid:%s", ( a.flags & 1 ) ? "auto-uuid-characteristic" : "explicit-uuid" ), d };
        }
        if ( a.kind == k_include )
        {
            // consecutive: the included service would have the same handles if handles were simply index + 1
            const ref_service* inc = nullptr;
            for ( std::size_t i = 0; i != db.n_svcs; ++i ) if ( db.svcs[ i ].start == rd16( a.value ) ) inc = &db.svcs[ i ];
            const bool consecutive = inc && inc->start == inc->first + 1 && inc->end == inc->first + inc->count;
            if ( n >= 4 && memcmp( v, a.value, 4 ) != 0 ) return Fail{ mc::fmt( "include-decl:wrong-handles:%s", consecutive ? "consecutive-handles" : "fixed-handles" ), d };
            return Fail{ "include-decl:wrong-uuid", d };
        }
        return Fail{ mc::fmt( "att-read:value-mismatch:%s", kind_name( a.kind ) ), d };
    }

    std::vector< Fail > section_att()
    {
        std::vector< Fail > f;
        cl.set_mtu( 247 );
        for ( auto h : handle_alphabet() )
        {
            if ( h == 0 ) continue;
            const ref_attr* a = db.find( h );
            // Find Information h..h
            cl.range_request( 0x04, h, h, nullptr, 0 ); ++evals;
            const std::uint8_t* o = cl.out();
            const bool fi_data = cl.problem.empty() && cl.out_n > 2 && o[ 0 ] == 0x05 && ( o[ 1 ] == 1 || o[ 1 ] == 2 ) && ( cl.out_n - 2 ) % ( o[ 1 ] == 1 ? 4 : 18 ) == 0;
            if ( !cl.problem.empty() ) { f.push_back( Fail{ "att-crash:find-information:" + cl.problem, cl.in_hex() } ); return f; }
            if ( a )
            {
                const std::size_t tn = a->type128 ? 16 : 2;
                if ( !fi_data || rd16( o + 2 ) != h || cl.out_n != 4 + tn )
                {
                    f.push_back( Fail{ mc::fmt( "att-find-information:attribute-not-reported:%s", kind_name( a->kind ) ), mc::fmt( "Find Information 0x%04x..0x%04x -> %s, expected the %s", h, h, cl.out_hex().c_str(), kind_name( a->kind ) ) } );
                    return f;
                }
                if ( ( o[ 1 ] == 2 ) != ( a->type128 != 0 ) || memcmp( o + 4, a->type, tn ) != 0 )
                {
                    f.push_back( Fail{ mc::fmt( "att-find-information:type-mismatch:%s", ( a->flags & 1 ) ? "auto-uuid-characteristic" : "explicit-uuid" ),
                                       mc::fmt( "Find Information 0x%04x..0x%04x -> %s, declared type is %s", h, h, cl.out_hex().c_str(), Type::of( *a ).str().c_str() ) } );
                    return f;
                }
                cls( mc::fmt( "find-information:%s:%s", kind_name( a->kind ), a->type128 ? "type128" : "type16" ) );
            }
            else if ( fi_data )
            {
                // (an empty list or an attribute of a higher handle are range defects and belong to C02)
                for ( std::size_t p = 2; p < cl.out_n; p += ( o[ 1 ] == 1 ? 4 : 18 ) )
                    if ( rd16( o + p ) == h )
                    {
                        f.push_back( Fail{ mc::fmt( "att-find-information:phantom-attribute:%s", db.pos_class( h ) ), mc::fmt( "Find Information reports an attribute at 0x%04x where none is declared: %s", h, cl.out_hex().c_str() ) } );
                        return f;
                    }
            }
            // Read
            const std::uint8_t rq[] = { 0x0A, std::uint8_t( h & 0xff ), std::uint8_t( h >> 8 ) };
            cl.request( rq, 3 ); ++evals;
            if ( !cl.problem.empty() ) { f.push_back( Fail{ "att-crash:read:" + cl.problem, cl.in_hex() } ); return f; }
            o = cl.out();
            if ( !a )
            {
                if ( !cl.is_error() )
                {
                    f.push_back( Fail{ mc::fmt( "att-read:phantom-attribute:%s", db.pos_class( h ) ), mc::fmt( "Read 0x%04x -> %s although no attribute is declared there", h, cl.out_hex().c_str() ) } );
                    return f;
                }
                cls( mc::fmt( "read:%s:error%02x", db.pos_class( h ), cl.error_code() ) );
                continue;
            }
            if ( !a->readable ) { cls( mc::fmt( "read:unreadable-value:%s", cl.is_error() ? mc::fmt( "error%02x", cl.error_code() ).c_str() : "data" ) ); continue; }
            if ( cl.is_error() || cl.out_n < 1 || o[ 0 ] != 0x0B )
            {
                f.push_back( Fail{ mc::fmt( "att-read:not-accessible:%s:%s", kind_name( a->kind ), svc_class( *a ) ), mc::fmt( "Read 0x%04x (%s) -> %s", h, kind_name( a->kind ), cl.out_hex().c_str() ) } );
                return f;
            }
            Fail c = compare_value( *a, o + 1, cl.out_n - 1 );
            if ( !c.sig.empty() ) { f.push_back( c ); return f; }
            cls( mc::fmt( "read:%s:value-ok", kind_name( a->kind ) ) );
        }
        return f;
    }

    std::vector< Fail > section_include()
    {
        // Evaluated by attribute *index* (declaration order), so that it stays evaluable when the index->handle table of the
        // including service is broken: the include declaration value comes from a different mechanism (details::service_handles<>).
        std::vector< Fail > f;
        for ( std::size_t i = 0; i != db.n_attrs && i < std::size_t( server_t::number_of_attributes ); ++i )
        {
            const ref_attr& a = db.attrs[ i ];
            if ( a.kind != k_include ) continue;
            std::uint8_t buf[ 64 ]; std::size_t n = 0; std::uint16_t type = 0; bool ok = false;
            const std::string p = mc::Guard::call( [&]{
                const bluetoe::details::attribute at = server_t::attribute_at( i );
                type = at.uuid;
                if ( type != 0x2802 ) return;
                auto read = bluetoe::details::attribute_access_arguments::read( buf, 0 );
                ok = at.access( read, i ) == bluetoe::details::attribute_access_result::success;
                n = read.buffer_size;
            } );
            ++evals;
            say( mc::fmt( "index %zu (include declaration, declared handle 0x%04x): type 0x%04x value %s %s", i, a.handle, type, ok ? mc::hex( buf, n ).c_str() : "-", p.c_str() ) );
            if ( !p.empty() ) { f.push_back( Fail{ "include-crash:" + p, mc::fmt( "index %zu", i ) } ); return f; }
            if ( type != 0x2802 || !ok ) { cls( "include:not-evaluable" ); continue; }
            Fail c = compare_value( a, buf, n );
            if ( !c.sig.empty() ) { c.detail = mc::fmt( "attribute index %zu: ", i ) + c.detail; f.push_back( c ); return f; }
            cls( mc::fmt( "include:%s:ok", a.vlen == 6 ? "uuid16" : "uuid128" ) );
        }
        return f;
    }

    std::vector< Fail > run_section( const std::string& s )
    {
        if ( s == "map" ) return section_map();
        if ( s == "lower" ) return section_lower();
        if ( s == "att" ) return section_att();
        if ( s == "include" ) return section_include();
        return {};
    }
};

} // namespace

int main( int argc, char** argv )
{
    mc::Args a = mc::parse_args( argc, argv );
    mc::Report rep; rep.property = "C04"; rep.unit = a.opt.count( "unit" ) ? a.opt[ "unit" ] : std::string( "C04_handles-" ) + gen::config_name;

    static Checker ck;
    ck.db = gen::db();
    ck.cl.init();

    if ( !a.replay.empty() )
    {
        mc::ReplayFile rf = mc::read_replay( a.replay );
        int rc = 0;
        ck.verbose = true; ck.cl.verbose = true;
        for ( auto& st : rf.steps )
        {
            const std::string sec = st.substr( st.find( ' ' ) + 1 );
            printf( "replaying section %s on %s\n", sec.c_str(), ck.db.name );
            for ( auto& f : ck.run_section( sec ) )
            {
                printf( "  FAIL %s: %s\n", f.sig.c_str(), f.detail.c_str() );
                if ( f.sig == rf.sig ) { printf( "REPRODUCED %s\n", rf.sig.c_str() ); rc = 1; }
            }
        }
        if ( !rc ) printf( "not reproduced\n" );
        return rc;
    }

    ck.rep = &rep;
    rep.notes[ "configuration" ] = ck.db.decl;
    rep.notes[ "excluded-declarations" ] = ck.db.excluded;
    auto record = [&]( const char* sec, const std::vector< Fail >& fs )
    {
        for ( auto& f : fs ) rep.fail( f.sig, std::string( ck.db.name ) + " [" + sec + "]: " + f.detail, { std::string( "section " ) + sec } );
        return fs.empty();
    };
    // after the handle table itself failed the reference and the implementation are out of step: only the include declarations,
    // which are computed by a different mechanism (service_handles<>), are still evaluated
    const bool map_ok = record( "map", ck.section_map() );
    if ( map_ok )
    {
        record( "lower", ck.section_lower() );
        record( "att", ck.section_att() );
    }
    else rep.notes[ "skipped" ] = "sections lower and att skipped because section map failed";
    record( "include", ck.section_include() );

    rep.evaluations = ck.evals;
    rep.traces_validated = ck.cl.requests;
    rep.counters[ "attributes" ] = ck.db.n_attrs; rep.counters[ "services" ] = ck.db.n_svcs; rep.counters[ "requests" ] = ck.cl.requests;
    rep.sample( mc::fmt( "%s: %zu attributes, last handle 0x%04x, %llu evaluations", ck.db.name, ck.db.n_attrs, ck.db.last_handle(), (unsigned long long)ck.evals ) );

    // determinism: every violation reproduces
    for ( auto& v : rep.violations )
    {
        const std::string sec = v.second.trace[ 0 ].substr( v.second.trace[ 0 ].find( ' ' ) + 1 );
        ck.rep = nullptr;
        for ( int k = 0; k != 2; ++k )
        {
            bool hit = false;
            for ( auto& f : ck.run_section( sec ) ) hit = hit || f.sig == v.first;
            if ( !hit ) { fprintf( stderr, "NONDETERMINISM: %s not reproduced\n", v.first.c_str() ); return 2; }
        }
    }
    rep.write( a );
    return 0;
}
