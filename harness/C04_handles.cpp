// C04 - Attribute handles are consistent with the declared database.
// E2 over configurations: for one generated server declaration (reference table from gen/servers.py) every attribute index and
// every handle 0..last+2,0xFFFF is evaluated against handle_index_mapping<> and against the ATT view (Find Information, Read).
//   section map      : handle_by_index(i) == reference handle (=> non-zero, unique, increasing, fixed handles honoured),
//                      attribute_at(i).uuid == reference type, index_by_handle(handle) == i, number_of_attributes
//   section lower    : first_index_by_handle(h) == reference lower bound, index_by_handle(h) invalid for handles without attribute
//   section att      : Find Information h..h names the reference type; Read returns the reference value (service, include and
//                      characteristic declarations, descriptors, initial values); Read Blob (offset 0 and inside the value), Read Multiple
//                      and Read By Type return the same bytes; no attribute answers on a handle without attribute
//   section include  : include declarations name first/last handle and UUID of the included service (also evaluated when `map` failed)
#include "mc/mc.hpp"
#include <iterator>
#include <algorithm>
#include <bluetoe/server.hpp>
#include CFG_HEADER

using namespace gattdb;

namespace {

struct Fail { std::string sig, detail; };

struct Checker
{
    using server_t = gen::server_t;
    using mapping  = bluetoe::details::handle_index_mapping< server_t >;
    static constexpr std::size_t invalid_index = bluetoe::details::invalid_attribute_index;

    Db db;
    Client< server_t > cl;
    mc::Report* rep = nullptr;
    bool verbose = false;
    std::uint64_t evals = 0;

    void cls( const std::string& c ) { if ( rep ) rep->cls( c ); }
    void say( const std::string& s ) { if ( verbose ) printf( "    %s\n", s.c_str() ); }

    const char* svc_class( const ref_attr& a ) const { return db.svcs[ a.svc ].has_include ? "service-with-include" : db.has_include ? "cfg-with-include" : "plain"; }

    // ---------------------------------------------------------------------------------------------
    std::vector< Fail > section_map()
    {
        std::vector< Fail > f;
        ++evals;
        if ( std::size_t( server_t::number_of_attributes ) != db.n_attrs )
        {
            f.push_back( Fail{ "attribute-count:mismatch", mc::fmt( "server has %zu attributes, the declaration has %zu", std::size_t( server_t::number_of_attributes ), db.n_attrs ) } );
            return f;
        }
        std::uint16_t prev = 0;
        for ( std::size_t i = 0; i != db.n_attrs; ++i )
        {
            const ref_attr& a = db.attrs[ i ];
            std::uint16_t h = 0; std::uint16_t type = 0; std::size_t back = 0;
            const std::string p = mc::Guard::call( [&]{ h = mapping::handle_by_index( i ); type = server_t::attribute_at( i ).uuid; back = mapping::index_by_handle( a.handle ); } );
            ++evals;
            say( mc::fmt( "index %zu (%s): handle_by_index -> 0x%04x (declared 0x%04x), type 0x%04x, index_by_handle(0x%04x) -> %zd %s", i, kind_name( a.kind ), h, a.handle, type, a.handle, (ssize_t)back, p.c_str() ) );
            if ( !p.empty() ) { f.push_back( Fail{ "map-crash:" + p, mc::fmt( "index %zu", i ) } ); return f; }
            const std::uint16_t want_type = a.type128 ? 0x0001 : rd16( a.type );
            if ( type != want_type )
            {
                f.push_back( Fail{ mc::fmt( "attribute-type:mismatch:%s", kind_name( a.kind ) ), mc::fmt( "attribute_at(%zu).uuid = 0x%04x, declaration order says %s (0x%04x)", i, type, kind_name( a.kind ), want_type ) } );
                return f;
            }
            if ( h != a.handle )
            {
                const char* how = h == 0 ? "the invalid handle 0" : h <= prev ? "not increasing" : "not the declared handle";
                f.push_back( Fail{ mc::fmt( "handle-by-index:mismatch:%s", svc_class( a ) ), std::string( how ) + ": " +
                                   mc::fmt( "handle_by_index(%zu) = 0x%04x for the %s of service %u; declared handle is 0x%04x (previous attribute has 0x%04x)", i, h, kind_name( a.kind ), a.svc, a.handle, prev ) } );
                return f;
            }
            if ( back != i )
            {
                f.push_back( Fail{ mc::fmt( "index-by-handle:mismatch:%s", svc_class( a ) ), mc::fmt( "index_by_handle(0x%04x) = %zd, attribute index is %zu", a.handle, (ssize_t)back, i ) } );
                return f;
            }
            cls( mc::fmt( "map:%s:ok", kind_name( a.kind ) ) );
            prev = h;
        }
        return f;
    }

    std::vector< std::uint16_t > handle_alphabet() const
    {
        std::vector< std::uint16_t > hs;
        for ( std::uint32_t h = 0; h <= std::uint32_t( db.last_handle() ) + 2; ++h ) hs.push_back( std::uint16_t( h ) );
        hs.push_back( 0xFFFF );
        return hs;
    }

    std::vector< Fail > section_lower()
    {
        std::vector< Fail > f;
        for ( auto h : handle_alphabet() )
        {
            if ( h == 0 ) continue;   // 0 is not a handle; every caller filters it
            std::size_t first = 0, exact = 0;
            const std::string p = mc::Guard::call( [&]{ first = mapping::first_index_by_handle( h ); exact = mapping::index_by_handle( h ); } );
            ++evals;
            const std::size_t lb = db.lower_bound( h );
            const std::size_t want_first = lb == db.n_attrs ? invalid_index : lb;
            const std::size_t want_exact = db.find( h ) ? lb : invalid_index;
            say( mc::fmt( "handle 0x%04x (%s): first_index_by_handle -> %zd (want %zd), index_by_handle -> %zd (want %zd) %s", h, db.pos_class( h ), (ssize_t)first, (ssize_t)want_first, (ssize_t)exact, (ssize_t)want_exact, p.c_str() ) );
            if ( !p.empty() ) { f.push_back( Fail{ "lower-crash:" + p, mc::fmt( "handle 0x%04x", h ) } ); return f; }
            if ( first != want_first )
            {
                f.push_back( Fail{ mc::fmt( "first-index-by-handle:mismatch:%s", db.pos_class( h ) ), mc::fmt( "first_index_by_handle(0x%04x) = %zd, the first attribute with a handle >= 0x%04x has index %zd", h, (ssize_t)first, h, (ssize_t)want_first ) } );
                return f;
            }
            if ( exact != want_exact )
            {
                f.push_back( Fail{ mc::fmt( "index-by-handle:%s:%s", want_exact == invalid_index ? "phantom" : "mismatch", db.pos_class( h ) ), mc::fmt( "index_by_handle(0x%04x) = %zd, expected %zd", h, (ssize_t)exact, (ssize_t)want_exact ) } );
                return f;
            }
            cls( mc::fmt( "lower:%s:%s", db.pos_class( h ), want_first == invalid_index ? "invalid" : "index" ) );
        }
        return f;
    }

    // compares a Read Response with the reference value of a declaration; returns a failure or sig ""
    // compares the value returned by an ATT request with the reference value of the attribute; returns a failure or sig "".
    // via: "" for Read Request (signatures as ever), else the request kind, which becomes the first part of the signature.
    // offset: offset of a Read Blob; cap: maximum number of octets the response can carry
    Fail compare_value( const ref_attr& a, const std::uint8_t* v, std::size_t n, const char* via = "", std::size_t offset = 0, std::size_t cap = 0 ) const
    {
        const bool by_read = via[ 0 ] == 0;
        if ( cap == 0 ) cap = cl.mtu - 1;     // a value longer than MTU - 1 is cut by a Read Request
        const std::size_t want_n = std::min< std::size_t >( a.vlen - offset, cap );
        const std::uint8_t* const want = a.value + offset;
        if ( n == want_n && memcmp( v, want, n ) == 0 ) return Fail{};

        const std::string d = mc::fmt( "%s of handle 0x%04x (%s)%s returns %s, the declaration implies %s", by_read ? "Read" : via, a.handle, kind_name( a.kind ),
                                       offset ? mc::fmt( " at offset %zu", offset ).c_str() : "", mc::hex( v, n ).c_str(), mc::hex( want, want_n ).c_str() );
        std::string sig;
        if ( a.kind == k_chardecl && offset == 0 && n == a.vlen )
        {
            if ( v[ 0 ] != a.value[ 0 ] ) sig = "char-decl:wrong-properties";
            else if ( memcmp( v + 1, a.value + 1, 2 ) != 0 ) sig = "char-decl:wrong-value-handle";
            else sig = mc::fmt( "char-decl:wrong-uuid:%s", ( a.flags & 1 ) ? "auto-uuid-characteristic" : "explicit-uuid" );
        }
        else if ( a.kind == k_include && offset == 0 )
        {
            // consecutive: the included service would have the same handles if handles were simply index + 1
            const ref_service* inc = nullptr;
            for ( std::size_t i = 0; i != db.n_svcs; ++i ) if ( db.svcs[ i ].start == rd16( a.value ) ) inc = &db.svcs[ i ];
            const bool consecutive = inc && inc->start == inc->first + 1 && inc->end == inc->first + inc->count;
            if ( n >= 4 && memcmp( v, a.value, 4 ) != 0 ) sig = mc::fmt( "include-decl:wrong-handles:%s", consecutive ? "consecutive-handles" : "fixed-handles" );
            else sig = "include-decl:wrong-uuid";
        }
        else sig = mc::fmt( "%svalue-mismatch:%s", by_read ? "att-read:" : "", kind_name( a.kind ) );
        return Fail{ by_read ? sig : std::string( via ) + ":" + sig, d };
    }

    // the content of attribute a fetched through Read Blob (offset 0 and inside the value), Read Multiple and Read By Type has to
    // be the content that Read returns (= the reference value)
    Fail other_reads( const ref_attr& a )
    {
        const std::uint8_t hl = std::uint8_t( a.handle & 0xff ), hh = std::uint8_t( a.handle >> 8 );
        const std::size_t offsets[] = { 0, std::size_t( a.vlen / 2 ) };
        for ( std::size_t k = 0; k != ( a.vlen >= 2 ? 2u : 1u ); ++k )
        {
            const std::uint8_t rq[] = { 0x0C, hl, hh, std::uint8_t( offsets[ k ] & 0xff ), std::uint8_t( offsets[ k ] >> 8 ) };
            cl.request( rq, sizeof rq ); ++evals;
            if ( !cl.problem.empty() ) return Fail{ "att-crash:read-blob:" + cl.problem, cl.in_hex() };
            if ( cl.is_error() && cl.error_code() == 0x0B ) { cls( "read-blob:attribute-not-long" ); continue; }   // permitted for short values
            if ( cl.is_error() || cl.out_n < 1 || cl.out()[ 0 ] != 0x0D )
                return Fail{ mc::fmt( "read-blob:not-accessible:%s", kind_name( a.kind ) ), mc::fmt( "Read Blob 0x%04x offset %zu -> %s", a.handle, offsets[ k ], cl.out_hex().c_str() ) };
            Fail c = compare_value( a, cl.out() + 1, cl.out_n - 1, "read-blob", offsets[ k ] );
            if ( !c.sig.empty() ) return c;
            cls( mc::fmt( "read-blob:%s:%s:value-ok", kind_name( a.kind ), k ? "inside" : "offset0" ) );
        }
        {   // Read Multiple with the set { handle, handle }: both values, concatenated
            const std::uint8_t rq[] = { 0x0E, hl, hh, hl, hh };
            cl.request( rq, sizeof rq ); ++evals;
            if ( !cl.problem.empty() ) return Fail{ "att-crash:read-multiple:" + cl.problem, cl.in_hex() };
            if ( cl.is_error() || cl.out_n < 1 || cl.out()[ 0 ] != 0x0F )
                return Fail{ mc::fmt( "read-multiple:not-accessible:%s", kind_name( a.kind ) ), mc::fmt( "Read Multiple 0x%04x,0x%04x -> %s", a.handle, a.handle, cl.out_hex().c_str() ) };
            const std::size_t n = cl.out_n - 1, n1 = std::min< std::size_t >( n, a.vlen );
            Fail c = compare_value( a, cl.out() + 1, n1, "read-multiple" );
            if ( c.sig.empty() ) c = compare_value( a, cl.out() + 1 + n1, n - n1, "read-multiple", 0, cl.mtu - 1 - n1 );
            if ( !c.sig.empty() ) return c;
            cls( mc::fmt( "read-multiple:%s:value-ok", kind_name( a.kind ) ) );
        }
        {   // Read By Type handle..handle with the type of the attribute
            cl.range_request( 0x08, a.handle, a.handle, a.type, a.type128 ? 16 : 2 ); ++evals;
            if ( !cl.problem.empty() ) return Fail{ "att-crash:read-by-type:" + cl.problem, cl.in_hex() };
            const std::uint8_t* o = cl.out();
            if ( cl.is_error() || cl.out_n < 4 || o[ 0 ] != 0x09 || o[ 1 ] != cl.out_n - 2 || rd16( o + 2 ) != a.handle )
                return Fail{ mc::fmt( "read-by-type:not-accessible:%s:%s", kind_name( a.kind ), a.type128 ? "type128" : "type16" ),
                             mc::fmt( "Read By Type 0x%04x..0x%04x type %s -> %s", a.handle, a.handle, Type::of( a ).str().c_str(), cl.out_hex().c_str() ) };
            Fail c = compare_value( a, o + 4, cl.out_n - 4, "read-by-type", 0, std::min< std::size_t >( cl.mtu - 4, 253 ) );
            if ( !c.sig.empty() ) return c;
            cls( mc::fmt( "read-by-type:%s:value-ok", kind_name( a.kind ) ) );
        }
        return Fail{};
    }

    std::vector< Fail > section_att()
    {
        std::vector< Fail > f;
        cl.set_mtu( 247 );
        for ( auto h : handle_alphabet() )
        {
            if ( h == 0 ) continue;
            const ref_attr* a = db.find( h );
            // Find Information h..h
            cl.range_request( 0x04, h, h, nullptr, 0 ); ++evals;
            const std::uint8_t* o = cl.out();
            const bool fi_data = cl.problem.empty() && cl.out_n > 2 && o[ 0 ] == 0x05 && ( o[ 1 ] == 1 || o[ 1 ] == 2 ) && ( cl.out_n - 2 ) % ( o[ 1 ] == 1 ? 4 : 18 ) == 0;
            if ( !cl.problem.empty() ) { f.push_back( Fail{ "att-crash:find-information:" + cl.problem, cl.in_hex() } ); return f; }
            if ( a )
            {
                const std::size_t tn = a->type128 ? 16 : 2;
                if ( !fi_data || rd16( o + 2 ) != h || cl.out_n != 4 + tn )
                {
                    f.push_back( Fail{ mc::fmt( "att-find-information:attribute-not-reported:%s", kind_name( a->kind ) ), mc::fmt( "Find Information 0x%04x..0x%04x -> %s, expected the %s", h, h, cl.out_hex().c_str(), kind_name( a->kind ) ) } );
                    return f;
                }
                if ( ( o[ 1 ] == 2 ) != ( a->type128 != 0 ) || memcmp( o + 4, a->type, tn ) != 0 )
                {
                    f.push_back( Fail{ mc::fmt( "att-find-information:type-mismatch:%s", ( a->flags & 1 ) ? "auto-uuid-characteristic" : "explicit-uuid" ),
                                       mc::fmt( "Find Information 0x%04x..0x%04x -> %s, declared type is %s", h, h, cl.out_hex().c_str(), Type::of( *a ).str().c_str() ) } );
                    return f;
                }
                cls( mc::fmt( "find-information:%s:%s", kind_name( a->kind ), a->type128 ? "type128" : "type16" ) );
            }
            else if ( fi_data )
            {
                // (an empty list or an attribute of a higher handle are range defects and belong to C02)
                for ( std::size_t p = 2; p < cl.out_n; p += ( o[ 1 ] == 1 ? 4 : 18 ) )
                    if ( rd16( o + p ) == h )
                    {
                        f.push_back( Fail{ mc::fmt( "att-find-information:phantom-attribute:%s", db.pos_class( h ) ), mc::fmt( "Find Information reports an attribute at 0x%04x where none is declared: %s", h, cl.out_hex().c_str() ) } );
                        return f;
                    }
            }
            // Read
            const std::uint8_t rq[] = { 0x0A, std::uint8_t( h & 0xff ), std::uint8_t( h >> 8 ) };
            cl.request( rq, 3 ); ++evals;
            if ( !cl.problem.empty() ) { f.push_back( Fail{ "att-crash:read:" + cl.problem, cl.in_hex() } ); return f; }
            o = cl.out();
            if ( !a )
            {
                if ( !cl.is_error() )
                {
                    f.push_back( Fail{ mc::fmt( "att-read:phantom-attribute:%s", db.pos_class( h ) ), mc::fmt( "Read 0x%04x -> %s although no attribute is declared there", h, cl.out_hex().c_str() ) } );
                    return f;
                }
                cls( mc::fmt( "read:%s:error%02x", db.pos_class( h ), cl.error_code() ) );
                continue;
            }
            if ( !a->readable ) { cls( mc::fmt( "read:unreadable-value:%s", cl.is_error() ? mc::fmt( "error%02x", cl.error_code() ).c_str() : "data" ) ); continue; }
            if ( cl.is_error() || cl.out_n < 1 || o[ 0 ] != 0x0B )
            {
                f.push_back( Fail{ mc::fmt( "att-read:not-accessible:%s:%s", kind_name( a->kind ), svc_class( *a ) ), mc::fmt( "Read 0x%04x (%s) -> %s", h, kind_name( a->kind ), cl.out_hex().c_str() ) } );
                return f;
            }
            Fail c = compare_value( *a, o + 1, cl.out_n - 1 );
            if ( !c.sig.empty() ) { f.push_back( c ); return f; }
            cls( mc::fmt( "read:%s:value-ok", kind_name( a->kind ) ) );
            c = other_reads( *a );
            if ( !c.sig.empty() ) { f.push_back( c ); return f; }
        }
        return f;
    }

    std::vector< Fail > section_include()
    {
        // Evaluated by attribute *index* (declaration order), so that it stays evaluable when the index->handle table of the
        // including service is broken: the include declaration value comes from a different mechanism (details::service_handles<>).
        std::vector< Fail > f;
        for ( std::size_t i = 0; i != db.n_attrs && i < std::size_t( server_t::number_of_attributes ); ++i )
        {
            const ref_attr& a = db.attrs[ i ];
            if ( a.kind != k_include ) continue;
            std::uint8_t buf[ 64 ]; std::size_t n = 0; std::uint16_t type = 0; bool ok = false;
            const std::string p = mc::Guard::call( [&]{
                const bluetoe::details::attribute at = server_t::attribute_at( i );
                type = at.uuid;
                if ( type != 0x2802 ) return;
                auto read = bluetoe::details::attribute_access_arguments::read( buf, 0 );
                ok = at.access( read, i ) == bluetoe::details::attribute_access_result::success;
                n = read.buffer_size;
            } );
            ++evals;
            say( mc::fmt( "index %zu (include declaration, declared handle 0x%04x): type 0x%04x value %s %s", i, a.handle, type, ok ? mc::hex( buf, n ).c_str() : "-", p.c_str() ) );
            if ( !p.empty() ) { f.push_back( Fail{ "include-crash:" + p, mc::fmt( "index %zu", i ) } ); return f; }
            if ( type != 0x2802 || !ok ) { cls( "include:not-evaluable" ); continue; }
            Fail c = compare_value( a, buf, n );
            if ( !c.sig.empty() ) { c.detail = mc::fmt( "attribute index %zu: ", i ) + c.detail; f.push_back( c ); return f; }
            cls( mc::fmt( "include:%s:ok", a.vlen == 6 ? "uuid16" : "uuid128" ) );
        }
        return f;
    }

    std::vector< Fail > run_section( const std::string& s )
    {
        if ( s == "map" ) return section_map();
        if ( s == "lower" ) return section_lower();
        if ( s == "att" ) return section_att();
        if ( s == "include" ) return section_include();
        return {};
    }
};

} // namespace

int main( int argc, char** argv )
{
    mc::Args a = mc::parse_args( argc, argv );
    mc::Report rep; rep.property = "C04"; rep.unit = a.opt.count( "unit" ) ? a.opt[ "unit" ] : std::string( "C04_handles-" ) + gen::config_name;

    static Checker ck;
    ck.db = gen::db();
    ck.cl.init();

    if ( !a.replay.empty() )
    {
        mc::ReplayFile rf = mc::read_replay( a.replay );
        int rc = 0;
        ck.verbose = true; ck.cl.verbose = true;
        for ( auto& st : rf.steps )
        {
            const std::string sec = st.substr( st.find( ' ' ) + 1 );
            printf( "replaying section %s on %s\n", sec.c_str(), ck.db.name );
            for ( auto& f : ck.run_section( sec ) )
            {
                printf( "  FAIL %s: %s\n", f.sig.c_str(), f.detail.c_str() );
                if ( f.sig == rf.sig ) { printf( "REPRODUCED %s\n", rf.sig.c_str() ); rc = 1; }
            }
        }
        if ( !rc ) printf( "not reproduced\n" );
        return rc;
    }

    ck.rep = &rep;
    rep.notes[ "configuration" ] = ck.db.decl;
    rep.notes[ "excluded-declarations" ] = ck.db.excluded;
    auto record = [&]( const char* sec, const std::vector< Fail >& fs )
    {
        for ( auto& f : fs ) rep.fail( f.sig, std::string( ck.db.name ) + " [" + sec + "]: " + f.detail, { std::string( "section " ) + sec } );
        return fs.empty();
    };
    // after the handle table itself failed the reference and the implementation are out of step: only the include declarations,
    // which are computed by a different mechanism (service_handles<>), are still evaluated
    const bool map_ok = record( "map", ck.section_map() );
    if ( map_ok )
    {
        record( "lower", ck.section_lower() );
        record( "att", ck.section_att() );
    }
    else rep.notes[ "skipped" ] = "sections lower and att skipped because section map failed";
    record( "include", ck.section_include() );

    rep.evaluations = ck.evals;
    rep.traces_validated = ck.cl.requests;
    rep.counters[ "attributes" ] = ck.db.n_attrs; rep.counters[ "services" ] = ck.db.n_svcs; rep.counters[ "requests" ] = ck.cl.requests;
    rep.sample( mc::fmt( "%s: %zu attributes, last handle 0x%04x, %llu evaluations", ck.db.name, ck.db.n_attrs, ck.db.last_handle(), (unsigned long long)ck.evals ) );

    // determinism: every violation reproduces
    for ( auto& v : rep.violations )
    {
        const std::string sec = v.second.trace[ 0 ].substr( v.second.trace[ 0 ].find( ' ' ) + 1 );
        ck.rep = nullptr;
        for ( int k = 0; k != 2; ++k )
        {
            bool hit = false;
            for ( auto& f : ck.run_section( sec ) ) hit = hit || f.sig == v.first;
            if ( !hit ) { fprintf( stderr, "NONDETERMINISM: %s not reproduced\n", v.first.c_str() ); return 2; }
        }
    }
    rep.write( a );
    return 0;
}
