// C10 - notifications / indications carry the requested characteristic to subscribed clients only.
// E1: explicit-state BFS over the real server<> (world "bare": server + 1 or 2 channel_data_t connections and a
// notification callback that does literally what link_layer::queue_lcap_notification does) or over the real
// link_layer< server, llw::radio > (world "ll": requests through the server API of the link layer object, CCCD writes
// and confirmations as L2CAP PDUs of a reference central, output = what the central receives).
//
// Build: -DCFG=<configuration of C09_notify_servers.hpp> -DNCONN=<1|2> -DWORLD_LL=<0|1> -DDEPTH_Q=.. -DDEPTH_T=..
#include "../mc/mc.hpp"
#include "C09_notify_servers.hpp"
#if WORLD_LL
#include "ll_world.hpp"
#endif

#ifndef CFG
#define CFG n3_p1
#endif
#ifndef NCONN
#define NCONN 1
#endif
#ifndef DEPTH_Q
#define DEPTH_Q 5
#endif
#ifndef DEPTH_T
#define DEPTH_T 6
#endif
#define STR2( x ) #x
#define STR( x ) STR2( x )

namespace {

using cfg   = nsrv::CFG< nsrv::mixed_kinds >;
using lay   = cfg::lay;
using kinds = cfg::kinds;
constexpr int N  = cfg::n;
constexpr int NC = NCONN;

enum { KN = 0, KI = 1 };                        // kind index: notification, indication
enum { P_NO = 0, P_YES = 1, P_MAYBE = 2 };      // is a request for (kind, characteristic) waiting in the queue of a connection?
enum { VIA_NONE = 0, VIA_VALUE = 1, VIA_UUID = 2 };
const char* const kind_name[] = { "notification", "indication" };
const char* const via_name[]  = { "none", "by-value", "by-uuid" };

// notify< UUID >() / indicate< UUID >() address the *first* characteristic with that UUID ( documented in server.hpp ) and
// there is no way to name a later one, so a by-UUID request exists for k only if no earlier characteristic has k's UUID
constexpr bool uuid_request_possible( int k, int kind_bit ) { return kinds::uuid_of( k ) == k && ( kinds::of( k ) & kind_bit ) != 0; }
inline bool uuid_is_duplicated( int k )
{
    for ( int j = 0; j != N; ++j ) if ( j != k && kinds::uuid_of( j ) == kinds::uuid_of( k ) ) return true;
    return false;
}

// ---- reference model ------------------------------------------------------------------------------------------------------
// It knows nothing about queue positions or priorities: a request marks (kind, k) pending on every connection; a PDU has to
// belong to a pending request of a connection that is subscribed for that kind and to carry k's handle and current value.
// A transmit opportunity that produced nothing may have consumed (dropped) a request the connection is not subscribed
// for - which one is the queue's business (C12), so all such requests become "maybe pending".
struct Ref
{
    std::uint8_t sub[ NC ][ 8 ];
    std::uint8_t pend[ NC ][ 2 ][ 8 ];
    std::uint8_t how[ 2 ][ 8 ];     // how (kind, k) was requested last
    std::uint8_t nreq[ 2 ][ 8 ];    // requests since the last PDU of (kind, k), saturating at 2 (classes only)
    std::uint8_t misrouted;         // VIA_*: a request was filed under the queue index of another characteristic (diagnosis only)
    std::uint8_t misrouted_dup;     // ... and the UUID of the requested characteristic exists twice
    std::uint8_t toggle;            // values are initial ^ ( toggle ? 0x80 : 0 )
};

struct Model
{
    Ref ref;
    int char_of_queue_index[ 8 ];   // constant: which characteristic the l2cap layer sends for queue index q (learned by experiment)

    void reset() { memset( &ref, 0, sizeof ref ); }

    std::string suffix() const
    {
        return ref.misrouted ? mc::fmt( "wrong-characteristic-notified:queue-index-of-other-characteristic:%s-request%s", via_name[ ref.misrouted ],
                                        ref.misrouted_dup ? "-duplicated-uuid" : "" ) : std::string();
    }
    void fail( mc::Ctx& ctx, const std::string& sig, const std::string& detail ) const
    {
        // every symptom that follows a misrouted request is that one defect
        if ( ref.misrouted ) ctx.fail( suffix(), STR( CFG ) ": [symptom " + sig + "] " + detail );
        else ctx.fail( sig, STR( CFG ) ": " + detail );
    }

    void request( int kind, int k, int via, int queue_index, mc::Ctx& ctx )
    {
        bool waiting = false;
        for ( int c = 0; c != NC; ++c ) { waiting = waiting || ref.pend[ c ][ kind ][ k ] == P_YES; ref.pend[ c ][ kind ][ k ] = P_YES; }
        ref.nreq[ kind ][ k ] = waiting ? 2 : 1;
        ref.how[ kind ][ k ] = std::uint8_t( via );
        // the diagnosis needs a sane "queue index -> characteristic" experiment; if output itself is broken the symptoms speak
        bool sane = true;
        for ( int q = 0; q != N; ++q ) sane = sane && char_of_queue_index[ q ] >= 0;
        const bool mis = sane && ( queue_index < 0 || queue_index >= N || char_of_queue_index[ queue_index ] != k );
        if ( mis && !ref.misrouted ) { ref.misrouted = std::uint8_t( via ); ref.misrouted_dup = via == VIA_UUID && uuid_is_duplicated( k ); }
        ctx.cls( mc::fmt( "request %s %s%s", kind_name[ kind ], via_name[ via ], mis ? " (other queue index than the characteristic's)" : "" ) );
    }

    // one PDU seen by connection c
    bool pdu( int c, const std::uint8_t* att, std::size_t n, mc::Ctx& ctx )
    {
        const std::string raw = mc::hex( att, n );
        if ( n < 3 || ( att[ 0 ] != 0x1B && att[ 0 ] != 0x1D ) ) { fail( ctx, "malformed-pdu:opcode-or-length", "output " + raw ); return false; }
        const int kind = att[ 0 ] == 0x1B ? KN : KI;
        const int k = lay::by_value_handle( std::uint16_t( att[ 1 ] | ( att[ 2 ] << 8 ) ) );
        if ( k < 0 )
        {
            const std::uint16_t h = std::uint16_t( att[ 1 ] | ( att[ 2 ] << 8 ) );
            fail( ctx, "pdu-with-handle-of-no-value-attribute", mc::fmt( "output %s: handle 0x%04x is a %s", raw.c_str(), h, lay::classify( h ) ) );
            return false;
        }
        if ( !( kinds::of( k ) & ( 1 << kind ) ) )
        {
            fail( ctx, mc::fmt( "pdu-kind-not-offered-by-characteristic:%s", kind_name[ kind ] ), mc::fmt( "%s for characteristic %d: %s", kind_name[ kind ], k, raw.c_str() ) );
            return false;
        }
        if ( ref.pend[ c ][ kind ][ k ] == P_NO )
        {
            fail( ctx, ref.how[ kind ][ k ] == VIA_NONE ? mc::fmt( "pdu-for-never-requested-characteristic:%s", kind_name[ kind ] )
                                                        : mc::fmt( "second-pdu-for-one-request:%s:%s", kind_name[ kind ], via_name[ ref.how[ kind ][ k ] ] ),
                  mc::fmt( "connection %d received %s of characteristic %d (%s) without a pending request", c, kind_name[ kind ], k, raw.c_str() ) );
            return false;
        }
        if ( !( ref.sub[ c ][ k ] & ( 1 << kind ) ) )
        {
            fail( ctx, mc::fmt( "pdu-while-not-subscribed:%s", kind_name[ kind ] ),
                  mc::fmt( "connection %d received %s although its CCCD of characteristic %d is %02x00", c, raw.c_str(), k, ref.sub[ c ][ k ] ) );
            return false;
        }
        const std::uint8_t cur = nsrv::value_of< N >( k );
        if ( n != 4 || att[ 3 ] != cur )
        {
            fail( ctx, mc::fmt( "pdu-value-not-current:%s", kind_name[ kind ] ), mc::fmt( "characteristic %d holds %02x, PDU %s", k, cur, raw.c_str() ) );
            return false;
        }
        ref.pend[ c ][ kind ][ k ] = P_NO;
        ctx.cls( mc::fmt( "pdu %s requested %s, %s, cccd %02x00, value %s", kind_name[ kind ], via_name[ ref.how[ kind ][ k ] ],
                          ref.nreq[ kind ][ k ] == 2 ? "repeated request coalesced" : "single request", ref.sub[ c ][ k ], ref.toggle ? "changed" : "initial" ) );
        if ( NC == 1 ) ref.nreq[ kind ][ k ] = 0;
        return true;
    }

    // a transmit opportunity of connection c that produced nothing
    void nothing_sent( int c, mc::Ctx& ctx )
    {
        bool dropped = false;
        for ( int kind = 0; kind != 2; ++kind )
            for ( int k = 0; k != N; ++k )
                if ( ref.pend[ c ][ kind ][ k ] != P_NO && !( ref.sub[ c ][ k ] & ( 1 << kind ) ) ) { ref.pend[ c ][ kind ][ k ] = P_MAYBE; dropped = true; }
        ctx.cls( dropped ? "transmit opportunity: nothing (unsubscribed request pending)" : "transmit opportunity: nothing" );
    }

    // after a complete drain with a client that confirms generously: every request that was certainly pending and is
    // subscribed has to have been delivered
    void drained( int c, mc::Ctx& ctx )
    {
        for ( int kind = 0; kind != 2; ++kind )
            for ( int k = 0; k != N; ++k )
                if ( ref.pend[ c ][ kind ][ k ] == P_YES && ( ref.sub[ c ][ k ] & ( 1 << kind ) ) )
                {
                    fail( ctx, mc::fmt( "request-not-delivered:%s:%s", kind_name[ kind ], via_name[ ref.how[ kind ][ k ] ] ),
                          mc::fmt( "%s of characteristic %d requested %s, connection %d subscribed (%02x00), nothing arrived within %d transmit opportunities with every indication confirmed",
                                   kind_name[ kind ], k, via_name[ ref.how[ kind ][ k ] ], c, ref.sub[ c ][ k ], 2 * N + 2 ) );
                    return;
                }
    }
};

// ---- events -----------------------------------------------------------------------------------------------------------------
enum ev_kind { E_SUB, E_NOTIFY_VAR, E_NOTIFY_UUID, E_IND_VAR, E_IND_UUID, E_POLL, E_CONFIRM, E_CHANGE };
struct Ev { ev_kind e; int c, k, bits; };

std::vector< Ev > make_events( bool ll )
{
    std::vector< Ev > v;
    static const int sub_alphabet_bare[] = { 0, 1, 2, 3 };
    for ( int c = 0; c != NC; ++c )
        for ( int k = 0; k != N; ++k )
            for ( int b : sub_alphabet_bare )
            {
                if ( ll && ( b == 1 || b == 2 ) && kinds::of( k ) != b ) continue;   // smaller alphabet in the link layer world
                v.push_back( Ev{ E_SUB, c, k, b } );
            }
    for ( int k = 0; k != N; ++k ) if ( kinds::of( k ) & 1 ) v.push_back( Ev{ E_NOTIFY_VAR, 0, k, 0 } );
    for ( int k = 0; k != N; ++k ) if ( uuid_request_possible( k, 1 ) ) v.push_back( Ev{ E_NOTIFY_UUID, 0, k, 0 } );
    for ( int k = 0; k != N; ++k ) if ( kinds::of( k ) & 2 ) v.push_back( Ev{ E_IND_VAR, 0, k, 0 } );
    for ( int k = 0; k != N; ++k ) if ( uuid_request_possible( k, 2 ) ) v.push_back( Ev{ E_IND_UUID, 0, k, 0 } );
    for ( int c = 0; c != NC; ++c ) v.push_back( Ev{ E_POLL, c, 0, 0 } );
    for ( int c = 0; c != NC; ++c ) v.push_back( Ev{ E_CONFIRM, c, 0, 0 } );
    v.push_back( Ev{ E_CHANGE, 0, 0, 0 } );
    return v;
}

std::string describe_ev( const Ev& e )
{
    switch ( e.e )
    {
    case E_SUB:         return mc::fmt( "conn%d: write CCCD of characteristic %d (handle 0x%04x) := %02x00", e.c, e.k, lay::cccd_handle( e.k ), e.bits );
    case E_NOTIFY_VAR:  return mc::fmt( "notify( value of characteristic %d )", e.k );
    case E_NOTIFY_UUID: return mc::fmt( "notify< uuid of characteristic %d >()", e.k );
    case E_IND_VAR:     return mc::fmt( "indicate( value of characteristic %d )", e.k );
    case E_IND_UUID:    return mc::fmt( "indicate< uuid of characteristic %d >()", e.k );
    case E_POLL:        return mc::fmt( "conn%d: transmit opportunity", e.c );
    case E_CONFIRM:     return mc::fmt( "conn%d: Handle Value Confirmation", e.c );
    case E_CHANGE:      return "application changes all characteristic values";
    }
    return "?";
}

// the request goes through the public server API; S is the server (bare) or the link layer object (it derives from the server)
template < class S > struct notify_var_f  { S& s; bool r; template < int I > void call() { r = s.notify( nsrv::val< I > ); } };
template < class S > struct indicate_var_f { S& s; bool r; template < int I > void call() { r = s.indicate( nsrv::val< I > ); } };
template < class S, int K > struct uuid_call
{
    template < int I > static bool n( S& s, std::true_type )  { return s.template notify< nsrv::cuuid< I > >(); }
    template < int I > static bool n( S&, std::false_type )   { return false; }
    template < int I > static bool i( S& s, std::true_type )  { return s.template indicate< nsrv::cuuid< I > >(); }
    template < int I > static bool i( S&, std::false_type )   { return false; }
};
template < class S > struct notify_uuid_f
{ S& s; bool r; template < int I > void call() { r = uuid_call< S, 0 >::template n< I >( s, std::integral_constant< bool, uuid_request_possible( I, 1 ) >() ); } };
template < class S > struct indicate_uuid_f
{ S& s; bool r; template < int I > void call() { r = uuid_call< S, 0 >::template i< I >( s, std::integral_constant< bool, uuid_request_possible( I, 2 ) >() ); } };

template < class S >
bool do_request( S& s, const Ev& e )
{
    switch ( e.e )
    {
    case E_NOTIFY_VAR:  { notify_var_f< S > f{ s, false };    nsrv::dispatch< N >( e.k, f ); return f.r; }
    case E_NOTIFY_UUID: { notify_uuid_f< S > f{ s, false };   nsrv::dispatch< N >( e.k, f ); return f.r; }
    case E_IND_VAR:     { indicate_var_f< S > f{ s, false };  nsrv::dispatch< N >( e.k, f ); return f.r; }
    case E_IND_UUID:    { indicate_uuid_f< S > f{ s, false }; nsrv::dispatch< N >( e.k, f ); return f.r; }
    default: return false;
    }
}

void apply_change( Model& m )
{
    m.ref.toggle ^= 1;
    for ( int k = 0; k != N; ++k ) nsrv::set_value< N >( k, std::uint8_t( nsrv::initial_value( k ) ^ ( m.ref.toggle ? 0x80 : 0 ) ) );
}

// Diagnosis only: under which queue index does the server file a request?  A second server object of the same type with a
// recording callback is asked once per (request kind, characteristic) before the exploration starts.
int g_probe_last = -1;
int g_request_queue_index[ 4 ][ 8 ];    // [ E_NOTIFY_VAR .. E_IND_UUID ][ k ]
void learn_request_indices()
{
    static cfg::server probe;
    probe.notification_callback( +[]( const bluetoe::details::notification_data& item, void*, bluetoe::details::notification_type ) -> bool
        { g_probe_last = int( item.client_characteristic_configuration_index() ); return true; }, nullptr );
    for ( int t = 0; t != 4; ++t )
        for ( int k = 0; k != N; ++k )
        {
            g_probe_last = -1;
            const bool is_ind = t >= 2;
            const bool by_uuid = t == 1 || t == 3;
            if ( by_uuid ? uuid_request_possible( k, is_ind ? 2 : 1 ) : ( kinds::of( k ) & ( is_ind ? 2 : 1 ) ) != 0 )
                do_request( probe, Ev{ ev_kind( E_NOTIFY_VAR + t ), 0, k, 0 } );
            g_request_queue_index[ t ][ k ] = g_probe_last;
        }
}
int g_confirm_conn = 0;

#if !WORLD_LL
// ============================================================================================================================
// world "bare"
struct World
{
    using server_t = cfg::server;
    using conn_t   = server_t::channel_data_t< bluetoe::details::link_state_no_security >;

    mc::Placed< server_t > srv;
    mc::Placed< conn_t >   conn[ NC ];
    Model                  m;
    std::vector< Ev >      events = make_events( false );

    // exactly link_layer::queue_lcap_notification, for every connection
    static bool l2cap_cb( const bluetoe::details::notification_data& item, void* arg, bluetoe::details::notification_type type )
    {
        World& w = *static_cast< World* >( arg );
        bool new_data = false;
        for ( int c = 0; c != NC; ++c )
            switch ( type )
            {
            case bluetoe::details::notification_type::notification:
                new_data = w.conn[ c ]->queue_notification( item.client_characteristic_configuration_index() ) || new_data; break;
            case bluetoe::details::notification_type::indication:
                new_data = w.conn[ c ]->queue_indication( item.client_characteristic_configuration_index() ) || new_data; break;
            case bluetoe::details::notification_type::confirmation:
                if ( c == g_confirm_conn ) w.conn[ c ]->indication_confirmed();   // the connection the 0x1E arrived on
                break;
            }
        return type == bluetoe::details::notification_type::confirmation ? true : new_data;
    }

    // which characteristic does the l2cap layer send for queue index q?  The experiment of tests/att/find_notification_data_tests.cpp
    void learn_queue_indices()
    {
        for ( int q = 0; q != N; ++q )
        {
            mc::Placed< conn_t > scratch; scratch.construct();
            scratch->client_configurations().flags( q, 3 );
            scratch->queue_notification( q ); scratch->queue_indication( q );
            std::uint8_t out[ 23 ]; std::size_t n = sizeof out;
            srv->l2cap_output( out, n, scratch.get() );
            m.char_of_queue_index[ q ] = n >= 3 ? lay::by_value_handle( std::uint16_t( out[ 1 ] | ( out[ 2 ] << 8 ) ) ) : -1;
        }
    }

    void init()
    {
        srv.construct();
        for ( int c = 0; c != NC; ++c ) conn[ c ].construct();
        srv->notification_callback( &l2cap_cb, this );
        nsrv::reset_values< N >();
        m.reset();
        learn_queue_indices();
        learn_request_indices();
    }
    void regions( mc::Regions& r )
    {
        r.add( srv.raw, sizeof srv.raw );
        for ( int c = 0; c != NC; ++c ) r.add( conn[ c ].raw, sizeof conn[ c ].raw );
        nsrv::add_value_regions< N >( r );
        r.add( m.ref );
    }
    int num_events() const { return int( events.size() ); }
    std::string describe( int ev ) const { return describe_ev( events[ ev ] ); }

    // one l2cap_output call for connection c
    bool poll( int c, mc::Ctx& ctx, std::string* obs )
    {
        std::uint8_t out[ 23 ]; std::size_t n = sizeof out;
        srv->l2cap_output( out, n, conn[ c ].get() );
        if ( obs ) *obs = "out=" + mc::hex( out, n );
        if ( n ) return m.pdu( c, out, n, ctx );
        m.nothing_sent( c, ctx );
        return true;
    }

    void confirm( int c )
    {
        // 0x1E: server::handle_value_confirmation -> callback( confirmation ) -> indication_confirmed()
        const std::uint8_t in[ 1 ] = { 0x1E };
        std::uint8_t out[ 23 ]; std::size_t n = sizeof out;
        g_confirm_conn = c;
        srv->l2cap_input( in, 1, out, n, conn[ c ].get() );
    }

    bool apply( int ev, mc::Ctx& ctx )
    {
        const Ev& e = events[ ev ];
        switch ( e.e )
        {
        case E_SUB:
        {
            const std::uint16_t h = lay::cccd_handle( e.k );
            const std::uint8_t in[ 5 ] = { 0x12, std::uint8_t( h ), std::uint8_t( h >> 8 ), std::uint8_t( e.bits ), 0 };
            std::uint8_t out[ 23 ]; std::size_t n = sizeof out;
            srv->l2cap_input( in, sizeof in, out, n, conn[ e.c ].get() );
            ctx.obs = "rsp=" + mc::hex( out, n );
            if ( n != 1 || out[ 0 ] != 0x13 ) { m.fail( ctx, "cccd-write-not-accepted", ctx.obs ); return true; }
            m.ref.sub[ e.c ][ e.k ] = std::uint8_t( e.bits );
            return true;
        }
        case E_NOTIFY_VAR: case E_NOTIFY_UUID: case E_IND_VAR: case E_IND_UUID:
        {
            const bool r = do_request( srv.get(), e );
            ctx.obs = mc::fmt( "->%d", r );
            m.request( e.e == E_NOTIFY_VAR || e.e == E_NOTIFY_UUID ? KN : KI, e.k, e.e == E_NOTIFY_VAR || e.e == E_IND_VAR ? VIA_VALUE : VIA_UUID,
                       g_request_queue_index[ e.e - E_NOTIFY_VAR ][ e.k ], ctx );
            return true;
        }
        case E_POLL:    poll( e.c, ctx, &ctx.obs ); return true;
        case E_CONFIRM: confirm( e.c ); return true;
        case E_CHANGE:  apply_change( m ); return true;
        }
        return false;
    }

    // from every reachable state: [transmit, confirm] x (2N+2) on every connection delivers every certainly pending,
    // subscribed request exactly once (a second PDU is caught by Model::pdu)
    void drain( mc::Ctx& ctx )
    {
        for ( int c = 0; c != NC && ctx.fails.empty(); ++c )
        {
            confirm( c );
            bool ok = true;
            for ( int i = 0; i != 2 * N + 2 && ok; ++i ) { ok = poll( c, ctx, nullptr ); confirm( c ); }
            if ( ok ) m.drained( c, ctx );
        }
        ctx.classes.clear(); // classes are for the steps of the exploration
    }
};

#else
// ============================================================================================================================
// world "ll": the real link layer with the scheduled radio of ll_world.hpp; one connection (the link layer has one)
static_assert( NC == 1, "the link layer serves one connection" );
struct World
{
    using ll_t = bluetoe::link_layer::link_layer< cfg::server, llw::radio >;
    static constexpr int flush_events = 2 * N + 2;

    mc::Placed< ll_t >     ll;
    Model                  m;
    std::vector< Ev >      events = make_events( true );

    void connect()
    {
        ll.construct();
        ll->run();
        std::uint8_t ci[ 40 ]; llw::connect_ind c; const std::size_t n = c.build( ci, ll->log.adv_data );
        ll->sim_adv_received( ci, n );
        ll->sim_empty_event();
        canon();
    }

    // harness side observation counters of the radio are no part of the behaviour; keep them from making every state unique
    void canon()
    {
        auto& g = ll->log;
        g.adv_count = g.ce_count = g.access_count = g.disarm_count = g.timer_count = g.timer_cancel_count = 0;
        g.wake_ups = g.cancelation_requests = g.phy_count = 0; g.rx_counter = g.tx_counter = 0;
        memset( g.tx, 0, sizeof g.tx ); g.tx_count = g.tx_nonempty = g.exchanges = g.central_unsent = g.duplicates = 0;
    }

    void learn_queue_indices()
    {
        using conn_t = cfg::server::channel_data_t< bluetoe::details::link_state_no_security >;
        for ( int q = 0; q != N; ++q )
        {
            mc::Placed< conn_t > scratch; scratch.construct();
            scratch->client_configurations().flags( q, 3 );
            scratch->queue_notification( q ); scratch->queue_indication( q );
            std::uint8_t out[ 23 ]; std::size_t n = sizeof out;
            static_cast< cfg::server& >( ll.get() ).l2cap_output( out, n, scratch.get() );
            m.char_of_queue_index[ q ] = n >= 3 ? lay::by_value_handle( std::uint16_t( out[ 1 ] | ( out[ 2 ] << 8 ) ) ) : -1;
        }
    }

    void init()
    {
        connect();
        nsrv::reset_values< N >();
        m.reset();
        learn_queue_indices();
        learn_request_indices();
    }
    void regions( mc::Regions& r ) { r.add( ll.raw, sizeof ll.raw ); nsrv::add_value_regions< N >( r ); r.add( m.ref ); }
    int num_events() const { return int( events.size() ); }
    std::string describe( int ev ) const { return describe_ev( events[ ev ] ); }

    // everything the central received in the last connection event; ATT server initiated PDUs go to the model
    // returns false after an oracle failure; write_rsp counts Write Responses
    bool scan_tx( mc::Ctx& ctx, int& write_rsp, int& sent, std::string* obs )
    {
        auto& g = ll->log;
        if ( g.tx_count > LLW_MAX_TX_LOG ) { fprintf( stderr, "harness: LLW_MAX_TX_LOG too small (%u PDUs in one event)\n", g.tx_count ); exit( 2 ); }
        for ( unsigned i = 0; i != g.tx_count; ++i )
        {
            const llw::pdu& p = g.tx[ i ];
            if ( p.n <= 2 ) continue;                                    // empty PDU
            if ( p.n > LLW_MAX_PDU ) { fprintf( stderr, "harness: LLW_MAX_PDU too small (%u)\n", unsigned( p.n ) ); exit( 2 ); }
            if ( obs ) *obs += mc::hex( p.d, p.n ) + " ";
            if ( ( p.d[ 0 ] & 3 ) == 3 ) continue;                       // LL control PDU (feature / version exchange ...): not ours
            if ( ( p.d[ 0 ] & 3 ) != 2 || p.n < 7 || ( p.d[ 4 ] | ( p.d[ 5 ] << 8 ) ) != 4 ) { m.fail( ctx, "unexpected-l2cap-pdu", mc::hex( p.d, p.n ) ); return false; }
            const std::uint8_t* att = p.d + 6; const std::size_t n = std::size_t( p.d[ 2 ] | ( p.d[ 3 ] << 8 ) );
            if ( n + 6 != p.n ) { m.fail( ctx, "l2cap-length-mismatch", mc::hex( p.d, p.n ) ); return false; }
            if ( att[ 0 ] == 0x13 ) { ++write_rsp; continue; }
            ++sent;
            if ( !m.pdu( 0, att, n, ctx ) ) return false;
        }
        return true;
    }

    // flush_events empty connection events: every entry of the queue gets its transmit opportunity, everything built is received
    bool flush( mc::Ctx& ctx, int& write_rsp, std::string* obs )
    {
        for ( int i = 0; i != flush_events; ++i )
        {
            ll->sim_empty_event();
            int sent = 0;
            if ( !scan_tx( ctx, write_rsp, sent, obs ) ) return false;
        }
        return true;
    }

    bool l2cap_step( const std::uint8_t* att, std::size_t n, mc::Ctx& ctx, int& write_rsp, std::string* obs )
    {
        ll->sim_l2cap( 4, att, n );
        int sent = 0;
        if ( !scan_tx( ctx, write_rsp, sent, obs ) ) return false;
        return flush( ctx, write_rsp, obs );
    }

    bool apply( int ev, mc::Ctx& ctx )
    {
        const Ev& e = events[ ev ];
        int write_rsp = 0;
        bool ok = true;
        switch ( e.e )
        {
        case E_SUB:
        {
            const std::uint16_t h = lay::cccd_handle( e.k );
            const std::uint8_t in[ 5 ] = { 0x12, std::uint8_t( h ), std::uint8_t( h >> 8 ), std::uint8_t( e.bits ), 0 };
            m.ref.sub[ 0 ][ e.k ] = std::uint8_t( e.bits );    // the write is executed inside the event, before anything new is built
            ok = l2cap_step( in, sizeof in, ctx, write_rsp, &ctx.obs );
            if ( ok && write_rsp != 1 ) m.fail( ctx, "cccd-write-not-accepted", mc::fmt( "%d Write Responses: ", write_rsp ) + ctx.obs );
            break;
        }
        case E_NOTIFY_VAR: case E_NOTIFY_UUID: case E_IND_VAR: case E_IND_UUID:
        {
            const bool r = do_request( ll.get(), e );
            ctx.obs = mc::fmt( "->%d", r );
            m.request( e.e == E_NOTIFY_VAR || e.e == E_NOTIFY_UUID ? KN : KI, e.k, e.e == E_NOTIFY_VAR || e.e == E_IND_VAR ? VIA_VALUE : VIA_UUID,
                       g_request_queue_index[ e.e - E_NOTIFY_VAR ][ e.k ], ctx );
            break;
        }
        case E_POLL:
            ok = flush( ctx, write_rsp, &ctx.obs );
            break;
        case E_CONFIRM:
        {
            const std::uint8_t in[ 1 ] = { 0x1E };
            ok = l2cap_step( in, 1, ctx, write_rsp, &ctx.obs );
            break;
        }
        case E_CHANGE: apply_change( m ); break;
        }
        // after a flush every request the connection is not subscribed for had its transmit opportunity (blocked indications may remain)
        if ( ok && ( e.e == E_SUB || e.e == E_POLL || e.e == E_CONFIRM ) )
        {
            m.nothing_sent( 0, ctx );
            // ... and every notification the connection is subscribed for has been received ( notifications never wait )
            for ( int k = 0; k != N && ctx.fails.empty(); ++k )
                if ( m.ref.pend[ 0 ][ KN ][ k ] == P_YES && ( m.ref.sub[ 0 ][ k ] & 1 ) )
                    m.fail( ctx, mc::fmt( "request-not-delivered:notification:%s", via_name[ m.ref.how[ KN ][ k ] ] ),
                            mc::fmt( "notification of characteristic %d requested %s, connection subscribed (%02x00), nothing arrived within %d connection events",
                                     k, via_name[ m.ref.how[ KN ][ k ] ], m.ref.sub[ 0 ][ k ], flush_events ) );
        }
        canon();
        return true;
    }

    // no separate drain in this world: every flush already is one for notifications ( see apply() ); indications that wait
    // for a confirmation are C11's business and the bare world covers requests that are filed under a wrong index
};
#endif

} // namespace

int main( int argc, char** argv )
{
    mc::Args a = mc::parse_args( argc, argv );
    mc::Report rep; rep.property = "C10"; rep.unit = a.opt.count( "unit" ) ? a.opt[ "unit" ] : "C10_notify_routing";
    static World w;
    mc::BfsOptions o; o.with_drain = !WORLD_LL; o.max_depth = a.thorough() ? DEPTH_T : DEPTH_Q; o.max_states = 12000000;
    mc::Bfs< World > bfs( w, rep, a, o );
    if ( !a.replay.empty() ) return bfs.replay_file( mc::read_replay( a.replay ) );
    bfs.run();
    rep.notes[ "configuration" ] = mc::fmt( "%s, %d characteristics, %d connection(s), world %s, %d events, priorities %s", STR( CFG ), N, NC, WORLD_LL ? "link_layer" : "bare server",
                                            w.num_events(), cfg::has_priorities ? "declared" : "none" );
    std::string qi; for ( int q = 0; q != N; ++q ) qi += mc::fmt( "%d ", w.m.char_of_queue_index[ q ] );
    rep.notes[ "characteristic sent for queue index 0.." ] = qi;
    rep.write( a );
    return 0;
}
