// C28 - A link is encrypted only with a key supplied for it.
//
// DUT: the real link_layer<> over llw::radio_enc, a GATT server with one characteristic that requires encryption and one
// that does not.  Key source (variant C28_KEYS):
//   0 "bonddb"  the real bluetoe::security_manager (legacy + LESC pairing) + bluetoe::bonding_data_base<> whose find_key()
//               knows exactly one ( EDIV, Rand, peer address ) triple; SMP Pairing Requests are part of the alphabet, so that
//               "pairing started, never completed" is reachable: EDIV = 0 / Rand = 0 then still has no key
//   1 "scripted" a scripted security manager (as tests/link_layer/ll_encryption_tests.cpp) answering find_key() directly
// E1: all sequences of the alphabet below up to the depth bound (C28_explore.hpp); one transition = one connection event (so "response in the next
// event" orders are explored with and without gaps).  A reference automaton of the encryption start / pause procedures
// decides every step.
#include "../mc/mc.hpp"
#include "C28_explore.hpp"
#include <bluetoe/server.hpp>
#include <bluetoe/link_layer.hpp>
#include "ll_world.hpp"

#ifndef C28_KEYS
#define C28_KEYS 0
#endif
#ifndef C28_BUF
#define C28_BUF 120     // large enough that no answer of this world is ever delayed by flow control
#endif

namespace {

std::uint8_t secret_value = 0x5e;
std::uint8_t public_value = 0x0b;

using server_t = bluetoe::server<
    bluetoe::no_gap_service_for_gatt_servers,
    bluetoe::service< bluetoe::service_uuid16< 0x1234 >,
        bluetoe::characteristic< bluetoe::characteristic_uuid16< 0x2345 >,
            bluetoe::bind_characteristic_value< std::uint8_t, &secret_value >, bluetoe::no_write_access, bluetoe::requires_encryption >,
        bluetoe::characteristic< bluetoe::characteristic_uuid16< 0x2346 >,
            bluetoe::bind_characteristic_value< std::uint8_t, &public_value >, bluetoe::no_write_access > > >;

constexpr std::uint16_t secret_handle = 3, public_handle = 5;

constexpr std::uint16_t known_ediv = 0x4711;
constexpr std::uint64_t known_rand = 0x1122334455667788ull;

bluetoe::details::uint128_t the_key()
{
    bluetoe::details::uint128_t k; for ( int i = 0; i != 16; ++i ) k[ i ] = std::uint8_t( 0x50 + i );
    return k;
}

// what the key source was asked and what it answered (POD, part of the state)
struct key_log
{
    std::uint32_t lookups, hits;
    std::uint16_t last_ediv; std::uint64_t last_rand;
} keys;

#if C28_KEYS == 0
struct bond_db
{
    template < class Radio >
    bluetoe::details::longterm_key_t create_new_bond( Radio& r, const bluetoe::link_layer::device_address& ) { return r.create_long_term_key(); }
    template < class Connection >
    void store_bond( const bluetoe::details::longterm_key_t&, const Connection& ) {}
    std::pair< bool, bluetoe::details::uint128_t > find_key( std::uint16_t ediv, std::uint64_t rand, const bluetoe::link_layer::device_address& ) const
    {
        ++keys.lookups; keys.last_ediv = ediv; keys.last_rand = rand;
        if ( ediv == known_ediv && rand == known_rand ) { ++keys.hits; return { true, the_key() }; }
        return { false, bluetoe::details::uint128_t{} };
    }
    template < class Connection > void restore_cccds( Connection& ) {}
} db;
using ll_t = bluetoe::link_layer::link_layer< server_t, llw::radio_enc, bluetoe::security_manager, bluetoe::bonding_data_base< bond_db, db >, bluetoe::link_layer::buffer_sizes< C28_BUF, C28_BUF > >;
static const char* const default_unit = "C28_ll_encryption-bonddb";
#else
struct scripted_sm
{
    template < typename ... >
    class impl
    {
    public:
        template < class Other >
        class channel_data_t : public Other
        {
        public:
            std::pair< bool, bluetoe::details::uint128_t > find_key( std::uint16_t ediv, std::uint64_t rand ) const
            {
                ++keys.lookups; keys.last_ediv = ediv; keys.last_rand = rand;
                if ( ediv == known_ediv && rand == known_rand ) { ++keys.hits; return { true, the_key() }; }
                return { false, bluetoe::details::uint128_t{} };
            }
            void remote_connection_created( const bluetoe::link_layer::device_address& ) {}
            bluetoe::device_pairing_status local_device_pairing_status() const { return bluetoe::device_pairing_status::unauthenticated_key; }
            template < typename Connection > void restore_bonded_cccds( Connection& ) {}
        };
        template < class C > void l2cap_input( const std::uint8_t*, std::size_t, std::uint8_t*, std::size_t& out, C& ) { out = 0; }
        template < class C > bool security_manager_output_available( C& ) const { return false; }
        template < class C > void l2cap_output( std::uint8_t*, std::size_t& out, C& ) { out = 0; }
        static constexpr std::uint16_t channel_id               = bluetoe::l2cap_channel_ids::sm;
        static constexpr std::size_t   minimum_channel_mtu_size = bluetoe::details::default_att_mtu_size;
        static constexpr std::size_t   maximum_channel_mtu_size = bluetoe::details::default_att_mtu_size;
    };
    struct meta_type : bluetoe::details::security_manager_meta_type, bluetoe::link_layer::details::valid_link_layer_option_meta_type {};
};
using ll_t = bluetoe::link_layer::link_layer< server_t, llw::radio_enc, scripted_sm, bluetoe::link_layer::buffer_sizes< C28_BUF, C28_BUF > >;
static const char* const default_unit = "C28_ll_encryption-scripted";
#endif

mc::Placed< ll_t > ll;

enum : std::uint8_t { TERMINATE_IND = 0x02, ENC_REQ = 0x03, ENC_RSP = 0x04, START_ENC_REQ = 0x05, START_ENC_RSP = 0x06, PAUSE_ENC_REQ = 0x0A, PAUSE_ENC_RSP = 0x0B,
                      REJECT_IND = 0x0D, REJECT_EXT_IND = 0x11 };
constexpr std::uint8_t err_pin_or_key_missing = 0x06;

// ---------------------------------------------------------------------------------------------------------------------
struct World
{
    // reference automaton (per connection)
    struct Ref
    {
        std::uint8_t connected;
        std::uint8_t phase;            // 0 no start procedure open, 1 key found for the last LL_ENC_REQ, LL_START_ENC_REQ due / sent, LL_START_ENC_RSP awaited
        std::uint8_t encrypted;        // start encryption procedure completed, no pause / disconnect since
        std::uint8_t rx_may, tx_may;   // radio direction may be encrypted
        // what the next connection event has to carry
        std::uint8_t due_enc_rsp;      // 0 none, 1 LL_ENC_RSP + LL_START_ENC_REQ, 2 LL_ENC_RSP + reject(pin or key missing)
        std::uint8_t due_start_rsp, due_pause_rsp;
        std::uint8_t due_read;         // 0 none, 1 read response with the value, 2 error insufficient encryption / authentication
        std::uint8_t due_read_public;
        std::uint8_t due_smp;          // an answer of the security manager ( L2CAP channel 6 ) is due
        std::uint8_t zero_req;         // the last LL_ENC_REQ carried EDIV = 0 / Rand = 0
        std::uint8_t start_req_sent;   // LL_START_ENC_REQ of the running procedure seen on air
        std::uint8_t any_enc_req, any_key_found;   // in this connection
        std::uint32_t connections;
    } ref;

    bool with_bursts = false;

    enum { EV_EMPTY, EV_ENC_KNOWN, EV_ENC_UNKNOWN, EV_START_RSP, EV_PAUSE_REQ, EV_PAUSE_RSP, EV_READ_SECRET, EV_READ_PUBLIC, EV_RECONNECT,
           EV_ENC_KNOWN_THEN_TERMINATE, EV_PAIRING_REQUEST, EV_ENC_ZERO, EV_COUNT };

    int num_events() const { return with_bursts ? ( C28_KEYS == 0 ? int( EV_COUNT ) : int( EV_PAIRING_REQUEST ) ) : int( EV_ENC_KNOWN_THEN_TERMINATE ); }
    std::string describe( int ev ) const
    {
        static const char* n[] = { "empty event", "LL_ENC_REQ(known EDIV/Rand)", "LL_ENC_REQ(unknown EDIV/Rand)", "LL_START_ENC_RSP", "LL_PAUSE_ENC_REQ", "LL_PAUSE_ENC_RSP",
                                   "ATT Read Request(protected)", "ATT Read Request(open)", "LL_TERMINATE_IND, CONNECT_IND, first event",
                                   "LL_ENC_REQ(known)+LL_TERMINATE_IND in one event, CONNECT_IND, first event",
                                   "SMP Pairing Request (legacy, just works)", "LL_ENC_REQ(EDIV 0, Rand 0)" };
        return n[ ev ];
    }

    void connect()
    {
        std::uint8_t ci[ 40 ];
        llw::connect_ind c;
        const std::size_t n = c.build( ci, ll->log.adv_data );
        ll->sim_adv_received( ci, n );
    }

    void init()
    {
        secret_value = 0x5e; public_value = 0x0b;
        std::memset( &keys, 0, sizeof keys );
        ll.construct();
        ll->run();
        connect();
        ll->sim_empty_event();
        std::memset( &ref, 0, sizeof ref );
        ref.connected = 1; ref.connections = 1;
    }
    void regions( mc::Regions& r ) { r.add( ll.raw, sizeof ll.raw ); r.add( keys ); r.add( secret_value ); r.add( public_value ); r.add( ref ); }

    static void enc_req( std::uint8_t* b, bool known, bool zero = false )
    {
        b[ 0 ] = 0x03; b[ 1 ] = 23; b[ 2 ] = ENC_REQ;
        const std::uint64_t rand = zero ? 0 : known_rand; const std::uint16_t ediv = zero ? 0 : known ? known_ediv : std::uint16_t( known_ediv + 1 );
        for ( int i = 0; i != 8; ++i ) b[ 3 + i ] = std::uint8_t( rand >> ( 8 * i ) );
        b[ 11 ] = std::uint8_t( ediv ); b[ 12 ] = std::uint8_t( ediv >> 8 );
        for ( int i = 0; i != 8; ++i ) b[ 13 + i ] = std::uint8_t( 0xa0 + i );     // SKDm
        for ( int i = 0; i != 4; ++i ) b[ 21 + i ] = std::uint8_t( 0xb0 + i );     // IVm
    }

    // the peripheral has to take every PDU of the central in the event it is sent (buffers are large enough in this world)
    bool deliver( const ll_t::in_pdu* p, unsigned n, mc::Ctx& c )
    {
        if ( ll->sim_connection_event( p, n ) == n ) return true;
        c.fail( "harness:central-pdu-not-accepted", "receive buffer full" );
        return false;
    }

    // everything observable about encryption right now
    bool impl_encrypted() const { return ll->connection_data_.is_encrypted(); }

    // checks the PDUs the peripheral transmitted in the event against what the reference says is due
    bool check_transmitted( mc::Ctx& c )
    {
        std::string tx;
        unsigned i = 0;
        const unsigned n = ll->log.tx_count < LLW_MAX_TX_LOG ? ll->log.tx_count : LLW_MAX_TX_LOG;
        auto next = [&]() -> const llw::pdu* { while ( i < n && ll->log.tx[ i ].n <= 2 ) ++i; return i < n ? &ll->log.tx[ i++ ] : nullptr; };
        auto is_ctrl = [&]( const llw::pdu* p, std::uint8_t op, unsigned len ) { return p && ( p->d[ 0 ] & 3 ) == 3 && p->n == 2 + len && p->d[ 2 ] == op; };
        for ( unsigned k = 0; k != n; ++k ) if ( ll->log.tx[ k ].n > 2 ) tx += "[" + mc::hex( ll->log.tx[ k ].d, ll->log.tx[ k ].n < 12 ? ll->log.tx[ k ].n : 12 ) + ( ll->log.tx[ k ].encrypted ? "]e " : "] " );
        c.obs = "tx " + ( tx.empty() ? std::string( "- " ) : tx );

        // order of the queue: answers are committed in the order the requests were handled; security PDUs (START_ENC_REQ /
        // reject) after all received PDUs of that event.  One request per event in this world, so the order below is exact.
        if ( ref.due_enc_rsp )
        {
            const llw::pdu* p = next();
            if ( !is_ctrl( p, ENC_RSP, 13 ) ) { c.fail( "enc-req:no-enc-rsp", "LL_ENC_REQ not answered by LL_ENC_RSP in the next event: " + c.obs ); return false; }
            p = next();
            if ( ref.due_enc_rsp == 1 )
            {
                if ( !is_ctrl( p, START_ENC_REQ, 1 ) ) { c.fail( "enc-req:known-key:no-start-enc-req", "key was found but LL_START_ENC_REQ did not follow LL_ENC_RSP: " + c.obs ); return false; }
                ref.start_req_sent = 1;
                c.cls( "LL_ENC_REQ(known)->LL_ENC_RSP,LL_START_ENC_REQ" );
            }
            else
            {
                const bool ext = is_ctrl( p, REJECT_EXT_IND, 3 ) && p->d[ 3 ] == ENC_REQ && p->d[ 4 ] == err_pin_or_key_missing;
                const bool old = is_ctrl( p, REJECT_IND, 2 ) && p->d[ 3 ] == err_pin_or_key_missing;
                if ( !ext && !old && ref.zero_req ) { c.fail( "enc-req:ediv-rand-zero-without-completed-pairing:not-rejected", "no pairing was completed in this connection, LL_ENC_REQ( EDIV 0, Rand 0 ) was not answered by LL_ENC_RSP + LL_REJECT(_EXT)_IND(0x06): " + c.obs ); return false; }
                if ( !ext && !old ) { c.fail( "enc-req:unknown-key:not-rejected-with-pin-or-key-missing", "LL_ENC_REQ for an unknown EDIV/Rand not answered by LL_ENC_RSP + LL_REJECT(_EXT)_IND(0x06): " + c.obs ); return false; }
                c.cls( ext ? "LL_ENC_REQ(unknown)->LL_ENC_RSP,LL_REJECT_EXT_IND(pin or key missing)" : "LL_ENC_REQ(unknown)->LL_ENC_RSP,LL_REJECT_IND(pin or key missing)" );
            }
            ref.due_enc_rsp = 0;
        }
        if ( ref.due_start_rsp == 2 )        // tolerated, not required
        {
            unsigned j = i; while ( j < n && ll->log.tx[ j ].n <= 2 ) ++j;
            // the PDU is outside of any procedure: echoing it, ignoring it, LL_UNKNOWN_RSP or a reject naming it are all tolerated
            if ( j < n && ( is_ctrl( &ll->log.tx[ j ], START_ENC_RSP, 1 )
                         || ( is_ctrl( &ll->log.tx[ j ], 0x07, 2 ) && ll->log.tx[ j ].d[ 3 ] == START_ENC_RSP )
                         || ( is_ctrl( &ll->log.tx[ j ], REJECT_EXT_IND, 3 ) && ll->log.tx[ j ].d[ 3 ] == START_ENC_RSP )
                         || is_ctrl( &ll->log.tx[ j ], REJECT_IND, 2 ) ) ) i = j + 1;
            ref.due_start_rsp = 0;
        }
        if ( ref.due_start_rsp )
        {
            const llw::pdu* p = next();
            if ( !is_ctrl( p, START_ENC_RSP, 1 ) ) { c.fail( "start-enc-rsp:not-answered", "LL_START_ENC_RSP completing the procedure was not answered by LL_START_ENC_RSP: " + c.obs ); return false; }
            if ( !p->encrypted ) { c.fail( "start-enc-rsp:sent-unencrypted", c.obs ); return false; }
            c.cls( "LL_START_ENC_RSP->LL_START_ENC_RSP(encrypted)" );
            ref.due_start_rsp = 0;
        }
        if ( ref.due_pause_rsp )
        {
            const llw::pdu* p = next();
            if ( !is_ctrl( p, PAUSE_ENC_RSP, 1 ) ) { c.fail( "pause-enc-req:not-answered", "LL_PAUSE_ENC_REQ not answered by LL_PAUSE_ENC_RSP: " + c.obs ); return false; }
            c.cls( "LL_PAUSE_ENC_REQ->LL_PAUSE_ENC_RSP" );
            ref.due_pause_rsp = 0;
        }
        for ( int which = 0; which != 2; ++which )
        {
            std::uint8_t& due = which == 0 ? ref.due_read : ref.due_read_public;
            if ( !due ) continue;
            const llw::pdu* p = next();
            // L2CAP: len(2) cid(2) att...
            const bool l2cap_att = p && ( p->d[ 0 ] & 3 ) == 2 && p->n >= 7 && p->d[ 4 ] == 0x04 && p->d[ 5 ] == 0x00;
            if ( !l2cap_att ) { c.fail( "att-read:no-response", "ATT Read Request not answered in the next event: " + c.obs ); return false; }
            const bool value = p->d[ 6 ] == 0x0b && p->n == 8;
            const bool error = p->d[ 6 ] == 0x01 && p->n == 11;
            const std::uint8_t want_value = which == 0 ? secret_value : public_value;
            if ( due == 1 )
            {
                if ( !value || p->d[ 7 ] != want_value ) { c.fail( which == 0 ? "protected-attribute:not-readable-on-encrypted-link" : "open-attribute:not-readable", c.obs ); return false; }
                if ( which == 0 && !p->encrypted ) { c.fail( "protected-attribute:value-sent-unencrypted", c.obs ); return false; }
                c.cls( which == 0 ? "read(protected) on encrypted link->value" : "read(open)->value" );
            }
            else
            {
                if ( value ) { c.fail( "protected-attribute:readable-on-unencrypted-link", "the value of the requires_encryption characteristic was returned: " + c.obs ); return false; }
                if ( !error || ( p->d[ 10 ] != 0x0f && p->d[ 10 ] != 0x05 ) ) { c.fail( "protected-attribute:unexpected-error", "expected insufficient encryption (0x0f) / authentication (0x05): " + c.obs ); return false; }
                c.cls( mc::fmt( "read(protected) on unencrypted link->error 0x%02x", p->d[ 10 ] ) );
            }
            due = 0;
        }
        if ( ref.due_smp )
        {
            const llw::pdu* p = next();
            const bool smp = p && ( p->d[ 0 ] & 3 ) == 2 && p->n >= 7 && p->d[ 4 ] == 0x06 && p->d[ 5 ] == 0x00;
            if ( !smp ) { c.fail( "smp:pairing-request-not-answered", "no security manager PDU in the event after the Pairing Request: " + c.obs ); return false; }
            c.cls( p->d[ 6 ] == 0x02 ? "Pairing Request->Pairing Response" : mc::fmt( "Pairing Request->SMP 0x%02x (0x%02x)", p->d[ 6 ], p->d[ 7 ] ) );
            ref.due_smp = 0;
        }
        if ( const llw::pdu* p = next() )
        {
            std::string what = mc::hex( p->d, p->n < 12 ? p->n : 12 );
            if ( is_ctrl( p, START_ENC_REQ, 1 ) ) c.fail( "unsolicited-start-enc-req", "LL_START_ENC_REQ transmitted without a preceding LL_ENC_REQ in this connection: " + c.obs );
            else c.fail( "unsolicited-pdu", "unexpected PDU transmitted: " + what + " in " + c.obs );
            return false;
        }
        return true;
    }

    // invariants after every event
    bool check_state( mc::Ctx& c, const char* input_class )
    {
        const bool enc = impl_encrypted();
        c.obs += mc::fmt( "| encrypted=%d rx=%d tx=%d", enc, ll->log.rx_encrypted, ll->log.tx_encrypted );
        if ( enc && !ref.encrypted )
        {
            // consequence (reported in the detail only; exploration stops here): is the protected value handed out now?
            const std::uint8_t att[ 3 ] = { 0x0a, std::uint8_t( secret_handle ), std::uint8_t( secret_handle >> 8 ) };
            ll->sim_l2cap( 0x0004, att, 3 );
            ll->sim_empty_event();
            std::string consequence = "; a following Read Request on the requires_encryption characteristic is refused";
            for ( unsigned k = 0; k < ll->log.tx_count && k < LLW_MAX_TX_LOG; ++k )
                if ( ll->log.tx[ k ].n == 8 && ll->log.tx[ k ].d[ 6 ] == 0x0b ) consequence = mc::fmt( "; a following Read Request on the requires_encryption characteristic returns its value 0x%02x", ll->log.tx[ k ].d[ 7 ] );
            c.obs += consequence;
            c.fail( std::string( "encrypted-without-key:" ) + input_class,
                    mc::fmt( "link reported encrypted although no start encryption procedure with a found key completed (key lookups %u, hits %u, LL_START_ENC_REQ sent %d)", keys.lookups, keys.hits, ref.start_req_sent ) + consequence );
            return false;
        }
        if ( !enc && ref.encrypted ) { c.fail( "valid-procedure-not-encrypted", "start encryption procedure with a known key completed, link not reported encrypted" ); return false; }
        if ( ll->log.tx_encrypted && !ref.tx_may ) { c.fail( std::string( "transmit-encryption-on-without-procedure:" ) + input_class, "radio transmits encrypted without a completed start procedure" ); return false; }
        if ( ll->log.rx_encrypted && !ref.rx_may ) { c.fail( std::string( "receive-encryption-on-without-procedure:" ) + input_class, "radio receives encrypted although no LL_START_ENC_REQ is due in this connection" ); return false; }
        if ( ref.encrypted && !( ll->log.tx_encrypted && ll->log.rx_encrypted ) ) { c.fail( "encrypted-but-radio-not-encrypting", c.obs ); return false; }
        return true;
    }

    bool apply( int ev, mc::Ctx& c )
    {
        std::uint8_t b[ 40 ];
        const char* input_class = "empty-event";
        if ( !ref.connected ) return false;
        const bool before_encrypted = ref.encrypted != 0, before_phase = ref.phase != 0;
        switch ( ev )
        {
        case EV_EMPTY:
            ll->sim_empty_event();
            if ( !check_transmitted( c ) ) return true;
            break;
        case EV_PAIRING_REQUEST:
        {
            // IO capability NoInputNoOutput, no OOB, bonding, key size 16, no keys to distribute: legacy just works
            const std::uint8_t smp[ 7 ] = { 0x01, 0x03, 0x00, 0x01, 0x10, 0x00, 0x00 };
            if ( ll->sim_l2cap( 0x0006, smp, sizeof smp ) != 1 ) { c.fail( "harness:central-pdu-not-accepted", "receive buffer full" ); return true; }
            if ( !check_transmitted( c ) ) return true;
            ref.due_smp = 1;
            input_class = "after-pairing-request";
            break;
        }
        case EV_ENC_ZERO:
        {
            // no pairing is ever completed in this world and the bond data base does not know EDIV 0: there is no key
            enc_req( b, false, true );
            ll_t::in_pdu p{ b, 25 };
            if ( !deliver( &p, 1, c ) ) return true;
            if ( !check_transmitted( c ) ) return true;
            ref.due_enc_rsp = 2; ref.zero_req = 1;
            ref.start_req_sent = 0; ref.any_enc_req = 1; ref.phase = 0;
            input_class = "after-enc-req-ediv-rand-zero";
            break;
        }
        case EV_ENC_KNOWN: case EV_ENC_UNKNOWN:
        {
            enc_req( b, ev == EV_ENC_KNOWN );
            ref.zero_req = 0;
            const std::uint32_t lookups = keys.lookups, hits = keys.hits;
            ll_t::in_pdu p{ b, 25 };
            if ( !deliver( &p, 1, c ) ) return true;
            if ( !check_transmitted( c ) ) return true;
            if ( keys.lookups != lookups + 1 ) { c.fail( "enc-req:key-source-not-asked", mc::fmt( "%u key lookups for one LL_ENC_REQ", keys.lookups - lookups ) ); return true; }
            if ( keys.last_ediv != ( ev == EV_ENC_KNOWN ? known_ediv : known_ediv + 1 ) || keys.last_rand != known_rand ) { c.fail( "enc-req:wrong-ediv-rand-looked-up", mc::fmt( "looked up ediv 0x%04x rand 0x%llx", keys.last_ediv, (unsigned long long)keys.last_rand ) ); return true; }
            if ( ( keys.hits != hits ) != ( ev == EV_ENC_KNOWN ) ) { c.fail( "harness:key-source", "hit count" ); return true; }
            ref.due_enc_rsp = ev == EV_ENC_KNOWN ? 1 : 2;
            ref.start_req_sent = 0;
            ref.any_enc_req = 1;
            if ( ev == EV_ENC_KNOWN ) { ref.phase = 1; ref.rx_may = 1; ref.any_key_found = 1; }
            else                      { ref.phase = 0; }
            input_class = "after-enc-req";
            break;
        }
        case EV_START_RSP:
        {
            b[ 0 ] = 0x03; b[ 1 ] = 1; b[ 2 ] = START_ENC_RSP;
            ll_t::in_pdu p{ b, 3 };
            const bool was = ref.encrypted;
            input_class = ref.phase == 1 ? "start-enc-rsp-in-procedure" : !ref.any_enc_req ? "start-enc-rsp-outside-procedure:no-enc-req"
                        : !ref.any_key_found ? "start-enc-rsp-outside-procedure:after-rejected-enc-req" : "start-enc-rsp-outside-procedure:after-pause-or-later-reject";
            if ( !deliver( &p, 1, c ) ) return true;
            if ( !check_transmitted( c ) ) return true;
            if ( ref.phase == 1 ) { ref.encrypted = 1; ref.tx_may = 1; ref.phase = 0; if ( !was ) c.cls( "procedure completed->encrypted" ); ref.due_start_rsp = 1; }
            else
            {
                // outside of a start procedure the PDU has no defined effect; an answer is tolerated only if it is not a state change
                ref.due_start_rsp = 2;
                if ( !ref.encrypted ) c.cls( std::string( "LL_START_ENC_RSP outside of procedure: " ) + input_class );
            }
            break;
        }
        case EV_PAUSE_REQ:
        {
            b[ 0 ] = 0x03; b[ 1 ] = 1; b[ 2 ] = PAUSE_ENC_REQ;
            ll_t::in_pdu p{ b, 3 };
            if ( !deliver( &p, 1, c ) ) return true;
            if ( !check_transmitted( c ) ) return true;
            if ( ref.encrypted ) c.cls( "pause->unencrypted" );
            ref.encrypted = 0; ref.phase = 0; ref.rx_may = 0; ref.due_pause_rsp = 1;
            input_class = "after-pause";
            break;
        }
        case EV_PAUSE_RSP:
        {
            b[ 0 ] = 0x03; b[ 1 ] = 1; b[ 2 ] = PAUSE_ENC_RSP;
            ll_t::in_pdu p{ b, 3 };
            if ( !deliver( &p, 1, c ) ) return true;
            if ( !check_transmitted( c ) ) return true;
            if ( ref.encrypted ) c.cls( "pause-rsp->unencrypted" );
            ref.encrypted = 0; ref.phase = 0; ref.tx_may = 0;
            input_class = "after-pause";
            break;
        }
        case EV_READ_SECRET: case EV_READ_PUBLIC:
        {
            const std::uint16_t h = ev == EV_READ_SECRET ? secret_handle : public_handle;
            const std::uint8_t att[ 3 ] = { 0x0a, std::uint8_t( h ), std::uint8_t( h >> 8 ) };
            if ( ll->sim_l2cap( 0x0004, att, 3 ) != 1 ) { c.fail( "harness:central-pdu-not-accepted", "receive buffer full" ); return true; }
            if ( !check_transmitted( c ) ) return true;
            if ( ev == EV_READ_SECRET ) ref.due_read = ref.encrypted ? 1 : 2; else ref.due_read_public = 1;
            input_class = "read";
            break;
        }
        case EV_RECONNECT: case EV_ENC_KNOWN_THEN_TERMINATE:
        {
            const std::uint32_t adv = ll->log.adv_count;
            std::uint8_t t[ 4 ] = { 0x03, 0x02, TERMINATE_IND, 0x13 };
            enc_req( b, true );
            ll_t::in_pdu p[ 2 ] = { { b, 25 }, { t, 4 } };
            if ( !( ev == EV_RECONNECT ? deliver( p + 1, 1, c ) : deliver( p, 2, c ) ) ) return true;
            if ( ev == EV_RECONNECT && !check_transmitted( c ) ) return true;
            if ( ll->log.adv_count == adv ) { c.fail( "terminate-ind:no-advertising-afterwards", "link layer did not return to advertising after LL_TERMINATE_IND" ); return true; }
            std::memset( &ref, 0, sizeof( Ref ) - sizeof( std::uint32_t ) );
            if ( impl_encrypted() || ll->log.rx_encrypted || ll->log.tx_encrypted ) { c.fail( "encryption-survives-disconnect", mc::fmt( "after LL_TERMINATE_IND: encrypted=%d rx=%d tx=%d", impl_encrypted(), ll->log.rx_encrypted, ll->log.tx_encrypted ) ); return true; }
            connect();
            ref.connected = 1; ++ref.connections;
            ll->sim_empty_event();
            if ( !check_transmitted( c ) ) return true;
            c.cls( "disconnect+reconnect" );
            input_class = ev == EV_RECONNECT ? "after-reconnect" : "enc-req-and-terminate-in-one-event";
            break;
        }
        default: return false;
        }
        if ( check_state( c, input_class ) )
            c.cls( describe( ev ) + ( before_encrypted ? " on an encrypted link" : before_phase ? " while LL_START_ENC_RSP is awaited" : " on an unencrypted link" ) );
        return true;
    }
};

World w;

} // namespace

int main( int argc, char** argv )
{
    mc::Args a = mc::parse_args( argc, argv );
    mc::Report rep; rep.property = "C28";
    rep.unit = a.opt.count( "unit" ) ? a.opt[ "unit" ] : default_unit;
    const int depth = int( a.num( "depth", a.thorough() ? ( C28_KEYS == 0 ? 7 : 8 ) : 6 ) );    // 12 events with the security manager, 10 without
    w.with_bursts = a.num( "bursts", 1 ) != 0;
    if ( !a.replay.empty() )
    {
        mc::Bfs< World > replayer( w, rep, a );
        return replayer.replay_file( mc::read_replay( a.replay ) );
    }
    explore::Dfs< World > dfs( w, rep, a, depth );
    rep.counters[ "bytes per state" ] = dfs.isz;
    dfs.run();
    rep.notes[ "alphabet" ] = mc::fmt( "%d events: LL_ENC_REQ known/unknown, LL_START_ENC_RSP, LL_PAUSE_ENC_REQ/RSP, ATT read protected/open, empty event, terminate+reconnect%s%s; all sequences up to length %d",
                                       w.num_events(), w.with_bursts ? ", LL_ENC_REQ+LL_TERMINATE_IND in one event" : "", w.num_events() > 10 ? ", SMP Pairing Request, LL_ENC_REQ(EDIV 0, Rand 0)" : "", depth );
    rep.notes[ "states" ] = "states = nodes of the sequence tree (byte images are not merged: event counters make every history distinct)";
    rep.write( a );
    return 0;
}
