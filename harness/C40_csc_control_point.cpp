// C40 - Cycling speed and cadence control point never deadlocks.
// E1: explicit-state BFS over the real bluetoe::cycling_speed_and_cadence<> service inside a real bluetoe::server<>,
// driven through l2cap_input / l2cap_output only (plus the documented handler completion call
// confirm_cumulative_wheel_revolutions()).  Reference model: FIFO of accepted procedures that still await their
// response indication.  Bounded liveness: from every reachable state a well behaved client drains (enable indications,
// let the handler complete, poll, confirm) and then a well-formed procedure has to be accepted and answered once.
//
// build variants: -DCSC_MULTI=1 (three sensor locations -> sensor_position_handler)
//                 -DCSC_MULTI=0 (one sensor location    -> no_sensor_position_handler)
#include "../mc/mc.hpp"
#include <bluetoe/server.hpp>
#include <bluetoe/services/csc.hpp>
#include <bluetoe/sensor_location.hpp>

#ifndef CSC_MULTI
#define CSC_MULTI 1
#endif

namespace {

struct Obs { int set_calls; std::uint32_t set_value; } g_obs;

// scripted user handler: asynchronous completion (the harness calls confirm_cumulative_wheel_revolutions() as an event)
struct csc_handler
{
    csc_handler() : wheel_( 0 ) {}
    std::pair< std::uint32_t, std::uint16_t > cumulative_wheel_revolutions_and_time() { return { wheel_, 0x1234 }; }
    std::pair< std::uint16_t, std::uint16_t > cumulative_crank_revolutions_and_time() { return { 0x0042, 0x1234 }; }
    void set_cumulative_wheel_revolutions( std::uint32_t v ) { wheel_ = v; ++g_obs.set_calls; g_obs.set_value = v; }
    std::uint32_t wheel_;
};

#if CSC_MULTI
using server_t = bluetoe::server<
    bluetoe::cycling_speed_and_cadence<
        bluetoe::sensor_location::top_of_shoe,
        bluetoe::sensor_location::in_shoe,
        bluetoe::sensor_location::hip,
        bluetoe::csc::wheel_revolution_data_supported,
        bluetoe::csc::crank_revolution_data_supported,
        bluetoe::csc::handler< csc_handler > > >;
#else
using server_t = bluetoe::server<
    bluetoe::cycling_speed_and_cadence<
        bluetoe::sensor_location::top_of_shoe,
        bluetoe::csc::wheel_revolution_data_supported,
        bluetoe::csc::handler< csc_handler > > >;
#endif
using conn_t = server_t::channel_data_t< bluetoe::details::link_state >;

constexpr std::size_t mtu = 23;

enum Kind { K_CCCD_ON, K_CCCD_OFF, K_WRITE, K_POLL, K_CONFIRM, K_COMPLETE, K_RECONNECT };
struct Event { Kind kind; std::uint8_t opcode; std::uint8_t len; std::uint8_t arg; };

enum Cause : std::uint8_t { C_NONE = 0, C_MALFORMED, C_CCCD_DROP, C_RECONNECT };
const char* cause_name( std::uint8_t c )
{
    switch ( c )
    {
    case C_MALFORMED: return "after-rejected-malformed-write";
    case C_CCCD_DROP: return "after-indication-dropped-cccd-off";
    case C_RECONNECT: return "after-reconnect-while-pending";
    }
    return "no-pending-procedure";
}

enum Resp { R_ACCEPTED, R_IN_PROGRESS, R_ERROR, R_NONE };

struct World
{
    mc::Placed< server_t > srv;
    mc::Placed< conn_t >   conn;

    struct Ref
    {
        std::uint8_t cccd;             // client enabled indications on the control point
        std::uint8_t fifo[ 4 ];        // request opcodes of accepted procedures that still await their response indication
        std::uint8_t n;
        std::uint8_t awaiting_handler; // Set Cumulative Value accepted, handler has not yet called confirm_...()
        std::uint8_t outstanding;      // an indication was sent and is not yet confirmed
        std::uint8_t excuse_drop;      // a poll happened while the response was ready but indications were disabled
    } ref;

    std::uint8_t cause_ = C_NONE;      // what the event of the current step did (label of a blocked control point; not part of the state)
    std::uint16_t cp_handle = 0, cp_cccd = 0;
    std::vector< Event > events;

    // ---------------------------------------------------------------------------------------------------------
    static bool l2cap_cb( const bluetoe::details::notification_data& item, void* that, bluetoe::details::notification_type type )
    {
        World& w = *static_cast< World* >( that );
        switch ( type )
        {
        case bluetoe::details::notification_type::notification:
            return w.conn->queue_notification( item.client_characteristic_configuration_index() );
        case bluetoe::details::notification_type::indication:
            return w.conn->queue_indication( item.client_characteristic_configuration_index() );
        case bluetoe::details::notification_type::confirmation:
            w.conn->indication_confirmed();
            return true;
        }
        return true;
    }

    void fresh()
    {
        srv.construct();
        conn.construct();
        srv->notification_callback( &l2cap_cb, this );
        memset( &ref, 0, sizeof ref );
    }

    // raw request; exact-size heap blocks for input and output
    std::string request( const std::vector< std::uint8_t >& pdu, std::vector< std::uint8_t >& resp )
    {
        std::uint8_t* in  = new std::uint8_t[ pdu.size() ];
        std::uint8_t* out = new std::uint8_t[ mtu ];
        memcpy( in, pdu.data(), pdu.size() );
        memset( out, 0, mtu );
        std::size_t out_size = mtu;
        std::string g = mc::Guard::call( [&]{ srv->l2cap_input( in, pdu.size(), out, out_size, conn.get() ); } );
        if ( g.empty() && out_size <= mtu ) resp.assign( out, out + out_size ); else resp.clear();
        if ( g.empty() && out_size > mtu ) g = "response-size-exceeds-buffer";
        delete[] in; delete[] out;
        return g;
    }

    void discover()
    {
        fresh();
        // characteristic declarations
        std::uint16_t start = 1, value_handle = 0, next_decl = 0xffff;
        std::vector< std::pair< std::uint16_t, std::uint16_t > > decls; // decl handle, value handle
        for ( int guard = 0; guard != 32; ++guard )
        {
            std::vector< std::uint8_t > r;
            request( { 0x08, std::uint8_t( start & 0xff ), std::uint8_t( start >> 8 ), 0xff, 0xff, 0x03, 0x28 }, r );
            if ( r.size() < 2 || r[ 0 ] != 0x09 ) break;
            const std::size_t l = r[ 1 ];
            for ( std::size_t p = 2; p + l <= r.size(); p += l )
            {
                const std::uint16_t decl = r[ p ] | ( r[ p + 1 ] << 8 ), val = r[ p + 3 ] | ( r[ p + 4 ] << 8 );
                decls.push_back( { decl, val } );
                if ( l == 7 && r[ p + 5 ] == 0x55 && r[ p + 6 ] == 0x2A ) value_handle = val;
                start = decl + 1;
            }
        }
        for ( auto& d : decls ) if ( d.first > value_handle && d.first < next_decl ) next_decl = d.first;
        cp_handle = value_handle;
        // descriptors behind the value
        for ( std::uint16_t h = value_handle + 1; h != 0 && h < next_decl && h < value_handle + 6 && !cp_cccd; ++h )
        {
            std::vector< std::uint8_t > r;
            request( { 0x04, std::uint8_t( h & 0xff ), std::uint8_t( h >> 8 ), std::uint8_t( h & 0xff ), std::uint8_t( h >> 8 ) }, r );
            if ( r.size() >= 6 && r[ 0 ] == 0x05 && r[ 1 ] == 0x01 && r[ 4 ] == 0x02 && r[ 5 ] == 0x29 ) cp_cccd = h;
        }
        if ( !cp_handle || !cp_cccd ) { fprintf( stderr, "C40: control point (0x2A55) or its CCCD not found\n" ); exit( 2 ); }
    }

    World()
    {
        discover();
        events.push_back( { K_CCCD_ON, 0, 0, 0 } );
        const std::uint8_t opcodes[] = { 4, 1, 3, 0, 2, 0xff };
        const std::uint8_t lens[]    = { 1, 2, 5, 6 };
        // well-formed first (shortest counterexamples read naturally)
        events.push_back( { K_WRITE, 4, 1, 0 } );
        events.push_back( { K_WRITE, 1, 5, 0 } );
        events.push_back( { K_WRITE, 3, 2, 0 } );
        events.push_back( { K_POLL, 0, 0, 0 } );
        events.push_back( { K_CONFIRM, 0, 0, 0 } );
        events.push_back( { K_COMPLETE, 0, 0, 0 } );
        for ( std::uint8_t o : opcodes )
            for ( std::uint8_t l : lens )
            {
                if ( ( o == 4 && l == 1 ) || ( o == 1 && l == 5 ) || ( o == 3 && l == 2 ) ) continue;
                events.push_back( { K_WRITE, o, l, 0 } );
            }
        events.push_back( { K_WRITE, 3, 2, 1 } );   // Update Sensor Location with a location from the RFU range
        events.push_back( { K_CCCD_OFF, 0, 0, 0 } );
        events.push_back( { K_RECONNECT, 0, 0, 0 } );
    }

    // ---------------------------------------------------------------------------------------------------------
    void init() { fresh(); }
    void regions( mc::Regions& r ) { r.add( srv.raw, sizeof srv.raw ); r.add( conn.raw, sizeof conn.raw ); r.add( ref ); }
    int  num_events() const { return int( events.size() ); }
    std::string describe( int ev ) const
    {
        const Event& e = events[ ev ];
        switch ( e.kind )
        {
        case K_CCCD_ON:   return "cccd-indications-on";
        case K_CCCD_OFF:  return "cccd-indications-off";
        case K_WRITE:     return mc::fmt( "write-control-point(opcode=0x%02x,len=%d%s)", e.opcode, e.len, e.arg ? ",location=0x42" : "" );
        case K_POLL:      return "l2cap_output";
        case K_CONFIRM:   return "handle-value-confirmation";
        case K_COMPLETE:  return "handler:confirm_cumulative_wheel_revolutions";
        case K_RECONNECT: return "disconnect+reconnect";
        }
        return "?";
    }

    static bool wellformed( std::uint8_t op, std::uint8_t len ) { return ( op == 1 && len == 5 ) || ( op == 3 && len == 2 ) || ( op == 4 && len == 1 ); }
    static bool known( std::uint8_t op ) { return op == 1 || op == 3 || op == 4; }

    std::string blocked_sig() const { return std::string( "blocked-in-progress:" ) + cause_name( cause_ ); }

    // --- primitive steps (used by apply and by drain) ---------------------------------------------------------
    void do_cccd( bool on, mc::Ctx& c )
    {
        std::vector< std::uint8_t > r;
        const std::string g = request( { 0x12, std::uint8_t( cp_cccd & 0xff ), std::uint8_t( cp_cccd >> 8 ), std::uint8_t( on ? 0x02 : 0x00 ), 0x00 }, r );
        c.obs = mc::hex( r );
        if ( !g.empty() ) { c.fail( "crash:" + g + ":cccd-write", "CCCD write: " + g ); return; }
        if ( r.size() != 1 || r[ 0 ] != 0x13 ) { c.fail( "cccd-write-refused", "write to the control point CCCD answered " + mc::hex( r ) ); return; }
        ref.cccd = on;
    }

    Resp do_write( std::uint8_t op, std::uint8_t len, std::uint8_t arg, mc::Ctx& c )
    {
        static const std::uint8_t payload[] = { 0x02, 0x00, 0x00, 0x00, 0x00 };
        std::vector< std::uint8_t > pdu{ 0x12, std::uint8_t( cp_handle & 0xff ), std::uint8_t( cp_handle >> 8 ), op };
        for ( int i = 1; i < len; ++i ) pdu.push_back( i == 1 && arg ? 0x42 : payload[ i - 1 ] );
        std::vector< std::uint8_t > r;
        g_obs.set_calls = 0;
        const std::string g = request( pdu, r );
        c.obs = mc::hex( r );
        const std::string in_class = mc::fmt( "opcode%02x-%s", op, wellformed( op, len ) ? "wellformed" : known( op ) ? "malformed-length" : "unknown-opcode" );
        if ( !g.empty() ) { c.fail( "crash:" + g + ":control-point-write:" + in_class, "control point write " + mc::hex( pdu ) + ": " + g ); return R_NONE; }

        Resp resp;
        if ( r.size() == 1 && r[ 0 ] == 0x13 ) resp = R_ACCEPTED;
        else if ( r.size() == 5 && r[ 0 ] == 0x01 && r[ 1 ] == 0x12 ) resp = ( r[ 4 ] == 0xfe || r[ 4 ] == 0x80 ) ? R_IN_PROGRESS : R_ERROR;
        else { c.fail( "write-response-malformed", "control point write " + mc::hex( pdu ) + " answered " + mc::hex( r ) ); return R_NONE; }

        const char* state = !ref.cccd ? "cccd-off" : ref.n ? "pending" : "idle";
        if ( resp == R_IN_PROGRESS )
        {
            c.cls( mc::fmt( "write:%s:%s->in-progress", in_class.c_str(), state ) );
            if ( ref.n == 0 )
                c.fail( blocked_sig(), mc::fmt( "control point write %s rejected with 'procedure already in progress' (0x%02x) although no accepted procedure awaits its response indication",
                                                mc::hex( pdu ).c_str(), r[ 4 ] ) );
            if ( g_obs.set_calls ) c.fail( "handler-called:write-rejected", "set_cumulative_wheel_revolutions() called for a rejected write" );
        }
        else if ( resp == R_ACCEPTED )
        {
            c.cls( mc::fmt( "write:%s:%s->accepted", in_class.c_str(), state ) );
            if ( ref.excuse_drop ) { ref.n = 0; ref.excuse_drop = 0; ref.awaiting_handler = 0; }
            if ( ref.n == sizeof ref.fifo ) { c.prune = true; return resp; }
            ref.fifo[ ref.n++ ] = op;
            if ( op == 1 && wellformed( op, len ) )
            {
                if ( g_obs.set_calls != 1 || g_obs.set_value != 0x00000002 )
                    c.fail( "handler-not-called:set-cumulative-accepted", mc::fmt( "Set Cumulative Value accepted, set_cumulative_wheel_revolutions called %d times with value 0x%x", g_obs.set_calls, g_obs.set_value ) );
                ref.awaiting_handler = 1;
            }
            else if ( g_obs.set_calls )
                c.fail( "handler-called:not-set-cumulative", "set_cumulative_wheel_revolutions() called for " + mc::hex( pdu ) );
        }
        else
        {
            c.cls( mc::fmt( "write:%s:%s->error-%02x", in_class.c_str(), state, r[ 4 ] ) );
            if ( g_obs.set_calls ) c.fail( "handler-called:write-rejected", "set_cumulative_wheel_revolutions() called for a rejected write" );
            if ( wellformed( op, len ) && ref.cccd && ref.n == 0 )
                c.fail( mc::fmt( "wellformed-rejected:att-error-%02x", r[ 4 ] ), "well-formed procedure " + mc::hex( pdu ) + " rejected while the control point is idle: " + mc::hex( r ) );
            if ( known( op ) && !wellformed( op, len ) && ref.cccd && ref.n == 0 && cause_ == C_NONE ) cause_ = C_MALFORMED;
        }
        return resp;
    }

    // returns the request opcode of the response indication, -1 = nothing sent, -2 = oracle failed
    int do_poll( mc::Ctx& c )
    {
        std::uint8_t* out = new std::uint8_t[ mtu ];
        memset( out, 0, mtu );
        std::size_t out_size = mtu;
        const std::string g = mc::Guard::call( [&]{ srv->l2cap_output( out, out_size, conn.get() ); } );
        std::vector< std::uint8_t > r;
        if ( g.empty() && out_size <= mtu ) r.assign( out, out + out_size );
        delete[] out;
        c.obs = r.empty() ? std::string( "nothing" ) : mc::hex( r );
        if ( !g.empty() ) { c.fail( "crash:" + g + ":l2cap_output", "l2cap_output: " + g ); return -2; }
        if ( out_size > mtu ) { c.fail( "output-size-exceeds-buffer", mc::fmt( "l2cap_output returned size %zu", out_size ) ); return -2; }

        const bool ready = ref.n && !( ref.fifo[ 0 ] == 1 && ref.awaiting_handler ) && !ref.outstanding;
        if ( r.empty() )
        {
            if ( ready && !ref.cccd )
            {
                c.cls( "poll:response-ready-but-indications-disabled->nothing" );
                ref.excuse_drop = 1;
                if ( cause_ == C_NONE ) cause_ = C_CCCD_DROP;
            }
            else c.cls( ready ? "poll:response-ready->nothing" : "poll:idle->nothing" );
            return -1;
        }
        if ( r.size() < 3 || r[ 0 ] != 0x1d || ( r[ 1 ] | ( r[ 2 ] << 8 ) ) != cp_handle )
        {
            c.fail( "unexpected-output", "l2cap_output produced " + mc::hex( r ) + " (neither nothing nor a control point indication)" );
            return -2;
        }
        if ( r.size() < 6 || r[ 3 ] != 0x10 )
        {
            c.fail( "response-malformed", "control point indication " + mc::hex( r ) + " is no Response Code PDU (0x10, request opcode, response value)" );
            return -2;
        }
        if ( ref.n == 0 )
        {
            c.fail( "response-without-procedure", "control point indication " + mc::hex( r ) + " although no accepted procedure awaits a response" );
            return -2;
        }
        if ( ref.fifo[ 0 ] != r[ 4 ] )
        {
            c.fail( "response-opcode-mismatch", mc::fmt( "response indication %s carries request opcode 0x%02x, the accepted procedure had opcode 0x%02x", mc::hex( r ).c_str(), r[ 4 ], ref.fifo[ 0 ] ) );
            return -2;
        }
        c.cls( mc::fmt( "poll:response(opcode%02x,value%02x)%s", r[ 4 ], r[ 5 ], ref.outstanding ? ":while-unconfirmed" : "" ) );
        if ( ref.fifo[ 0 ] == 1 ) ref.awaiting_handler = 0;
        for ( int i = 1; i < ref.n; ++i ) ref.fifo[ i - 1 ] = ref.fifo[ i ];
        --ref.n; ref.fifo[ ref.n ] = 0;
        ref.outstanding = 1;
        ref.excuse_drop = 0;
        return r[ 4 ];
    }

    void do_confirm( mc::Ctx& c )
    {
        std::vector< std::uint8_t > r;
        const std::string g = request( { 0x1e }, r );
        c.obs = r.empty() ? std::string( "nothing" ) : mc::hex( r );
        if ( !g.empty() ) { c.fail( "crash:" + g + ":confirmation", "handle value confirmation: " + g ); return; }
        ref.outstanding = 0;
    }

    void do_complete( mc::Ctx& c )
    {
        const std::string g = mc::Guard::call( [&]{ srv->confirm_cumulative_wheel_revolutions( srv.get() ); } );
        if ( !g.empty() ) { c.fail( "crash:" + g + ":confirm_cumulative_wheel_revolutions", g ); return; }
        ref.awaiting_handler = 0;
    }

    // ---------------------------------------------------------------------------------------------------------
    // one step = the event + the bounded liveness probe from the state it leads to.  A state from which the control point
    // cannot be brought back is reported here and not expanded any further (the reference cannot follow a dead control point).
    bool apply( int ev, mc::Ctx& c )
    {
        cause_ = C_NONE;
        if ( !event( ev, c ) ) return false;
        if ( c.fails.empty() && !c.prune )
        {
            const std::string obs = c.obs;
            drain( c );
            c.obs = obs + ( c.fails.empty() ? "" : " | liveness probe failed" );
        }
        return true;
    }

    bool event( int ev, mc::Ctx& c )
    {
        const Event& e = events[ ev ];
        switch ( e.kind )
        {
        case K_CCCD_ON:  do_cccd( true, c ); c.cls( "cccd-on" ); return true;
        case K_CCCD_OFF: do_cccd( false, c ); c.cls( ref.n ? "cccd-off-while-pending" : "cccd-off" ); return true;
        case K_WRITE:    do_write( e.opcode, e.len, e.arg, c ); return true;
        case K_POLL:     do_poll( c ); return true;
        case K_CONFIRM:
            if ( !ref.outstanding ) return false;   // well behaved client: confirms only what it received
            do_confirm( c ); c.cls( "confirm" );
            return true;
        case K_COMPLETE:
            if ( !ref.awaiting_handler ) return false;
            do_complete( c ); c.cls( "handler-completion" );
            return true;
        case K_RECONNECT:
            if ( ref.awaiting_handler ) return false;   // keeps a late handler completion of the old connection out of the model
            srv->client_disconnected( conn.get() );
            conn.construct();
            c.cls( ref.n ? "reconnect-while-pending" : "reconnect" );
            if ( ref.n ) cause_ = C_RECONNECT;
            ref.n = 0; memset( ref.fifo, 0, sizeof ref.fifo );
            ref.cccd = 0; ref.outstanding = 0; ref.excuse_drop = 0;
            c.obs = "new connection";
            return true;
        }
        return false;
    }

    // bounded liveness from the current state: a well behaved client enables indications, the handler completes,
    // everything pending is polled and confirmed; afterwards a well-formed procedure must be accepted and answered once.
    void drain( mc::Ctx& c )
    {
        unsigned char keep_srv[ sizeof srv.raw ], keep_conn[ sizeof conn.raw ];
        const Ref keep_ref = ref;
        memcpy( keep_srv, srv.raw, sizeof srv.raw ); memcpy( keep_conn, conn.raw, sizeof conn.raw );

        mc::Ctx d;
        auto bad = [&]() { return !d.fails.empty(); };
        do
        {
            if ( !ref.cccd ) { do_cccd( true, d ); if ( bad() ) break; }
            for ( int round = 0; round != int( sizeof ref.fifo ) + 2 && !bad(); ++round )
            {
                if ( ref.awaiting_handler ) do_complete( d );
                if ( ref.outstanding && !bad() ) do_confirm( d );
                if ( !bad() ) do_poll( d );
            }
            if ( bad() ) break;
            if ( ref.outstanding ) do_confirm( d );
            if ( bad() ) break;
            if ( ref.n && !ref.excuse_drop )
            {
                d.fail( std::string( "response-lost:" ) + cause_name( cause_ ),
                        mc::fmt( "accepted procedure 0x%02x never got its response indication although indications are enabled, the handler completed and every indication was confirmed", ref.fifo[ 0 ] ) );
                break;
            }
            const Resp r = do_write( 4, 1, 0, d );
            if ( bad() ) break;
            if ( r != R_ACCEPTED )
            {
                // only reachable with a procedure that was dropped while indications were disabled
                d.fail( blocked_sig(), "well-formed Request Supported Sensor Locations rejected after a full drain: " + d.obs );
                break;
            }
            if ( do_poll( d ) != 4 && !bad() )
                d.fail( "response-lost:after-drain", "accepted Request Supported Sensor Locations not answered by a response indication: " + d.obs );
            if ( bad() ) break;
            do_confirm( d );
            if ( bad() ) break;
            if ( do_poll( d ) >= 0 ) d.fail( "response-duplicated", "second response indication for one procedure" );
        } while ( false );

        for ( auto& f : d.fails ) c.fail( f.sig, "liveness probe (enable indications, complete, poll, confirm, then Request Supported Sensor Locations): " + f.detail );
        memcpy( srv.raw, keep_srv, sizeof srv.raw ); memcpy( conn.raw, keep_conn, sizeof conn.raw ); ref = keep_ref;
    }
};

} // namespace

int main( int argc, char** argv )
{
    mc::Args a = mc::parse_args( argc, argv );
    mc::Report rep; rep.property = "C40";
    rep.unit = a.opt.count( "unit" ) ? a.opt[ "unit" ] : ( CSC_MULTI ? "C40_csc_control_point-multi" : "C40_csc_control_point-single" );

    static World w;
    mc::BfsOptions o;
    o.with_drain = false;   // apply() itself runs the liveness probe after every event (and prunes dead states)
    o.max_depth  = int( a.num( "depth", 64 ) );   // DESIGN asked for depth 5/7; the fixpoint is reached at depth 17 in < 1 s
    mc::Bfs< World > bfs( w, rep, a, o );
    if ( !a.replay.empty() ) return bfs.replay_file( mc::read_replay( a.replay ) );
    bfs.run();
    rep.notes[ "configuration" ] = CSC_MULTI ? "three sensor locations, wheel+crank (sensor_position_handler)" : "one sensor location, wheel only (no_sensor_position_handler)";
    rep.notes[ "handles" ] = mc::fmt( "control point value 0x%04x, cccd 0x%04x", w.cp_handle, w.cp_cccd );
    rep.counters[ "events" ] = w.events.size();
    rep.counters[ "state_bytes" ] = bfs.isz;
    rep.write( a );
    return 0;
}
