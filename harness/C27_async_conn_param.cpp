// C27 - LL_CONNECTION_PARAM_REQ handling with the option asynchronous_connection_parameter_request< Callback, obj >.
//
// The documented behaviour of the option: a valid request that would change something is handed to the application
// ( ll_remote_connection_parameter_request() ), which answers later with connection_parameters_request_reply() or
// connection_parameters_request_negative_reply(); a request that asks for exactly the current parameters is accepted at once.
// E2: connection parameter sets x requests equal to the current parameters in all / all but one / several fields (and an invalid
// one) x application behaviour { positive reply, negative reply, no reply }.
// Oracle: the application is asked exactly when a field differs from the current connection parameters (with the values of
// the request); exactly one response per request ( LL_CONNECTION_PARAM_RSP / LL_REJECT(_EXT)_IND ), none while the
// application has not answered, never a second one.
#include "../mc/mc.hpp"
#include <bluetoe/server.hpp>
#include <bluetoe/link_layer.hpp>
#include "ll_world.hpp"

namespace {

std::uint8_t char_value = 7;
using server_t = bluetoe::server<
    bluetoe::service< bluetoe::service_uuid16< 0x1234 >,
        bluetoe::characteristic< bluetoe::characteristic_uuid16< 0x2345 >,
            bluetoe::bind_characteristic_value< std::uint8_t, &char_value >, bluetoe::no_write_access > > >;

struct app_t
{
    unsigned asked;
    std::uint16_t imin, imax, latency, timeout;
    void ll_remote_connection_parameter_request( std::uint16_t a, std::uint16_t b, std::uint16_t l, std::uint16_t t ) { ++asked; imin = a; imax = b; latency = l; timeout = t; }
} app;

using ll_t = bluetoe::link_layer::link_layer< server_t, llw::radio, bluetoe::link_layer::asynchronous_connection_parameter_request< app_t, app > >;
mc::Placed< ll_t > ll;

enum : std::uint8_t { REJECT_IND = 0x0D, CONNECTION_PARAM_REQ = 0x0F, CONNECTION_PARAM_RSP = 0x10, REJECT_EXT_IND = 0x11 };

struct params { std::uint16_t interval, latency, timeout; };
struct request { std::uint16_t imin, imax, latency, timeout; };

// control PDUs transmitted in the last event
struct sent { unsigned n = 0; std::uint8_t pdu[ 40 ] = { 0 }; unsigned len = 0; std::string text = "-"; };
sent collect()
{
    sent r;
    for ( unsigned i = 0; i < ll->log.tx_count && i < LLW_MAX_TX_LOG; ++i )
    {
        const llw::pdu& t = ll->log.tx[ i ];
        if ( t.n <= 2 ) continue;
        if ( r.n == 0 ) { r.len = t.n - 2u; std::memcpy( r.pdu, t.d + 2, r.len < sizeof r.pdu ? r.len : sizeof r.pdu ); r.text = mc::hex( t.d + 2, r.len ); }
        ++r.n;
    }
    return r;
}

struct result { std::string sig, detail, kind; };

// reply: 0 positive, 1 negative, 2 none
result run_case( params cur, request q, int reply, bool verbose )
{
    result r;
    std::memset( &app, 0, sizeof app );
    ll.construct();
    ll->run();
    std::uint8_t ci[ 40 ];
    llw::connect_ind c; c.interval = cur.interval; c.latency = cur.latency; c.timeout = cur.timeout;
    ll->sim_adv_received( ci, c.build( ci, ll->log.adv_data ) );
    ll->sim_empty_event();
    ll->sim_empty_event();

    const std::uint8_t req[ 24 ] = { CONNECTION_PARAM_REQ, std::uint8_t( q.imin ), std::uint8_t( q.imin >> 8 ), std::uint8_t( q.imax ), std::uint8_t( q.imax >> 8 ),
        std::uint8_t( q.latency ), std::uint8_t( q.latency >> 8 ), std::uint8_t( q.timeout ), std::uint8_t( q.timeout >> 8 ), 0, 0, 0, 0xff, 0xff, 0xff, 0xff, 0xff, 0xff, 0xff, 0xff, 0xff, 0xff, 0xff, 0xff };
    const bool valid = q.imin <= q.imax && q.imin >= 6 && q.imax <= 3200 && q.latency <= 499;
    const bool same  = q.imin == q.imax && q.imin == cur.interval && q.latency == cur.latency && q.timeout == cur.timeout;
    const std::string what = mc::fmt( "connection %u/%u/%u, request %u..%u/%u/%u", cur.interval, cur.latency, cur.timeout, q.imin, q.imax, q.latency, q.timeout );
    auto bad = [&]( const std::string& sig, const std::string& d ) { r.sig = sig; r.detail = what + ": " + d; return r; };

    unsigned responses = 0;
    std::string log;
    ll->sim_ll_control( req, sizeof req );
    if ( verbose ) printf( "  %s: application asked %u time(s)\n", what.c_str(), app.asked );
    const unsigned asked = app.asked;

    if ( asked > 1 ) return bad( "async-conn-param:application-asked-twice", "callback called more than once" );
    if ( valid && !same && asked == 0 ) return bad( "async-conn-param:application-not-asked-although-parameters-differ", "the request differs from the current connection parameters but was not handed to the application" );
    if ( ( !valid || same ) && asked != 0 ) return bad( same ? "async-conn-param:application-asked-for-unchanged-parameters" : "async-conn-param:application-asked-for-invalid-request", "callback called" );
    if ( asked && ( app.imin != q.imin || app.imax != q.imax || app.latency != q.latency || app.timeout != q.timeout ) )
        return bad( "async-conn-param:wrong-values-handed-to-application", mc::fmt( "callback got %u..%u/%u/%u", app.imin, app.imax, app.latency, app.timeout ) );

    sent first_response;
    for ( int ev = 0; ev != 5; ++ev )
    {
        if ( ev == 2 && asked )
        {
            if ( reply == 0 ) ll->connection_parameters_request_reply( q.imin, q.imax, q.latency, q.timeout );
            if ( reply == 1 ) ll->connection_parameters_request_negative_reply( 0x3b );
        }
        ll->sim_empty_event();
        const sent t = collect();
        if ( verbose ) printf( "    event %d: %s\n", ev, t.text.c_str() );
        if ( t.n && asked && ev < 2 ) return bad( "async-conn-param:response-before-application-answered", t.text );
        if ( t.n > 1 ) return bad( "async-conn-param:more-than-one-response", t.text );
        if ( t.n ) { if ( !responses ) first_response = t; ++responses; }
    }
    const unsigned expected = asked && reply == 2 ? 0u : 1u;
    if ( responses > 1 ) return bad( "async-conn-param:more-than-one-response", mc::fmt( "%u responses", responses ) );
    if ( responses != expected ) return bad( expected ? "async-conn-param:no-response" : "async-conn-param:response-without-application-answer", mc::fmt( "%u responses, %u expected", responses, expected ) );
    if ( responses )
    {
        const sent& t = first_response;
        const bool rsp = t.len == 24 && t.pdu[ 0 ] == CONNECTION_PARAM_RSP;
        const bool rej = ( t.len == 3 && t.pdu[ 0 ] == REJECT_EXT_IND && t.pdu[ 1 ] == CONNECTION_PARAM_REQ ) || ( t.len == 2 && t.pdu[ 0 ] == REJECT_IND );
        const bool want_rsp = valid && ( same || reply == 0 );
        if ( want_rsp && !rsp ) return bad( "async-conn-param:accepted-request-not-answered-with-rsp", t.text );
        if ( !want_rsp && !rej ) return bad( "async-conn-param:refused-request-not-rejected", t.text );
        if ( rsp && std::memcmp( t.pdu + 1, req + 1, 8 ) != 0 ) return bad( "async-conn-param:rsp-with-other-parameters", t.text );
        r.kind = std::string( !valid ? "invalid request" : same ? "unchanged parameters" : reply == 0 ? "application accepts" : "application refuses" ) + ( rsp ? "->LL_CONNECTION_PARAM_RSP" : "->reject" );
    }
    else r.kind = "application silent->no response";
    return r;
}

struct the_case { params cur; request q; int reply; };

std::vector< the_case > cases()
{
    std::vector< the_case > v;
    const params conns[] = { { 0x18, 0, 0x48 }, { 0x28, 2, 0x64 } };
    for ( const params& c : conns )
        for ( int dmin = -1; dmin <= 0; ++dmin ) for ( int dmax = 0; dmax <= 1; ++dmax ) for ( int dl = 0; dl <= 1; ++dl ) for ( int dt = -1; dt <= 1; ++dt )
            for ( int reply = 0; reply != 3; ++reply )
                v.push_back( { c, { std::uint16_t( c.interval + dmin ), std::uint16_t( c.interval + dmax ), std::uint16_t( c.latency + dl ), std::uint16_t( c.timeout + dt ) }, reply } );
    for ( const params& c : conns ) for ( int reply = 0; reply != 3; ++reply )
    {
        v.push_back( { c, { std::uint16_t( c.interval + 1 ), c.interval, c.latency, c.timeout }, reply } );     // min > max
        v.push_back( { c, { c.interval, c.interval, 500, c.timeout }, reply } );                                 // latency too large
    }
    return v;
}

} // namespace

int main( int argc, char** argv )
{
    mc::Args a = mc::parse_args( argc, argv );
    mc::Report rep; rep.property = "C27";
    rep.unit = a.opt.count( "unit" ) ? a.opt[ "unit" ] : "C27_async_conn_param";
    if ( !a.replay.empty() )
    {
        const mc::ReplayFile rf = mc::read_replay( a.replay );
        unsigned ci, cl, ct, a1, a2, a3, a4; int reply;
        if ( rf.steps.empty() || sscanf( rf.steps[ 0 ].c_str(), "async %u %u %u %u %u %u %u %d", &ci, &cl, &ct, &a1, &a2, &a3, &a4, &reply ) != 8 ) return 0;
        const result r = run_case( { std::uint16_t( ci ), std::uint16_t( cl ), std::uint16_t( ct ) }, { std::uint16_t( a1 ), std::uint16_t( a2 ), std::uint16_t( a3 ), std::uint16_t( a4 ) }, reply, true );
        printf( "%s %s\n", r.sig.empty() ? "ok" : r.sig.c_str(), r.detail.c_str() );
        if ( r.sig == rf.sig ) { printf( "REPRODUCED %s\n", rf.sig.c_str() ); return 1; }
        printf( "not reproduced\n" ); return 0;
    }
    for ( const the_case& c : cases() )
    {
        result r;
        const std::string g = mc::Guard::call( [&]{ r = run_case( c.cur, c.q, c.reply, false ); } );
        ++rep.evaluations; ++rep.traces_validated;
        const std::string step = mc::fmt( "async %u %u %u %u %u %u %u %d", c.cur.interval, c.cur.latency, c.cur.timeout, c.q.imin, c.q.imax, c.q.latency, c.q.timeout, c.reply );
        if ( !g.empty() ) { rep.fail( "crash:" + g + ":async-conn-param", "guarded call ended with " + g, { step } ); continue; }
        if ( !r.sig.empty() ) rep.fail( r.sig, r.detail, { step } );
        else { rep.cls( "async: " + r.kind ); rep.sample( step + " => " + r.kind, 6 ); }
    }
    rep.notes[ "bound" ] = "2 connection parameter sets x requests with interval_min/max, latency, timeout each equal to / next to the current value (72 per set) + 2 invalid requests, x application reply { positive, negative, none }";
    rep.write( a );
    return 0;
}
