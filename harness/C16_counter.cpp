// C16, second anchor: bluetoe::nrf52_details::counter ( the CCM packet counter of the nrf52 binding ).
// The text of counter::counter / increment / copy_to is taken from the repository's nrf52.cpp at build time
// ( gen/C16_counter_extract.py ) and compiled against the declaration in nrf52.hpp on the host ( stub nrf.h ).
// E2: every preset ( high octet 0..255 ) x ( low word around 0, 2^31 and the 2^32 carry ) x 0..4 increments is compared
// with a 64 bit reference, the 5 octets copy_to() writes are compared octet by octet ( little endian, 40 bit ).
#include <cstdint>
inline void          __WFI() {}
inline std::uint32_t __get_PRIMASK() { return 0; }
inline void          __disable_irq() {}
inline void          __set_PRIMASK( std::uint32_t ) {}

#include "../mc/mc.hpp"
#include <bluetoe/nrf52.hpp>
#include <bluetoe/bits.hpp>
#include "C16_counter_extract.inc"

#ifndef C16_COUNTER_UNAVAILABLE
using bluetoe::nrf52_details::counter;

// returns "" or the signature of the failure
static std::string one( unsigned high, std::uint32_t low, unsigned k, std::string& detail, bool print )
{
    counter c;
    std::uint8_t fresh[ 7 ]; memset( fresh, 0xCD, sizeof fresh );
    c.copy_to( fresh + 1 );
    for ( int i = 0; i != 5; ++i )
        if ( fresh[ 1 + i ] != 0 ) { detail = "a new counter does not start at 0"; return "counter:initial-value"; }
    if ( fresh[ 0 ] != 0xCD || fresh[ 6 ] != 0xCD ) { detail = "copy_to() writes outside its 5 octets"; return "counter:copy-out-of-bounds"; }

    c.low = low; c.high = std::uint8_t( high );
    for ( unsigned i = 0; i != k; ++i ) c.increment();
    const std::uint64_t want = ( ( std::uint64_t( high ) << 32 | low ) + k ) & 0xffffffffffull;
    std::uint8_t got[ 5 ];
    c.copy_to( got );
    std::uint64_t have = 0;
    for ( int i = 4; i >= 0; --i ) have = have << 8 | got[ i ];
    if ( print ) printf( "  preset %02x:%08x + %u -> %010llx, reference %010llx\n", high, low, k, (unsigned long long)have, (unsigned long long)want );
    if ( have == want ) return "";
    const bool carry = std::uint64_t( low ) + k > 0xffffffffull;
    detail = mc::fmt( "preset %02x:%08x, %u increments: copy_to() yields %010llx, 64 bit reference %010llx", high, low, k, (unsigned long long)have, (unsigned long long)want );
    return carry ? "counter:wrong-across-32-bit-carry" : "counter:wrong-value";
}
#endif

int main( int argc, char** argv )
{
    mc::Args a = mc::parse_args( argc, argv );
    mc::Report rep; rep.property = "C16"; rep.unit = a.opt.count( "unit" ) ? a.opt[ "unit" ] : "C16_counter";
#ifdef C16_COUNTER_UNAVAILABLE
    rep.notes[ "dropped" ] = "counter::increment / copy_to could not be located in nrf52.cpp; this sub-check was skipped (the buffer level counter oracle does not depend on it)";
    rep.exhaustive = false;
    if ( !a.replay.empty() ) return 0;
    rep.write( a );
    return 0;
#else
    if ( !a.replay.empty() )
    {
        mc::ReplayFile rf = mc::read_replay( a.replay );
        for ( auto& s : rf.steps )
        {
            unsigned h, k; unsigned long l;
            if ( sscanf( s.c_str(), "%u %lu %u", &h, &l, &k ) != 3 ) continue;
            std::string d; const std::string sig = one( h, std::uint32_t( l ), k, d, true );
            if ( sig == rf.sig ) { printf( "REPRODUCED %s: %s\n", sig.c_str(), d.c_str() ); return 1; }
        }
        printf( "not reproduced\n" );
        return 0;
    }
    static const std::uint32_t lows[] = { 0u, 1u, 2u, 0xffu, 0x100u, 0xffffu, 0x10000u, 0x7ffffffeu, 0x7fffffffu, 0x80000000u, 0x12345678u,
                                          0xfffffffbu, 0xfffffffcu, 0xfffffffdu, 0xfffffffeu, 0xffffffffu };
    for ( unsigned h = 0; h != 256; ++h )
        for ( std::uint32_t l : lows )
            for ( unsigned k = 0; k != 5; ++k )
            {
                std::string d; const std::string sig = one( h, l, k, d, false );
                ++rep.evaluations; ++rep.traces_validated;
                const bool carry = std::uint64_t( l ) + k > 0xffffffffull;
                rep.cls( mc::fmt( "%s/%s/%s", carry ? "carry-into-octet-4" : ( ( l + k ) >> 8 ) != ( l >> 8 ) ? "carry-inside-low-word" : "no-carry",
                                  h == 255 && carry ? "wrap-at-2^40" : h >= 128 ? "bit-39-set" : "below-2^39", k ? "incremented" : "preset-only" ) );
                if ( !sig.empty() ) rep.fail( sig, d, { mc::fmt( "%u %lu %u", h, (unsigned long)l, k ) } );
            }
    rep.sample( "preset 00:ffffffff + 1 -> 0100000000 expected; preset 7f:ffffffff + 1 -> 8000000000 (2^39: beyond the 39 bit packet counter of the specification, reached after 5.5e11 PDUs)" );
    rep.notes[ "bound" ] = "all 256 values of the high octet x 16 low words (around 0, 2^8, 2^16, 2^31, 2^32-5..2^32-1) x 0..4 increments";
    rep.notes[ "scope" ] = "the counter is 40 bits wide, the Bluetooth packet counter 39 bits (bit 39 is the direction bit in the nonce); the nRF CCM ignores bit 7 of octet 4, the direction is written separately - not judged here";
    rep.write( a );
    return 0;
#endif
}
