// C24 - advertising uses exactly the enabled channels at the configured rate.
// E1: explicit-state BFS (to fixpoint) over the real link_layer<> on the shared POD radio (ll_world.hpp).
// One executable per link layer configuration ( -DC24_CFG=n ).
//
// Reference model (what the property statement demands, nothing more):
//   * every scheduled advertising PDU uses an enabled channel
//   * inside an advertising event the next higher enabled channel follows with when == 0 ("as soon as possible")
//   * after the highest enabled channel the lowest enabled one follows with when in [ interval, interval + 10 ms ]
//   * a start from idle is scheduled at once ( when == 0 ) on the lowest enabled channel
//   * nothing is scheduled while the radio still holds a scheduled advertisement (the scheduled_radio has one slot)
//   * stop_advertising(): the next adv_timeout() schedules nothing
//   * start_advertising( n ): the public documentation says "n advertising events", the implementation comment and the
//     tests ( start_advertising( 42 ) => 42 PDUs ) say "n PDUs".  Demanded is only what both readings share:
//     not stopped before n PDUs, never more than n advertising events.
#include "../mc/mc.hpp"
#include "ll_world.hpp"
#include <bluetoe/server.hpp>
#include <bluetoe/service.hpp>
#include <bluetoe/characteristic.hpp>

#ifndef C24_CFG
#define C24_CFG 2
#endif

namespace {

std::uint8_t char_value = 0;

using server_t = bluetoe::server<
    bluetoe::service<
        bluetoe::service_uuid16< 0x1815 >,
        bluetoe::characteristic<
            bluetoe::characteristic_uuid16< 0x2a56 >,
            bluetoe::bind_characteristic_value< std::uint8_t, &char_value > > > >;

namespace bll = bluetoe::link_layer;

template < class... O > using ll = bll::link_layer< server_t, llw::radio, O... >;

struct cfg
{
#if C24_CFG == 1
    using type = ll< bll::variable_advertising_channel_map, bll::no_auto_start_advertising, bll::advertising_interval< 20 > >;
    static constexpr bool vmap = true, start_stop = true, var_interval = false; static constexpr unsigned interval_ms = 20;
#elif C24_CFG == 2
    using type = ll< bll::variable_advertising_channel_map, bll::no_auto_start_advertising >;
    static constexpr bool vmap = true, start_stop = true, var_interval = false; static constexpr unsigned interval_ms = 100;
#elif C24_CFG == 3
    using type = ll< bll::variable_advertising_channel_map, bll::no_auto_start_advertising, bll::advertising_interval< 10240 > >;
    static constexpr bool vmap = true, start_stop = true, var_interval = false; static constexpr unsigned interval_ms = 10240;
#elif C24_CFG == 4
    using type = ll< bll::variable_advertising_channel_map, bll::no_auto_start_advertising, bll::variable_advertising_interval >;
    static constexpr bool vmap = true, start_stop = true, var_interval = true; static constexpr unsigned interval_ms = 100;
#elif C24_CFG == 5
    using type = ll< bll::all_advertising_channel_map, bll::no_auto_start_advertising, bll::variable_advertising_interval >;
    static constexpr bool vmap = false, start_stop = true, var_interval = true; static constexpr unsigned interval_ms = 100;
#elif C24_CFG == 6
    using type = ll< bll::variable_advertising_channel_map, bll::variable_advertising_interval >;   // auto start
    static constexpr bool vmap = true, start_stop = false, var_interval = true; static constexpr unsigned interval_ms = 100;
#elif C24_CFG == 7
    // two advertising types => the "multiple advertiser" implementation of handle_start_advertising / handle_adv_timeout
    using type = ll< bll::variable_advertising_channel_map, bll::no_auto_start_advertising, bll::variable_advertising_interval,
                     bll::connectable_undirected_advertising, bll::scannable_undirected_advertising >;
    static constexpr bool vmap = true, start_stop = true, var_interval = true; static constexpr unsigned interval_ms = 100;
#elif C24_CFG == 8
    using type = ll<>;                                                                              // all defaults
    static constexpr bool vmap = false, start_stop = false, var_interval = false; static constexpr unsigned interval_ms = 100;
#elif C24_CFG == 9
    // not a multiple of 0.625 ms
    using type = ll< bll::variable_advertising_channel_map, bll::no_auto_start_advertising, bll::advertising_interval< 21 > >;
    static constexpr bool vmap = true, start_stop = true, var_interval = false; static constexpr unsigned interval_ms = 21;
#else
#error unknown C24_CFG
#endif
};

// calls that exist only with the respective option; SFINAE keeps one source for all configurations
template < class L > auto do_start( L& l, int )            -> decltype( l.start_advertising(), void() ) { l.start_advertising(); }
template < class L > void do_start( L&, long ) {}
template < class L > auto do_start_n( L& l, unsigned n, int ) -> decltype( l.start_advertising( n ), void() ) { l.start_advertising( n ); }
template < class L > void do_start_n( L&, unsigned, long ) {}
template < class L > auto do_stop( L& l, int )             -> decltype( l.stop_advertising(), void() ) { l.stop_advertising(); }
template < class L > void do_stop( L&, long ) {}
template < class L > auto do_add( L& l, unsigned c, int )  -> decltype( l.add_channel_to_advertising_channel_map( c ), void() ) { l.add_channel_to_advertising_channel_map( c ); }
template < class L > void do_add( L&, unsigned, long ) {}
template < class L > auto do_remove( L& l, unsigned c, int ) -> decltype( l.remove_channel_from_advertsing_channel_map( c ), void() ) { l.remove_channel_from_advertsing_channel_map( c ); }
template < class L > void do_remove( L&, unsigned, long ) {}
template < class L > auto do_interval( L& l, unsigned ms, int ) -> decltype( l.advertising_interval_ms( ms ), void() ) { l.advertising_interval_ms( ms ); }
template < class L > void do_interval( L&, unsigned, long ) {}
template < class L > auto do_interval_dt( L& l, unsigned us, int ) -> decltype( l.advertising_interval( bll::delta_time( us ) ), void() ) { l.advertising_interval( bll::delta_time( us ) ); }
template < class L > void do_interval_dt( L&, unsigned, long ) {}

const char* const map_names[ 8 ] = { "{}", "{37}", "{38}", "{37,38}", "{39}", "{37,39}", "{38,39}", "{37,38,39}" };

struct World
{
    using ll_t = cfg::type;
    mc::Placed< ll_t > dut;

    struct Ref {
        std::uint8_t  ran;                // run() was called
        std::uint8_t  map;                // enabled channels, bit 0 = 37
        std::uint8_t  enabled;            // the application wants advertising (started, not stopped, count not observed as used up)
        std::uint8_t  pending;            // the radio holds a scheduled advertisement (answered by the next adv_timeout)
        std::uint8_t  last_ch;            // channel of the last PDU scheduled in the current advertising run, 0 = idle
        std::uint8_t  cnt_n;              // n of the start_advertising( n ) in force, 0 = unlimited
        std::uint8_t  pdus_since;         // PDUs scheduled since that call (saturates at 7)
        std::uint8_t  events_since;       // advertising events with at least one PDU scheduled since that call
        std::uint8_t  cur_event_counted;
        std::uint32_t interval_us;
    } ref;

    enum { ev_run, ev_timeout, ev_start, ev_stop, ev_start1, ev_start2,
           ev_remove37, ev_remove38, ev_remove39, ev_add37, ev_add38, ev_add39,
           ev_int20, ev_int100, ev_int10240, ev_int19, ev_int10241,
           ev_int21, ev_int33, ev_int1001, ev_int_dt33333us, ev_count };       // values that are no multiple of 0.625 ms / 1 ms

    void init()
    {
        dut.construct();
        memset( &ref, 0, sizeof ref );
        ref.map         = 7;
        ref.enabled     = cfg::start_stop ? 0 : 1;
        ref.interval_us = cfg::interval_ms * 1000u;
        normalise();
    }

    void regions( mc::Regions& r ) { r.add( dut.raw, sizeof dut.raw ); r.add( ref ); }
    int  num_events() const { return ev_count; }

    std::string describe( int ev ) const
    {
        static const char* const n[] = { "run()", "adv_timeout", "start_advertising()", "stop_advertising()", "start_advertising(1)", "start_advertising(2)",
            "remove_channel(37)", "remove_channel(38)", "remove_channel(39)", "add_channel(37)", "add_channel(38)", "add_channel(39)",
            "advertising_interval_ms(20)", "advertising_interval_ms(100)", "advertising_interval_ms(10240)", "advertising_interval_ms(19)", "advertising_interval_ms(10241)",
            "advertising_interval_ms(21)", "advertising_interval_ms(33)", "advertising_interval_ms(1001)", "advertising_interval(delta_time(33333us))" };
        return n[ ev ];
    }

    // counters would make every state unique
    void normalise() { dut->log.adv_count = 0; dut->log.access_count = 0; }

    static unsigned lowest( unsigned map )             { for ( unsigned c = 0; c != 3; ++c ) if ( map & ( 1u << c ) ) return 37 + c; return 0; }
    static unsigned next_above( unsigned map, unsigned ch ) { for ( unsigned c = ch - 37 + 1; c < 3; ++c ) if ( map & ( 1u << c ) ) return 37 + c; return 0; }
    static const char* map_kind( unsigned map )        { return map == 5 ? "gap-map" : "contiguous-map"; }

    bool advertising() const { return ref.pending || ( ref.enabled && ref.ran ); }

    // one PDU was handed to the radio; fresh = start from idle, otherwise continuation out of adv_timeout()
    void check_schedule( bool fresh, mc::Ctx& c )
    {
        const unsigned ch = dut->log.adv_channel, when = dut->log.adv_when_us;
        c.obs = mc::fmt( "schedule ch=%u when=%uus map=%s", ch, when, map_names[ ref.map ] );

        if ( ch < 37 || ch > 39 || !( ref.map & ( 1u << ( ch - 37 ) ) ) )
        {
            c.fail( mc::fmt( "channel:disabled-channel-scheduled:%s", map_kind( ref.map ) ),
                    mc::fmt( "channel %u scheduled while the advertising channel map is %s", ch, map_names[ ref.map ] ) );
            return;
        }
        const unsigned first = lowest( ref.map );
        bool new_event;
        if ( fresh )
        {
            new_event = true;
            if ( ch != first )
                c.fail( "event-start:not-lowest-enabled-channel:restart-after-partial-event",
                        mc::fmt( "advertising (re)started on channel %u, lowest enabled channel of map %s is %u: this advertising event misses the lower channels", ch, map_names[ ref.map ], first ) );
            else if ( when != 0 )
                c.fail( "when:start-not-immediate", mc::fmt( "first PDU after start scheduled with when=%uus", when ) );
            c.cls( mc::fmt( "start %s ch%u", map_names[ ref.map ], ch ) );
        }
        else
        {
            const unsigned nx = next_above( ref.map, ref.last_ch );
            new_event = nx == 0;
            if ( nx )
            {
                if ( ch != nx )
                    c.fail( mc::fmt( "order:wrong-channel-inside-event:%s", map_kind( ref.map ) ),
                            mc::fmt( "after channel %u channel %u was scheduled, map %s demands %u", ref.last_ch, ch, map_names[ ref.map ], nx ) );
                else if ( when != 0 )
                    c.fail( "when:nonzero-inside-event", mc::fmt( "channel %u inside an advertising event scheduled with when=%uus", ch, when ) );
                c.cls( mc::fmt( "intra %s ch%u", map_names[ ref.map ], ch ) );
            }
            else
            {
                if ( ch != first )
                    c.fail( mc::fmt( "order:new-event-not-on-lowest-enabled-channel:%s", map_kind( ref.map ) ),
                            mc::fmt( "after channel %u (highest enabled of %s) channel %u was scheduled, expected %u", ref.last_ch, map_names[ ref.map ], ch, first ) );
                else if ( when < ref.interval_us )
                    c.fail( "when:interval-too-short", mc::fmt( "next advertising event scheduled after %uus, advertising interval is %uus", when, ref.interval_us ) );
                else if ( when > ref.interval_us + 10000u )
                    c.fail( "when:delay-above-10ms", mc::fmt( "next advertising event scheduled after %uus, advertising interval is %uus (+ at most 10ms)", when, ref.interval_us ) );
                else
                {
                    c.cls( mc::fmt( "inter %s interval=%uus", map_names[ ref.map ], ref.interval_us ) );
                    c.cls( mc::fmt( "delay=%uus", when - ref.interval_us ) );
                }
            }
        }
        if ( ref.cnt_n )
        {
            if ( ref.pdus_since < 7 ) ++ref.pdus_since;
            if ( new_event || !ref.cur_event_counted ) { ++ref.events_since; ref.cur_event_counted = 1; }
            if ( ref.events_since > ref.cnt_n )
                c.fail( "count:more-advertising-events-than-requested",
                        mc::fmt( "start_advertising(%u): PDU on channel %u belongs to advertising event number %u since the call", ref.cnt_n, ch, ref.events_since ) );
        }
        ref.last_ch = std::uint8_t( ch );
        ref.pending = 1;
    }

    void set_count( unsigned n )
    {
        ref.cnt_n = std::uint8_t( n ); ref.pdus_since = 0; ref.events_since = 0; ref.cur_event_counted = 0;
    }

    bool apply( int ev, mc::Ctx& c )
    {
        // --- enabledness ---------------------------------------------------------------------------------------------
        const bool is_start = ev == ev_start || ev == ev_start1 || ev == ev_start2;
        if ( ev == ev_run && ( ref.ran || ( ref.enabled && !ref.map ) ) ) return false;
        if ( ev == ev_timeout && !ref.pending ) return false;
        if ( ( is_start || ev == ev_stop ) && !cfg::start_stop ) return false;
        if ( is_start && !ref.map ) return false;                        // "Make sure to have at least one remaining channel when starting advertising"
        if ( ev >= ev_remove37 && ev <= ev_add39 )
        {
            if ( !cfg::vmap ) return false;
            if ( advertising() ) return false;                           // "It is not supported to change the channel map during advertising."
            // removing a disabled / adding an enabled channel is allowed and must not change the map (reference: set
            // difference / union); with the map already as requested these steps preserve the reference state
        }
        if ( ev >= ev_int20 && !cfg::var_interval ) return false;

        ll_t& l = dut.get();
        const bool was_pending = ref.pending, was_idle = ref.ran && !ref.pending;
        bool expect_fresh = false, expect_none = true;

        std::string crash = mc::Guard::call( [&]{
            switch ( ev )
            {
            case ev_run:      l.run(); break;
            case ev_timeout:  l.sim_adv_timeout(); break;
            case ev_start:    do_start( l, 0 ); break;
            case ev_start1:   do_start_n( l, 1, 0 ); break;
            case ev_start2:   do_start_n( l, 2, 0 ); break;
            case ev_stop:     do_stop( l, 0 ); break;
            case ev_remove37: case ev_remove38: case ev_remove39: do_remove( l, 37 + ( ev - ev_remove37 ), 0 ); break;
            case ev_add37: case ev_add38: case ev_add39:          do_add( l, 37 + ( ev - ev_add37 ), 0 ); break;
            case ev_int20:    do_interval( l, 20, 0 ); break;
            case ev_int100:   do_interval( l, 100, 0 ); break;
            case ev_int10240: do_interval( l, 10240, 0 ); break;
            case ev_int19:    do_interval( l, 19, 0 ); break;
            case ev_int10241: do_interval( l, 10241, 0 ); break;
            case ev_int21:    do_interval( l, 21, 0 ); break;
            case ev_int33:    do_interval( l, 33, 0 ); break;
            case ev_int1001:  do_interval( l, 1001, 0 ); break;
            case ev_int_dt33333us: do_interval_dt( l, 33333, 0 ); break;
            }
        } );
        if ( !crash.empty() ) { c.fail( "crash:" + crash, describe( ev ) ); return true; }

        const unsigned scheduled = dut->log.adv_count;
        normalise();
        c.obs = "-";
        if ( scheduled > 1 ) { c.fail( "schedule:more-than-one-pdu-per-step", mc::fmt( "%u calls of schedule_advertisment in one step", scheduled ) ); return true; }

        // --- reference ---------------------------------------------------------------------------------------------
        switch ( ev )
        {
        case ev_run:
            ref.ran = 1;
            expect_fresh = ref.enabled; expect_none = !ref.enabled;
            break;
        case ev_timeout:
            ref.pending = 0;
            if ( !ref.enabled )
            {
                if ( scheduled ) { c.fail( "stop:advertising-continues-after-stop", "adv_timeout() scheduled another PDU although advertising was stopped" ); return true; }
                ref.last_ch = 0;
                c.cls( "timeout while stopped: idle" );
                return true;
            }
            if ( !scheduled )
            {
                if ( ref.cnt_n && ref.pdus_since >= ref.cnt_n )
                {
                    c.cls( mc::fmt( "count used up after %u PDUs: idle", unsigned( ref.pdus_since ) ) );
                    ref.enabled = 0; ref.last_ch = 0; set_count( 0 );
                    return true;
                }
                c.fail( ref.cnt_n ? "count:stopped-before-n-pdus" : "advertising-stopped-without-request",
                        mc::fmt( "adv_timeout() scheduled nothing; start_advertising(%u) in force, %u PDUs since", unsigned( ref.cnt_n ), unsigned( ref.pdus_since ) ) );
                return true;
            }
            check_schedule( false, c );
            return true;
        case ev_start: case ev_start1: case ev_start2:
            ref.enabled = 1;
            set_count( ev == ev_start ? 0 : ev == ev_start1 ? 1 : 2 );
            if ( was_pending && scheduled )
            {
                c.fail( "schedule:advertisement-scheduled-while-one-is-pending",
                        "start_advertising called schedule_advertisment although the radio still holds a scheduled advertisement (stopped or counted down, adv_timeout not yet seen)" );
                return true;
            }
            expect_fresh = was_idle; expect_none = !was_idle;
            break;
        case ev_stop:
            ref.enabled = 0; set_count( 0 );
            c.cls( was_pending ? "stop while pending" : "stop while idle" );
            break;
        case ev_remove37: case ev_remove38: case ev_remove39: ref.map &= std::uint8_t( ~( 1u << ( ev - ev_remove37 ) ) ); break;
        case ev_add37: case ev_add38: case ev_add39:          ref.map |= std::uint8_t( 1u << ( ev - ev_add37 ) ); break;
        case ev_int20:    ref.interval_us = 20000; break;
        case ev_int100:   ref.interval_us = 100000; break;
        case ev_int10240: ref.interval_us = 10240000; break;
        case ev_int21:    ref.interval_us = 21000; break;
        case ev_int33:    ref.interval_us = 33000; break;
        case ev_int1001:  ref.interval_us = 1001000; break;
        case ev_int_dt33333us: ref.interval_us = 33333; break;
        default: break;   // out of range values are documented to be ignored
        }

        if ( expect_fresh )
        {
            if ( !scheduled ) { c.fail( "start:nothing-scheduled", describe( ev ) + " while idle scheduled no advertisement" ); return true; }
            check_schedule( true, c );
        }
        else if ( expect_none && scheduled )
        {
            c.fail( "schedule:unexpected-advertisement", describe( ev ) + mc::fmt( " scheduled an advertisement on channel %u", unsigned( dut->log.adv_channel ) ) );
        }
        return true;
    }
};

World world;

} // namespace

int main( int argc, char** argv )
{
    mc::Args a = mc::parse_args( argc, argv );
    mc::Report rep; rep.property = "C24";
    rep.unit = a.opt.count( "unit" ) ? a.opt[ "unit" ] : mc::fmt( "C24_adv_channels-cfg%d", C24_CFG );

    mc::BfsOptions o;
    o.max_depth = int( a.num( "depth", 1000 ) );     // fixpoint expected long before
    mc::Bfs< World > bfs( world, rep, a, o );
    if ( !a.replay.empty() ) return bfs.replay_file( mc::read_replay( a.replay ) );

    bfs.run();
    rep.exhaustive = rep.exhaustive && rep.fixpoint;
    rep.counters[ "sizeof link_layer" ] = sizeof( World::ll_t );
    rep.notes[ "configuration" ] = mc::fmt( "cfg %d: variable map %d, start/stop %d, variable interval %d, interval %ums", C24_CFG, cfg::vmap, cfg::start_stop, cfg::var_interval, cfg::interval_ms );
    if ( rep.fixpoint ) rep.notes[ "bound" ] = "all reachable states (fixpoint); states behind a failed oracle are not expanded";
    rep.write( a );
    return 0;
}
