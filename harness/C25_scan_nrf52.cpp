// C25 (scan request half, and the connection half once more through the binding's glue code)
//
// Scan requests are answered by the radio binding, not by link_layer<>.  This unit runs the real
//      bluetoe::link_layer::link_layer< Server, nrf52_details::nrf52_radio< ..., fake_hw, ... >, Options... >
// i.e. the real nRF52 radio state machine ( nrf52_radio_base: schedule_advertisment, radio_interrupt_handler,
// is_valid_scan_request, run ) on a recording fake of its `Hardware` template parameter, built on the host against the
// minimal <nrf.h> stand-in in harness/C25_stub/.  The interrupt is raised by calling the handler the radio registered
// with Hardware::init().
//
// E2: exhaustive product over received advertising channel PDUs x run-time configurations.
#include "../mc/mc.hpp"
#include <bluetoe/server.hpp>
#include <bluetoe/service.hpp>
#include <bluetoe/characteristic.hpp>
#include <bluetoe/nrf52.hpp>

#ifndef C25_CFG
#define C25_CFG 1
#endif

namespace {

namespace bll = bluetoe::link_layer;
using bll::device_address;

std::uint8_t char_value = 0;

using server_t = bluetoe::server<
    bluetoe::service<
        bluetoe::service_uuid16< 0x1815 >,
        bluetoe::characteristic<
            bluetoe::characteristic_uuid16< 0x2a56 >,
            bluetoe::bind_characteristic_value< std::uint8_t, &char_value > > > >;

// ---- fake of the Hardware abstraction (radio_hardware_without_crypto_support's interface) -------------------------------
struct hw_state
{
    void ( *isr )( void* ); void* that;
    unsigned             channel, channel_count;
    const std::uint8_t*  tx_train;  std::size_t tx_train_size;  unsigned tx_train_count;
    const std::uint8_t*  final_tx;  std::size_t final_tx_size;  unsigned final_tx_count;
    std::uint8_t*        rx_train;  std::size_t rx_train_size;  unsigned rx_train_count;
    unsigned             stop_radio_count, adv_timer_count, conn_timer_count, stop_timeout_timer_count, anchor_count, resolving_setup_count;
    std::uint32_t        adv_when_us, access_address, crc_init;
    // environment
    std::uint8_t         env_resolving_invalid;     // answer of resolving_address_invalid()
    std::uint8_t         env_crc_ok;
} hw;

struct fake_hw
{
    static int  pdu_gap_required_by_encryption() { return 0; }
    static void init( void ( *isr )( void* ), void* that ) { hw.isr = isr; hw.that = that; }
    static void configure_radio_channel( unsigned channel ) { hw.channel = channel; ++hw.channel_count; }
    static void configure_transmit_train( const bll::write_buffer& b ) { hw.tx_train = b.buffer; hw.tx_train_size = b.size; ++hw.tx_train_count; }
    static void configure_final_transmit( const bll::write_buffer& b ) { hw.final_tx = b.buffer; hw.final_tx_size = b.size; ++hw.final_tx_count; }
    static void configure_receive_train( const bll::read_buffer& b ) { hw.rx_train = b.buffer; hw.rx_train_size = b.size; ++hw.rx_train_count; }
    static void stop_radio() { ++hw.stop_radio_count; }
    static void store_timer_anchor( int ) { ++hw.anchor_count; }
    static std::tuple< bool, bool, bool > received_pdu() { return std::tuple< bool, bool, bool >{ true, hw.env_crc_ok != 0, hw.env_crc_ok != 0 }; }
    static std::uint32_t now() { return 0; }
    static std::pair< bool, bll::delta_time > can_stop_connection_event_timer( std::uint32_t ) { return { false, bll::delta_time() }; }
    static void setup_identity_resolving( const std::uint8_t* ) { ++hw.resolving_setup_count; }
    static bool resolving_address_invalid() { return hw.env_resolving_invalid != 0; }
    static void set_phy( bll::phy_ll_encoding::phy_ll_encoding_t, bll::phy_ll_encoding::phy_ll_encoding_t ) {}
    static bool schedule_advertisment_event_timer( bll::delta_time when, std::uint32_t, std::uint32_t ) { hw.adv_when_us = when.usec(); ++hw.adv_timer_count; return false; }
    static void schedule_connection_event_timer( std::uint32_t, std::uint32_t, std::uint32_t ) { ++hw.conn_timer_count; }
    static bool schedule_user_timer( void ( * )( void* ), std::uint32_t, std::uint32_t ) { return true; }
    static bool stop_user_timer() { return true; }
    static void stop_timeout_timer() { ++hw.stop_timeout_timer_count; }
    static std::uint32_t static_random_address_seed() { return 0x47110815; }
    static void set_access_address_and_crc_init( std::uint32_t a, std::uint32_t c ) { hw.access_address = a; hw.crc_init = c; }
    static bool user_timer_anchor_moved() { return false; }
    class lock_guard { public: lock_guard() {} };
};

struct noop_sleep_clock
{
    using meta_type = bluetoe::nrf::nrf_details::sleep_clock_source_meta_type;
    static void start_clocks() {}
    static void stop_high_frequency_crystal_oscilator() {}
};

template < std::size_t Tx, std::size_t Rx, class CallBacks >
using radio_t = bluetoe::nrf52_details::nrf52_radio< Tx, Rx, false, CallBacks, fake_hw, noop_sleep_clock, bluetoe::nrf::leave_run_on_interrupt >;

template < class... O > using ll = bll::link_layer< server_t, radio_t, bll::white_list< 8 >, O... >;

enum adv_kind { undirected, directed, scannable, nonconn };
const char* const kind_name[] = { "undirected", "directed", "scannable", "nonconn" };

struct cfg
{
#if C25_CFG == 1
    using type = ll<>;                                             static constexpr adv_kind kind = undirected;
#elif C25_CFG == 2
    using type = ll< bll::scannable_undirected_advertising >;      static constexpr adv_kind kind = scannable;
#elif C25_CFG == 3
    using type = ll< bll::non_connectable_undirected_advertising >; static constexpr adv_kind kind = nonconn;
#elif C25_CFG == 4
    using type = ll< bll::connectable_directed_advertising >;      static constexpr adv_kind kind = directed;
#else
#error unknown C25_CFG
#endif
};
using ll_t = cfg::type;

template < class L > auto set_target( L& l, const device_address& a, int ) -> decltype( l.directed_advertising_address( a ), void() ) { l.directed_advertising_address( a ); }
template < class L > void set_target( L&, const device_address&, long ) {}

// ---- alphabets -------------------------------------------------------------------------------------------------------
const std::uint8_t addr_w[ 6 ] = { 0x3c, 0x1c, 0x62, 0x92, 0xf0, 0x48 };   // white listed as random address
const std::uint8_t addr_v[ 6 ] = { 0x00, 0x00, 0x00, 0x01, 0x0f, 0xc0 };   // white listed as public address; also the directed peer (public)
const std::uint8_t addr_u[ 6 ] = { 0x11, 0x22, 0x33, 0x44, 0x55, 0xc6 };   // never listed
const std::uint8_t public_own[ 6 ] = { 0x0a, 0x0b, 0x0c, 0x0d, 0x0e, 0x0f };
const std::uint8_t* const peer_addr[ 3 ] = { addr_w, addr_v, addr_u };
const unsigned len_fields[] = { 0, 11, 12, 13, 33, 34, 35, 37 };
const unsigned flag_bits[]  = { 0x00, 0x10, 0x20 };

bool listed( const std::uint8_t* a, bool random )
{
    return ( a == addr_w && random ) || ( a == addr_v && !random );
}

struct RunCfg
{
    bool own_public;
    int  filter;        // bit 0: scan request filter on, bit 1: connection request filter on
    bool unresolved;    // Hardware::resolving_address_invalid() answers true (identity resolving on, address did not resolve)

    std::string name() const { return mc::fmt( "type=%s own=%s scanfilter=%d connfilter=%d aar=%s", kind_name[ cfg::kind ], own_public ? "public" : "random", filter & 1, ( filter >> 1 ) & 1, unresolved ? "unresolved" : "ok" ); }
};

struct Pdu
{
    unsigned type, flags, len_field, adva, rxadd, txadd, peer;
    std::string text() const { return mc::fmt( "type=%u flags=%u len=%u adva=%u rxadd=%u txadd=%u peer=%u", type, flags, len_field, adva, rxadd, txadd, peer ); }
};

struct World
{
    mc::Placed< ll_t > dut;
    std::uint8_t       snap_dut[ sizeof( ll_t ) ];
    hw_state           snap_hw;
    RunCfg             rc;
    std::uint8_t       own[ 6 ]; bool own_random;
    std::string        setup_error;

    void irq() { hw.isr( hw.that ); }

    void prepare( const RunCfg& r )
    {
        rc = r; setup_error.clear();
        memset( &hw, 0, sizeof hw );
        hw.env_crc_ok = 1;
        // nrf52_radio_base's constructors leave state_, adv_timeout_, adv_received_ ... uninitialised: the binding relies on
        // the link layer object living in zero initialised static storage (as in all examples).  So: zero, not poison.
        memset( dut.raw, 0, sizeof dut.raw );
        new ( dut.raw ) ll_t();
        ll_t& l = dut.get();

        if ( r.own_public ) l.local_address( bll::public_device_address( public_own ) );
        std::copy( l.local_address().begin(), l.local_address().end(), own ); own_random = l.local_address().is_random();

        l.add_to_white_list( bll::random_device_address( addr_w ) );
        l.add_to_white_list( bll::public_device_address( addr_v ) );
        l.scan_request_filter( ( r.filter & 1 ) != 0 );
        l.connection_request_filter( ( r.filter & 2 ) != 0 );
        set_target( l, bll::public_device_address( addr_v ), 0 );

        l.run();                            // schedules the first advertisement, returns after one (fake) WFI
        if ( hw.adv_timer_count != 1 || hw.tx_train_count != 1 ) { setup_error = "run() did not schedule an advertisement"; return; }
        irq();                              // advertising PDU sent: the radio switches to receiving
        if ( hw.rx_train_count != 1 || !hw.rx_train || hw.rx_train_size < 36 ) { setup_error = "radio did not start to receive after the advertising PDU"; return; }
        hw.env_resolving_invalid = r.unresolved;

        memcpy( snap_dut, dut.raw, sizeof snap_dut );
        snap_hw = hw;
    }

    void build( const Pdu& p, std::uint8_t* out ) const
    {
        static const std::uint8_t ll_data[ 22 ] = {
            0x5a, 0xb3, 0x9a, 0xaf, 0x08, 0x81, 0xf6, 0x03, 0x0b, 0x00, 0x18, 0x00, 0x00, 0x00, 0x48, 0x00, 0xff, 0xff, 0xff, 0xff, 0x1f, 0xaa };
        memset( out, 0, 40 );
        out[ 0 ] = std::uint8_t( p.type | p.flags | ( p.txadd ? 0x40 : 0 ) | ( p.rxadd ? 0x80 : 0 ) );
        out[ 1 ] = std::uint8_t( p.len_field );
        std::copy( peer_addr[ p.peer ], peer_addr[ p.peer ] + 6, out + 2 );
        std::copy( own, own + 6, out + 8 );
        if ( p.adva == 1 ) out[ 8 ]  ^= 0x01;
        if ( p.adva == 2 ) out[ 13 ] ^= 0x80;
        std::copy( ll_data, ll_data + 22, out + 14 );
    }

    // "" = to be answered with a scan response
    const char* scan_reference( const Pdu& p ) const
    {
        if ( cfg::kind == directed || cfg::kind == nonconn ) return "advertising-type-not-scannable";
        if ( p.type != 3 )                                   return "wrong-pdu-type";
        if ( p.len_field != 12 )                             return "wrong-length";
        if ( p.adva != 0 )                                   return "adva-mismatch";
        if ( ( p.rxadd != 0 ) != own_random )                return "rxadd-is-not-own-address-type";
        if ( ( rc.filter & 1 ) && !listed( peer_addr[ p.peer ], p.txadd != 0 ) )
            return listed( peer_addr[ p.peer ], p.txadd == 0 ) ? "filtered-out:listed-with-other-address-type" : "filtered-out";
        return "";
    }

    // "" = a connection is to be entered
    const char* connect_reference( const Pdu& p ) const
    {
        if ( p.type != 5 )                                   return "wrong-pdu-type";
        if ( p.len_field != 34 )                             return "wrong-length";
        if ( p.adva != 0 )                                   return "adva-mismatch";
        if ( ( p.rxadd != 0 ) != own_random )                return "rxadd-is-not-own-address-type";
        if ( cfg::kind == scannable || cfg::kind == nonconn ) return "advertising-type-not-connectable";
        if ( cfg::kind == directed && ( peer_addr[ p.peer ] != addr_v || p.txadd ) ) return "not-the-directed-target";
        if ( ( rc.filter & 2 ) && !listed( peer_addr[ p.peer ], p.txadd != 0 ) ) return "filtered-out";
        return "";
    }

    struct Result
    {
        std::vector< std::pair< std::string, std::string > > fails;
        const char* scan_why; const char* conn_why;
        unsigned responses, connects, advs;
        std::string obs() const { return mc::fmt( "scan_responses=%u connection_events=%u advertisements=%u", responses, connects, advs ); }
    };

    Result evaluate( const Pdu& p )
    {
        Result res;
        memcpy( dut.raw, snap_dut, sizeof snap_dut );
        hw = snap_hw;
        ll_t& l = dut.get();

        // the radio DMA writes header + payload, limited by the buffer it was given
        std::uint8_t pdu[ 40 ];
        build( p, pdu );
        memcpy( hw.rx_train, pdu, std::min< std::size_t >( hw.rx_train_size, p.len_field + 2 ) );

        const std::string crash = mc::Guard::call( [&]{
            irq();                                   // end of reception
            if ( hw.final_tx_count ) irq();          // end of the scan response
            l.run();                                 // link layer callbacks: adv_received() / adv_timeout()
        } );

        res.scan_why = scan_reference( p ); res.conn_why = connect_reference( p );
        res.responses = hw.final_tx_count; res.connects = hw.conn_timer_count; res.advs = hw.adv_timer_count - 1;
        const bool answered = res.responses != 0, connected = res.connects != 0;
        const bool scan_ok = res.scan_why[ 0 ] == 0, conn_ok = res.conn_why[ 0 ] == 0;
        struct lazy { const Pdu& p; const RunCfg& rc; operator std::string() const { return p.text() + " [" + rc.name() + "] "; }
                      std::string operator+( const std::string& r ) const { return std::string( *this ) + r; } } ctx{ p, rc };   // no strings on the hot path

        if ( !crash.empty() ) { res.fails.push_back( { "memory:" + crash, ctx } ); return res; }

        if ( answered && !scan_ok )
            // with resolving_address_invalid() == true every check is skipped: one mechanism, one signature
            res.fails.push_back( { rc.unresolved ? std::string( "scan:answered-but-reference-rejects:unresolved-address-skips-all-checks" )
                                                 : mc::fmt( "scan:answered-but-reference-rejects:%s", res.scan_why ),
                                   mc::fmt( "scan response transmitted (reference: %s) for ", res.scan_why ) + ( ctx + res.obs() ) } );
        else if ( !answered && scan_ok && !rc.unresolved )
            res.fails.push_back( { mc::fmt( "scan:valid-request-not-answered:%s", ( rc.filter & 1 ) ? "listed-scanner" : "filter-off" ), "no scan response for " + ( ctx + res.obs() ) } );
        else if ( answered )
        {
            // the response is the SCAN_RSP of this device
            const std::uint8_t* r = hw.final_tx;
            if ( res.responses != 1 || !r || ( r[ 0 ] & 0x0f ) != 4 || ( ( r[ 0 ] & 0x40 ) != 0 ) != own_random || !std::equal( own, own + 6, r + 2 ) )
                res.fails.push_back( { "scan:malformed-response", "scan response " + ( r ? mc::hex( r, 8 ) : std::string( "null" ) ) + " for " + std::string( ctx ) } );
        }

        if ( connected && !conn_ok )
            res.fails.push_back( { mc::fmt( "connect:entered-but-reference-rejects:%s", res.conn_why ), "connection entered for " + ( ctx + res.obs() ) } );
        else if ( !connected && conn_ok && !rc.unresolved )
            res.fails.push_back( { mc::fmt( "connect:valid-request-ignored:%s", kind_name[ cfg::kind ] ), "no connection for " + ( ctx + res.obs() ) } );

        if ( answered && connected )
            res.fails.push_back( { "scan-and-connect", "one PDU answered with a scan response and a connection: " + std::string( ctx ) } );
        if ( !connected && res.advs != 1 )
            res.fails.push_back( { "ignore:advertising-not-continued", mc::fmt( "%u advertisements scheduled after ", res.advs ) + std::string( ctx ) } );
        return res;
    }
};

World world;

std::string step_line( const RunCfg& rc, const Pdu& p )
{
    return mc::fmt( "own_public=%d filter=%d unresolved=%d | ", int( rc.own_public ), rc.filter, int( rc.unresolved ) ) + p.text();
}

int replay( const mc::Args& a )
{
    const mc::ReplayFile rf = mc::read_replay( a.replay );
    int rcode = 0;
    for ( auto& s : rf.steps )
    {
        int own_public, unresolved; RunCfg rc; Pdu p;
        if ( sscanf( s.c_str(), "own_public=%d filter=%d unresolved=%d | type=%u flags=%u len=%u adva=%u rxadd=%u txadd=%u peer=%u",
                     &own_public, &rc.filter, &unresolved, &p.type, &p.flags, &p.len_field, &p.adva, &p.rxadd, &p.txadd, &p.peer ) != 10 )
        { printf( "cannot parse step: %s\n", s.c_str() ); return 2; }
        rc.own_public = own_public != 0; rc.unresolved = unresolved != 0;
        world.prepare( rc );
        if ( !world.setup_error.empty() ) { printf( "setup: %s\n", world.setup_error.c_str() ); return 2; }
        std::uint8_t pdu[ 40 ]; world.build( p, pdu );
        printf( "configuration: %s, own address %s (%s), white list { %s random, %s public }\n", rc.name().c_str(), mc::hex( world.own, 6 ).c_str(), world.own_random ? "random" : "public",
                mc::hex( addr_w, 6 ).c_str(), mc::hex( addr_v, 6 ).c_str() );
        printf( "received PDU: %s\n", mc::hex( pdu, std::min( 36u, p.len_field + 2 ) ).c_str() );
        auto res = world.evaluate( p );
        printf( "reference: scan response: %s, connection: %s\nobserved:  %s\n", res.scan_why[ 0 ] ? res.scan_why : "yes", res.conn_why[ 0 ] ? res.conn_why : "yes", res.obs().c_str() );
        for ( auto& f : res.fails )
        {
            printf( "FAIL %s: %s\n", f.first.c_str(), f.second.c_str() );
            if ( f.first == rf.sig ) { printf( "REPRODUCED %s\n", rf.sig.c_str() ); rcode = 1; }
        }
    }
    if ( !rcode ) printf( "not reproduced\n" );
    return rcode;
}

} // namespace

int main( int argc, char** argv )
{
    mc::Args a = mc::parse_args( argc, argv );
    mc::Report rep; rep.property = "C25";
    rep.unit = a.opt.count( "unit" ) ? a.opt[ "unit" ] : mc::fmt( "C25_scan_nrf52-cfg%d", C25_CFG );
    if ( !a.replay.empty() ) return replay( a );

    std::uint64_t answered_ok = 0, connected_ok = 0, configs = 0;
    bool cut = false;
    for ( int own_public = 0; own_public != 2 && !cut; ++own_public )
    for ( int filter = 0; filter != 4 && !cut; ++filter )
    for ( int unresolved = 0; unresolved != 2 && !cut; ++unresolved )
    {
        const RunCfg rc{ own_public != 0, filter, unresolved != 0 };
        world.prepare( rc );
        if ( !world.setup_error.empty() ) { rep.fail( "setup", world.setup_error + " [" + rc.name() + "]", {} ); continue; }
        ++configs;
        std::set< std::pair< const char*, const char* > > seen;
        Pdu p;
        for ( p.type = 0; p.type != 16; ++p.type )
        for ( unsigned f = 0; f != 3; ++f )
        for ( unsigned li = 0; li != 8; ++li )
        for ( p.adva = 0; p.adva != 3; ++p.adva )
        for ( p.rxadd = 0; p.rxadd != 2; ++p.rxadd )
        for ( p.txadd = 0; p.txadd != 2; ++p.txadd )
        for ( p.peer = 0; p.peer != 3; ++p.peer )
        {
            p.flags = flag_bits[ f ]; p.len_field = len_fields[ li ];
            auto res = world.evaluate( p );
            ++rep.evaluations; ++rep.traces_validated;
            if ( seen.insert( { res.scan_why, res.conn_why } ).second )
                rep.cls( mc::fmt( "%s own-%s filter%d aar-%s: scan %s / connect %s => responses=%u connections=%u", kind_name[ cfg::kind ], world.own_random ? "random" : "public", filter,
                                  unresolved ? "unresolved" : "ok", res.scan_why[ 0 ] ? res.scan_why : "ANSWER", res.conn_why[ 0 ] ? res.conn_why : "CONNECT", res.responses, res.connects ) );
            if ( !res.scan_why[ 0 ] && res.responses ) { if ( ++answered_ok % 37 == 1 ) rep.sample( rc.name() + " | " + p.text() + " => " + res.obs(), 8 ); }
            if ( !res.conn_why[ 0 ] && res.connects ) ++connected_ok;
            for ( auto& fl : res.fails )
            {
                auto again = world.evaluate( p );
                bool same = false;
                for ( auto& g : again.fails ) same = same || g.first == fl.first;
                if ( !same ) { fprintf( stderr, "NONDETERMINISM: %s not reproduced\n", fl.first.c_str() ); return 2; }
                rep.fail( fl.first, fl.second, { step_line( rc, p ) } );
            }
        }
        if ( a.expired() ) cut = true;
    }
    rep.counters[ "run-time configurations" ] = configs;
    rep.counters[ "valid scan requests answered" ] = answered_ok;
    rep.counters[ "valid connect requests accepted" ] = connected_ok;
    rep.counters[ "sizeof link_layer" ] = sizeof( ll_t );
    if ( cut ) { rep.exhaustive = false; rep.notes[ "cut" ] = "deadline hit, not all run-time configurations evaluated"; }
    rep.notes[ "alphabet" ] = "PDU type 0..15 x header flag bits {0,0x10,0x20} x length field {0,11,12,13,33,34,35,37} (radio writes length+2 octets, at most the buffer) x "
                              "AdvA {own, bit 0 off, bit 47 off} x RxAdd x TxAdd x ScanA/InitA {W listed as random, V listed as public, U unlisted}; "
                              "run-time: own address {random static, public} x scan filter x connection filter x resolving_address_invalid() {false,true}";
    rep.write( a );
    return 0;
}
