// C19 (transmit side) - ll_l2cap_sdu_buffer fragments outgoing L2CAP SDUs exactly.
//
// E1: BFS over the real ll_l2cap_sdu_buffer< ll_data_pdu_buffer<..>, .., MTU > (exact-size heap block, ASan) + a product run.
// The L2CAP layer commits SDUs (allocate_l2cap_transmit_buffer / commit_l2cap_transmit_buffer, header written the way
// link_layer::commit_l2cap_output_buffer does), the link layer commits control PDUs (allocate_ll_transmit_buffer /
// commit_ll_transmit_buffer) and polls (next_ll_l2cap_received, which pushes pending fragments), a reference central takes
// one PDU per exchange out of the radio interface (received() with correct SN/NESN; an acknowledgement frees ring space only
// one exchange later: "acks arrive late"), the application may switch max_tx_size() between the configured maximum and 29.
//
// Oracle (reference central reassembles the stream): every SDU arrives as one LLID-2 PDU followed by LLID-1 PDUs, none
// empty, each not larger than the largest max_tx_size() in effect since the SDU was committed, payloads concatenate to the
// L2CAP frame byte for byte, SDUs in commit order; control PDUs arrive unchanged, in their order, and never behind the first
// fragment of an SDU committed after them.  Bounded liveness from every reachable state: 40 x (exchange, poll) deliver
// everything that was committed.
// Product run: every SDU size 0..MTU x 0..3 maximum-size PDUs already waiting in the ring x 0..2 earlier PDUs (ring
// position), then drained as above.
#define C19_TX_WORLD 1
#include "C19_common.hpp"

namespace {

using namespace c19;

enum : int { EV_SDU = 10000, EV_LL = 20000, EV_AIR = 30000, EV_POLL = 30001, EV_TOGGLE = 30002 };

struct World
{
    dut_t* dut = nullptr;
    std::vector< Span > map = field_map();

    struct Item { std::uint8_t kind, pad_; std::uint16_t n, cap; };     // kind 2: SDU with n payload bytes, 3: control PDU with n bytes
    struct Ref
    {
        std::uint8_t  c_sn, c_nesn;         // reference central
        std::uint8_t  small_max;            // max_tx_size() currently switched to 29
        std::uint8_t  n_items;
        Item          items[ 12 ];          // committed, not yet completely seen by the central; commit order
        std::uint16_t sdu_off;              // bytes of the oldest SDU's L2CAP frame the central has got (0: a start fragment is due)
        std::uint16_t pad2_;
    } ref;

    std::vector< int > events;              // event codes of the BFS alphabet
    std::set< std::string > seen_classes;

    World()
    {
        std::set< int > s{ 0, 1, MAXBODY - 5, MAXBODY - 4, MAXBODY - 3, 2 * MAXBODY - 4, 2 * MAXBODY - 3, 27 - 4, 27 - 3, MTU - 1, MTU };
        for ( int n : s ) if ( n >= 0 && n <= MTU ) events.push_back( EV_SDU + n );
        events.push_back( EV_LL + 1 );
        events.push_back( EV_LL + 27 );
        events.push_back( EV_AIR );
        events.push_back( EV_POLL );
        if ( MAXS != 29 ) events.push_back( EV_TOGGLE );
    }

    void init()
    {
        if ( !dut ) dut = new_dut_block();
        memset( dut, 0xCD, sizeof( dut_t ) );
        new ( dut ) dut_t();
        dut->max_tx_size( MAXS );
        memset( &ref, 0, sizeof ref );
    }
    void regions( mc::Regions& r ) { if ( !dut ) dut = new_dut_block(); r.add( dut, sizeof( dut_t ) ); r.add( ref ); }
    int num_events() const { return int( events.size() ); }
    int code_of( int ev ) const { return ev >= 10000 ? ev : events[ ev ]; }

    static std::string describe_code( int code )
    {
        if ( code == EV_AIR ) return "radio exchange (central sends an empty PDU, acknowledges what it got, takes the next PDU)";
        if ( code == EV_POLL ) return "link layer polls next_ll_l2cap_received()";
        if ( code == EV_TOGGLE ) return "application switches max_tx_size() between the maximum and 29";
        if ( code >= EV_LL ) return mc::fmt( "link layer commits a control PDU with %d bytes", code - EV_LL );
        return mc::fmt( "L2CAP commits an SDU with %d payload bytes", code - EV_SDU );
    }
    std::string describe( int ev ) const { return describe_code( code_of( ev ) ); }
    void cls( mc::Ctx& c, const std::string& s ) { if ( seen_classes.insert( s ).second ) c.cls( s ); }

    int cur_max() const { return ref.small_max ? 29 : MAXS; }

    // L2CAP frame of an SDU with n payload bytes / body of a control PDU
    static std::uint8_t frame_byte( int n, int i )
    {
        if ( i == 0 ) return std::uint8_t( n );
        if ( i == 1 ) return std::uint8_t( n >> 8 );
        if ( i == 2 ) return 0x04;
        if ( i == 3 ) return 0x00;
        return std::uint8_t( 0x80 | ( ( i + n ) & 0x7f ) );
    }
    static std::uint8_t ctrl_byte( int k, int i ) { return std::uint8_t( 0x40 | ( ( k + 3 * i ) & 0x3f ) ); }

    // ---- reference central: one new PDU from the peripheral --------------------------------------------------------
    void central_got( const std::uint8_t* pdu, std::size_t mem_size, mc::Ctx& c )
    {
        const unsigned h = layout_t::header( pdu ), llid = h & 3, len = h >> 8;
        if ( mem_size != std::size_t( LLOH + len ) ) { c.fail( "tx-pdu:size-field-differs-from-buffer", mc::fmt( "length field %u, %zu bytes handed to the radio", len, mem_size ) ); return; }
        const std::uint8_t* body = pdu + LLOH;
        if ( llid == 1 && len == 0 ) return;                                      // empty PDU: nothing to send
        if ( llid == 0 ) { c.fail( "tx-pdu:llid-0", "PDU with LLID 0 transmitted" ); return; }
        if ( llid == 3 )
        {
            int at = -1;
            for ( int i = 0; i != ref.n_items && at < 0; ++i ) if ( ref.items[ i ].kind == 3 ) at = i;
            if ( at < 0 ) { c.fail( "tx-ctrl:unexpected", "control PDU transmitted, none is outstanding" ); return; }
            const Item it = ref.items[ at ];
            bool same = len == it.n;
            for ( unsigned i = 0; same && i != len; ++i ) same = body[ i ] == ctrl_byte( it.n, int( i ) );
            if ( !same ) { c.fail( "tx-ctrl:changed", mc::fmt( "control PDU with %u bytes committed, %u bytes / other content transmitted", unsigned( it.n ), len ) ); return; }
            remove_item( at );
            cls( c, at == 0 ? "central:ctrl:in-order" : "central:ctrl:overtakes-unsent-sdu" );
            return;
        }
        int at = -1;
        for ( int i = 0; i != ref.n_items && at < 0; ++i ) if ( ref.items[ i ].kind == 2 ) at = i;
        const char* what = llid == 2 ? "start" : "continuation";
        if ( at < 0 ) { c.fail( mc::fmt( "tx-fragment:unexpected-%s", what ), mc::fmt( "%s fragment with %u bytes, no SDU is outstanding", what, len ) ); return; }
        const Item it = ref.items[ at ];
        const int total = it.n + 4;
        if ( llid == 2 && ref.sdu_off != 0 ) { c.fail( "tx-fragment:start-inside-sdu", mc::fmt( "start fragment after %u of %d bytes of the SDU", unsigned( ref.sdu_off ), total ) ); return; }
        if ( llid == 1 && ref.sdu_off == 0 ) { c.fail( "tx-fragment:continuation-without-start", mc::fmt( "SDU with %d payload bytes begins with a continuation fragment", int( it.n ) ) ); return; }
        if ( llid == 2 && at != 0 ) { c.fail( "tx-order:sdu-overtakes-earlier-control-pdu", "start fragment transmitted while a control PDU committed before the SDU is still outstanding" ); return; }
        if ( len == 0 ) { c.fail( "tx-fragment:empty", mc::fmt( "%s fragment without payload", what ) ); return; }
        if ( int( len ) + 2 > it.cap )
        {
            c.fail( mc::fmt( "tx-fragment:larger-than-max-tx-size:%s", what ), mc::fmt( "%s fragment of %u+2 bytes, max_tx_size() was never above %d since the SDU was committed", what, len, int( it.cap ) ) );
            return;
        }
        if ( ref.sdu_off + int( len ) > total )
        {
            c.fail( mc::fmt( "tx-fragment:beyond-sdu:%s", what ), mc::fmt( "fragments carry %u bytes, the SDU (L2CAP header + %d) has %d", ref.sdu_off + len, int( it.n ), total ) );
            return;
        }
        for ( unsigned i = 0; i != len; ++i )
            if ( body[ i ] != frame_byte( it.n, int( ref.sdu_off + i ) ) )
            {
                c.fail( mc::fmt( "tx-fragment:bytes-differ:%s", what ), mc::fmt( "byte %u of the %s fragment is %02x, byte %u of the SDU is %02x", i, what, body[ i ], ref.sdu_off + i, frame_byte( it.n, int( ref.sdu_off + i ) ) ) );
                return;
            }
        ref.sdu_off = std::uint16_t( ref.sdu_off + len );
        cls( c, mc::fmt( "central:%s:%s%s", what, ref.sdu_off == total ? "sdu-complete" : "more-to-come", int( len ) + 2 == it.cap ? ":max-size" : "" ) );
        if ( ref.sdu_off == total ) { ref.sdu_off = 0; remove_item( at ); }
    }

    void remove_item( int at )
    {
        for ( int i = at + 1; i < ref.n_items; ++i ) ref.items[ i - 1 ] = ref.items[ i ];
        --ref.n_items;
        memset( &ref.items[ ref.n_items ], 0, sizeof( Item ) );
    }
    bool add_item( int kind, int n, mc::Ctx& c )
    {
        if ( ref.n_items == 12 ) { c.fail( "harness:items", "reference list too small" ); return false; }
        Item& it = ref.items[ ref.n_items++ ];
        it.kind = std::uint8_t( kind ); it.pad_ = 0; it.n = std::uint16_t( n ); it.cap = std::uint16_t( cur_max() );
        return true;
    }

    // ---- events -----------------------------------------------------------------------------------------------------
    bool exchange( mc::Ctx& c )
    {
        read_buffer rb{ nullptr, 0 }; write_buffer rsp{ nullptr, 0 };
        const std::string g = guarded( [&]
        {
            rb = dut->hw_allocate_receive_buffer();
            if ( rb.size == 0 ) return;
            layout_t::header( rb.buffer, std::uint16_t( 0x01 | ( ref.c_sn ? 0x08 : 0 ) | ( ref.c_nesn ? 0x04 : 0 ) ) );
            rsp = dut->hw_received( rb );
        } );
        if ( !g.empty() ) { c.fail( "tx-memory:" + g + ":radio-side", "received()/next_transmit()" ); return true; }
        if ( rb.size == 0 || rsp.size == 0 || rsp.buffer == nullptr ) { c.fail( "harness:radio", "no receive buffer / no PDU to transmit" ); return true; }
        const unsigned h = layout_t::header( rsp.buffer );
        if ( bool( h & 0x04 ) != bool( ref.c_sn ) ) ref.c_sn ^= 1;                // the central's PDU was acknowledged
        if ( bool( h & 0x08 ) == bool( ref.c_nesn ) )
        {
            ref.c_nesn ^= 1;
            std::string gg = guarded( [&]{ central_got( rsp.buffer, rsp.size, c ); } );
            if ( !gg.empty() ) c.fail( "tx-memory:" + gg + ":pdu-outside-object", "the PDU handed to the radio cannot be read" );
        }
        else cls( c, "central:retransmission" );
        return true;
    }

    bool apply_code( int code, mc::Ctx& c )
    {
        std::uint8_t pre[ sizeof( dut_t ) ]; memcpy( pre, dut, sizeof pre );
        if ( code == EV_AIR )
        {
            exchange( c );
            if ( c.fails.empty() )
            {
                const std::string d = frame_diff( pre, reinterpret_cast< const std::uint8_t* >( dut ), map,
                    { "ll_data_pdu_buffer::buffer_[transmit part]", "ll_data_pdu_buffer::buffer_[receive part]", "ll_data_pdu_buffer::receive_buffer_ (ring)", "ll_data_pdu_buffer::transmit_buffer_ (ring)", "sequence numbers / empty PDU" } );
                if ( !d.empty() ) c.fail( "tx-frame:radio-side-event-changed-sdu-state", d );
            }
            c.obs = mc::fmt( "outstanding %d, sdu_off %u", int( ref.n_items ), unsigned( ref.sdu_off ) );
            return true;
        }
        if ( code == EV_POLL )
        {
            write_buffer r{ nullptr, 0 };
            const std::string g = guarded( [&]{ r = dut->next_ll_l2cap_received(); } );
            if ( !g.empty() ) { c.fail( "tx-memory:" + g + ":try_send_pdus", "next_ll_l2cap_received()" ); return true; }
            if ( r.size != 0 ) { c.fail( "harness:rx-not-idle", "something was received" ); return true; }
            check_frame_tx( pre, c );
            c.obs = "polled";
            return true;
        }
        if ( code == EV_TOGGLE )
        {
            if ( MAXS == 29 ) return false;
            ref.small_max ^= 1;
            dut->max_tx_size( std::size_t( cur_max() ) );
            for ( int i = 0; i != ref.n_items; ++i ) if ( ref.items[ i ].cap < cur_max() ) ref.items[ i ].cap = std::uint16_t( cur_max() );
            c.obs = mc::fmt( "max_tx_size %d", cur_max() );
            cls( c, ref.small_max ? "max-tx:lowered" : "max-tx:raised" );
            return true;
        }
        if ( code >= EV_LL )
        {
            const int k = code - EV_LL;
            read_buffer b{ nullptr, 0 };
            std::string g = guarded( [&]
            {
                b = dut->allocate_ll_transmit_buffer( std::size_t( k ) );
                if ( b.size != std::size_t( k + LLOH ) ) return;
                memset( b.buffer, 0xEE, b.size );
                layout_t::header( b.buffer, std::uint16_t( 0x03 | ( k << 8 ) ) );
                std::uint8_t* body = layout_t::body( b ).first;
                for ( int i = 0; i != k; ++i ) body[ i ] = ctrl_byte( k, i );
                dut->commit_ll_transmit_buffer( b );
            } );
            if ( !g.empty() ) { c.fail( "tx-memory:" + g + ":ll-pdu", describe_code( code ) ); return true; }
            if ( b.size != 0 && b.size != std::size_t( k + LLOH ) ) { c.fail( "tx-ll-buffer:wrong-size", mc::fmt( "allocate_ll_transmit_buffer(%d) -> %zu bytes", k, b.size ) ); return true; }
            if ( b.size != 0 && !add_item( 3, k, c ) ) return true;
            check_frame_tx( pre, c );
            cls( c, b.size ? "ll-pdu:committed" : "ll-pdu:no-room" );
            c.obs = b.size ? "control PDU committed" : "no room";
            return true;
        }
        // SDU
        const int n = code - EV_SDU;
        if ( n < 0 || n > MTU ) return false;
        read_buffer b{ nullptr, 0 };
        std::string g = guarded( [&]{ b = dut->allocate_l2cap_transmit_buffer( std::size_t( n ) ); } );
        if ( !g.empty() ) { c.fail( "tx-memory:" + g + ":allocate-l2cap", describe_code( code ) ); return true; }
        if ( b.size == 0 )
        {
            bool sdu_outstanding = false;
            for ( int i = 0; i != ref.n_items; ++i ) sdu_outstanding = sdu_outstanding || ref.items[ i ].kind == 2;
            if ( sdu_outstanding ) return false;                                   // the previous SDU may still occupy the buffer
            c.fail( "tx-sdu-buffer:refused-although-all-sdus-sent", mc::fmt( "allocate_l2cap_transmit_buffer(%d) fails, the central has received every SDU committed so far", n ) );
            return true;
        }
        if ( b.size != std::size_t( n + LLOH + 4 ) ) { c.fail( "tx-sdu-buffer:wrong-size", mc::fmt( "allocate_l2cap_transmit_buffer(%d) -> %zu bytes", n, b.size ) ); return true; }
        g = guarded( [&]
        {
            memset( b.buffer, 0xEE, b.size );
            layout_t::header( b.buffer, std::uint16_t( 0x02 | ( ( ( n + 4 ) & 0xff ) << 8 ) ) );
            std::uint8_t* body = layout_t::body( b ).first;
            for ( int i = 0; i != n + 4; ++i ) body[ i ] = frame_byte( n, i );
            dut->commit_l2cap_transmit_buffer( b );
        } );
        if ( !g.empty() ) { c.fail( "tx-memory:" + g + ":commit-l2cap", describe_code( code ) ); return true; }
        if ( !add_item( 2, n, c ) ) return true;
        check_frame_tx( pre, c );
        cls( c, mc::fmt( "sdu:committed:%s", n + 4 + 2 <= cur_max() ? "fits-one-pdu" : "needs-fragments" ) );
        c.obs = "SDU committed";
        return true;
    }

    // link-layer side transmit calls may change the transmit ring, its storage, the SN bit and the three transmit members
    void check_frame_tx( const std::uint8_t* pre, mc::Ctx& c )
    {
        if ( !c.fails.empty() ) return;
        const std::string d = frame_diff( pre, reinterpret_cast< const std::uint8_t* >( dut ), map,
            { "ll_data_pdu_buffer::buffer_[transmit part]", "ll_data_pdu_buffer::transmit_buffer_ (ring)", "sequence numbers / empty PDU", "transmit_buffer_", "transmit_size_", "transmit_buffer_used_" } );
        if ( !d.empty() ) c.fail( "tx-frame:write-outside-transmit-state", d );
    }

    bool apply( int ev, mc::Ctx& c ) { return apply_code( code_of( ev ), c ); }

    // bounded liveness: everything committed reaches the central
    void drain( mc::Ctx& c )
    {
        for ( int i = 0; i != 40 && ref.n_items != 0 && c.fails.empty(); ++i )
        {
            mc::Ctx cc;
            apply_code( EV_AIR, cc );
            if ( cc.fails.empty() ) apply_code( EV_POLL, cc );
            for ( auto& f : cc.fails ) c.fail( f.sig, "while draining: " + f.detail );
            for ( auto& k : cc.classes ) c.cls( k );
        }
        if ( c.fails.empty() && ref.n_items != 0 )
            c.fail( mc::fmt( "tx-stalled:%s", ref.items[ 0 ].kind == 2 ? ( ref.sdu_off ? "sdu-partly-sent" : "sdu-not-sent" ) : "control-pdu-not-sent" ),
                    mc::fmt( "after 40 exchanges + polls %d committed items have not reached the central (oldest: %s with %d bytes, %u bytes of it sent)", int( ref.n_items ),
                             ref.items[ 0 ].kind == 2 ? "SDU" : "control PDU", int( ref.items[ 0 ].n ), unsigned( ref.sdu_off ) ) );
        c.obs = mc::fmt( "drained, %d left", int( ref.n_items ) );
    }
};

} // namespace

int main( int argc, char** argv )
{
    mc::Args a = mc::parse_args( argc, argv );
    mc::Report rep; rep.property = "C19";
    rep.unit = a.opt.count( "unit" ) ? a.opt[ "unit" ] : mc::fmt( "C19_tx-mtu%d-max%d", MTU, MAXS );
    static World w;
    mc::BfsOptions o;
    // with the max_tx_size switch (configurations other than 29) the state space is several times larger: fewer levels
    o.max_depth = int( a.num( "depth", MAXS != 29 ? ( a.thorough() ? 5 : 4 ) : ( a.thorough() ? 7 : 5 ) ) );
    o.max_states = 3000000;
    o.with_drain = true;
    mc::Bfs< World > bfs( w, rep, a, o );
    if ( !a.replay.empty() ) return bfs.replay_file( mc::read_replay( a.replay ) );

    // product run first (cheap): every SDU size x ring fill level x ring position
    std::uint64_t runs = 0;
    for ( int n = 0; n <= MTU; ++n )
        for ( int fill = 0; fill <= 3; ++fill )
            for ( int rot = 0; rot <= 2; ++rot )
                for ( int small = 0; small <= ( MAXS != 29 ? 1 : 0 ); ++small )
                {
                    std::vector< int > codes;
                    if ( small ) codes.push_back( EV_TOGGLE );
                    for ( int r = 0; r != rot; ++r ) { codes.push_back( EV_LL + 1 + 13 * r ); codes.push_back( EV_AIR ); codes.push_back( EV_AIR ); }
                    for ( int f = 0; f != fill; ++f ) codes.push_back( EV_LL + 27 );
                    codes.push_back( EV_SDU + n );
                    w.init();
                    mc::Ctx c;
                    std::vector< std::string > trace;
                    for ( int code : codes )
                    {
                        c.clear();
                        w.apply_code( code, c );
                        trace.push_back( mc::fmt( "%d ", code ) + World::describe_code( code ) );
                        ++rep.evaluations; ++rep.traces_validated;
                        if ( !c.fails.empty() ) break;
                    }
                    if ( c.fails.empty() ) { c.clear(); w.drain( c ); trace.push_back( "-1 drain" ); ++rep.evaluations; }
                    for ( auto& f : c.fails ) rep.fail( f.sig, "product run: " + f.detail, trace );
                    for ( auto& k : c.classes ) rep.cls( k );
                    ++runs;
                }
    rep.counters[ "product runs (SDU size x ring fill x ring position x max_tx_size)" ] = runs;
    w.seen_classes.clear();
    bfs.run();
    rep.notes[ "configuration" ] = mc::fmt( "ll_l2cap_sdu_buffer<ll_data_pdu_buffer<%zu,%zu>, MTU %d>, %s layout, max_tx_size %d%s, %d events, sizeof object %zu",
                                            RING_TX, RING_RX, MTU, layout_name, MAXS, MAXS != 29 ? " <-> 29" : "", w.num_events(), sizeof( dut_t ) );
    rep.write( a );
    return 0;
}
