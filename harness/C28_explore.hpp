// Bounded exhaustive exploration of all event sequences up to a depth, depth first, for worlds whose states (almost) never
// merge (link layer worlds: event counters, channel indices and stale buffer bytes make every history a distinct byte image).
// Same World interface as mc::Bfs ( init / regions / num_events / apply / describe, optional drain ); memory = one byte image per depth
// instead of one per frontier state, so depth bounds are limited by time only.  Used by C27 (part C), C28 and C29.
//
//   * every sequence of enabled events of length <= max_depth is executed on the real object (snapshot / restore per depth);
//   * a failed oracle or Ctx::prune ends that branch (HARNESS_GUIDE rule 3);
//   * per signature the shortest trace is kept; before the result is written every kept trace is replayed twice from a
//     fresh world and has to raise the same signature with the same observation both times (exit 2 otherwise);
//   * replay files are the same as mc::Bfs' ( "step <event number> <description>" ) and are replayed with Bfs::replay_file.
#ifndef VERIF_C28_EXPLORE_HPP
#define VERIF_C28_EXPLORE_HPP

#include "../mc/mc.hpp"

namespace explore {

template < class W >
struct Dfs
{
    W& w; mc::Report& rep; const mc::Args& args;
    int max_depth;
    mc::Regions regs; std::size_t isz;
    std::vector< std::vector< std::uint8_t > > stack;
    std::vector< int > path;
    std::map< std::string, std::vector< int > > shortest;   // signature -> events
    std::uint64_t per_depth[ 32 ] = { 0 };
    bool cut = false;
    std::uint64_t tick = 0;

    Dfs( W& w_, mc::Report& r, const mc::Args& a, int depth ) : w( w_ ), rep( r ), args( a ), max_depth( depth )
    {
        w.regions( regs ); isz = regs.size();
    }

    std::vector< std::string > lines( const std::vector< int >& evs ) const
    {
        std::vector< std::string > t;
        for ( int e : evs ) t.push_back( e < 0 ? std::string( "-1 drain" ) : mc::fmt( "%d ", e ) + w.describe( e ) );
        return t;
    }

    // optional bounded liveness run W::drain( Ctx& ) from every reached state (the state is restored afterwards)
    template < class X = W >
    auto drain_impl( mc::Ctx& c, int ) -> decltype( std::declval< X& >().drain( c ), bool() ) { w.drain( c ); return true; }
    bool drain_impl( mc::Ctx&, long ) { return false; }

    void note_fails( const mc::Ctx& c )
    {
        for ( auto& f : c.fails )
        {
            auto it = shortest.find( f.sig );
            if ( it != shortest.end() && it->second.size() <= path.size() ) { ++rep.violations[ f.sig ].count; continue; }
            if ( it == shortest.end() && shortest.size() >= 24 ) continue;
            shortest[ f.sig ] = path;
            rep.fail( f.sig, f.detail, lines( path ) );
            // Report::fail keeps an existing entry unless the new trace is shorter; make sure the entry is the shortest one
            mc::Violation& v = rep.violations[ f.sig ];
            v.trace = lines( path ); v.detail = f.detail;
        }
    }

    void visit( int d )
    {
        if ( d == max_depth ) return;
        const int nev = w.num_events();
        mc::Ctx c;
        for ( int ev = 0; ev != nev && !cut; ++ev )
        {
            regs.load( stack[ d ].data() );
            c.clear();
            if ( !w.apply( ev, c ) ) continue;
            ++rep.transitions; ++rep.evaluations; ++rep.traces_validated; ++per_depth[ d + 1 ];
            path.push_back( ev );
            for ( auto& k : c.classes ) rep.cls( k );
            if ( rep.samples.size() < 6 && d >= 1 && ( rep.transitions % 97 ) == 3 )
            {
                std::string t; for ( int e : path ) t += w.describe( e ) + "; ";
                rep.sample( t + " => " + c.obs );
            }
            note_fails( c );
            if ( c.fails.empty() && !c.prune )
            {
                ++rep.states;
                regs.save( stack[ d + 1 ].data() );
                mc::Ctx dc;
                if ( drain_impl( dc, 0 ) )
                {
                    ++rep.evaluations;
                    path.push_back( -1 );
                    for ( auto& k : dc.classes ) rep.cls( k );
                    note_fails( dc );
                    path.pop_back();
                }
                if ( dc.fails.empty() ) visit( d + 1 );
            }
            path.pop_back();
            if ( ( ++tick & 0xfff ) == 0 && args.expired() ) cut = true;
        }
    }

    void run()
    {
        w.init();
        stack.assign( std::size_t( max_depth ) + 1, std::vector< std::uint8_t >( isz ) );
        regs.save( stack[ 0 ].data() );
        rep.states += 1;
        {
            mc::Ctx dc;
            if ( drain_impl( dc, 0 ) ) { ++rep.evaluations; path.push_back( -1 ); for ( auto& k : dc.classes ) rep.cls( k ); note_fails( dc ); path.pop_back(); }
        }
        visit( 0 );
        if ( cut )
        {
            rep.exhaustive = false;
            rep.notes[ "cut" ] = mc::fmt( "deadline hit during the depth first enumeration of depth %d; the enumeration order is event-major, so no depth is complete", max_depth );
        }
        else rep.max_depth_completed = std::max( rep.max_depth_completed, max_depth );
        for ( int d = 1; d <= max_depth && d < 32; ++d ) rep.counters[ mc::fmt( "sequences of length %02d", d ) ] += per_depth[ d ];

        // determinism: every kept trace twice from a fresh world
        mc::Bfs< W > replayer( w, rep, args );
        for ( auto& kv : shortest )
        {
            bool ok[ 2 ] = { false, false }; std::string o[ 2 ];
            for ( int k = 0; k != 2; ++k )
                for ( auto& g : replayer.replay( kv.second, &o[ k ] ) )
                    if ( g.sig == kv.first ) ok[ k ] = true;
            if ( !ok[ 0 ] || !ok[ 1 ] || o[ 0 ] != o[ 1 ] )
            {
                fprintf( stderr, "NONDETERMINISM: signature %s not reproduced on replay (unit %s)\n", kv.first.c_str(), rep.unit.c_str() );
                for ( auto& l : lines( kv.second ) ) fprintf( stderr, "   %s\n", l.c_str() );
                exit( 2 );
            }
        }
    }
};

} // namespace explore

#endif
