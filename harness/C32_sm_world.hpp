// World "SM" shared by C32 (protocol order), C33 (key offering), C34 (key distribution), C35 (pairing status).
//
//   DUT  = the real  <manager>::impl< Functions, Options... >  + its  channel_data_t< link_state >  (stand-alone, the way
//          tests/security_manager/test_sm.hpp instantiates it)
//   toolbox = *tagging fake*: c1, s1, f4, f5, f6, g2, p256 are injective-ish hashes of all their inputs; srand, nonce,
//          passkey and key pair are constants; is_valid_public_key is a flag byte.  The reference central therefore can
//          compute the cryptographically "correct" confirm / DHKey-check values and deliberately wrong ones.
//   IO   = scripted IO-capability object ( yes/no stored and answered by harness events, keyboard passkey, display, OOB )
//   DB   = single slot bonding data base
//   Ref  = reference central + reference acceptance automaton (plain bytes)
//
// All four oracles are evaluated in every build (so that a state where reference and implementation are out of step is
// never expanded); only the violations of the oracle selected with -DORACLE=32|33|34|35 are reported.
#ifndef VERIF_C32_SM_WORLD_HPP
#define VERIF_C32_SM_WORLD_HPP

#include "../mc/mc.hpp"
#include <type_traits>
#include <bluetoe/security_manager.hpp>
#include <bluetoe/link_state.hpp>

namespace smw {

using u128 = bluetoe::details::uint128_t;
using bluetoe::link_layer::device_address;

enum { SMV_LEGACY = 0, SMV_LESC = 1, SMV_COMBINED = 2, SMV_NONE = 3 };

// ------------------------------------------------------------------------------------------------------------------
// constants of the world (one or two distinct patterns per kind of value keep the space finite)
inline u128 pat( std::uint8_t b ) { u128 r; for ( int i = 0; i != 16; ++i ) r[ i ] = std::uint8_t( b + i ); return r; }
inline u128 passkey128( std::uint32_t v ) { u128 r{}; r[ 0 ] = v & 0xff; r[ 1 ] = ( v >> 8 ) & 0xff; r[ 2 ] = ( v >> 16 ) & 0xff; r[ 3 ] = ( v >> 24 ) & 0xff; return r; }

static const std::uint32_t PASSKEY_DISPLAY = 123456;   // create_passkey()
static const std::uint32_t PASSKEY_KEYBOARD = 654321;  // what the scripted user types
inline u128 SRAND()   { return pat( 0xA0 ); }          // peripheral's legacy random
inline u128 NB()      { return pat( 0xC0 ); }          // peripheral's LESC nonce
inline u128 MRAND_A() { return pat( 0x10 ); }          // central's random / nonce, pattern A (the one confirm values are built for)
inline u128 MRAND_B() { return pat( 0x30 ); }          // pattern B
inline u128 OOBDATA() { return pat( 0x70 ); }
inline u128 OLDKEY()  { return pat( 0x90 ); }          // key of a bond made on an earlier connection
inline u128 NEWLTK()  { return pat( 0x50 ); }          // create_long_term_key()
static const std::uint16_t NEW_EDIV = 0x4711;  static const std::uint64_t NEW_RAND = 0x1122334455667788ull;
static const std::uint16_t OLD_EDIV = 0x0815;  static const std::uint64_t OLD_RAND = 0x8877665544332211ull;

inline device_address LOCAL()  { return bluetoe::link_layer::public_device_address( { 0xb6, 0xb5, 0xb4, 0xb3, 0xb2, 0xb1 } ); }
inline device_address REMOTE() { return bluetoe::link_layer::random_device_address( { 0xa6, 0xa5, 0xa4, 0xa3, 0xa2, 0xa1 } ); }
inline device_address OTHER()  { return bluetoe::link_layer::random_device_address( { 0x66, 0x65, 0x64, 0x63, 0x62, 0xc1 } ); }

// candidates for the legacy temporary key: 0 just works, 1 displayed passkey, 2 typed passkey, 3 OOB data,
// and passkeys that are *not* the user's: 4 typed passkey mod 65536, 5 typed passkey with the upper half changed, 6 displayed passkey mod 65536
// ( both passkeys are >= 65536 and have bits in both halves )
static const int TK_CANDIDATES = 7, TK_FIRST_WRONG_PASSKEY = 4;
inline u128 tk_of( int idx )
{
    switch ( idx )
    {
    case 1: return passkey128( PASSKEY_DISPLAY ); case 2: return passkey128( PASSKEY_KEYBOARD ); case 3: return OOBDATA();
    case 4: return passkey128( PASSKEY_KEYBOARD & 0xffff ); case 5: return passkey128( PASSKEY_KEYBOARD ^ 0x50000 ); case 6: return passkey128( PASSKEY_DISPLAY & 0xffff );
    default: return u128{};
    }
}
static const char* const tk_name[] = { "tk0", "tk-displayed-passkey", "tk-typed-passkey", "tk-oob", "tk-typed-passkey-mod-65536", "tk-typed-passkey-upper-half-changed", "tk-displayed-passkey-mod-65536" };

// ------------------------------------------------------------------------------------------------------------------
// tagging fake toolbox
struct H
{
    std::uint8_t buf[ 256 ]; std::size_t n = 0;
    explicit H( std::uint8_t tag ) { buf[ n++ ] = tag; }
    H& add( const void* p, std::size_t k ) { std::memcpy( buf + n, p, k ); n += k; return *this; }
    H& add( const u128& v ) { return add( v.data(), 16 ); }
    H& add( const device_address& a ) { std::uint8_t t[ 7 ]; std::copy( a.begin(), a.end(), t ); t[ 6 ] = a.is_random() ? 1 : 0; return add( t, 7 ); }
    H& add( std::uint8_t b ) { return add( &b, 1 ); }
    u128 out() const { const mc::Hash128 h = mc::hash_bytes( buf, n ); u128 r; std::memcpy( r.data(), &h.a, 8 ); std::memcpy( r.data() + 8, &h.b, 8 ); return r; }
};

struct toolbox
{
    static device_address local_address() { return LOCAL(); }

    static u128 create_srand()   { return SRAND(); }
    static u128 create_passkey() { return passkey128( PASSKEY_DISPLAY ); }
    static bluetoe::details::longterm_key_t create_long_term_key()
    {
        bluetoe::details::longterm_key_t k; std::memset( &k, 0, sizeof k );
        k.longterm_key = NEWLTK(); k.rand = NEW_RAND; k.ediv = NEW_EDIV; return k;
    }
    static u128 c1( const u128& tk, const u128& r, const u128& p1, const u128& p2 ) { return H( 1 ).add( tk ).add( r ).add( p1 ).add( p2 ).out(); }
    static u128 s1( const u128& tk, const u128& srand, const u128& mrand )          { return H( 2 ).add( tk ).add( srand ).add( mrand ).out(); }

    static bool is_valid_public_key( const std::uint8_t* k ) { return k[ 0 ] != 0xEE; }
    static bluetoe::details::ecdh_public_key_t  PKB() { bluetoe::details::ecdh_public_key_t r;  for ( std::size_t i = 0; i != r.size(); ++i ) r[ i ] = std::uint8_t( 0x40 + i ); return r; }
    static bluetoe::details::ecdh_private_key_t SKB() { bluetoe::details::ecdh_private_key_t r; for ( std::size_t i = 0; i != r.size(); ++i ) r[ i ] = std::uint8_t( 0xD0 + i ); return r; }
    static std::pair< bluetoe::details::ecdh_public_key_t, bluetoe::details::ecdh_private_key_t > generate_keys() { return { PKB(), SKB() }; }
    static u128 select_random_nonce() { return NB(); }
    static bluetoe::details::ecdh_shared_secret_t p256( const std::uint8_t* priv, const std::uint8_t* pub )
    {
        const u128 a = H( 3 ).add( priv, 32 ).add( pub, 64 ).out(), b = H( 4 ).add( priv, 32 ).add( pub, 64 ).out();
        bluetoe::details::ecdh_shared_secret_t r; std::copy( a.begin(), a.end(), r.begin() ); std::copy( b.begin(), b.end(), r.begin() + 16 ); return r;
    }
    static u128 f4( const std::uint8_t* u, const std::uint8_t* v, const u128& k, std::uint8_t z ) { return H( 5 ).add( u, 32 ).add( v, 32 ).add( k ).add( z ).out(); }
    static std::pair< u128, u128 > f5( const bluetoe::details::ecdh_shared_secret_t dh, const u128& nc, const u128& np, const device_address& ac, const device_address& ap )
    {
        return { H( 6 ).add( dh.data(), 32 ).add( nc ).add( np ).add( ac ).add( ap ).out(), H( 7 ).add( dh.data(), 32 ).add( nc ).add( np ).add( ac ).add( ap ).out() };
    }
    static u128 f6( const u128& key, const u128& n1, const u128& n2, const u128& r, const bluetoe::details::io_capabilities_t& io, const device_address& a1, const device_address& a2 )
    {
        return H( 8 ).add( key ).add( n1 ).add( n2 ).add( r ).add( io.data(), 3 ).add( a1 ).add( a2 ).out();
    }
    static std::uint32_t g2( const std::uint8_t* u, const std::uint8_t* v, const u128& x, const u128& y )
    {
        const u128 a = H( 9 ).add( u, 32 ).add( v, 32 ).add( x ).add( y ).out();
        return ( std::uint32_t( a[ 0 ] ) | std::uint32_t( a[ 1 ] ) << 8 | std::uint32_t( a[ 2 ] ) << 16 ) % 1000000u;
    }
};

// ------------------------------------------------------------------------------------------------------------------
// scripted IO capabilities / OOB callback (one global object, part of the state)
struct io_script
{
    bluetoe::pairing_yes_no_response* pending;   // the question the application still holds
    std::int32_t  displayed;                     // value shown during the current step, -1 = nothing
    std::uint8_t  asked_yes_no, asked_passkey, asked_oob;   // during the current step
    std::uint8_t  oob_present;                   // configuration: application has OOB data for the peer

    void reset() { pending = nullptr; displayed = -1; asked_yes_no = asked_passkey = asked_oob = 0; oob_present = 0; }
    void step_begin() { displayed = -1; asked_yes_no = asked_passkey = asked_oob = 0; }

    void sm_pairing_yes_no( bluetoe::pairing_yes_no_response& r ) { pending = &r; asked_yes_no = 1; }
    void sm_pairing_numeric_output( int v ) { displayed = v; }
    int  sm_pairing_passkey() { asked_passkey = 1; return int( PASSKEY_KEYBOARD ); }
    std::pair< bool, bluetoe::oob_authentication_data_t > sm_oob_authentication_data( const device_address& )
    {
        asked_oob = 1;
        return { oob_present != 0, OOBDATA() };
    }
};
inline io_script g_io;

// bonding data base: one entry that exists before the connection ( configuration events ) and one for the bond made on this
// connection; a new bond with the same identification ( peer, EDIV, Rand ) replaces the old entry
struct bond_db
{
    struct entry
    {
        std::uint8_t has; std::uint8_t key[ 16 ]; std::uint16_t ediv; std::uint64_t rand; std::uint8_t mac[ 7 ];
        void put( const u128& k, std::uint16_t e, std::uint64_t r, const device_address& a )
        {
            has = 1; std::copy( k.begin(), k.end(), key ); ediv = e; rand = r; std::copy( a.begin(), a.end(), mac ); mac[ 6 ] = a.is_random() ? 1 : 0;
        }
        bool same_mac( const device_address& a ) const { return std::equal( a.begin(), a.end(), mac ) && mac[ 6 ] == ( a.is_random() ? 1 : 0 ); }
        bool is( std::uint16_t e, std::uint64_t r, const device_address& a ) const { return has && e == ediv && r == rand && same_mac( a ); }
    };
    entry earlier, made, last;        // last: what store_bond() was called with during the current step
    std::uint8_t  created, stored;    // during the current step

    void reset() { std::memset( this, 0, sizeof *this ); }
    void step_begin() { created = stored = 0; std::memset( &last, 0, sizeof last ); }
    bool any() const { return earlier.has || made.has; }
    const entry& pick() const { return made.has ? made : earlier; }

    template < class Radio >
    bluetoe::details::longterm_key_t create_new_bond( Radio& radio, const device_address& ) { created = 1; return radio.create_long_term_key(); }
    template < class Connection >
    void store_bond( const bluetoe::details::longterm_key_t& k, const Connection& c )
    {
        stored = 1;
        last.put( k.longterm_key, k.ediv, k.rand, c.remote_address() );
        if ( earlier.is( k.ediv, k.rand, c.remote_address() ) ) earlier = last; else made = last;
    }
    std::pair< bool, u128 > find_key( std::uint16_t e, std::uint64_t r, const device_address& a ) const
    {
        for ( const entry* x : { &made, &earlier } )
            if ( x->is( e, r, a ) ) { u128 k; std::copy( x->key, x->key + 16, k.begin() ); return { true, k }; }
        return { false, u128{} };
    }
    template < class Connection > void restore_cccds( Connection& ) {}
};
inline bond_db g_db;

// ------------------------------------------------------------------------------------------------------------------
// configuration -> real security manager type
struct nop_option_a { struct meta_type {}; };
struct nop_option_b { struct meta_type {}; };
struct nop_option_c { struct meta_type {}; };

template < int V > struct manager_of;
template <> struct manager_of< SMV_LEGACY >   { using type = bluetoe::legacy_security_manager; };
template <> struct manager_of< SMV_LESC >     { using type = bluetoe::lesc_security_manager; };
template <> struct manager_of< SMV_COMBINED > { using type = bluetoe::security_manager; };
template <> struct manager_of< SMV_NONE >     { using type = bluetoe::no_security_manager; };

// IN: 0 no input, 1 yes/no, 2 keyboard;  OUT: 0 none, 1 numeric output
template < int SMV_, int IN_, int OUT_, int OOB_, int BOND_, int MITM_ >
struct config
{
    static constexpr int smv = SMV_, in = IN_, out = OUT_, oob = OOB_, bond = BOND_, mitm = MITM_;
    using in_opt   = std::conditional_t< IN_ == 1, bluetoe::pairing_yes_no< io_script, g_io >,
                     std::conditional_t< IN_ == 2, bluetoe::pairing_keyboard< io_script, g_io >, bluetoe::pairing_no_input > >;
    using out_opt  = std::conditional_t< OUT_ == 1, bluetoe::pairing_numeric_output< io_script, g_io >, bluetoe::pairing_no_output >;
    using oob_opt  = std::conditional_t< OOB_ != 0, bluetoe::oob_authentication_callback< io_script, g_io >, nop_option_a >;
    using bond_opt = std::conditional_t< BOND_ != 0, bluetoe::bonding_data_base< bond_db, g_db >, nop_option_b >;
    using mitm_opt = std::conditional_t< MITM_ != 0, bluetoe::require_man_in_the_middle_protection, nop_option_c >;
    using manager  = typename manager_of< SMV_ >::type;
};

template < class C >
struct sm_type : C::manager::template impl< sm_type< C >, typename C::in_opt, typename C::out_opt, typename C::oob_opt, typename C::bond_opt, typename C::mitm_opt >, toolbox
{
    using impl_t = typename C::manager::template impl< sm_type< C >, typename C::in_opt, typename C::out_opt, typename C::oob_opt, typename C::bond_opt, typename C::mitm_opt >;
    using cd_t   = typename impl_t::template channel_data_t< bluetoe::details::link_state >;
};

// ------------------------------------------------------------------------------------------------------------------
// events
enum Kind : std::uint8_t { K_PDU, K_POLL, K_USER_YES, K_USER_NO, K_ENC_ON_PAIRING_KEY, K_ENC_ON_BOND_KEY, K_ENC_OFF,
                           K_CFG_OOB_PRESENT, K_CFG_DB_SAME_PEER, K_CFG_DB_OTHER_PEER, K_CFG_DB_LESC_SAME_PEER,
                           K_PREFIX_NC_EA_VERIFIED_ABORTED, K_PREFIX_NC_EA_VERIFIED_DECLINED, K_PREFIX_LEGACY_COMPLETED, K_PREFIX_LESC_COMPLETED,
                           K_PREFIX_LEGACY_PASSKEY_COMPLETED, K_PREFIX_NC_COMPLETED };

// variants of the PDUs
enum { RQ_LEG_NOIO, RQ_LEG_KBDISP, RQ_LEG_OOB, RQ_LESC_NOIO, RQ_LESC_KBDISP, RQ_LESC_KBONLY, RQ_LESC_OOB,
       RQ_SHORT, RQ_LONG, RQ_IO5, RQ_OOB2, RQ_KEY6, RQ_KEY17, RQ_IKD_F0, RQ_RKD_F0 };
enum { CF_TK0, CF_TK_DISP, CF_TK_KB, CF_TK_OOB, CF_TK_KB_MOD, CF_TK_KB_UPPER, CF_TK_DISP_MOD, CF_TK_LAST = CF_TK_DISP_MOD,      // 0..6 = index of the temporary key
       CF_BAD, CF_BAD_FIRST, CF_BAD_MIDDLE, CF_BAD_LAST, CF_BAD_ALL_BUT_LAST, CF_SHORT, CF_LONG };       // near misses are derived from the value for tk0
enum { RN_A, RN_B, RN_SHORT, RN_LONG };
enum { PK_VALID, PK_INVALID, PK_SHORT, PK_LONG };
enum { DH_OK, DH_BAD, DH_BAD_FIRST, DH_BAD_MIDDLE, DH_BAD_ALL_BUT_LAST, DH_SHORT, DH_LONG };   // DH_BAD: last octet wrong

struct Ev { Kind kind; std::uint8_t op; std::uint8_t var; std::string name; };

// reference
enum Phase : std::uint8_t { IDLE, LEG_REQ, LEG_CONF, LESC_REQ, LESC_PK, LESC_CONF_SENT, LESC_RAND, DONE };
static const char* const phase_name[] = { "idle", "legacy-requested", "legacy-confirmed", "lesc-requested", "lesc-keys-exchanged", "lesc-confirm-sent", "lesc-random-exchanged", "completed" };
enum : std::uint8_t { ST_NO_KEY, ST_UNAUTH, ST_AUTH };
static const char* const st_name[] = { "no_key", "unauthenticated_key", "authenticated_key" };
enum : std::uint8_t { U_NONE, U_WAITING, U_YES, U_NO };
enum : std::uint8_t { EA_NONE, EA_OK, EA_BAD, EA_AMBIGUOUS };
enum : std::uint8_t { HOW_NONE, HOW_LEG_TK0, HOW_LEG_PASSKEY, HOW_LEG_OOB, HOW_LEG_WRONG_PASSKEY, HOW_LESC_NO_USER, HOW_LESC_NUMCMP };

struct Ref
{
    std::uint8_t phase, fresh;
    std::uint8_t pairings;         // pairings started on this connection, saturates at 2
    std::uint8_t preq[ 7 ], pres[ 7 ];
    std::uint8_t conf_tk;          // temporary key the central built its last confirm value with, 0xff = garbage
    std::uint8_t tk_sm;            // temporary key the peripheral committed to in Sconfirm
    std::uint8_t na[ 16 ];
    std::uint8_t user, asked, ea;
    std::uint8_t done, key[ 16 ], status, how;
    std::uint8_t encrypted, enc_with_pairing_key, enc_status;
    std::uint8_t kd_ever, kd_enc, kd_id;   // key distribution budget of the last completed pairing
};

inline int status_class( bluetoe::device_pairing_status s )
{
    switch ( s ) { case bluetoe::device_pairing_status::no_key: return ST_NO_KEY; case bluetoe::device_pairing_status::unauthenticated_key: return ST_UNAUTH; default: return ST_AUTH; }
}

// ------------------------------------------------------------------------------------------------------------------
template < class C, int ORACLE_ >
struct World
{
    using sm_t = sm_type< C >;
    using cd_t = typename sm_t::cd_t;
    static constexpr std::size_t MTU = C::smv == SMV_LEGACY ? 23 : 65;
    static constexpr bool has_sm = C::smv != SMV_NONE;

    mc::Placed< sm_t > sm;
    mc::Placed< cd_t > cd;
    Ref ref;
    std::vector< Ev > evs;

    // ----- event alphabet
    void pdu( std::uint8_t op, std::uint8_t var, const std::string& n ) { evs.push_back( Ev{ K_PDU, op, var, mc::fmt( "in %02x ", op ) + n } ); }
    void other( Kind k, const std::string& n ) { evs.push_back( Ev{ k, 0, 0, n } ); }

    World()
    {
        constexpr int V = C::smv;
        const bool legacy = V == SMV_LEGACY || V == SMV_COMBINED, lesc = V == SMV_LESC || V == SMV_COMBINED;
        // Pairing Request
        pdu( 1, RQ_LEG_NOIO, "pairing_request legacy io=NoInputNoOutput" );
        if ( legacy || V == SMV_NONE ) pdu( 1, RQ_LEG_KBDISP, "pairing_request legacy io=KeyboardDisplay mitm" );
        if ( legacy && C::oob ) pdu( 1, RQ_LEG_OOB, "pairing_request legacy oob-flag" );
        pdu( 1, RQ_LESC_NOIO, "pairing_request lesc io=NoInputNoOutput" );
        if ( lesc )
        {
            pdu( 1, RQ_LESC_KBDISP, "pairing_request lesc io=KeyboardDisplay mitm" );
            pdu( 1, RQ_LESC_KBONLY, "pairing_request lesc io=KeyboardOnly mitm" );
            pdu( 1, RQ_LESC_OOB, "pairing_request lesc oob-flag" );
        }
        pdu( 1, RQ_SHORT, "pairing_request length-1" );         pdu( 1, RQ_LONG, "pairing_request length+1" );
        pdu( 1, RQ_IO5, "pairing_request io-capability=5" );     pdu( 1, RQ_OOB2, "pairing_request oob-flag=2" );
        pdu( 1, RQ_KEY6, "pairing_request max-key-size=6" );     pdu( 1, RQ_KEY17, "pairing_request max-key-size=17" );
        pdu( 1, RQ_IKD_F0, "pairing_request initiator-key-distribution=0xf0" );
        pdu( 1, RQ_RKD_F0, "pairing_request responder-key-distribution=0xf0" );
        // Pairing Confirm
        pdu( 3, CF_TK0, "pairing_confirm correct-for-tk0" );
        if ( legacy )
        {
            if ( C::out == 1 ) pdu( 3, CF_TK_DISP, "pairing_confirm correct-for-displayed-passkey" );
            if ( C::in == 2 )  pdu( 3, CF_TK_KB, "pairing_confirm correct-for-typed-passkey" );
            if ( C::oob )      pdu( 3, CF_TK_OOB, "pairing_confirm correct-for-oob-data" );
            if ( C::in == 2 )  { pdu( 3, CF_TK_KB_MOD, "pairing_confirm correct-for-typed-passkey-mod-65536" ); pdu( 3, CF_TK_KB_UPPER, "pairing_confirm correct-for-typed-passkey-with-upper-half-changed" ); }
            if ( C::out == 1 ) pdu( 3, CF_TK_DISP_MOD, "pairing_confirm correct-for-displayed-passkey-mod-65536" );
            pdu( 3, CF_BAD, "pairing_confirm wrong-value" );
            pdu( 3, CF_BAD_FIRST, "pairing_confirm tk0-value-with-first-octet-wrong" );   pdu( 3, CF_BAD_MIDDLE, "pairing_confirm tk0-value-with-middle-octet-wrong" );
            pdu( 3, CF_BAD_LAST, "pairing_confirm tk0-value-with-last-octet-wrong" );     pdu( 3, CF_BAD_ALL_BUT_LAST, "pairing_confirm tk0-value-with-all-but-last-octet-wrong" );
            pdu( 3, CF_SHORT, "pairing_confirm length-1" );  pdu( 3, CF_LONG, "pairing_confirm length+1" );
        }
        // Pairing Random
        pdu( 4, RN_A, "pairing_random value-A" );
        if ( has_sm ) { pdu( 4, RN_B, "pairing_random value-B" ); pdu( 4, RN_SHORT, "pairing_random length-1" ); pdu( 4, RN_LONG, "pairing_random length+1" ); }
        // Public key, DHKey check
        pdu( 0x0c, PK_VALID, "pairing_public_key valid" );
        pdu( 0x0d, DH_OK, "pairing_dhkey_check correct" );
        if ( lesc )
        {
            pdu( 0x0c, PK_INVALID, "pairing_public_key not-on-curve" ); pdu( 0x0c, PK_SHORT, "pairing_public_key length-1" ); pdu( 0x0c, PK_LONG, "pairing_public_key length+1" );
            pdu( 0x0d, DH_BAD, "pairing_dhkey_check last-octet-wrong" ); pdu( 0x0d, DH_BAD_FIRST, "pairing_dhkey_check first-octet-wrong" );
            pdu( 0x0d, DH_BAD_MIDDLE, "pairing_dhkey_check middle-octet-wrong" ); pdu( 0x0d, DH_BAD_ALL_BUT_LAST, "pairing_dhkey_check all-but-last-octet-wrong" );
            pdu( 0x0d, DH_SHORT, "pairing_dhkey_check length-1" ); pdu( 0x0d, DH_LONG, "pairing_dhkey_check length+1" );
        }
        // everything else
        static const struct { std::uint8_t op; const char* n; } rest[] = {
            { 0x00, "reserved-00" }, { 0x02, "pairing_response" }, { 0x05, "pairing_failed" }, { 0x06, "encryption_information" },
            { 0x07, "central_identification" }, { 0x08, "identity_information" }, { 0x09, "identity_address_information" },
            { 0x0a, "signing_information" }, { 0x0b, "security_request" }, { 0x0e, "keypress_notification" }, { 0x0f, "reserved-0f" }, { 0xff, "empty-pdu" } };
        for ( auto& r : rest ) pdu( r.op, 0, r.n );

        other( K_POLL, "poll l2cap_output" );
        if ( has_sm )
        {
            if ( C::in == 1 ) { other( K_USER_YES, "user answers yes" ); other( K_USER_NO, "user answers no" ); }
            other( K_ENC_ON_PAIRING_KEY, "link layer starts encryption with find_key(0,0)" );
            if ( C::bond ) other( K_ENC_ON_BOND_KEY, "link layer starts encryption with find_key(ediv,rand of the stored bond)" );
            other( K_ENC_OFF, "link layer pauses encryption" );
            if ( C::oob ) other( K_CFG_OOB_PRESENT, "config: application has OOB data for the peer" );
            if ( C::bond )
            {
                other( K_CFG_DB_SAME_PEER, "config: bond DB holds a legacy bond of this peer" );
                other( K_CFG_DB_OTHER_PEER, "config: bond DB holds a bond of another peer" );
                other( K_CFG_DB_LESC_SAME_PEER, "config: bond DB holds a LESC bond (ediv=rand=0) of this peer" );
            }
            // scripted prefixes: additional start states "after an earlier pairing on this connection"; every step of a prefix
            // runs through the same real calls and the same oracles as a single event
            if ( lesc && C::in == 1 && C::out == 1 )
            {
                other( K_PREFIX_NC_EA_VERIFIED_ABORTED,  "prefix: numeric comparison pairing, correct DHKey check arrives while the user is asked, central aborts with Pairing Failed" );
                other( K_PREFIX_NC_EA_VERIFIED_DECLINED, "prefix: numeric comparison pairing, correct DHKey check arrives while the user is asked, user answers no, poll" );
            }
            if ( legacy ) other( K_PREFIX_LEGACY_COMPLETED, "prefix: completed legacy just works pairing" );
            if ( lesc )   other( K_PREFIX_LESC_COMPLETED, "prefix: completed LESC pairing without user interaction" );
            // ... and after an *authenticated* pairing
            if ( legacy && C::out == 1 && C::in != 2 ) other( K_PREFIX_LEGACY_PASSKEY_COMPLETED, "prefix: completed legacy passkey entry pairing (passkey displayed)" );
            if ( lesc && C::in == 1 && C::out == 1 )   other( K_PREFIX_NC_COMPLETED, "prefix: completed numeric comparison pairing, confirmed by the user" );
        }
    }

    int num_events() const { return int( evs.size() ); }
    std::string describe( int ev ) const { return evs[ ev ].name; }

    void init()
    {
        g_io.reset(); g_db.reset();
        sm.construct();
        cd.construct();
        init_cd( 0 );
        std::memset( &ref, 0, sizeof ref );
        ref.fresh = 1; ref.conf_tk = ref.tk_sm = 0xff;
    }
    template < class X = cd_t > auto init_cd( int ) -> decltype( std::declval< X& >().remote_connection_created( REMOTE() ), void() ) { cd->remote_connection_created( REMOTE() ); }
    void init_cd( long ) {}

    void regions( mc::Regions& r ) { r.add( sm.raw, sizeof sm.raw ); r.add( cd.raw, sizeof cd.raw ); r.add( g_io ); r.add( g_db ); r.add( ref ); }

    // ----- failure routing: every oracle prunes, only the selected one reports
    std::uint8_t failed_mask;
    bool completed_this_step;
    void fail( mc::Ctx& c, int oracle, const std::string& sig, const std::string& detail )
    {
        failed_mask |= std::uint8_t( 1u << ( oracle - 32 ) );
        if ( ORACLE_ == 0 || oracle == ORACLE_ ) c.fail( sig, detail );
        else if ( oracle == 32 ) c.prune = true;             // only a protocol failure puts reference and implementation out of step;
                                                             // the other oracles are pure observations   // ORACLE=0: development build, report all
    }
    // a protocol failure after which the reference is still in step ( the reference simply ignores the event ): reported by C32,
    // the other builds keep exploring so that their oracles can judge what the implementation does next
    void fail_in_step( mc::Ctx& c, const std::string& sig, const std::string& detail )
    {
        failed_mask |= 1u;
        if ( ORACLE_ == 0 || ORACLE_ == 32 ) c.fail( sig, detail );
    }
    bool failed( int oracle ) const { return ( failed_mask >> ( oracle - 32 ) ) & 1; }

    // ----- reference central: values
    u128 ref_p1() const
    {
        u128 r{}; r[ 0 ] = REMOTE().is_random() ? 1 : 0; r[ 1 ] = LOCAL().is_random() ? 1 : 0;
        std::copy( ref.preq, ref.preq + 7, &r[ 2 ] ); std::copy( ref.pres, ref.pres + 7, &r[ 9 ] ); return r;
    }
    static u128 ref_p2()
    {
        u128 r{}; const device_address l = LOCAL(), m = REMOTE();
        std::copy( l.begin(), l.end(), r.begin() ); std::copy( m.begin(), m.end(), r.begin() + 6 ); return r;
    }
    static bluetoe::details::ecdh_public_key_t PKA() { bluetoe::details::ecdh_public_key_t r; for ( std::size_t i = 0; i != r.size(); ++i ) r[ i ] = std::uint8_t( 0x01 + i ); return r; }
    u128 ref_na() const { u128 r; std::copy( ref.na, ref.na + 16, r.begin() ); return r; }
    void lesc_keys( u128& mac, u128& ltk ) const
    {
        const auto pka = PKA(); const auto skb = toolbox::SKB();
        const auto dh = toolbox::p256( skb.data(), pka.data() );
        std::tie( mac, ltk ) = toolbox::f5( dh, ref_na(), NB(), REMOTE(), LOCAL() );
    }
    u128 ref_ea() const
    {
        u128 mac, ltk; lesc_keys( mac, ltk );
        const bluetoe::details::io_capabilities_t ioa = {{ ref.preq[ 1 ], ref.preq[ 2 ], ref.preq[ 3 ] }};
        return toolbox::f6( mac, ref_na(), NB(), u128{}, ioa, REMOTE(), LOCAL() );
    }
    u128 ref_eb() const
    {
        u128 mac, ltk; lesc_keys( mac, ltk );
        const bluetoe::details::io_capabilities_t iob = {{ ref.pres[ 1 ], ref.pres[ 2 ], ref.pres[ 3 ] }};
        return toolbox::f6( mac, NB(), ref_na(), u128{}, iob, LOCAL(), REMOTE() );
    }
    u128 ref_cb() const { const auto pka = PKA(); const auto pkb = toolbox::PKB(); return toolbox::f4( pkb.data(), pka.data(), NB(), 0 ); }

    // ----- PDU construction
    std::size_t build( const Ev& e, std::uint8_t* b ) const
    {
        std::memset( b, 0, 80 );
        if ( e.op == 0xff ) return 0;
        b[ 0 ] = e.op;
        switch ( e.op )
        {
        case 1: {
            static const std::uint8_t base[][ 6 ] = {
                { 3, 0, 0x00, 16, 7, 7 }, { 4, 0, 0x05, 16, 7, 7 }, { 3, 1, 0x00, 16, 7, 7 },
                { 3, 0, 0x08, 16, 7, 7 }, { 4, 0, 0x0d, 16, 7, 7 }, { 2, 0, 0x0c, 16, 7, 7 }, { 3, 1, 0x08, 16, 7, 7 } };
            const int dflt = C::smv == SMV_LEGACY ? RQ_LEG_NOIO : RQ_LESC_NOIO;
            std::memcpy( b + 1, base[ e.var <= RQ_LESC_OOB ? e.var : dflt ], 6 );
            switch ( e.var )
            {
            case RQ_SHORT: return 6;  case RQ_LONG: return 8;
            case RQ_IO5: b[ 1 ] = 5; break;     case RQ_OOB2: b[ 2 ] = 2; break;
            case RQ_KEY6: b[ 4 ] = 6; break;    case RQ_KEY17: b[ 4 ] = 17; break;
            case RQ_IKD_F0: b[ 5 ] = 0xf0; break; case RQ_RKD_F0: b[ 6 ] = 0xf0; break;
            }
            return 7; }
        case 3: {
            u128 v = pat( 0xE0 );
            if ( e.var != CF_BAD ) v = toolbox::c1( tk_of( e.var <= CF_TK_LAST ? e.var : 0 ), MRAND_A(), ref_p1(), ref_p2() );
            switch ( e.var )
            {
            case CF_BAD_FIRST: v[ 0 ] ^= 0x80; break;  case CF_BAD_MIDDLE: v[ 7 ] ^= 0x01; break;  case CF_BAD_LAST: v[ 15 ] ^= 0x01; break;
            case CF_BAD_ALL_BUT_LAST: for ( int i = 0; i != 15; ++i ) v[ i ] = std::uint8_t( ~v[ i ] ); break;
            }
            std::copy( v.begin(), v.end(), b + 1 );
            return e.var == CF_SHORT ? 16 : e.var == CF_LONG ? 18 : 17; }
        case 4: {
            const u128 v = e.var == RN_B ? MRAND_B() : MRAND_A();
            std::copy( v.begin(), v.end(), b + 1 );
            return e.var == RN_SHORT ? 16 : e.var == RN_LONG ? 18 : 17; }
        case 0x0c: {
            const auto k = PKA(); std::copy( k.begin(), k.end(), b + 1 );
            if ( e.var == PK_INVALID ) b[ 1 ] = 0xEE;
            return e.var == PK_SHORT ? 64 : e.var == PK_LONG ? 66 : 65; }
        case 0x0d: {
            u128 v = ref_ea();
            switch ( e.var )
            {
            case DH_BAD: v[ 15 ] ^= 0x01; break;  case DH_BAD_FIRST: v[ 0 ] ^= 0x80; break;  case DH_BAD_MIDDLE: v[ 8 ] ^= 0x10; break;
            case DH_BAD_ALL_BUT_LAST: for ( int i = 0; i != 15; ++i ) v[ i ] = std::uint8_t( ~v[ i ] ); break;
            }
            std::copy( v.begin(), v.end(), b + 1 );
            return e.var == DH_SHORT ? 16 : e.var == DH_LONG ? 18 : 17; }
        case 0x02: return 7;
        case 0x05: b[ 1 ] = 0x08; return 2;
        case 0x06: case 0x08: case 0x0a: return 17;
        case 0x07: return 11;
        case 0x09: return 8;
        case 0x0b: case 0x0e: return 2;
        default: return 1;
        }
    }

    // ----- reference transitions
    void ref_to_idle()
    {
        ref.phase = IDLE; ref.user = U_NONE; ref.asked = 0; ref.ea = EA_NONE; ref.done = 0; ref.status = ST_NO_KEY; ref.how = HOW_NONE;
        ref.conf_tk = ref.tk_sm = 0xff;
        std::memset( ref.preq, 0, 7 ); std::memset( ref.pres, 0, 7 ); std::memset( ref.na, 0, 16 ); std::memset( ref.key, 0, 16 );
    }
    void ref_completed( const u128& key, std::uint8_t status, std::uint8_t how )
    {
        ref.phase = DONE; ref.done = 1; std::copy( key.begin(), key.end(), ref.key ); ref.status = status; ref.how = how;
        ref.kd_ever = 1; ref.kd_enc = 1; ref.kd_id = 1;
        completed_this_step = true;
    }

    static const char* pdu_name( std::uint8_t op )
    {
        switch ( op ) { case 1: return "pairing-request"; case 3: return "pairing-confirm"; case 4: return "pairing-random"; case 0x0c: return "public-key";
                        case 0x0d: return "dhkey-check"; case 0xff: return "empty-pdu"; default: return "other-opcode"; }
    }

    // C34: every Encryption Information / Central Identification that leaves the security manager
    void keydist_oracle( const std::uint8_t* out, std::size_t on, mc::Ctx& c )
    {
        const bool enc = out[ 0 ] == 6;
        const char* what = enc ? "encryption-information" : "central-identification";
        std::uint8_t& budget = enc ? ref.kd_enc : ref.kd_id;
        if ( !cd_encrypted() )
            return fail( c, 34, std::string( "keydist:sent-over-unencrypted-link:" ) + what, "key material left the security manager while the link is not encrypted: " + mc::hex( out, on ) );
        if ( !ref.kd_ever )
            return fail( c, 34, std::string( "keydist:sent-without-completed-pairing:" ) + what, "key material sent although no pairing completed on this connection: " + mc::hex( out, on ) );
        if ( !budget )
            return fail( c, 34, std::string( "keydist:sent-twice:" ) + what, "item distributed a second time for the same pairing: " + mc::hex( out, on ) );
        budget = 0;
        bool good = false;
        if ( enc ) { const u128 k = NEWLTK(); good = on == 17 && std::equal( k.begin(), k.end(), out + 1 ); }
        else { std::uint8_t e[ 10 ]; bluetoe::details::write_16bit( e, NEW_EDIV ); bluetoe::details::write_64bit( e + 2, NEW_RAND ); good = on == 11 && std::equal( e, e + 10, out + 1 ); }
        if ( !good )
            return fail( c, 34, std::string( "keydist:wrong-content:" ) + what, "distributed item does not carry the bond that was created: " + mc::hex( out, on ) );
        c.cls( std::string( "keydist:sent:" ) + what + ( ref.done ? ":pairing-still-completed" : ":after-pairing-state-left" ) );
    }

    bool cd_encrypted() { return cd_encrypted_impl( 0 ); }
    template < class X = cd_t > auto cd_encrypted_impl( int ) -> decltype( std::declval< X& >().is_encrypted() ) { return cd->is_encrypted(); }
    bool cd_encrypted_impl( long ) { return false; }

    // ----- one step
    int find_ev( Kind k, std::uint8_t op = 0, std::uint8_t var = 0 ) const
    {
        for ( std::size_t i = 0; i != evs.size(); ++i )
            if ( evs[ i ].kind == k && ( k != K_PDU || ( evs[ i ].op == op && evs[ i ].var == var ) ) ) return int( i );
        return -1;
    }

    bool apply( int i, mc::Ctx& c )
    {
        const Ev& e = evs[ i ];
        failed_mask = 0;
        if ( e.kind >= K_PREFIX_NC_EA_VERIFIED_ABORTED )
        {
            if ( !ref.fresh ) return false;
            std::vector< int > script;
            switch ( e.kind )
            {
            case K_PREFIX_NC_EA_VERIFIED_ABORTED: case K_PREFIX_NC_EA_VERIFIED_DECLINED:
                script = { find_ev( K_PDU, 1, RQ_LESC_KBDISP ), find_ev( K_PDU, 0x0c, PK_VALID ), find_ev( K_POLL ), find_ev( K_PDU, 4, RN_A ), find_ev( K_PDU, 0x0d, DH_OK ) };
                if ( e.kind == K_PREFIX_NC_EA_VERIFIED_ABORTED ) script.push_back( find_ev( K_PDU, 0x05, 0 ) );
                else { script.push_back( find_ev( K_USER_NO ) ); script.push_back( find_ev( K_POLL ) ); }
                break;
            case K_PREFIX_LEGACY_PASSKEY_COMPLETED:
                script = { find_ev( K_PDU, 1, RQ_LEG_KBDISP ), find_ev( K_PDU, 3, CF_TK_DISP ), find_ev( K_PDU, 4, RN_A ) };
                break;
            case K_PREFIX_NC_COMPLETED:
                script = { find_ev( K_PDU, 1, RQ_LESC_KBDISP ), find_ev( K_PDU, 0x0c, PK_VALID ), find_ev( K_POLL ), find_ev( K_PDU, 4, RN_A ), find_ev( K_USER_YES ), find_ev( K_PDU, 0x0d, DH_OK ) };
                break;
            case K_PREFIX_LEGACY_COMPLETED:
                script = { find_ev( K_PDU, 1, RQ_LEG_NOIO ), find_ev( K_PDU, 3, CF_TK0 ), find_ev( K_PDU, 4, RN_A ) };
                break;
            default:
                script = { find_ev( K_PDU, 1, RQ_LESC_NOIO ), find_ev( K_PDU, 0x0c, PK_VALID ), find_ev( K_POLL ), find_ev( K_PDU, 4, RN_A ), find_ev( K_PDU, 0x0d, DH_OK ) };
            }
            std::string obs;
            for ( int k : script )
            {
                if ( k < 0 || !step( evs[ k ], c ) ) { c.fail( "harness:prefix-not-executable", e.name ); return true; }
                obs += "[" + c.obs + "] ";
                if ( !c.fails.empty() || c.prune ) break;
            }
            c.obs = obs;
            return true;
        }
        return step( e, c );
    }

    bool step( const Ev& e, mc::Ctx& c )
    {
        completed_this_step = false;
        g_io.step_begin(); g_db.step_begin();
        bool enabled;
        if constexpr ( !has_sm ) enabled = apply_no_sm( e, c );
        else
        {
            enabled = apply_sm( e, c );
            if ( enabled ) after_step( e, c );
        }
        g_io.step_begin(); g_db.step_begin();
        if ( e.kind < K_CFG_OOB_PRESENT ) ref.fresh = 0;    // configuration events are only enabled before anything else happened
        return enabled;
    }

    // no_security_manager: everything is answered with Pairing Failed / Pairing Not Supported, nothing is ever offered
    bool apply_no_sm( const Ev& e, mc::Ctx& c )
    {
        std::uint8_t in[ 80 ], out[ 80 ]; std::size_t on = MTU;
        if ( e.kind == K_POLL )
        {
            sm->l2cap_output( out, on, cd.get() );
            c.obs = "-> " + mc::hex( out, on );
            if ( on != 0 ) fail( c, 32, "order:unexpected-output:poll", "no_security_manager produced output: " + mc::hex( out, on ) );
            c.cls( "nosm:poll-silent" );
        }
        else
        {
            const std::size_t n = build( e, in );
            sm->l2cap_input( in, n, out, on, cd.get() );
            c.obs = mc::hex( in, n ) + " -> " + mc::hex( out, on );
            if ( !( on == 2 && out[ 0 ] == 5 ) ) fail( c, 32, std::string( "order:not-rejected:" ) + pdu_name( e.op ) + ":no-security-manager", c.obs );
            else c.cls( mc::fmt( "nosm:rejected-with-%02x", out[ 1 ] ) );
        }
        if ( status_class( cd->local_device_pairing_status() ) != ST_NO_KEY ) fail( c, 35, "status:key-without-completed-pairing", "no_security_manager reports a key" );
        return true;
    }

    bool apply_sm( const Ev& e, mc::Ctx& c )
    {
        std::uint8_t in[ 80 ], out[ 80 ]; std::size_t on = MTU;
        switch ( e.kind )
        {
        case K_PDU: {
            const std::size_t n = build( e, in );
            const auto before = cd->state();
            sm->l2cap_input( in, n, out, on, cd.get() );
            c.obs = mc::hex( in, n > 20 ? 20 : n ) + ( n > 20 ? ".." : "" ) + " -> " + mc::hex( out, on > 20 ? 20 : on ) + ( on > 20 ? ".." : "" );
            (void)before;
            on_pdu( e, in, n, out, on, c );
            return true; }
        case K_POLL:
            sm->l2cap_output( out, on, cd.get() );
            c.obs = "-> " + mc::hex( out, on > 20 ? 20 : on ) + ( on > 20 ? ".." : "" );
            on_poll( out, on, c );
            return true;
        case K_USER_YES: case K_USER_NO: {
            if ( !g_io.pending ) return false;
            const bool yes = e.kind == K_USER_YES;
            const auto before = cd->state();
            bluetoe::pairing_yes_no_response* r = g_io.pending; g_io.pending = nullptr;
            r->yes_no_response( yes );
            c.obs = mc::fmt( "state %d -> %d", int( before ), int( cd->state() ) );
            if ( ref.user == U_WAITING ) { ref.user = yes ? U_YES : U_NO; c.cls( yes ? "user:yes-while-waiting" : "user:no-while-waiting" ); }
            else
            {
                c.cls( "user:stale-answer" );
                if ( cd->state() != before )
                    fail_in_step( c, "order:stale-user-answer-changes-pairing-state:after-abort",
                          mc::fmt( "the question was asked in a pairing that has been aborted since (reference phase %s); the late answer moved the pairing state from %d to %d", phase_name[ ref.phase ], int( before ), int( cd->state() ) ) );
            }
            return true; }
        case K_ENC_ON_PAIRING_KEY: case K_ENC_ON_BOND_KEY: {
            if ( cd->is_encrypted() ) return false;
            if ( e.kind == K_ENC_ON_BOND_KEY && !g_db.any() ) return false;
            const std::uint16_t ediv = e.kind == K_ENC_ON_BOND_KEY ? g_db.pick().ediv : 0;
            const std::uint64_t rand = e.kind == K_ENC_ON_BOND_KEY ? g_db.pick().rand : 0;
            const auto k = cd->find_key( ediv, rand );
            if ( !k.first ) return false;                      // the link layer rejects LL_ENC_REQ: pin or key missing
            // link_layer.hpp: LL_START_ENC_RSP
            cd->is_encrypted( true );
            cd->pairing_status( cd->local_device_pairing_status() );
            ref.encrypted = 1;
            ref.enc_with_pairing_key = ref.done && ediv == 0 && rand == 0 && std::equal( k.second.begin(), k.second.end(), ref.key );
            ref.enc_status = ref.enc_with_pairing_key ? ref.status : ST_NO_KEY;
            c.obs = "encrypted with " + mc::hex( k.second.data(), 16 );
            c.cls( e.kind == K_ENC_ON_BOND_KEY ? "enc:on-with-bond-key" : "enc:on-with-pairing-key" );
            if ( ref.enc_with_pairing_key && !failed( 32 ) && status_class( cd->pairing_status() ) != ref.status )
                status_mismatch( c, status_class( cd->pairing_status() ), "link_state::pairing_status() after encryption start" );
            return true; }
        case K_ENC_OFF:
            if ( !cd->is_encrypted() ) return false;
            cd->is_encrypted( false );
            cd->pairing_status( cd->local_device_pairing_status() );
            ref.encrypted = 0; ref.enc_with_pairing_key = 0; ref.enc_status = ST_NO_KEY;
            c.cls( "enc:off" );
            return true;
        case K_CFG_OOB_PRESENT:
            if ( !ref.fresh ) return false;
            g_io.oob_present = 1;
            return true;
        case K_CFG_DB_SAME_PEER: case K_CFG_DB_OTHER_PEER: case K_CFG_DB_LESC_SAME_PEER:
            if ( !ref.fresh ) return false;
            if ( e.kind == K_CFG_DB_LESC_SAME_PEER ) g_db.earlier.put( OLDKEY(), 0, 0, REMOTE() );
            else g_db.earlier.put( OLDKEY(), OLD_EDIV, OLD_RAND, e.kind == K_CFG_DB_SAME_PEER ? REMOTE() : OTHER() );
            return true;
        }
        return false;
    }

    // ---------------------------------------------------------------------------------------------------------------
    // C32: acceptance automaton
    enum Exp { MUST_REJECT, MUST_ACCEPT, EITHER, MUST_DEFER, DEFER_OR_REJECT };

    void on_pdu( const Ev& e, const std::uint8_t* in, std::size_t n, const std::uint8_t* out, std::size_t on, mc::Ctx& c )
    {
        constexpr int V = C::smv;
        const bool rejected = on == 2 && out[ 0 ] == 5, silent = on == 0;
        if ( !silent && ( out[ 0 ] == 6 || out[ 0 ] == 7 ) ) keydist_oracle( out, on, c );

        Exp exp = MUST_REJECT;
        const char* cls = "out-of-order";
        const char* sub = "";
        bool conf_match = false;
        switch ( e.op )
        {
        case 1:
            if ( e.var == RQ_SHORT || e.var == RQ_LONG ) { cls = "bad-length"; break; }
            if ( e.var > RQ_LESC_OOB ) { cls = "invalid-parameter"; break; }
            if ( V == SMV_LESC && !( in[ 3 ] & 0x08 ) ) { cls = "legacy-request-to-lesc-only-manager"; break; }
            if ( ref.phase == IDLE ) exp = MUST_ACCEPT;
            else if ( ref.phase == DONE ) exp = EITHER;      // re-pairing after a completed pairing: the statement is silent
            break;
        case 3:
            if ( e.var == CF_SHORT || e.var == CF_LONG ) { cls = "bad-length"; break; }
            if ( V != SMV_LESC && ref.phase == LEG_REQ ) exp = MUST_ACCEPT;
            break;
        case 4:
            if ( e.var == RN_SHORT || e.var == RN_LONG ) { cls = "bad-length"; break; }
            if ( ref.phase == LEG_CONF )
            {
                conf_match = ref.conf_tk != 0xff && e.var == RN_A && ref.tk_sm == ref.conf_tk;
                if ( conf_match ) exp = MUST_ACCEPT;
                else { cls = "confirm-mismatch"; sub = ref.conf_tk == 0xff ? ":confirm-value-garbage" : e.var != RN_A ? ":random-does-not-open-confirm" : ":confirm-built-with-other-temporary-key"; }
            }
            else if ( ref.phase == LESC_CONF_SENT ) exp = MUST_ACCEPT;
            break;
        case 0x0c:
            if ( e.var == PK_SHORT || e.var == PK_LONG ) { cls = "bad-length"; break; }
            if ( ref.phase == LESC_REQ ) { if ( e.var == PK_VALID ) exp = MUST_ACCEPT; else cls = "invalid-public-key"; }
            break;
        case 0x0d:
            if ( e.var == DH_SHORT || e.var == DH_LONG ) { cls = "bad-length"; break; }
            if ( ref.phase == LESC_RAND )
            {
                const bool ok = e.var == DH_OK;
                if ( ref.user == U_NONE || ref.user == U_YES ) { if ( ok ) exp = MUST_ACCEPT; else cls = "wrong-dhkey-check"; }
                else if ( ref.user == U_WAITING ) exp = ok ? MUST_DEFER : DEFER_OR_REJECT;
                else cls = "user-declined";
            }
            break;
        default:
            cls = e.op == 0xff ? "empty" : "unsupported-opcode";
        }

        const std::string pdu = pdu_name( e.op );
        const std::string where = mc::fmt( " (reference phase %s, %s)", phase_name[ ref.phase ], c.obs.c_str() );

        if ( exp == EITHER ) exp = rejected ? MUST_REJECT : MUST_ACCEPT;
        if ( exp == DEFER_OR_REJECT ) exp = rejected ? MUST_REJECT : MUST_DEFER;

        if ( exp == MUST_REJECT )
        {
            if ( !rejected )
            {
                if ( silent ) fail( c, 32, "order:no-pairing-failed:" + pdu + ":" + cls, "PDU must be answered with Pairing Failed but there is no answer" + where );
                else          fail( c, 32, "order:not-rejected:" + pdu + ":" + cls, "PDU must be answered with Pairing Failed but was accepted" + where );
                return;
            }
            if ( cd->state() != bluetoe::details::sm_pairing_state::idle )
            {
                fail( c, 32, "order:state-not-idle-after-pairing-failed", mc::fmt( "Pairing Failed sent, pairing state is %d", int( cd->state() ) ) + where );
                ref_to_idle();      // the reference's pairing is over; the key and status oracles judge this step against idle
                return;
            }
            c.cls( mc::fmt( "rejected:%s:%s%s:in-%s:reason-%02x", pdu.c_str(), cls, sub, phase_name[ ref.phase ], out[ 1 ] ) );
            ref_to_idle();
            return;
        }
        if ( exp == MUST_DEFER )
        {
            if ( !silent ) { fail( c, 32, "order:dhkey-check-answered-before-user-confirmation", "DHKey check arrived while the user is asked; it must be held back" + where ); return; }
            const std::uint8_t now = e.var == DH_OK ? EA_OK : EA_BAD;
            ref.ea = ( ref.ea == EA_NONE || ref.ea == now ) ? now : EA_AMBIGUOUS;
            c.cls( mc::fmt( "deferred:dhkey-check-%s-while-waiting-for-user", e.var == DH_OK ? "correct" : "wrong" ) );
            return;
        }
        // MUST_ACCEPT
        if ( rejected || silent )
        {
            fail( c, 32, "order:valid-step-not-accepted:" + pdu, std::string( rejected ? "rejected" : "not answered" ) + " although it is the next step of the protocol" + where );
            return;
        }
        switch ( e.op )
        {
        case 1:
            if ( !( on == 7 && out[ 0 ] == 2 ) ) { fail( c, 32, "order:wrong-response:pairing-request", "expected Pairing Response" + where ); return; }
            ref_to_idle();
            if ( ref.pairings < 2 ) ++ref.pairings;
            std::copy( in, in + 7, ref.preq ); std::copy( out, out + 7, ref.pres );
            ref.phase = ( V == SMV_LESC || ( V == SMV_COMBINED && ( in[ 3 ] & 0x08 ) ) ) ? LESC_REQ : LEG_REQ;
            c.cls( mc::fmt( "accepted:pairing-request:%s:response-io%d-oob%d-auth%02x", ref.phase == LESC_REQ ? "lesc" : "legacy", out[ 1 ], out[ 2 ], out[ 3 ] ) );
            break;
        case 3: {
            if ( !( on == 17 && out[ 0 ] == 3 ) ) { fail( c, 32, "order:wrong-response:pairing-confirm", "expected Pairing Confirm" + where ); return; }
            ref.conf_tk = e.var <= CF_TK_LAST ? e.var : 0xff;
            ref.tk_sm = 0xff;
            for ( int t = 0; t != TK_CANDIDATES; ++t )
            {
                const u128 sc = toolbox::c1( tk_of( t ), SRAND(), ref_p1(), ref_p2() );
                if ( std::equal( sc.begin(), sc.end(), out + 1 ) ) ref.tk_sm = std::uint8_t( t );
            }
            if ( ref.tk_sm == 0xff ) { fail( c, 32, "order:sconfirm-is-not-a-commitment-to-srand", "Sconfirm is not c1( TK, Srand, preq, pres, addresses ) for any temporary key of this world" + where ); return; }
            ref.phase = LEG_CONF;
            c.cls( mc::fmt( "accepted:pairing-confirm:central-%s:peripheral-%s%s", ref.conf_tk == 0xff ? "garbage" : tk_name[ ref.conf_tk ], tk_name[ ref.tk_sm ],
                            g_io.displayed >= 0 ? ":passkey-displayed" : g_io.asked_passkey ? ":passkey-typed" : "" ) );
            break; }
        case 4:
            if ( ref.phase == LEG_CONF )
            {
                const u128 sr = SRAND();
                if ( !( on == 17 && out[ 0 ] == 4 && std::equal( sr.begin(), sr.end(), out + 1 ) ) ) { fail( c, 32, "order:wrong-response:pairing-random", "expected Pairing Random with Srand" + where ); return; }
                const u128 stk = toolbox::s1( tk_of( ref.conf_tk ), SRAND(), MRAND_A() );
                // a pairing that ran with a passkey that is not the one the user saw / typed did not authenticate anybody
                const bool wrong_passkey = ref.conf_tk >= TK_FIRST_WRONG_PASSKEY;
                ref_completed( stk, ( ref.conf_tk == 0 || wrong_passkey ) ? ST_UNAUTH : ST_AUTH,
                               ref.conf_tk == 0 ? HOW_LEG_TK0 : wrong_passkey ? HOW_LEG_WRONG_PASSKEY : ref.conf_tk == 3 ? HOW_LEG_OOB : HOW_LEG_PASSKEY );
                c.cls( mc::fmt( "completed:legacy:%s", tk_name[ ref.conf_tk ] ) );
            }
            else
            {
                const u128 nb = NB();
                if ( !( on == 17 && out[ 0 ] == 4 && std::equal( nb.begin(), nb.end(), out + 1 ) ) ) { fail( c, 32, "order:wrong-response:pairing-random", "expected Pairing Random with Nb" + where ); return; }
                std::copy( in + 1, in + 17, ref.na );
                ref.phase = LESC_RAND;
                if ( g_io.asked_yes_no ) { ref.user = U_WAITING; ref.asked = 1; }
                c.cls( mc::fmt( "accepted:lesc-random:%s%s", g_io.asked_yes_no ? "user-asked" : "no-user-interaction", g_io.displayed >= 0 ? ":value-displayed" : "" ) );
                if ( g_io.displayed >= 0 )
                {
                    const auto pka = PKA(); const auto pkb = toolbox::PKB();
                    c.cls( std::uint32_t( g_io.displayed ) == toolbox::g2( pka.data(), pkb.data(), ref_na(), NB() ) ? "display:g2-value-correct" : "display:g2-value-differs" );
                }
            }
            break;
        case 0x0c: {
            const auto pkb = toolbox::PKB();
            if ( !( on == 65 && out[ 0 ] == 0x0c && std::equal( pkb.begin(), pkb.end(), out + 1 ) ) ) { fail( c, 32, "order:wrong-response:public-key", "expected the peripheral's public key" + where ); return; }
            ref.phase = LESC_PK;
            c.cls( "accepted:public-key" );
            break; }
        case 0x0d: {
            const u128 eb = ref_eb();
            if ( !( on == 17 && out[ 0 ] == 0x0d && std::equal( eb.begin(), eb.end(), out + 1 ) ) ) { fail( c, 32, "order:wrong-response:dhkey-check", "expected DHKey check Eb = f6( MacKey, Nb, Na, 0, IOcapB, B, A )" + where ); return; }
            lesc_completed( c, "dhkey-check-verified" );
            break; }
        }
    }

    void lesc_completed( mc::Ctx& c, const char* via )
    {
        u128 mac, ltk; lesc_keys( mac, ltk );
        const bool confirmed = ref.asked && ref.user == U_YES;
        ref_completed( ltk, confirmed ? ST_AUTH : ST_UNAUTH, confirmed ? HOW_LESC_NUMCMP : HOW_LESC_NO_USER );
        c.cls( mc::fmt( "completed:lesc:%s:%s", confirmed ? "numeric-comparison-confirmed" : "no-user-interaction", via ) );
    }

    void on_poll( const std::uint8_t* out, std::size_t on, mc::Ctx& c )
    {
        const bool rejected = on == 2 && out[ 0 ] == 5;
        bool silent = on == 0;
        if ( !silent && ( out[ 0 ] == 6 || out[ 0 ] == 7 ) ) { keydist_oracle( out, on, c ); silent = true; }   // not a pairing step
        const std::string where = mc::fmt( " (reference phase %s, poll %s)", phase_name[ ref.phase ], c.obs.c_str() );

        if ( ref.phase == LESC_PK )
        {
            const u128 cb = ref_cb();
            if ( !( on == 17 && out[ 0 ] == 3 && std::equal( cb.begin(), cb.end(), out + 1 ) ) )
                return fail( c, 32, "order:wrong-response:poll-after-public-key", "expected Pairing Confirm Cb = f4( PKbx, PKax, Nb, 0 )" + where );
            ref.phase = LESC_CONF_SENT;
            c.cls( "poll:lesc-confirm-sent" );
            return;
        }
        if ( ref.phase == LESC_RAND && ref.user == U_NO )
        {
            if ( !rejected ) return fail( c, 32, "order:no-pairing-failed:poll:user-declined", "user answered no; Pairing Failed expected" + where );
            if ( cd->state() != bluetoe::details::sm_pairing_state::idle ) { ref_to_idle(); return fail( c, 32, "order:state-not-idle-after-pairing-failed", where ); }
            c.cls( mc::fmt( "poll:pairing-failed-after-user-no:reason-%02x", out[ 1 ] ) );
            ref_to_idle();
            return;
        }
        if ( ref.phase == LESC_RAND && ref.user == U_YES )
        {
            const bool eb_out = !silent && !rejected && out[ 0 ] == 0x0d;
            if ( ref.ea == EA_NONE )
            {
                if ( eb_out ) return fail( c, 32, std::string( "order:eb-sent-without-verified-ea:ea-not-received" ) + ( ref.pairings > 1 ? "-in-a-later-pairing" : "" ), "user confirmed; the central's DHKey check Ea has not been received, but Eb is sent and the pairing completes" + where );
                if ( !silent ) return fail( c, 32, "order:unexpected-output:poll", where );
                c.cls( "poll:silent-user-yes-waiting-for-ea" );
                return;
            }
            if ( ref.ea == EA_BAD )
            {
                if ( eb_out ) return fail( c, 32, std::string( "order:eb-sent-without-verified-ea:wrong-ea-received-while-waiting" ) + ( ref.pairings > 1 ? "-in-a-later-pairing" : "" ), "a wrong DHKey check Ea arrived while the user was asked; after the user's yes Eb is sent and the pairing completes" + where );
                if ( !rejected ) return fail( c, 32, "order:no-pairing-failed:poll:wrong-dhkey-check", where );
                if ( cd->state() != bluetoe::details::sm_pairing_state::idle ) { ref_to_idle(); return fail( c, 32, "order:state-not-idle-after-pairing-failed", where ); }
                ref_to_idle();
                return;
            }
            if ( ref.ea == EA_AMBIGUOUS && rejected )
            {
                if ( cd->state() != bluetoe::details::sm_pairing_state::idle ) { ref_to_idle(); return fail( c, 32, "order:state-not-idle-after-pairing-failed", where ); }
                ref_to_idle();
                return;
            }
            const u128 eb = ref_eb();
            if ( !( on == 17 && out[ 0 ] == 0x0d && std::equal( eb.begin(), eb.end(), out + 1 ) ) )
                return fail( c, 32, "order:wrong-response:poll-after-user-yes", "expected DHKey check Eb" + where );
            lesc_completed( c, "dhkey-check-held-back-until-user-yes" );
            return;
        }
        if ( !silent ) return fail( c, 32, "order:unexpected-output:poll", "no pairing output is due" + where );
        c.cls( std::string( "poll:silent:" ) + phase_name[ ref.phase ] );
    }

    // ---------------------------------------------------------------------------------------------------------------
    void status_mismatch( mc::Ctx& c, int got, const char* what )
    {
        const int exp = ref.done ? ref.status : ST_NO_KEY;
        static const char* const how_name[] = { "none", "legacy-just-works", "legacy-passkey-entry", "legacy-oob", "legacy-passkey-entry-with-a-passkey-that-is-not-the-users", "lesc-exchange-without-user-confirmation", "lesc-numeric-comparison-confirmed" };
        static const char* const how_sig[]  = { "none", "legacy-just-works", "legacy-passkey", "legacy-oob", "legacy-wrong-passkey", "lesc", "lesc-numeric-comparison" };
        std::string in_class = how_sig[ ref.how ];
        if ( ref.how == HOW_LESC_NO_USER ) in_class += ( ref.preq[ 2 ] || g_io.oob_present ) ? "-oob-indicated" : ref.preq[ 1 ] == 3 ? "-no-io" : "-passkey-io";
        const std::string detail = mc::fmt( "%s = %s, the exchange that was run is %s (request %s, response %s) => expected %s", what, st_name[ got ], how_name[ ref.how ],
                                            mc::hex( ref.preq, 7 ).c_str(), mc::hex( ref.pres, 7 ).c_str(), st_name[ exp ] );
        if ( exp == ST_NO_KEY )      fail( c, 35, "status:key-without-completed-pairing", detail );
        else if ( got == ST_NO_KEY ) fail( c, 35, "status:no-key-after-completed-pairing:" + in_class, detail );
        else if ( got == ST_AUTH )   fail( c, 35, "status:authenticated-but-exchange-unauthenticated:" + in_class, detail );
        else                         fail( c, 35, "status:unauthenticated-but-exchange-authenticated:" + in_class, detail );
    }

    void after_step( const Ev& e, mc::Ctx& c )
    {
        using st = bluetoe::details::sm_pairing_state;
        // C32 backstop: idle / completed agree
        if ( !failed( 32 ) )
        {
            const st s = cd->state();
            const char* m = nullptr;
            if ( ref.phase == IDLE && s != st::idle ) m = "expected-idle";
            else if ( ref.phase == DONE && s != st::pairing_completed ) m = "expected-completed";
            else if ( ref.phase != IDLE && ref.phase != DONE && ( s == st::idle || s == st::pairing_completed ) ) m = "expected-pairing-in-progress";
            if ( m ) fail( c, 32, std::string( "order:pairing-state-mismatch:" ) + m, mc::fmt( "reference phase %s, sm_pairing_state %d after %s", phase_name[ ref.phase ], int( s ), e.name.c_str() ) );
        }

        // C33: key offering, probed for a set of EDIV / Rand values
        static const struct { std::uint16_t ediv; std::uint64_t rand; } probes[] = {
            { 0, 0 }, { 0, 1 }, { 1, 0 }, { 0, 1ull << 32 }, { 0, 1ull << 63 }, { 0, 0x100 }, { 0, 0x10000 }, { 0x8000, 0 }, { 0x0100, 0 }, { 0xffff, ~0ull },
            { NEW_EDIV, NEW_RAND }, { NEW_EDIV, 0 }, { 0, NEW_RAND }, { NEW_EDIV ^ 1, NEW_RAND }, { NEW_EDIV ^ 0x8000, NEW_RAND }, { NEW_EDIV, NEW_RAND ^ 1 }, { NEW_EDIV, NEW_RAND ^ ( 1ull << 32 ) }, { NEW_EDIV, NEW_RAND ^ ( 1ull << 63 ) },
            { OLD_EDIV, OLD_RAND }, { OLD_EDIV, NEW_RAND }, { OLD_EDIV ^ 1, OLD_RAND }, { OLD_EDIV, OLD_RAND ^ 1 }, { OLD_EDIV, OLD_RAND ^ ( 1ull << 32 ) }, { OLD_EDIV, OLD_RAND ^ ( 1ull << 63 ) } };
        // input class of an illegitimate offer: the implementation completed a pairing in a step the protocol oracle rejects /
        // no pairing is going on / a pairing is going on but not completed
        const std::string when = failed( 32 ) ? ( ref.phase == IDLE ? "after-pairing-failed" : "unverified-completion" ) : ref.phase == IDLE ? "idle" : ref.phase == DONE ? "completed" : "pairing-in-progress";
        for ( const auto& p : probes )
        {
            const auto got = cd->find_key( p.ediv, p.rand );
            const bool zero = p.ediv == 0 && p.rand == 0;
            const bool pair_ok = ref.done && zero;
            const auto db = C::bond ? g_db.find_key( p.ediv, p.rand, REMOTE() ) : std::pair< bool, u128 >{ false, u128{} };
            const std::string id = zero ? "ediv0-rand0" : "nonzero-ediv-rand";
            const std::string what = mc::fmt( "find_key( 0x%04x, 0x%llx ) -> %d %s; reference: pairing %scompleted%s", p.ediv, (unsigned long long)p.rand, got.first,
                                              got.first ? mc::hex( got.second.data(), 16 ).c_str() : "", ref.done ? "" : "not ", db.first ? ", bond DB has a key" : "" );
            if ( got.first )
            {
                const bool is_pair = pair_ok && std::equal( got.second.begin(), got.second.end(), ref.key );
                const bool is_db   = db.first && got.second == db.second;
                if ( !pair_ok && !db.first ) { fail( c, 33, "keys:offered-without-pairing-or-bond:" + id + ":" + when, what ); break; }
                // "the offered key is the one that pairing produced": an older bond must not shadow the key of the completed pairing
                if ( pair_ok && !is_pair && is_db ) { fail( c, 33, "keys:bond-shadows-key-of-completed-pairing:" + id, what + mc::fmt( "; pairing produced %s", mc::hex( ref.key, 16 ).c_str() ) ); break; }
                if ( !is_pair && !is_db )    { fail( c, 33, "keys:wrong-key-offered:" + id, what + mc::fmt( "; pairing produced %s", mc::hex( ref.key, 16 ).c_str() ) ); break; }
                c.cls( std::string( "keys:offered:" ) + ( is_pair ? "pairing-key" : "bond-db-key" ) + ":" + id );
            }
            else
            {
                // ( "is offered" direction: not judged in a step in which the protocol oracle already failed - the pairing state is out of step )
                if ( pair_ok && !failed( 32 ) ) { fail( c, 33, "keys:not-offered-after-successful-pairing", what ); break; }
                if ( db.first )                 { fail( c, 33, "keys:bond-not-offered:" + id, what ); break; }
            }
        }
        // what goes into the bond data base becomes offerable on every later connection
        if ( g_db.stored )
        {
            const bool lesc = ref.how >= HOW_LESC_NO_USER;
            const u128 nk = NEWLTK();
            const std::string what = mc::fmt( "store_bond( %s, ediv 0x%04x, rand 0x%llx )", mc::hex( g_db.last.key, 16 ).c_str(), g_db.last.ediv, (unsigned long long)g_db.last.rand );
            if ( !completed_this_step )
                fail( c, 33, "keys:bond-stored-without-pairing:" + when, what + " in a step in which the reference does not see a pairing complete successfully" );
            else if ( !g_db.last.same_mac( REMOTE() )
                   || ( lesc  && !( g_db.last.ediv == 0 && g_db.last.rand == 0 && std::equal( ref.key, ref.key + 16, g_db.last.key ) ) )
                   || ( !lesc && !( g_db.last.ediv == NEW_EDIV && g_db.last.rand == NEW_RAND && std::equal( nk.begin(), nk.end(), g_db.last.key ) ) ) )
                fail( c, 33, "keys:wrong-bond-stored", what + "; expected the LESC LTK with ediv=rand=0 resp. the bond returned by create_new_bond, for the connected peer" );
        }
        if ( g_db.stored ) c.cls( !ref.done ? "bond:stored-in-a-step-the-reference-does-not-complete" : ref.how >= HOW_LESC_NO_USER ? "bond:lesc-key-stored" : "bond:legacy-bond-created-and-stored" );

        // C35: reported status ( not judged in a step in which the protocol oracle failed, except when the reference's pairing ended
        //      with a Pairing Failed in this very step: then "no key" is what has to be reported )
        if ( !failed( 32 ) || ref.phase == IDLE )
        {
            const int got = status_class( cd->local_device_pairing_status() );
            const int exp = ref.done ? ref.status : ST_NO_KEY;
            if ( got != exp ) status_mismatch( c, got, "local_device_pairing_status()" );
            else if ( ref.done ) c.cls( mc::fmt( "status:%s:after-%d", st_name[ got ], int( ref.how ) ) );
        }
        else if ( status_class( cd->local_device_pairing_status() ) == ST_AUTH && !( ref.asked && ref.user == U_YES ) && !( ref.done && ref.status == ST_AUTH ) )
        {
            // protocol oracle failed in this step, but this much is certain: authenticated is reported although the reference saw neither
            // the user confirm the values of the current pairing nor a completed legacy passkey / OOB exchange
            fail( c, 35, "status:authenticated-without-user-confirmation-of-this-pairing",
                  mc::fmt( "local_device_pairing_status() = authenticated_key after %s; reference phase %s, user %s asked in this pairing, request %s",
                           e.name.c_str(), phase_name[ ref.phase ], ref.asked ? "was" : "was not", mc::hex( ref.preq, 7 ).c_str() ) );
        }
    }
};

// ------------------------------------------------------------------------------------------------------------------
template < class C, int ORACLE_ >
int run( int argc, char** argv, int quick_depth, int thorough_depth )
{
    mc::Args a = mc::parse_args( argc, argv );
    mc::Report rep; rep.property = mc::fmt( "C%d", ORACLE_ );
    rep.unit = a.opt.count( "unit" ) ? a.opt[ "unit" ] : "C32_sm";
    static World< C, ORACLE_ > w;
    mc::BfsOptions o; o.max_depth = a.thorough() ? thorough_depth : quick_depth; o.max_sigs = 24; o.max_states = 6000000;
    if ( a.opt.count( "depth" ) ) o.max_depth = int( a.num( "depth", o.max_depth ) );
    mc::Bfs< World< C, ORACLE_ > > bfs( w, rep, a, o );
    if ( !a.replay.empty() ) return bfs.replay_file( mc::read_replay( a.replay ) );
    bfs.run();
    rep.counters[ "events" ] = std::uint64_t( w.num_events() );
    rep.counters[ "state_bytes" ] = bfs.isz;
    rep.counters[ "depth_bound" ] = std::uint64_t( o.max_depth );
    rep.write( a );
    return 0;
}

} // namespace smw

#endif
