// C29 - Connection lifecycle is reported completely and in order.
//
// DUT: the real link_layer<> over llw::radio with bluetoe::link_layer::connection_callbacks< recorder, rec >; the recorder
// appends every callback to a fixed size log.
//   part A (E1): all sequences (C28_explore.hpp) of: advertising timeout, CONNECT_IND valid / for another device / with
//                unusable parameters, connection events (empty, missed, "missed until the link layer gives up"), local
//                disconnect(), bursts of control PDUs delivered in ONE connection event.
//   part B (E2): every burst in { LL_REJECT_IND, LL_UNKNOWN_RSP, LL_VERSION_IND, LL_FEATURE_REQ, LL_CONNECTION_UPDATE_IND,
//                LL_TERMINATE_IND }^(1..6) from each of a few prepared connection states (first event of a connection,
//                connected with every position of the callback queue's ring indices, version already exchanged), followed
//                by a fixed epilogue ( events until a deferred update took effect, then LL_TERMINATE_IND ).
// Oracle: per connection the callback log is a prefix of   requested ( established changed* closed | attempt_timeout )
// each once; whenever the link layer went back to advertising the last connection's record is complete; no callback without
// an accepted CONNECT_IND; a changed connection interval is reported; `established` after the first event.
#include "../mc/mc.hpp"
#include "C28_explore.hpp"
#include <bluetoe/server.hpp>
#include <bluetoe/link_layer.hpp>
#include "ll_world.hpp"

namespace {

std::uint8_t char_value = 7;
using server_t = bluetoe::server<
    bluetoe::service< bluetoe::service_uuid16< 0x1234 >,
        bluetoe::characteristic< bluetoe::characteristic_uuid16< 0x2345 >,
            bluetoe::bind_characteristic_value< std::uint8_t, &char_value >, bluetoe::no_write_access > > >;

// ---------------------------------------------------------------------------------------------------------------------
enum cb_kind : std::uint8_t { CB_REQUESTED = 'R', CB_ESTABLISHED = 'E', CB_CHANGED = 'C', CB_CLOSED = 'X', CB_ATTEMPT_TIMEOUT = 'T',
                              CB_VERSION = 'v', CB_REJECTED = 'r', CB_UNKNOWN = 'u', CB_FEATURES = 'f', CB_PHY = 'p' };

struct recorder
{
    static constexpr unsigned max_log = 96;
    std::uint8_t  kind[ max_log ];
    std::uint16_t arg[ max_log ];       // reason / interval
    std::uint32_t n;                    // callbacks delivered (may exceed max_log; then the log is cut and the harness stops the branch)

    void add( cb_kind k, std::uint16_t a ) { if ( n < max_log ) { kind[ n ] = k; arg[ n ] = a; } ++n; }

    template < class C > void ll_connection_requested( const bluetoe::link_layer::connection_details& d, const bluetoe::link_layer::connection_addresses&, C& ) { add( CB_REQUESTED, d.interval() ); }
    template < class C > void ll_connection_attempt_timeout( C& ) { add( CB_ATTEMPT_TIMEOUT, 0 ); }
    template < class C > void ll_connection_established( const bluetoe::link_layer::connection_details& d, const bluetoe::link_layer::connection_addresses&, C& ) { add( CB_ESTABLISHED, d.interval() ); }
    template < class C > void ll_connection_changed( const bluetoe::link_layer::connection_details& d, C& ) { add( CB_CHANGED, d.interval() ); }
    template < class C > void ll_connection_closed( std::uint8_t reason, C& ) { add( CB_CLOSED, reason ); }
    template < class C > void ll_version( std::uint8_t, std::uint16_t, std::uint16_t, const C& ) { add( CB_VERSION, 0 ); }
    template < class C > void ll_rejected( std::uint8_t e, const C& ) { add( CB_REJECTED, e ); }
    template < class C > void ll_unknown( std::uint8_t t, const C& ) { add( CB_UNKNOWN, t ); }
    template < class C > void ll_remote_features( std::uint8_t*, const C& ) { add( CB_FEATURES, 0 ); }
} rec;

using ll_t = bluetoe::link_layer::link_layer< server_t, llw::radio, bluetoe::link_layer::connection_callbacks< recorder, rec >,
                                              bluetoe::link_layer::buffer_sizes< 160, 160 > >;
mc::Placed< ll_t > ll;

bool lifecycle( std::uint8_t k ) { return k == CB_REQUESTED || k == CB_ESTABLISHED || k == CB_CHANGED || k == CB_CLOSED || k == CB_ATTEMPT_TIMEOUT; }
const char* cb_name( std::uint8_t k )
{
    switch ( k ) { case CB_REQUESTED: return "requested"; case CB_ESTABLISHED: return "established"; case CB_CHANGED: return "changed"; case CB_CLOSED: return "closed";
                   case CB_ATTEMPT_TIMEOUT: return "attempt_timeout"; case 0: return "start"; default: return "other"; }
}

std::string log_text( unsigned from = 0 )
{
    std::string s;
    for ( unsigned i = from; i < rec.n && i < recorder::max_log; ++i )
    {
        s += char( rec.kind[ i ] );
        if ( rec.kind[ i ] == CB_CLOSED ) s += mc::fmt( "(%02x)", rec.arg[ i ] );
    }
    return s.empty() ? "-" : s;
}

// ---------------------------------------------------------------------------------------------------------------------
// control PDUs of the bursts
enum pdu_kind { P_REJ, P_UNK, P_VER, P_FEAT, P_UPD, P_TERM, P_KINDS, P_MAP = P_KINDS, P_UPD_REFUSED /* both not part of the burst product of part B */ };
const char* pdu_name( int k ) { static const char* n[] = { "REJECT_IND", "UNKNOWN_RSP", "VERSION_IND", "FEATURE_REQ", "CONNECTION_UPDATE_IND", "TERMINATE_IND", "CHANNEL_MAP_IND", "CONNECTION_UPDATE_IND(timeout 33 s)" }; return n[ k ]; }

constexpr std::uint16_t interval_1 = 0x18, interval_2 = 0x20, supervision = 0x14;   // 30 ms, 40 ms, 200 ms
constexpr std::uint8_t  terminate_reason = 0x13;
constexpr std::uint16_t refused_interval = 0x30, refused_timeout = 3300;   // 33 s: well formed PDU, parameters refused at the instant

struct burst { std::uint8_t n; std::uint8_t k[ 6 ]; };

std::string burst_text( const burst& b )
{
    std::string s = "[";
    for ( unsigned i = 0; i != b.n; ++i ) s += std::string( i ? "," : "" ) + pdu_name( b.k[ i ] );
    return s + "]";
}

// delivers the burst in one connection event; returns false if the peripheral did not take all PDUs (harness sizing error)
bool deliver( const burst& b )
{
    std::uint8_t buf[ 6 ][ 16 ];
    ll_t::in_pdu p[ 6 ];
    const std::uint16_t instant = std::uint16_t( ll->connection_event_counter() + 2 );
    const std::uint16_t new_interval = ll->log.ce_interval_us / 1250 == interval_1 ? interval_2 : interval_1;
    for ( unsigned i = 0; i != b.n; ++i )
    {
        std::uint8_t* d = buf[ i ];
        d[ 0 ] = 0x03;
        switch ( b.k[ i ] )
        {
        case P_REJ:  { const std::uint8_t c[] = { 0x0D, 0x1a }; d[ 1 ] = sizeof c; std::memcpy( d + 2, c, sizeof c ); } break;
        case P_UNK:  { const std::uint8_t c[] = { 0x07, 0x12 }; d[ 1 ] = sizeof c; std::memcpy( d + 2, c, sizeof c ); } break;
        case P_VER:  { const std::uint8_t c[] = { 0x0C, 0x08, 0x00, 0x02, 0x00, 0x00 }; d[ 1 ] = sizeof c; std::memcpy( d + 2, c, sizeof c ); } break;
        case P_FEAT: { const std::uint8_t c[] = { 0x08, 0xff, 0xff, 0xff, 0xff, 0xff, 0xff, 0xff, 0xff }; d[ 1 ] = sizeof c; std::memcpy( d + 2, c, sizeof c ); } break;
        case P_UPD:  { const std::uint8_t c[] = { 0x00, 1, 0, 0, std::uint8_t( new_interval ), std::uint8_t( new_interval >> 8 ), 0, 0, std::uint8_t( supervision ), 0, std::uint8_t( instant ), std::uint8_t( instant >> 8 ) };
                       d[ 1 ] = sizeof c; std::memcpy( d + 2, c, sizeof c ); } break;
        case P_UPD_REFUSED:
                     { const std::uint8_t c[] = { 0x00, 1, 0, 0, std::uint8_t( refused_interval ), 0, 0, 0, std::uint8_t( refused_timeout ), std::uint8_t( refused_timeout >> 8 ), std::uint8_t( instant ), std::uint8_t( instant >> 8 ) };
                       d[ 1 ] = sizeof c; std::memcpy( d + 2, c, sizeof c ); } break;
        case P_MAP:  { const std::uint8_t c[] = { 0x01, 0xff, 0xf7, 0xff, 0xff, 0x1f, std::uint8_t( instant ), std::uint8_t( instant >> 8 ) }; d[ 1 ] = sizeof c; std::memcpy( d + 2, c, sizeof c ); } break;
        case P_TERM: { const std::uint8_t c[] = { 0x02, terminate_reason }; d[ 1 ] = sizeof c; std::memcpy( d + 2, c, sizeof c ); } break;
        }
        p[ i ].p = d; p[ i ].n = 2u + d[ 1 ];
    }
    return ll->sim_connection_event( p, b.n, 12 ) == b.n;
}

// ---------------------------------------------------------------------------------------------------------------------
// reference: what the harness did to the link layer, and the judge of the callback log
struct Ref
{
    std::uint8_t  phase;              // 0 advertising, 1 connection requested (no event yet), 2 connected, 3 stalled (nothing scheduled)
    std::uint8_t  last_adv_timeout, foreign_tried;
    std::uint8_t  f_term, f_disconnect, f_missed, f_update;     // causes of a close seen in this connection
    std::uint8_t  f_refused_update;   // an update with unusable parameters was delivered: the link may be closed at its instant
    std::uint8_t  events_in_connection;
    std::uint32_t accepted;           // CONNECT_INDs the link layer accepted
    std::uint32_t log_checked;        // callbacks already judged
    std::uint8_t  last;               // last lifecycle callback of the log ( 0 = none / connection record complete )
    std::uint32_t interval_us;        // last connection interval seen at the radio
};

struct Judge
{
    Ref& ref; mc::Ctx& c;
    std::uint32_t adv_before, ce_before, log_before;
    bool missed_step = false;        // the step consists of missed connection events only

    Judge( Ref& r, mc::Ctx& cx ) : ref( r ), c( cx ), adv_before( ll->log.adv_count ), ce_before( ll->log.ce_count ), log_before( rec.n ) {}

    bool advertising_again() const { return ll->log.adv_count != adv_before; }
    unsigned delivered() const { return rec.n - log_before; }
    std::string overflow_class() const { return delivered() >= 4 ? "event-queue-overflow" : "other"; }

    // judges the new callbacks; returns false after a failure
    bool order()
    {
        if ( rec.n > recorder::max_log ) { c.prune = true; return true; }
        for ( std::uint32_t i = ref.log_checked; i < rec.n; ++i )
        {
            const std::uint8_t k = rec.kind[ i ];
            if ( ref.accepted == 0 ) { c.fail( "callback-without-connection", mc::fmt( "callback '%c' although no CONNECT_IND was accepted", k ) ); return false; }
            if ( !lifecycle( k ) )
            {
                if ( ref.last == 0 || ref.last == CB_CLOSED || ref.last == CB_ATTEMPT_TIMEOUT ) { c.fail( "procedure-callback-outside-connection", mc::fmt( "callback '%c' after the connection was reported closed: %s", k, log_text().c_str() ) ); return false; }
                continue;
            }
            const std::uint8_t prev = ( ref.last == CB_CLOSED || ref.last == CB_ATTEMPT_TIMEOUT ) ? 0 : ref.last;
            bool ok = false;
            switch ( k )
            {
            case CB_REQUESTED:       ok = prev == 0; break;
            case CB_ESTABLISHED:     ok = prev == CB_REQUESTED; break;
            case CB_ATTEMPT_TIMEOUT: ok = prev == CB_REQUESTED; break;
            case CB_CHANGED:         ok = prev == CB_ESTABLISHED || prev == CB_CHANGED; break;
            case CB_CLOSED:          ok = prev == CB_ESTABLISHED || prev == CB_CHANGED; break;
            }
            if ( !ok )
            {
                // disconnect() between CONNECT_IND and the first event: one mechanism, two symptoms (see also after_connection_step)
                const bool skipped = k == CB_CLOSED && prev == CB_REQUESTED && cause() == "disconnect-before-first-event";
                c.fail( skipped ? std::string( "established-skipped:disconnect-before-first-event" ) : mc::fmt( "lifecycle-order:%s-after-%s:%s", cb_name( k ), cb_name( prev ), cause().c_str() ),
                        mc::fmt( "callback %s follows %s; log %s", cb_name( k ), cb_name( prev ), log_text().c_str() ) );
                return false;
            }
            ref.last = k;
            if ( k == CB_CLOSED && !reason_ok( std::uint8_t( rec.arg[ i ] ) ) ) return false;
        }
        ref.log_checked = rec.n;
        // requested callbacks == accepted connections
        unsigned requested = 0;
        for ( std::uint32_t i = 0; i < rec.n; ++i ) requested += rec.kind[ i ] == CB_REQUESTED;
        if ( requested > ref.accepted ) { c.fail( "requested-without-connect-ind", log_text() ); return false; }
        return true;
    }

    std::string cause() const
    {
        return ref.f_disconnect && ref.events_in_connection == 0 ? "disconnect-before-first-event" : ref.f_disconnect ? "local-disconnect" : "remote";
    }

    // the reason is exact wherever the cause is unambiguous:
    //   connection events missed and nothing else               -> 0x08 connection timeout
    //   (after a local disconnect() also 0x16 / 0x22: the terminate procedure ends or times out)
    //   a connection event took place: LL_TERMINATE_IND processed -> the reason it carried; an instant of an update that had
    //   already passed -> 0x28; local disconnect() completed -> 0x16 ( 0x22 if the central never acknowledged )
    bool reason_ok( std::uint8_t r )
    {
        bool ok = false;
        if ( missed_step ) ok = r == 0x08;
        else
        {
            if ( ref.f_term )   ok = ok || r == terminate_reason;
            if ( ref.f_update ) ok = ok || r == 0x28;
        }
        if ( ref.f_disconnect ) ok = ok || r == 0x16 || r == 0x22;
        // the reason for refusing an update at its instant is not specified here (the implementation uses its default 0x08)
        if ( ref.f_refused_update ) ok = ok || r == 0x08 || r == 0x28 || r == 0x1e || r == 0x3b;
        if ( ok ) { c.cls( mc::fmt( "closed(0x%02x)", r ) ); return true; }
        c.fail( std::string( "closed:wrong-reason:" ) + ( missed_step ? "supervision-timeout" : ref.f_disconnect ? "local-disconnect" : "connection-event" ),
                mc::fmt( "closed with reason 0x%02x %s; causes seen in this connection: terminate %d, local disconnect %d, missed events %d, update / channel map %d", r,
                         missed_step ? "after missed connection events only (expected 0x08)" : "in a connection event", ref.f_term, ref.f_disconnect, ref.f_missed, ref.f_update ) );
        return false;
    }

    // the connection ended (the link layer advertises again): its record must be complete
    bool ended()
    {
        if ( ref.last == CB_CLOSED || ref.last == CB_ATTEMPT_TIMEOUT )
        {
            c.cls( ref.last == CB_CLOSED ? "connection ended->closed reported" : "connection never established->attempt_timeout reported" );
            return true;
        }
        c.fail( mc::fmt( "closed-not-reported:%s", overflow_class().c_str() ),
                mc::fmt( "the link layer left the connection and advertises again, but the last lifecycle callback is '%s'; %u callbacks were delivered in this step; log %s",
                         cb_name( ref.last ), delivered(), log_text().c_str() ) );
        return false;
    }
};

// ---------------------------------------------------------------------------------------------------------------------
struct World
{
    Ref ref;

    std::vector< burst > bursts;
    enum { EV_ADV_TIMEOUT, EV_CONNECT, EV_CONNECT_FOREIGN, EV_CONNECT_BAD_PARAMS, EV_EMPTY, EV_MISS, EV_LOSE, EV_DISCONNECT, EV_FIRST_BURST };

    World()
    {
        bursts.push_back( { 1, { P_REJ } } );
        bursts.push_back( { 2, { P_VER, P_FEAT } } );
        bursts.push_back( { 1, { P_UPD } } );
        bursts.push_back( { 1, { P_TERM } } );
        bursts.push_back( { 4, { P_REJ, P_UNK, P_REJ, P_UNK } } );
        bursts.push_back( { 5, { P_REJ, P_REJ, P_REJ, P_REJ, P_TERM } } );
        bursts.push_back( { 6, { P_UNK, P_VER, P_FEAT, P_UPD, P_TERM, P_REJ } } );
        bursts.push_back( { 1, { P_MAP } } );
        bursts.push_back( { 1, { P_UPD_REFUSED } } );
    }

    int num_events() const { return EV_FIRST_BURST + int( bursts.size() ); }
    std::string describe( int ev ) const
    {
        static const char* n[] = { "advertising timeout", "CONNECT_IND", "CONNECT_IND for another advertiser", "CONNECT_IND with timeout below the minimum",
                                   "empty connection event", "missed connection event", "missed events until the link layer gives up", "disconnect()" };
        return ev < EV_FIRST_BURST ? n[ ev ] : "one event with " + burst_text( bursts[ ev - EV_FIRST_BURST ] );
    }

    void init()
    {
        char_value = 7;
        std::memset( &rec, 0, sizeof rec );
        ll.construct();
        ll->run();
        std::memset( &ref, 0, sizeof ref );
    }
    void regions( mc::Regions& r ) { r.add( ll.raw, sizeof ll.raw ); r.add( rec ); r.add( char_value ); r.add( ref ); }

    void connect_ind( int flavour )
    {
        std::uint8_t ci[ 40 ];
        llw::connect_ind c; c.interval = interval_1; c.timeout = supervision;
        if ( flavour == 2 ) c.timeout = 5;
        const std::size_t n = c.build( ci, ll->log.adv_data );
        if ( flavour == 1 ) ci[ 8 ] ^= 0x01;      // AdvA of somebody else
        ll->sim_adv_received( ci, n );
    }

    // after a step in a connection
    void after_connection_step( Judge& j, mc::Ctx& c, bool event_happened, bool several_events = false )
    {
        if ( !j.order() ) return;
        // ll_connection_changed only for an update that took effect: never with refused parameters, and (in a step of one
        // radio callback) the connection continues
        for ( std::uint32_t i = j.log_before; i < rec.n && i < recorder::max_log; ++i )
            if ( rec.kind[ i ] == CB_CHANGED && ( rec.arg[ i ] == refused_interval || ( !several_events && j.advertising_again() ) ) )
            {
                c.fail( "changed-reported-for-refused-update", mc::fmt( "ll_connection_changed( interval %u ) was reported, the update did not take effect%s; log %s", rec.arg[ i ],
                                                                         j.advertising_again() ? " (the link was closed in the same step)" : "", log_text().c_str() ) );
                return;
            }
        if ( j.advertising_again() )
        {
            if ( !j.ended() ) return;
            ref.phase = 0; ref.last = 0; ref.last_adv_timeout = 0; ref.foreign_tried = 0;
            ref.f_term = ref.f_disconnect = ref.f_missed = ref.f_update = ref.f_refused_update = 0; ref.events_in_connection = 0;
            return;
        }
        if ( ref.last == CB_CLOSED || ref.last == CB_ATTEMPT_TIMEOUT )
        {
            c.fail( "closed-reported-but-connection-continues", "closed / attempt_timeout was reported, but the link layer scheduled a further connection event" );
            return;
        }
        if ( event_happened )
        {
            if ( ref.events_in_connection < 200 ) ++ref.events_in_connection;
            ref.phase = 2;
            if ( ref.last == CB_REQUESTED )
            {
                c.fail( ref.f_disconnect ? std::string( "established-skipped:disconnect-before-first-event" ) : mc::fmt( "established-not-reported:%s", j.overflow_class().c_str() ),
                        mc::fmt( "a connection event took place, established was not reported; %u callbacks delivered in this step; log %s", j.delivered(), log_text().c_str() ) );
                return;
            }
        }
        // a changed connection interval has to be reported
        if ( ll->log.ce_interval_us != ref.interval_us )
        {
            bool reported = false;
            for ( std::uint32_t i = j.log_before; i < rec.n && i < recorder::max_log; ++i )
                reported = reported || ( rec.kind[ i ] == CB_CHANGED && rec.arg[ i ] * 1250u == ll->log.ce_interval_us );
            if ( !reported ) { c.fail( mc::fmt( "changed-not-reported:%s", j.overflow_class().c_str() ), mc::fmt( "connection interval went from %u us to %u us without ll_connection_changed; log %s", ref.interval_us, ll->log.ce_interval_us, log_text().c_str() ) ); return; }
            c.cls( "interval changed->changed reported" );
            ref.interval_us = ll->log.ce_interval_us;
        }
    }

    bool apply( int ev, mc::Ctx& c )
    {
        Judge j( ref, c );
        if ( ref.phase == 3 ) return false;
        if ( ev <= EV_CONNECT_BAD_PARAMS )
        {
            if ( ref.phase != 0 ) return false;
            switch ( ev )
            {
            case EV_ADV_TIMEOUT:
                if ( ref.last_adv_timeout ) return false;       // two in a row add nothing
                ll->sim_adv_timeout();
                ref.last_adv_timeout = 1;
                c.cls( "advertising timeout" );
                break;
            case EV_CONNECT:
                connect_ind( 0 );
                if ( ll->log.ce_count == j.ce_before ) { c.fail( "harness:connect-ind-not-accepted", "valid CONNECT_IND did not start a connection" ); return true; }
                ++ref.accepted; ref.phase = 1; ref.interval_us = ll->log.ce_interval_us;
                if ( !j.order() ) return true;
                if ( ref.last != CB_REQUESTED ) { c.fail( "requested-not-reported", "CONNECT_IND accepted, ll_connection_requested not called; log " + log_text() ); return true; }
                c.cls( "CONNECT_IND->requested" );
                break;
            case EV_CONNECT_FOREIGN: case EV_CONNECT_BAD_PARAMS:
                if ( ref.foreign_tried & ( 1 << ( ev - EV_CONNECT_FOREIGN ) ) ) return false;
                ref.foreign_tried |= std::uint8_t( 1 << ( ev - EV_CONNECT_FOREIGN ) );
                connect_ind( ev == EV_CONNECT_FOREIGN ? 1 : 2 );
                if ( ll->log.ce_count != j.ce_before ) { c.fail( "harness:invalid-connect-ind-accepted", "connection started" ); return true; }
                if ( !j.order() ) return true;
                if ( j.delivered() ) { c.fail( "callback-for-rejected-connect-ind", log_text() ); return true; }
                if ( !j.advertising_again() )
                {   // nothing is scheduled any more: no radio callback can follow.  Not a callback matter (see report) - branch ends.
                    ref.phase = 3; c.prune = true;
                    c.cls( "CONNECT_IND with unusable parameters->nothing scheduled (link layer stalls)" );
                }
                else c.cls( "invalid CONNECT_IND->advertising continues, no callback" );
                ref.last_adv_timeout = 0;
                break;
            }
            c.obs = log_text();
            return true;
        }

        if ( ref.phase != 1 && ref.phase != 2 ) return false;
        bool event_happened = false;
        switch ( ev )
        {
        case EV_EMPTY:
            ll->sim_empty_event(); event_happened = true;
            break;
        case EV_MISS:
            j.missed_step = true;
            ll->sim_timeout(); ref.f_missed = 1;
            break;
        case EV_LOSE:
            j.missed_step = true;
            ref.f_missed = 1;
            for ( int i = 0; i != 64 && !j.advertising_again(); ++i ) ll->sim_timeout();
            if ( !j.advertising_again() ) { c.fail( "supervision-timeout:never", "64 missed events in a row did not end the connection" ); return true; }
            c.cls( ref.phase == 1 ? "no event at all->given up" : "supervision timeout" );
            break;
        case EV_DISCONNECT:
            if ( ref.f_disconnect ) return false;
            ll->disconnect();
            ref.f_disconnect = 1;
            c.cls( ref.phase == 1 ? "disconnect() before the first event" : "disconnect()" );
            break;
        default:
        {
            const burst& b = bursts[ ev - EV_FIRST_BURST ];
            for ( unsigned i = 0; i != b.n; ++i ) { if ( b.k[ i ] == P_TERM ) ref.f_term = 1; if ( b.k[ i ] == P_UPD || b.k[ i ] == P_MAP ) ref.f_update = 1; if ( b.k[ i ] == P_UPD_REFUSED ) ref.f_update = ref.f_refused_update = 1; }
            if ( !deliver( b ) )
            {   // only happens while received control PDUs pile up behind a deferred LL_CONNECTION_UPDATE_IND that never takes effect
                // (instant handling, C21): the central would retransmit later - outside of this world, the branch ends here
                c.prune = true; c.cls( "receive buffer full behind a blocked deferred update (C21)" ); c.obs = log_text();
                return true;
            }
            event_happened = true;
            break;
        }
        }
        after_connection_step( j, c, event_happened, ev == EV_LOSE );
        c.obs = log_text();
        return true;
    }
};

World w;

// ---------------------------------------------------------------------------------------------------------------------
// part B
enum prepared { PS_FIRST_EVENT, PS_CONNECTED, PS_RING_1, PS_RING_2, PS_RING_3, PS_RING_4, PS_VERSION_DONE, PS_SECOND_CONNECTION, PS_COUNT };
const char* prepared_name( int s )
{
    static const char* n[] = { "first event of the connection", "connected", "connected, queue indices +1", "connected, queue indices +2", "connected, queue indices +3",
                               "connected, queue indices +4", "connected, version exchanged", "second connection" };
    return n[ s ];
}

// returns "" or the failure; steps are executed through World::apply so that the same oracle decides
struct product_result { std::string sig, detail, kind; };

bool step( int ev, product_result& r, bool verbose )
{
    mc::Ctx c;
    const bool en = w.apply( ev, c );
    if ( verbose ) printf( "    %s%s -> %s\n", w.describe( ev ).c_str(), en ? "" : " [not enabled]", c.obs.c_str() );
    if ( !c.fails.empty() ) { r.sig = c.fails[ 0 ].sig; r.detail = c.fails[ 0 ].detail; return false; }
    return en;
}

bool prepare( int s, product_result& r, bool verbose )
{
    w.init();
    const int rej = World::EV_FIRST_BURST;   // [REJECT_IND]
    if ( !step( World::EV_CONNECT, r, verbose ) ) return false;
    if ( s == PS_FIRST_EVENT ) return true;
    if ( !step( World::EV_EMPTY, r, verbose ) ) return false;
    for ( int i = 0; i < ( s >= PS_RING_1 && s <= PS_RING_4 ? s - PS_RING_1 + 1 : 0 ); ++i ) if ( !step( rej, r, verbose ) ) return false;
    if ( s == PS_VERSION_DONE && !step( World::EV_FIRST_BURST + 1, r, verbose ) ) return false;
    if ( s == PS_SECOND_CONNECTION )
    {
        if ( !step( World::EV_FIRST_BURST + 3, r, verbose ) ) return false;     // [TERMINATE_IND]
        if ( !step( World::EV_CONNECT, r, verbose ) ) return false;
        if ( !step( World::EV_EMPTY, r, verbose ) ) return false;
    }
    return true;
}

product_result run_burst( const burst& b, bool verbose )
{
    product_result r;
    w.bursts.push_back( b );
    const int ev = w.num_events() - 1;
    bool go = step( ev, r, verbose );
    w.bursts.pop_back();
    // epilogue: let a deferred update take effect and blocked PDUs be handled, then terminate
    for ( int i = 0; go && r.sig.empty() && i != 3 && w.ref.phase == 2; ++i ) go = step( World::EV_EMPTY, r, verbose );
    if ( go && r.sig.empty() && w.ref.phase == 2 ) step( World::EV_FIRST_BURST + 3, r, verbose );
    if ( r.sig.empty() )
    {
        // still connected: control PDUs are blocked behind a deferred LL_CONNECTION_UPDATE_IND (instant handling is C21's subject)
        r.kind = w.ref.phase != 0 ? "blocked behind a deferred update" : log_text();
    }
    return r;
}

void part_b( const mc::Args& a, mc::Report& rep )
{
    mc::Regions regs; w.regions( regs );
    std::vector< std::uint8_t > img( regs.size() );
    std::set< std::string > shapes;
    for ( int s = 0; s != PS_COUNT; ++s )
    {
        product_result pr;
        if ( !prepare( s, pr, false ) ) { rep.fail( pr.sig.empty() ? "harness:state-not-reachable" : pr.sig, std::string( prepared_name( s ) ) + ": " + pr.detail, { mc::fmt( "prepare %d", s ) } ); continue; }
        regs.save( img.data() );
        const unsigned max_len = 6;
        const unsigned log_base = rec.n;
        for ( unsigned len = 1; len <= max_len; ++len )
        {
            unsigned total = 1; for ( unsigned i = 0; i != len; ++i ) total *= P_KINDS;
            for ( unsigned code = 0; code != total; ++code )
            {
                burst b; b.n = std::uint8_t( len );
                unsigned x = code; for ( unsigned i = 0; i != len; ++i ) { b.k[ i ] = std::uint8_t( x % P_KINDS ); x /= P_KINDS; }
                regs.load( img.data() );
                product_result r;
                const std::string g = mc::Guard::call( [&]{ r = run_burst( b, false ); } );
                ++rep.evaluations; ++rep.traces_validated;
                // the first line is what --replay parses; the others describe the case (and give the trace its real length)
                const std::vector< std::string > stepl = { mc::fmt( "burst %d %u %u", s, len, code ), std::string( "# prepared state: " ) + prepared_name( s ),
                                                           "# one connection event with " + burst_text( b ), "# then empty events and LL_TERMINATE_IND" };
                if ( !g.empty() ) { rep.fail( "crash:" + g, burst_text( b ), stepl ); continue; }
                if ( !r.sig.empty() ) rep.fail( r.sig, std::string( prepared_name( s ) ) + ", " + burst_text( b ) + ": " + r.detail, stepl );
                else { if ( shapes.size() < 4000 ) shapes.insert( log_text( log_base ) ); if ( r.kind == "blocked behind a deferred update" ) ++rep.counters[ "bursts that end blocked behind a deferred update (C21)" ]; }
                if ( a.expired() ) { rep.exhaustive = false; rep.notes[ "cut-b" ] = "deadline hit in part B"; return; }
            }
        }
        ++rep.counters[ "prepared states" ];
    }
    rep.counters[ "distinct callback logs (part B)" ] = shapes.size();
    unsigned n = 0;
    for ( auto& sh : shapes ) { if ( n++ % ( shapes.size() / 12 + 1 ) == 0 ) rep.cls( "log: " + sh ); }
}

int replay( const mc::Args& a, mc::Report& rep )
{
    const mc::ReplayFile rf = mc::read_replay( a.replay );
    if ( rf.steps.empty() ) return 0;
    int s; unsigned len, code;
    if ( sscanf( rf.steps[ 0 ].c_str(), "burst %d %u %u", &s, &len, &code ) == 3 )
    {
        product_result pr;
        printf( "state: %s\n", prepared_name( s ) );
        if ( !prepare( s, pr, true ) ) { printf( "state not reachable: %s %s\n", pr.sig.c_str(), pr.detail.c_str() ); return pr.sig == rf.sig; }
        burst b; b.n = std::uint8_t( len );
        unsigned x = code; for ( unsigned i = 0; i != len; ++i ) { b.k[ i ] = std::uint8_t( x % P_KINDS ); x /= P_KINDS; }
        const product_result r = run_burst( b, true );
        printf( "%s %s\n", r.sig.empty() ? "ok" : r.sig.c_str(), r.detail.c_str() );
        if ( r.sig == rf.sig ) { printf( "REPRODUCED %s\n", rf.sig.c_str() ); return 1; }
        printf( "not reproduced\n" ); return 0;
    }
    mc::Bfs< World > replayer( w, rep, a );
    return replayer.replay_file( rf );
}

} // namespace

int main( int argc, char** argv )
{
    mc::Args a = mc::parse_args( argc, argv );
    mc::Report rep; rep.property = "C29";
    rep.unit = a.opt.count( "unit" ) ? a.opt[ "unit" ] : "C29_connection_callbacks";
    if ( !a.replay.empty() ) return replay( a, rep );
    const int depth = int( a.num( "depth", a.thorough() ? 9 : 6 ) );

    explore::Dfs< World > dfs( w, rep, a, depth );
    rep.counters[ "bytes per state" ] = dfs.isz;
    dfs.run();
    part_b( a, rep );
    rep.notes[ "bound" ] = mc::fmt( "part A: all sequences of %d events up to length %d; part B: all bursts of length 1..6 over 6 PDU kinds from %d prepared states", w.num_events(), depth, int( PS_COUNT ) );
    rep.notes[ "states" ] = "states = nodes of the sequence tree (byte images are not merged)";
    rep.write( a );
    return 0;
}
