// Shared by C09 / C10 / C11: generated bluetoe::server<> configurations with N notify / indicate characteristics,
// with and without outgoing priorities, together with an *independent* description of the layout (which characteristic
// sits in which service) from which the harnesses derive reference handles.  Nothing in here looks at bluetoe's
// meta data: the reference handles follow from the GATT rule "service declaration, then per characteristic:
// declaration, value, CCCD", numbered consecutively from 1.
#ifndef VERIF_C09_NOTIFY_SERVERS_HPP
#define VERIF_C09_NOTIFY_SERVERS_HPP

#include "../mc/mc.hpp"
#include <cstdint>
#include <tuple>
#include <utility>
#include <bluetoe/server.hpp>
#include <bluetoe/service.hpp>
#include <bluetoe/characteristic.hpp>
#include <bluetoe/gatt_options.hpp>
#include <bluetoe/outgoing_priority.hpp>
#include <bluetoe/link_state.hpp>

namespace nsrv {

    // bound values: one object per characteristic (a variable template specialisation is a complete object, so its address
    // is a valid template argument); characteristic I initially holds 0x10 + I
    template < int I > inline std::uint8_t val = std::uint8_t( 0x10 + I );

    template < int I > using cuuid = bluetoe::characteristic_uuid16< 0xFF00 + I >;
    template < int S > using suuid = bluetoe::service_uuid16< 0xAA00 + S >;

    // kind of characteristic: bit 0 = notify, bit 1 = indicate
    enum { k_notify = 1, k_indicate = 2, k_both = 3 };

    // mixed kinds: characteristic I is notify-only, indicate-only, both, notify-only ...
    // uuid_of( i ): characteristic i carries the UUID cuuid< uuid_of( i ) > ( == i unless a configuration duplicates a UUID )
    struct mixed_kinds { static constexpr int of( int i ) { return i % 3 == 0 ? k_notify : i % 3 == 1 ? k_indicate : k_both; }
                         static constexpr int uuid_of( int i ) { return i; } };
    struct all_both    { static constexpr int of( int )   { return k_both; }
                         static constexpr int uuid_of( int i ) { return i; } };
    // characteristic 2 ( notify + indicate ) has the UUID of characteristic 0 ( notify only )
    struct dup_kinds   { static constexpr int of( int i ) { return i % 3 == 0 ? k_notify : i % 3 == 1 ? k_indicate : k_both; }
                         static constexpr int uuid_of( int i ) { return i == 2 ? 0 : i; } };

    template < int I, int Kind, int U > struct mk_char;
    template < int I, int U > struct mk_char< I, k_notify, U >
    { using type = bluetoe::characteristic< cuuid< U >, bluetoe::bind_characteristic_value< std::uint8_t, &val< I > >, bluetoe::notify >; };
    template < int I, int U > struct mk_char< I, k_indicate, U >
    { using type = bluetoe::characteristic< cuuid< U >, bluetoe::bind_characteristic_value< std::uint8_t, &val< I > >, bluetoe::indicate >; };
    template < int I, int U > struct mk_char< I, k_both, U >
    { using type = bluetoe::characteristic< cuuid< U >, bluetoe::bind_characteristic_value< std::uint8_t, &val< I > >, bluetoe::notify, bluetoe::indicate >; };

    template < class Kinds, int I > using char_t = typename mk_char< I, Kinds::of( I ), Kinds::uuid_of( I ) >::type;

    // service S with the characteristics First .. First+Count-1 and additional service options ( priorities )
    template < class Kinds, int S, int First, class Seq, class... Opts > struct mk_service;
    template < class Kinds, int S, int First, std::size_t... J, class... Opts >
    struct mk_service< Kinds, S, First, std::index_sequence< J... >, Opts... >
    { using type = bluetoe::service< suuid< S >, char_t< Kinds, First + int( J ) >..., Opts... >; };

    template < class Kinds, int S, int First, int Count, class... Opts >
    using service_t = typename mk_service< Kinds, S, First, std::make_index_sequence< Count >, Opts... >::type;

    template < class... U > using hop = bluetoe::higher_outgoing_priority< U... >;

    // reference layout: per service, in declaration order, the number of notify / indicate characteristics and the number
    // of include declarations.  GATT: handles are consecutive from 1; a service costs its declaration plus one attribute
    // per include, every one of our characteristics three ( declaration, value, CCCD ).  Services without such
    // characteristics ( targets of includes ) are declared behind all others, so they do not move any handle.
    template < int Chars, int Includes > struct sv {};

    template < class... S > struct layout_s;
    template < int... Counts, int... Inc >
    struct layout_s< sv< Counts, Inc >... >
    {
        static constexpr int nsvc = sizeof...( Counts );
        static constexpr int n    = ( 0 + ... + Counts );
        static int service_of( int k ) { const int c[] = { Counts... }; int s = 0; while ( k >= c[ s ] ) { k -= c[ s ]; ++s; } return s; }
        static int service_attributes_upto( int s ) { const int inc[] = { Inc... }; int a = 0; for ( int i = 0; i <= s; ++i ) a += 1 + inc[ i ]; return a; }
        static std::uint16_t decl_handle( int k )  { return std::uint16_t( 1 + service_attributes_upto( service_of( k ) ) + 3 * k ); }
        static std::uint16_t value_handle( int k ) { return std::uint16_t( decl_handle( k ) + 1 ); }
        static std::uint16_t cccd_handle( int k )  { return std::uint16_t( decl_handle( k ) + 2 ); }
        static int by_value_handle( std::uint16_t h ) { for ( int k = 0; k != n; ++k ) if ( value_handle( k ) == h ) return k; return -1; }
        // what else a handle is ( for signatures )
        static const char* classify( std::uint16_t h )
        {
            for ( int k = 0; k != n; ++k )
            {
                if ( h == value_handle( k ) ) return "characteristic-value";
                if ( h == decl_handle( k ) )  return "characteristic-declaration";
                if ( h == cccd_handle( k ) )  return "cccd";
            }
            return h != 0 && h < decl_handle( n - 1 ) ? "service-or-include-declaration" : "other";
        }
    };
    template < int... Counts > using layout = layout_s< sv< Counts, 0 >... >;

    // a configuration: the server type (without harness specific options), its reference layout, kinds, and a name
    template < class Server, class Layout, class Kinds, bool Prio >
    struct config
    {
        using server = Server;
        using lay    = Layout;
        using kinds  = Kinds;
        static constexpr int  n = Layout::n;
        static constexpr bool has_priorities = Prio;
    };

    using nogap = bluetoe::no_gap_service_for_gatt_servers;

    // ---- configurations --------------------------------------------------------------------------------------------------
    // suffix p0: no priorities; p1: one service, service level priorities naming characteristics in non declaration order;
    // p2: several services with server level (and service level) priorities
    template < class K, class... X > using n1_p0 = config< bluetoe::server< service_t< K, 0, 0, 1 >, nogap, X... >, layout< 1 >, K, false >;
    template < class K, class... X > using n1_p1 = config< bluetoe::server< service_t< K, 0, 0, 1, hop< cuuid< 0 > > >, nogap, X... >, layout< 1 >, K, true >;

    template < class K, class... X > using n3_p0 = config< bluetoe::server< service_t< K, 0, 0, 3 >, nogap, X... >, layout< 3 >, K, false >;
    template < class K, class... X > using n3_p1 = config< bluetoe::server< service_t< K, 0, 0, 3, hop< cuuid< 2 >, cuuid< 1 > > >, nogap, X... >, layout< 3 >, K, true >;
    template < class K, class... X > using n3_p2 = config< bluetoe::server<
            service_t< K, 0, 0, 1 >, service_t< K, 1, 1, 2, hop< cuuid< 2 > > >, hop< suuid< 1 > >, nogap, X... >, layout< 1, 2 >, K, true >;
    // with the default GAP service appended by the server
    template < class K, class... X > using n3_p1gap = config< bluetoe::server< service_t< K, 0, 0, 3, hop< cuuid< 1 > > >, X... >, layout< 3 >, K, true >;

    template < class K, class... X > using n4_p0 = config< bluetoe::server< service_t< K, 0, 0, 4 >, nogap, X... >, layout< 4 >, K, false >;
    template < class K, class... X > using n4_p1 = config< bluetoe::server< service_t< K, 0, 0, 4, hop< cuuid< 3 >, cuuid< 1 > > >, nogap, X... >, layout< 4 >, K, true >;
    template < class K, class... X > using n4_p2 = config< bluetoe::server<
            service_t< K, 0, 0, 2, hop< cuuid< 1 > > >, service_t< K, 1, 2, 2 >, hop< suuid< 1 > >, nogap, X... >, layout< 2, 2 >, K, true >;

    template < class K, class... X > using n5_p0 = config< bluetoe::server< service_t< K, 0, 0, 5 >, nogap, X... >, layout< 5 >, K, false >;
    template < class K, class... X > using n5_p1 = config< bluetoe::server< service_t< K, 0, 0, 5, hop< cuuid< 4 >, cuuid< 2 > > >, nogap, X... >, layout< 5 >, K, true >;
    template < class K, class... X > using n5_p2 = config< bluetoe::server<
            service_t< K, 0, 0, 3, hop< cuuid< 2 > > >, service_t< K, 1, 3, 2, hop< cuuid< 4 > > >, hop< suuid< 1 > >, nogap, X... >, layout< 3, 2 >, K, true >;

    template < class K, class... X > using n8_p0 = config< bluetoe::server< service_t< K, 0, 0, 8 >, nogap, X... >, layout< 8 >, K, false >;
    template < class K, class... X > using n8_p1 = config< bluetoe::server< service_t< K, 0, 0, 8, hop< cuuid< 7 >, cuuid< 3 >, cuuid< 5 > > >, nogap, X... >, layout< 8 >, K, true >;
    template < class K, class... X > using n8_p2 = config< bluetoe::server<
            service_t< K, 0, 0, 4, hop< cuuid< 3 >, cuuid< 0 > > >, service_t< K, 1, 4, 4, hop< cuuid< 6 > > >, hop< suuid< 1 > >, nogap, X... >, layout< 4, 4 >, K, true >;

    template < class K, class... X > using n9_p0 = config< bluetoe::server< service_t< K, 0, 0, 9 >, nogap, X... >, layout< 9 >, K, false >;
    template < class K, class... X > using n9_p1 = config< bluetoe::server< service_t< K, 0, 0, 9, hop< cuuid< 8 >, cuuid< 4 >, cuuid< 0 >, cuuid< 6 > > >, nogap, X... >, layout< 9 >, K, true >;
    template < class K, class... X > using n9_p2 = config< bluetoe::server<
            service_t< K, 0, 0, 3, hop< cuuid< 1 > > >, service_t< K, 1, 3, 3 >, service_t< K, 2, 6, 3, hop< cuuid< 8 >, cuuid< 7 > > >,
            hop< suuid< 2 >, suuid< 1 > >, nogap, X... >, layout< 3, 3, 3 >, K, true >;

    // ---- services with include declarations -----------------------------------------------------------------------------
    // targets of the includes: plain services with one read only characteristic, declared behind everything else
    template < int S > inline const std::uint8_t plain_val = std::uint8_t( 0xE0 + S );
    template < int S > using plain_service = bluetoe::service< suuid< S >,
        bluetoe::characteristic< bluetoe::characteristic_uuid16< 0xEE00 + S >, bluetoe::bind_characteristic_value< const std::uint8_t, &plain_val< S > > > >;
    template < int S > using inc = bluetoe::include_service< suuid< S > >;

    // one include declaration in the service in front and in the notifying service
    template < class K, class... X > using n3_i1 = config< bluetoe::server<
            service_t< K, 0, 0, 1, inc< 9 > >, service_t< K, 1, 1, 2, inc< 9 > >, plain_service< 9 >, nogap, X... >, layout_s< sv< 1, 1 >, sv< 2, 1 > >, K, false >;
    // two include declarations each, plus priorities
    template < class K, class... X > using n3_i2p = config< bluetoe::server<
            service_t< K, 0, 0, 1, inc< 8 >, inc< 9 > >, service_t< K, 1, 1, 2, inc< 9 >, inc< 8 >, hop< cuuid< 2 > > >, plain_service< 8 >, plain_service< 9 >,
            hop< suuid< 1 > >, nogap, X... >, layout_s< sv< 1, 2 >, sv< 2, 2 > >, K, true >;
    // includes only in the notifying ( second ) service, 4 characteristics
    template < class K, class... X > using n4_i12 = config< bluetoe::server<
            service_t< K, 0, 0, 2, inc< 9 > >, service_t< K, 1, 2, 2, inc< 8 >, inc< 9 >, hop< cuuid< 3 > > >, plain_service< 8 >, plain_service< 9 >, nogap, X... >,
            layout_s< sv< 2, 1 >, sv< 2, 2 > >, K, true >;

    // ---- a duplicated characteristic UUID: characteristic 2 ( second service, raised priority ) has the UUID of characteristic 0.
    // server::notify< UUID >() documents: "If multiple characteristics exists with the given UUID, the first characteristic will be notified."
    template < class K, class... X > using n3_dup = config< bluetoe::server<
            service_t< dup_kinds, 0, 0, 2 >, service_t< dup_kinds, 1, 2, 1 >, hop< suuid< 1 > >, nogap, X... >, layout< 2, 1 >, dup_kinds, true >;

    // ---- compile time "for k in 0..N-1" helpers -------------------------------------------------------------------------
    // calls f.template operator()< I >() for I == k
    template < int N, class F, std::size_t... I >
    inline void dispatch_impl( int k, F& f, std::index_sequence< I... > )
    {
        using fn = void (*)( F& );
        static const fn table[] = { +[]( F& g ) { g.template call< int( I ) >(); }... };
        table[ k ]( f );
    }
    template < int N, class F > inline void dispatch( int k, F&& f ) { dispatch_impl< N >( k, f, std::make_index_sequence< N >() ); }

    template < int N, class F, std::size_t... I >
    inline void for_all_impl( F& f, std::index_sequence< I... > ) { ( f.template call< int( I ) >(), ... ); }
    template < int N, class F > inline void for_all( F&& f ) { for_all_impl< N >( f, std::make_index_sequence< N >() ); }

    inline std::uint8_t initial_value( int k ) { return std::uint8_t( 0x10 + k ); }

    namespace detail {
        struct reset_f  { template < int I > void call() { val< I > = initial_value( I ); } };
        struct get_f    { std::uint8_t v; template < int I > void call() { v = val< I >; } };
        struct set_f    { std::uint8_t v; template < int I > void call() { val< I > = v; } };
        struct region_f { mc::Regions& r; template < int I > void call() { r.add( val< I > ); } };
    }

    template < int N > inline void reset_values() { for_all< N >( detail::reset_f() ); }
    template < int N > inline std::uint8_t value_of( int k ) { detail::get_f x{ 0 }; dispatch< N >( k, x ); return x.v; }
    template < int N > inline void set_value( int k, std::uint8_t v ) { detail::set_f x{ v }; dispatch< N >( k, x ); }
    template < int N > inline void add_value_regions( mc::Regions& r ) { detail::region_f x{ r }; for_all< N >( x ); }
}

#endif
