/* Minimal host stand-in for the Nordic MDK header <nrf.h>, used only by harness/C25_scan_nrf52.cpp.
 *
 * It lets bluetoe/bindings/nordic/include/bluetoe/nrf.hpp and .../nrf52/include/bluetoe/nrf52.hpp *parse* with g++ on a
 * host.  All peripherals are inert storage; the harness never touches them: the class under test
 * ( nrf52_details::nrf52_radio_base<> ) reaches the hardware only through its `Hardware` template parameter, which the
 * harness replaces by a recording fake, and through the sleep clock option, which the harness replaces by a no-op.
 */
#ifndef VERIF_C25_STUB_NRF_H
#define VERIF_C25_STUB_NRF_H

#include <stdint.h>

#define __NVIC_PRIO_BITS 3

typedef volatile uint32_t c25_reg32;

struct NRF_CLOCK_Type
{
    c25_reg32 TASKS_HFCLKSTART, TASKS_HFCLKSTOP, TASKS_LFCLKSTART, TASKS_LFCLKSTOP;
    c25_reg32 EVENTS_HFCLKSTARTED, EVENTS_LFCLKSTARTED;
    c25_reg32 LFCLKSRC;
};

struct NRF_RTC_Type
{
    c25_reg32 TASKS_START, TASKS_STOP, TASKS_CLEAR;
    c25_reg32 EVTEN, EVTENSET, EVTENCLR;
};

struct NRF_RADIO_Type  { c25_reg32 PACKETPTR; };
struct NRF_TIMER_Type  { c25_reg32 unused; };
struct NRF_TEMP_Type   { c25_reg32 unused; };
struct NRF_CCM_Type    { c25_reg32 unused; };
struct NRF_AAR_Type    { c25_reg32 unused; };
struct NRF_PPI_Type    { c25_reg32 unused; };
struct NRF_RNG_Type    { c25_reg32 unused; };
struct NRF_ECB_Type    { c25_reg32 unused; };
struct NRF_GPIOTE_Type { c25_reg32 unused; };
struct NVIC_Type       { c25_reg32 unused; };

namespace c25_stub {
    inline NRF_CLOCK_Type  clock;
    inline NRF_RTC_Type    rtc0;
    inline NRF_RADIO_Type  radio;
    inline NRF_TIMER_Type  timer0, timer1;
    inline NRF_TEMP_Type   temp;
    inline NRF_CCM_Type    ccm;
    inline NRF_AAR_Type    aar;
    inline NRF_PPI_Type    ppi;
    inline NRF_RNG_Type    rng;
    inline NRF_ECB_Type    ecb;
    inline NRF_GPIOTE_Type gpiote;
    inline NVIC_Type       nvic;
    inline uint32_t        primask;
    inline unsigned        wfi_calls;
}

#define NRF_CLOCK   ( &c25_stub::clock )
#define NRF_RTC0    ( &c25_stub::rtc0 )
#define NRF_RADIO   ( &c25_stub::radio )
#define NRF_TIMER0  ( &c25_stub::timer0 )
#define NRF_TIMER1  ( &c25_stub::timer1 )
#define NRF_TEMP    ( &c25_stub::temp )
#define NRF_CCM     ( &c25_stub::ccm )
#define NRF_AAR     ( &c25_stub::aar )
#define NRF_PPI     ( &c25_stub::ppi )
#define NRF_RNG     ( &c25_stub::rng )
#define NRF_ECB     ( &c25_stub::ecb )
#define NRF_GPIOTE  ( &c25_stub::gpiote )
#define NVIC        ( &c25_stub::nvic )

inline uint32_t __get_PRIMASK()            { return c25_stub::primask; }
inline void     __set_PRIMASK( uint32_t v ) { c25_stub::primask = v; }
inline void     __disable_irq()            { c25_stub::primask = 1; }
inline void     __enable_irq()             { c25_stub::primask = 0; }
inline void     __WFI()                    { ++c25_stub::wfi_calls; }

/* bit field constants used by inline functions of nrf.hpp (values as in the nRF52 MDK) */
#define RTC_EVTEN_COMPARE0_Pos          (16UL)
#define RTC_EVTEN_COMPARE0_Enabled      (1UL)
#define RTC_EVTEN_COMPARE1_Pos          (17UL)
#define RTC_EVTEN_COMPARE1_Enabled      (1UL)
#define RTC_EVTEN_OVRFLW_Pos            (1UL)
#define RTC_EVTEN_OVRFLW_Enabled        (1UL)

#define CLOCK_LFCLKSRCCOPY_SRC_Pos      (0UL)
#define CLOCK_LFCLKSRCCOPY_SRC_RC       (0UL)
#define CLOCK_LFCLKSRCCOPY_SRC_Xtal     (1UL)
#define CLOCK_LFCLKSRCCOPY_SRC_Synth    (2UL)

#endif
