// C05 - encryption-protected values are never exposed on an unencrypted link.
//
// One unit per server-level option (SRV_OPT 0..3 = none / requires_encryption / no_encryption_required /
// may_require_encryption).  Every server holds 4 services (service-level option 0..3) with 4 characteristics each
// (characteristic-level option 0..3), i.e. 16 of the 64 placements; the 4 units together are the full 4x4x4 product.
// Every characteristic is a bound, readable and writable std::uint8_t[4] with notify + indicate (so a CCCD exists).
//
// Phase 1 (E2): for every placement x link security state: Read of the value and of the CCCD (placement oracle).
// Phase 2 (E1): for every characteristic k an explicit-state BFS over the real server + connection + bound memory with
//   the alphabet { set link state (4), Read, Read Blob, Read By Type, Read Multiple, Write, Write Command,
//   Prepare/Execute Write, CCCD read / write, notify(), indicate(), l2cap_output, confirmation } aimed at k
//   (plus one unprotected and one protected partner for the multi-attribute requests).
//
// Reference: 'protected' follows the inheritance rule of encryption.hpp ("applies to all containing characteristics, where
// it can be overridden"): the nearest level (characteristic, then service, then server) that says requires_encryption
// or no_encryption_required decides; may_require_encryption only adds the support code and is transparent for a bound
// value (the @attention note of the docs is about handlers that decide on their own), so a characteristic or service
// marked may_require_encryption below a requiring level stays protected.  Computed here from the option numbers only.
#ifdef C05_FAST_BUILD
#pragma GCC optimize( "O0" )
#endif
#include "../mc/mc.hpp"
#include <bluetoe/server.hpp>

#ifndef SRV_OPT
#define SRV_OPT 0
#endif

namespace {

enum { O_NONE = 0, O_REQ = 1, O_NOREQ = 2, O_MAY = 3 };
const char* const opt_names[] = { "none", "req", "noreq", "may" };

template < int O, template < typename... > class T, typename... F > struct with_opt;
template < template < typename... > class T, typename... F > struct with_opt< O_NONE,  T, F... > { using type = T< F... >; };
template < template < typename... > class T, typename... F > struct with_opt< O_REQ,   T, F... > { using type = T< F..., bluetoe::requires_encryption >; };
template < template < typename... > class T, typename... F > struct with_opt< O_NOREQ, T, F... > { using type = T< F..., bluetoe::no_encryption_required >; };
template < template < typename... > class T, typename... F > struct with_opt< O_MAY,   T, F... > { using type = T< F..., bluetoe::may_require_encryption >; };

// all bound values live in one linker section = one contiguous region (complete objects are needed as template arguments)
#define ARENA __attribute__(( section( "c05_arena" ), used ))
typedef std::uint8_t val_t[ 4 ];
ARENA std::uint8_t guard_lo[ 8 ];
ARENA val_t v0;  ARENA val_t v1;  ARENA val_t v2;  ARENA val_t v3;
ARENA val_t v4;  ARENA val_t v5;  ARENA val_t v6;  ARENA val_t v7;
ARENA val_t v8;  ARENA val_t v9;  ARENA val_t v10; ARENA val_t v11;
ARENA val_t v12; ARENA val_t v13; ARENA val_t v14; ARENA val_t v15;
ARENA std::uint8_t guard_hi[ 8 ];
extern "C" std::uint8_t __start_c05_arena[], __stop_c05_arena[];
val_t* const vals[ 16 ] = { &v0, &v1, &v2, &v3, &v4, &v5, &v6, &v7, &v8, &v9, &v10, &v11, &v12, &v13, &v14, &v15 };

constexpr std::uint16_t value_uuid = 0xFE01;

template < int C, val_t* P >
using chr = typename with_opt< C, bluetoe::characteristic,
    bluetoe::characteristic_uuid16< value_uuid >,
    bluetoe::bind_characteristic_value< val_t, P >,
    bluetoe::notify, bluetoe::indicate >::type;

template < int S, val_t* P0, val_t* P1, val_t* P2, val_t* P3 >
using svc = typename with_opt< S, bluetoe::service,
    bluetoe::service_uuid16< 0xA000 + S >,
    chr< 0, P0 >, chr< 1, P1 >, chr< 2, P2 >, chr< 3, P3 > >::type;

using server_t = typename with_opt< SRV_OPT, bluetoe::server,
    bluetoe::no_gap_service_for_gatt_servers,
    bluetoe::shared_write_queue< 24 >,
    svc< 0, &v0, &v1, &v2, &v3 >,
    svc< 1, &v4, &v5, &v6, &v7 >,
    svc< 2, &v8, &v9, &v10, &v11 >,
    svc< 3, &v12, &v13, &v14, &v15 > >::type;

using conn_t = server_t::channel_data_t< bluetoe::details::link_state >;

constexpr int NCHR = 16;
constexpr std::size_t MTU = 23;

// attribute layout (no fixed handles: handle = index + 1); verified through ATT at start up
inline std::uint16_t svc_handle( int k )  { return std::uint16_t( 1 + 13 * ( k / 4 ) ); }
inline std::uint16_t decl_handle( int k ) { return std::uint16_t( svc_handle( k ) + 1 + 3 * ( k % 4 ) ); }
inline std::uint16_t val_handle( int k )  { return std::uint16_t( decl_handle( k ) + 1 ); }
inline std::uint16_t cccd_handle( int k ) { return std::uint16_t( decl_handle( k ) + 2 ); }
inline std::uint8_t  tag( int k )         { return std::uint8_t( 0xB0 + k ); }   // recognisable: 0xB0..0xBF and complement 0x40..0x4F

// ---- reference (documentation only) -------------------------------------------------------------------------------
inline int opt_srv( int )   { return SRV_OPT; }
inline int opt_svc( int k ) { return k / 4; }
inline int opt_chr( int k ) { return k % 4; }
inline bool decides( int o ) { return o == O_REQ || o == O_NOREQ; }
inline int deciding_level( int k )   // 0 characteristic, 1 service, 2 server, 3 nobody
{
    return decides( opt_chr( k ) ) ? 0 : decides( opt_svc( k ) ) ? 1 : decides( opt_srv( k ) ) ? 2 : 3;
}
inline bool ref_protected( int k )
{
    switch ( deciding_level( k ) )
    {
    case 0:  return opt_chr( k ) == O_REQ;
    case 1:  return opt_svc( k ) == O_REQ;
    case 2:  return opt_srv( k ) == O_REQ;
    default: return false;
    }
}
// a may_require_encryption option sits between the characteristic and the level that decides (or on the characteristic)
inline bool through_may( int k )
{
    const int d = deciding_level( k );
    return ( d > 0 && opt_chr( k ) == O_MAY ) || ( d > 1 && opt_svc( k ) == O_MAY );
}
const char* const level_names[] = { "characteristic", "service", "server", "nobody" };
inline std::string placement( int k ) { return mc::fmt( "srv=%s,svc=%s,chr=%s", opt_names[ opt_srv( k ) ], opt_names[ opt_svc( k ) ], opt_names[ opt_chr( k ) ] ); }

// ---- link security states ------------------------------------------------------------------------------------------
enum { L_NOKEY = 0, L_UNAUTH = 1, L_AUTH = 2, L_ENC = 3 };
const char* const link_names[] = { "unenc-nokey", "unenc-unauthkey", "unenc-authkey", "encrypted" };
inline std::uint8_t want_code( int link ) { return link == L_NOKEY ? 0x05 : 0x0F; }

// ---- events --------------------------------------------------------------------------------------------------------
enum Kind {
    K_LINK, K_READ, K_READ_BLOB, K_RBT, K_RBT_CCCD, K_READ_MULTIPLE, K_WRITE, K_WRITE_CMD, K_PREPARE, K_EXECUTE,
    K_CCCD_READ, K_CCCD_READ_BLOB, K_CCCD_WRITE, K_CCCD_WRITE_CMD, K_NOTIFY, K_INDICATE, K_OUTPUT, K_CONFIRM
};
const char* const kind_names[] = {
    "link", "read", "read-blob", "read-by-type", "cccd-read-by-type", "read-multiple", "write", "write-command", "prepare-write", "execute-write",
    "cccd-read", "cccd-read-blob", "cccd-write", "cccd-write-command", "notify", "indicate", "output", "confirmation"
};

struct Event { Kind kind; int a, b, c; std::string text; };

struct World
{
    int k = 0;                        // target characteristic of this exploration
    int j_free = -1, j_prot = -1;     // partners for multi attribute requests
    bool unenforced[ 16 ] = {};       // placements that failed phase 1: reported there, not judged again by the global oracles
    bool watch( int m ) const { return ref_protected( m ) && !unenforced[ m ]; }
    std::vector< Event > events;

    mc::Placed< server_t > srv;
    mc::Placed< conn_t >   con;
    struct Ref { std::uint8_t link; std::uint8_t pad[ 7 ]; } ref;

    static bool l2cap_cb( const bluetoe::details::notification_data& item, void* arg, bluetoe::details::notification_type type )
    {
        conn_t& c = *static_cast< conn_t* >( arg );
        switch ( type )
        {
        case bluetoe::details::notification_type::notification: return c.queue_notification( item.client_characteristic_configuration_index() );
        case bluetoe::details::notification_type::indication:   return c.queue_indication( item.client_characteristic_configuration_index() );
        case bluetoe::details::notification_type::confirmation: c.indication_confirmed(); return true;
        }
        return true;
    }

    void set_link( int l )
    {
        ref.link = std::uint8_t( l );
        con->is_encrypted( l == L_ENC );
        con->pairing_status( l == L_NOKEY ? bluetoe::device_pairing_status::no_key
                           : l == L_AUTH  ? bluetoe::device_pairing_status::authenticated_key
                                          : bluetoe::device_pairing_status::unauthenticated_key );
    }

    void init()
    {
        memset( __start_c05_arena, 0xEE, std::size_t( __stop_c05_arena - __start_c05_arena ) );
        for ( int m = 0; m != NCHR; ++m )
            for ( int i = 0; i != 4; ++i )
                ( *vals[ m ] )[ i ] = ( i & 1 ) ? std::uint8_t( ~tag( m ) ) : tag( m );
        srv.construct();
        con.construct();
        srv->notification_callback( &l2cap_cb, con.raw );
        memset( &ref, 0, sizeof ref );
        set_link( L_ENC );
    }

    void regions( mc::Regions& r )
    {
        r.add( srv.raw, sizeof srv.raw );
        r.add( con.raw, sizeof con.raw );
        r.add( __start_c05_arena, std::size_t( __stop_c05_arena - __start_c05_arena ) );
        r.add( ref );
    }

    void target( int k_ )
    {
        k = k_;
        j_free = j_prot = -1;
        for ( int m = 0; m != NCHR; ++m )
        {
            if ( m == k ) continue;
            if ( j_free < 0 && !ref_protected( m ) ) j_free = m;
            if ( j_prot < 0 && watch( m ) ) j_prot = m;
        }
        events.clear();
        auto add = [&]( Kind kd, int a, int b, int c, const std::string& t ) { events.push_back( Event{ kd, a, b, c, mc::fmt( "k=%d ", k ) + t } ); };
        for ( int l = 0; l != 4; ++l ) add( K_LINK, l, 0, 0, std::string( "link:=" ) + link_names[ l ] );
        add( K_READ, 0, 0, 0, mc::fmt( "Read(value 0x%02x)", val_handle( k ) ) );
        for ( int off : { 0, 1, 4 } ) add( K_READ_BLOB, off, 0, 0, mc::fmt( "ReadBlob(value 0x%02x, offset %d)", val_handle( k ), off ) );
        add( K_RBT, val_handle( k ), val_handle( k ), 0, mc::fmt( "ReadByType(0x%02x..0x%02x, value uuid)", val_handle( k ), val_handle( k ) ) );
        add( K_RBT, val_handle( k ), 0xFFFF, 0, mc::fmt( "ReadByType(0x%02x..0xffff, value uuid)", val_handle( k ) ) );
        add( K_RBT, 1, 0xFFFF, 0, "ReadByType(0x0001..0xffff, value uuid)" );
        add( K_RBT_CCCD, cccd_handle( k ), cccd_handle( k ), 0, mc::fmt( "ReadByType(0x%02x..0x%02x, 0x2902)", cccd_handle( k ), cccd_handle( k ) ) );
        add( K_RBT_CCCD, 1, 0xFFFF, 0, "ReadByType(0x0001..0xffff, 0x2902)" );
        if ( j_free >= 0 )
        {
            add( K_READ_MULTIPLE, val_handle( k ), val_handle( j_free ), 0, mc::fmt( "ReadMultiple(value 0x%02x, free value 0x%02x)", val_handle( k ), val_handle( j_free ) ) );
            add( K_READ_MULTIPLE, val_handle( j_free ), val_handle( k ), 0, mc::fmt( "ReadMultiple(free value 0x%02x, value 0x%02x)", val_handle( j_free ), val_handle( k ) ) );
            add( K_READ_MULTIPLE, val_handle( j_free ), cccd_handle( k ), 0, mc::fmt( "ReadMultiple(free value 0x%02x, cccd 0x%02x)", val_handle( j_free ), cccd_handle( k ) ) );
        }
        if ( j_prot >= 0 )
            add( K_READ_MULTIPLE, val_handle( j_prot ), val_handle( k ), 0, mc::fmt( "ReadMultiple(protected value 0x%02x, value 0x%02x)", val_handle( j_prot ), val_handle( k ) ) );
        add( K_READ_MULTIPLE, val_handle( k ), cccd_handle( k ), 0, mc::fmt( "ReadMultiple(value 0x%02x, cccd 0x%02x)", val_handle( k ), cccd_handle( k ) ) );
        add( K_WRITE, 4, 0, 0, mc::fmt( "Write(value 0x%02x, 4 bytes)", val_handle( k ) ) );
        add( K_WRITE, 0, 0, 0, mc::fmt( "Write(value 0x%02x, 0 bytes)", val_handle( k ) ) );
        add( K_WRITE_CMD, 4, 0, 0, mc::fmt( "WriteCommand(value 0x%02x, 4 bytes)", val_handle( k ) ) );
        add( K_PREPARE, 0, 4, 0, mc::fmt( "PrepareWrite(value 0x%02x, offset 0, 4 bytes)", val_handle( k ) ) );
        add( K_PREPARE, 2, 2, 0, mc::fmt( "PrepareWrite(value 0x%02x, offset 2, 2 bytes)", val_handle( k ) ) );
        add( K_EXECUTE, 1, 0, 0, "ExecuteWrite(1)" );
        add( K_EXECUTE, 0, 0, 0, "ExecuteWrite(0)" );
        add( K_CCCD_READ, 0, 0, 0, mc::fmt( "Read(cccd 0x%02x)", cccd_handle( k ) ) );
        add( K_CCCD_READ_BLOB, 1, 0, 0, mc::fmt( "ReadBlob(cccd 0x%02x, offset 1)", cccd_handle( k ) ) );
        for ( int f : { 1, 2, 0 } ) add( K_CCCD_WRITE, f, 0, 0, mc::fmt( "Write(cccd 0x%02x, %d)", cccd_handle( k ), f ) );
        add( K_CCCD_WRITE_CMD, 3, 0, 0, mc::fmt( "WriteCommand(cccd 0x%02x, 3)", cccd_handle( k ) ) );
        add( K_NOTIFY, 0, 0, 0, "server.notify(value)" );
        add( K_INDICATE, 0, 0, 0, "server.indicate(value)" );
        add( K_OUTPUT, 0, 0, 0, "l2cap_output" );
        add( K_CONFIRM, 0, 0, 0, "Confirmation" );
    }

    int num_events() const { return int( events.size() ); }
    std::string describe( int ev ) const { return events[ std::size_t( ev ) ].text; }

    // ---- helpers
    std::uint8_t out[ 64 ];
    std::size_t  out_size = 0;

    void request( const std::vector< std::uint8_t >& pdu )
    {
        memset( out, 0, sizeof out );
        out_size = MTU;
        srv->l2cap_input( pdu.data(), pdu.size(), out, out_size, con.get() );
    }

    std::uint16_t cccd_flags( int m ) { return con->client_configurations().flags( std::size_t( m ) ); }

    bool is_error( std::uint8_t op, std::uint16_t handle, std::uint8_t code ) const
    {
        return out_size == 5 && out[ 0 ] == 0x01 && out[ 1 ] == op && out[ 2 ] == ( handle & 0xff ) && out[ 3 ] == ( handle >> 8 ) && out[ 4 ] == code;
    }

    std::string response_class() const
    {
        if ( out_size == 0 ) return "silent";
        if ( out[ 0 ] == 0x01 && out_size == 5 ) return mc::fmt( "err%02x", out[ 4 ] );
        return mc::fmt( "rsp%02x", out[ 0 ] );
    }

    bool contains_tag( int m ) const
    {
        for ( std::size_t i = 0; i != out_size; ++i )
            if ( out[ i ] == tag( m ) || out[ i ] == std::uint8_t( ~tag( m ) ) ) return true;
        return false;
    }

    // single attribute request against an attribute of k that is protected on an unencrypted link: exactly the documented error
    void expect_refusal( mc::Ctx& c, const char* kind, bool is_read, std::uint8_t op, std::uint16_t handle )
    {
        const std::uint8_t want = want_code( ref.link );
        if ( is_error( op, handle, want ) ) return;
        if ( out_size == 5 && out[ 0 ] == 0x01 )
            c.fail( mc::fmt( "wrong-error-code:%s:got-%02x-want-%02x", kind, out[ 4 ], want ),
                    mc::fmt( "%s, link %s: %s answered with %s (expected error %02x)", placement( k ).c_str(), link_names[ ref.link ], kind, mc::hex( out, out_size ).c_str(), want ) );
        else
            c.fail( mc::fmt( "%s:%s", is_read ? "exposed" : "accepted", kind ),
                    mc::fmt( "%s, link %s: %s to a protected attribute answered with %s", placement( k ).c_str(), link_names[ ref.link ], kind, mc::hex( out, out_size ).c_str() ) );
    }

    bool apply( int evn, mc::Ctx& c )
    {
        const Event& e = events[ std::size_t( evn ) ];
        const int  link  = ref.link;
        const bool unenc = link != L_ENC;
        const char* kind = kind_names[ e.kind ];

        // pre image of everything that must not change
        std::uint8_t before_mem[ NCHR ][ 4 ]; std::uint16_t before_cccd[ NCHR ];
        for ( int m = 0; m != NCHR; ++m ) { memcpy( before_mem[ m ], *vals[ m ], 4 ); before_cccd[ m ] = cccd_flags( m ); }
        std::uint8_t before_guard[ 16 ]; memcpy( before_guard, guard_lo, 8 ); memcpy( before_guard + 8, guard_hi, 8 );

        const std::uint8_t T = tag( k ), N = std::uint8_t( ~tag( k ) );
        const std::uint16_t vh = val_handle( k ), ch = cccd_handle( k );
        const bool pk = ref_protected( k ) && unenc;
        out_size = 0;
        bool accepted_prepare = false;

        switch ( e.kind )
        {
        case K_LINK:
            if ( e.a == link ) return false;
            set_link( e.a );
            c.obs = link_names[ e.a ];
            return true;
        case K_READ:
            request( { 0x0A, std::uint8_t( vh ), std::uint8_t( vh >> 8 ) } );
            if ( pk ) expect_refusal( c, kind, true, 0x0A, vh );
            break;
        case K_READ_BLOB:
            request( { 0x0C, std::uint8_t( vh ), std::uint8_t( vh >> 8 ), std::uint8_t( e.a ), 0 } );
            if ( pk ) expect_refusal( c, kind, true, 0x0C, vh );
            break;
        case K_RBT:
            request( { 0x08, std::uint8_t( e.a ), std::uint8_t( e.a >> 8 ), std::uint8_t( e.b ), std::uint8_t( e.b >> 8 ), std::uint8_t( value_uuid & 0xff ), std::uint8_t( value_uuid >> 8 ) } );
            if ( out_size >= 2 && out[ 0 ] == 0x09 && out[ 1 ] >= 2 )
                for ( std::size_t p = 2; p + out[ 1 ] <= out_size; p += out[ 1 ] )
                    for ( int m = 0; m != NCHR; ++m )
                        if ( watch( m ) && unenc && std::uint16_t( out[ p ] | ( out[ p + 1 ] << 8 ) ) == val_handle( m ) && c.fails.empty() )
                            c.fail( "exposed:read-by-type", mc::fmt( "%s, link %s: Read By Type lists the protected value handle 0x%02x: %s", placement( m ).c_str(), link_names[ link ], val_handle( m ), mc::hex( out, out_size ).c_str() ) );
            break;
        case K_RBT_CCCD:
            request( { 0x08, std::uint8_t( e.a ), std::uint8_t( e.a >> 8 ), std::uint8_t( e.b ), std::uint8_t( e.b >> 8 ), 0x02, 0x29 } );
            if ( out_size >= 2 && out[ 0 ] == 0x09 && out[ 1 ] >= 2 )
                for ( std::size_t p = 2; p + out[ 1 ] <= out_size; p += out[ 1 ] )
                    for ( int m = 0; m != NCHR; ++m )
                        if ( watch( m ) && unenc && std::uint16_t( out[ p ] | ( out[ p + 1 ] << 8 ) ) == cccd_handle( m ) && c.fails.empty() )
                            c.fail( "cccd-exposed:read-by-type", mc::fmt( "%s, link %s: Read By Type lists the protected CCCD 0x%02x: %s", placement( m ).c_str(), link_names[ link ], cccd_handle( m ), mc::hex( out, out_size ).c_str() ) );
            break;
        case K_READ_MULTIPLE:
        {
            request( { 0x0E, std::uint8_t( e.a ), std::uint8_t( e.a >> 8 ), std::uint8_t( e.b ), std::uint8_t( e.b >> 8 ) } );
            // the set contains an attribute that must not be read: the request as a whole has to fail
            int first_protected = -1; bool first_is_cccd = false;
            for ( int h : { e.a, e.b } )
                for ( int m = 0; m != NCHR && first_protected < 0; ++m )
                    if ( watch( m ) && unenc && ( h == val_handle( m ) || h == cccd_handle( m ) ) ) { first_protected = h; first_is_cccd = h == cccd_handle( m ); }
            if ( first_protected >= 0 )
            {
                if ( !( out_size == 5 && out[ 0 ] == 0x01 && out[ 1 ] == 0x0E ) )
                    c.fail( first_is_cccd ? "cccd-exposed:read-multiple" : "exposed:read-multiple",
                            mc::fmt( "%s, link %s: Read Multiple over a protected attribute (0x%02x) answered with %s", placement( k ).c_str(), link_names[ link ], first_protected, mc::hex( out, out_size ).c_str() ) );
                else if ( ( out[ 2 ] | ( out[ 3 ] << 8 ) ) == first_protected && out[ 4 ] != want_code( link ) )
                    c.fail( mc::fmt( "wrong-error-code:read-multiple:got-%02x-want-%02x", out[ 4 ], want_code( link ) ),
                            mc::fmt( "%s, link %s: %s", placement( k ).c_str(), link_names[ link ], mc::hex( out, out_size ).c_str() ) );
            }
            break;
        }
        case K_WRITE:
        {
            std::vector< std::uint8_t > pdu{ 0x12, std::uint8_t( vh ), std::uint8_t( vh >> 8 ) };
            if ( e.a == 4 ) { pdu.push_back( N ); pdu.push_back( T ); pdu.push_back( N ); pdu.push_back( T ); }
            request( pdu );
            if ( pk ) expect_refusal( c, kind, false, 0x12, vh );
            break;
        }
        case K_WRITE_CMD:
            request( { 0x52, std::uint8_t( vh ), std::uint8_t( vh >> 8 ), T, T, N, N } );
            break;
        case K_PREPARE:
        {
            std::vector< std::uint8_t > pdu{ 0x16, std::uint8_t( vh ), std::uint8_t( vh >> 8 ), std::uint8_t( e.a ), 0 };
            for ( int i = 0; i != e.b; ++i ) pdu.push_back( i < e.b / 2 ? N : T );
            request( pdu );
            accepted_prepare = out_size != 0 && out[ 0 ] == 0x17;
            if ( pk ) expect_refusal( c, kind, false, 0x16, vh );
            break;
        }
        case K_EXECUTE:
            request( { 0x18, std::uint8_t( e.a ) } );
            break;
        case K_CCCD_READ:
            request( { 0x0A, std::uint8_t( ch ), std::uint8_t( ch >> 8 ) } );
            if ( pk ) expect_refusal( c, kind, true, 0x0A, ch );
            break;
        case K_CCCD_READ_BLOB:
            request( { 0x0C, std::uint8_t( ch ), std::uint8_t( ch >> 8 ), std::uint8_t( e.a ), 0 } );
            if ( pk ) expect_refusal( c, kind, true, 0x0C, ch );
            break;
        case K_CCCD_WRITE:
            request( { 0x12, std::uint8_t( ch ), std::uint8_t( ch >> 8 ), std::uint8_t( e.a ), 0 } );
            if ( pk ) expect_refusal( c, kind, false, 0x12, ch );
            break;
        case K_CCCD_WRITE_CMD:
            request( { 0x52, std::uint8_t( ch ), std::uint8_t( ch >> 8 ), std::uint8_t( e.a ), 0 } );
            break;
        case K_NOTIFY:
            c.obs = srv->notify( *vals[ k ] ) ? "queued" : "not-queued";
            break;
        case K_INDICATE:
            c.obs = srv->indicate( *vals[ k ] ) ? "queued" : "not-queued";
            break;
        case K_OUTPUT:
            memset( out, 0, sizeof out );
            out_size = MTU;
            srv->l2cap_output( out, out_size, con.get() );
            if ( out_size > MTU ) { c.fail( "output-larger-than-buffer", mc::fmt( "l2cap_output returned size %zu", out_size ) ); out_size = MTU; }
            kind = out_size == 0 ? "output" : out[ 0 ] == 0x1B ? "notification" : out[ 0 ] == 0x1D ? "indication" : "output";
            break;
        case K_CONFIRM:
            request( { 0x1E } );
            break;
        }

        if ( e.kind != K_NOTIFY && e.kind != K_INDICATE ) c.obs = mc::hex( out, out_size );

        // global oracles: no byte of a protected value in anything that leaves the server on an unencrypted link,
        // nothing protected is modified
        if ( unenc )
            for ( int m = 0; m != NCHR; ++m )
            {
                if ( !watch( m ) ) continue;
                if ( !c.fails.empty() ) break;
                if ( !( e.kind == K_PREPARE && accepted_prepare ) && contains_tag( m ) )
                    c.fail( mc::fmt( "exposed:%s", kind ),
                            mc::fmt( "%s, link %s: %s carries bytes of the protected value: %s", placement( m ).c_str(), link_names[ link ], kind, mc::hex( out, out_size ).c_str() ) );
                else if ( memcmp( before_mem[ m ], *vals[ m ], 4 ) != 0 )
                    c.fail( mc::fmt( "modified:%s", kind ),
                            mc::fmt( "%s, link %s: %s changed the protected value %s -> %s", placement( m ).c_str(), link_names[ link ], kind, mc::hex( before_mem[ m ], 4 ).c_str(), mc::hex( *vals[ m ], 4 ).c_str() ) );
                else if ( before_cccd[ m ] != cccd_flags( m ) )
                    c.fail( mc::fmt( "cccd-modified:%s", kind ),
                            mc::fmt( "%s, link %s: %s changed the protected client configuration %u -> %u", placement( m ).c_str(), link_names[ link ], kind, before_cccd[ m ], cccd_flags( m ) ) );
            }
        if ( c.fails.empty() && ( memcmp( before_guard, guard_lo, 8 ) != 0 || memcmp( before_guard + 8, guard_hi, 8 ) != 0 ) )
            c.fail( "stray-write:arena-guard", mc::fmt( "%s changed memory next to the bound values", kind ) );

        c.cls( mc::fmt( "%s/%s/%s/%s", kind, link_names[ link ], ref_protected( k ) ? ( through_may( k ) ? "protected-through-may" : "protected" ) : "free", response_class().c_str() ) );
        return true;
    }
};

World world;

// ---- phase 1: placement product ------------------------------------------------------------------------------------
// one case = ( characteristic m, link state l, attribute 0 value / 1 cccd ); returns false if the placement is not enforced
bool static_case( int m, int l, int attr, mc::Report& rep, bool verbose )
{
    world.target( m );
    world.init();
    world.set_link( l );
    const std::uint16_t h = attr ? cccd_handle( m ) : val_handle( m );
    world.request( { 0x0A, std::uint8_t( h ), std::uint8_t( h >> 8 ) } );
    ++rep.evaluations; ++rep.traces_validated;
    const bool refused = world.out_size == 5 && world.out[ 0 ] == 0x01;
    const std::string trace = mc::fmt( "S m=%d l=%d attr=%d  # %s, link %s, Read(%s 0x%02x)", m, l, attr, placement( m ).c_str(), link_names[ l ], attr ? "cccd" : "value", h );
    if ( verbose ) printf( "  %s -> %s\n", trace.c_str(), mc::hex( world.out, world.out_size ).c_str() );
    rep.cls( mc::fmt( "placement/%s/decided-by-%s/%s/%s/%s", ref_protected( m ) ? ( through_may( m ) ? "protected-through-may" : "protected" ) : "free",
                      level_names[ deciding_level( m ) ], attr ? "cccd" : "value", l == L_ENC ? "encrypted" : "unencrypted", world.response_class().c_str() ) );
    if ( !ref_protected( m ) || l == L_ENC ) return true;
    if ( world.is_error( 0x0A, h, want_code( l ) ) ) return true;
    std::string sig, detail = mc::fmt( "%s, link %s: Read(%s) answered with %s", placement( m ).c_str(), link_names[ l ], attr ? "cccd" : "value", mc::hex( world.out, world.out_size ).c_str() );
    if ( refused ) sig = mc::fmt( "wrong-error-code:%s:got-%02x-want-%02x", attr ? "cccd-read" : "read", world.out[ 4 ], want_code( l ) );
    else sig = mc::fmt( "placement-not-enforced:%s:decided-at-%s%s", attr ? "cccd" : "value", level_names[ deciding_level( m ) ], through_may( m ) ? ":through-may" : "" );
    rep.fail( sig, detail, { trace } );
    if ( verbose ) printf( "    FAIL %s: %s\n", sig.c_str(), detail.c_str() );
    return refused;   // a wrong code does not put the exploration out of step, a missing check does
}

// layout self check (harness error, never a violation)
void self_check()
{
    world.target( 0 );
    world.init();
    if ( std::size_t( __stop_c05_arena - __start_c05_arena ) < 16 + 16 * 4 ) { fprintf( stderr, "arena section too small\n" ); exit( 2 ); }
    for ( int m = 0; m != NCHR; ++m )
    {
        const std::uint16_t d = decl_handle( m );
        world.request( { 0x0A, std::uint8_t( d ), std::uint8_t( d >> 8 ) } );
        if ( !( world.out_size == 6 && world.out[ 0 ] == 0x0B && world.out[ 2 ] == val_handle( m ) && world.out[ 3 ] == 0 && world.out[ 4 ] == ( value_uuid & 0xff ) && world.out[ 5 ] == ( value_uuid >> 8 ) ) )
        { fprintf( stderr, "layout self check failed for characteristic %d: %s\n", m, mc::hex( world.out, world.out_size ).c_str() ); exit( 2 ); }
        // CCCD m <-> client configuration index m
        const std::uint16_t ch = cccd_handle( m );
        world.request( { 0x12, std::uint8_t( ch ), std::uint8_t( ch >> 8 ), 0x03, 0x00 } );
        if ( !( world.out_size == 1 && world.out[ 0 ] == 0x13 ) ) { fprintf( stderr, "CCCD %d not writable on an encrypted link: %s\n", m, mc::hex( world.out, world.out_size ).c_str() ); exit( 2 ); }
        for ( int x = 0; x != NCHR; ++x )
            if ( world.cccd_flags( x ) != ( x <= m ? 3 : 0 ) ) { fprintf( stderr, "client configuration index of characteristic %d is not %d\n", m, m ); exit( 2 ); }
    }
}

} // namespace

int main( int argc, char** argv )
{
    mc::Args a = mc::parse_args( argc, argv );
    mc::Report total; total.property = "C05";
    total.unit = a.opt.count( "unit" ) ? a.opt[ "unit" ] : mc::fmt( "C05_encryption-srv_%s", opt_names[ SRV_OPT ] );

    if ( !a.replay.empty() )
    {
        mc::ReplayFile rf = mc::read_replay( a.replay );
        if ( rf.steps.empty() ) { printf( "empty replay\n" ); return 0; }
        int m = 0, l = 0, attr = 0;
        if ( sscanf( rf.steps[ 0 ].c_str(), "S m=%d l=%d attr=%d", &m, &l, &attr ) == 3 )
        {
            mc::Report rep; rep.property = "C05";
            static_case( m, l, attr, rep, true );
            if ( rep.violations.count( rf.sig ) ) { printf( "REPRODUCED %s\n", rf.sig.c_str() ); return 1; }
            printf( "not reproduced\n" ); return 0;
        }
        int k = 0;
        const char* p = strstr( rf.steps[ 0 ].c_str(), "k=" );
        if ( p ) k = atoi( p + 2 );
        world.target( k );
        mc::Report rep; rep.property = "C05"; rep.unit = total.unit;
        mc::Bfs< World > bfs( world, rep, a );
        return bfs.replay_file( rf );
    }

    self_check();

    // phase 1
    bool enforced[ NCHR ];
    for ( int m = 0; m != NCHR; ++m )
    {
        enforced[ m ] = true;
        for ( int l = 0; l != 4; ++l )
            for ( int attr = 0; attr != 2; ++attr )
                if ( !static_case( m, l, attr, total, false ) ) enforced[ m ] = false;
    }
    for ( int m = 0; m != NCHR; ++m ) world.unenforced[ m ] = !enforced[ m ];

    // phase 2
    int explored = 0, n_protected = 0, n_protected_fixpoint = 0;
    for ( int k = 0; k != NCHR; ++k )
    {
        if ( !enforced[ k ] ) { total.notes[ "not explored (placement not enforced, see violation)" ] += placement( k ) + " "; continue; }
        world.target( k );
        mc::Report rep; rep.property = "C05"; rep.unit = total.unit;
        mc::BfsOptions o;
        // protected placements: all reachable states (thorough) / depth 6 (quick); the others (nothing demanded for the target
        // itself, the global oracles watch the protected neighbours): a shallow sweep
        o.max_depth  = int( a.num( "depth", ref_protected( k ) ? ( a.thorough() ? 64 : 6 ) : ( a.thorough() ? 8 : 5 ) ) );
        o.max_states = 3000000;
        mc::Bfs< World > bfs( world, rep, a, o );
        bfs.run();
        ++explored;
        total.states += rep.states; total.transitions += rep.transitions; total.evaluations += rep.evaluations;
        total.traces_validated += rep.traces_validated;
        total.exhaustive = total.exhaustive && rep.exhaustive;
        total.max_depth_completed = total.max_depth_completed < 0 ? rep.max_depth_completed : std::min( total.max_depth_completed, rep.max_depth_completed );
        if ( ref_protected( k ) ) { ++n_protected; if ( rep.fixpoint ) ++n_protected_fixpoint; }
        for ( auto& cl : rep.classes ) total.cls( cl );
        for ( auto& s : rep.samples ) total.sample( s, 6 );
        total.counters[ mc::fmt( "states k=%02d %s", k, placement( k ).c_str() ) ] = rep.states;
        if ( rep.fixpoint ) total.counters[ "explorations that reached a fixpoint" ]++;
        for ( auto& v : rep.violations ) total.fail( v.first, v.second.detail, v.second.trace );
        if ( a.expired() ) { total.exhaustive = false; total.notes[ "cut" ] = mc::fmt( "deadline hit after characteristic %d of 16", k ); break; }
    }
    total.counters[ "characteristics explored with histories" ] = std::uint64_t( explored );
    total.counters[ "placements in this unit" ] = NCHR;
    total.fixpoint = n_protected == n_protected_fixpoint;
    total.notes[ "bound" ] = mc::fmt( "server option %s: 16 placements x 4 link states x {value, cccd} Read; BFS from the encrypted state per characteristic: %d protected placements (%d to fixpoint, else depth %d), other placements depth %d",
                                      opt_names[ SRV_OPT ], n_protected, n_protected_fixpoint, a.thorough() ? 64 : 6, a.thorough() ? 8 : 5 );
    total.write( a );
    return 0;
}
