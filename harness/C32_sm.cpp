// C32 / C33 / C34 / C35 - security manager world (see C32_sm_world.hpp).
// One executable per security manager variant x IO configuration; the oracle that is reported is chosen with -DORACLE.
//   -DSMV=0 legacy | 1 lesc | 2 combined | 3 no_security_manager
//   -DIO_IN=0 none | 1 yes/no | 2 keyboard      -DIO_OUT=0 none | 1 numeric output
//   -DOOB=0|1  -DBOND=0|1  -DMITM=0|1           -DQDEPTH=n -DTDEPTH=n (quick / thorough depth bound)
#include "C32_sm_world.hpp"

#ifndef ORACLE
#define ORACLE 32
#endif
#ifndef SMV
#define SMV 2
#endif
#ifndef IO_IN
#define IO_IN 0
#endif
#ifndef IO_OUT
#define IO_OUT 0
#endif
#ifndef OOB
#define OOB 0
#endif
#ifndef BOND
#define BOND 0
#endif
#ifndef MITM
#define MITM 0
#endif
#ifndef QDEPTH
#define QDEPTH 6
#endif
#ifndef TDEPTH
#define TDEPTH 8
#endif

int main( int argc, char** argv )
{
    using cfg = smw::config< SMV, IO_IN, IO_OUT, OOB, BOND, MITM >;
    return smw::run< cfg, ORACLE >( argc, argv, QDEPTH, TDEPTH );
}
