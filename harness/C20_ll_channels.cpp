// C20 - link layer level: the data channel handed to schedule_connection_event() follows Channel Selection Algorithm #1
// for the number of connection events that really passed (derived from the scheduled receive window, i.e. from time, not
// from the link layer's own counter), across missed events, peripheral latency skips, channel map updates and the
// 65535 -> 0 wrap of the event counter; CONNECT_IND / LL_CHANNEL_MAP_REQ with < 2 used channels or an invalid hop are
// not applied.
//
// E2: product of scripts  hop x map x latency x cyclic hit/miss pattern x channel map update  on the real link_layer<>.
#include "../mc/mc.hpp"
#include "C20_csa1.hpp"
#include <bluetoe/server.hpp>
#include <bluetoe/service.hpp>
#include <bluetoe/characteristic.hpp>
#include "ll_world.hpp"

namespace {

using csa1::mask_t;

std::uint8_t char_value = 0;
using server_t = bluetoe::server<
    bluetoe::no_gap_service_for_gatt_servers,
    bluetoe::service< bluetoe::service_uuid16< 0x1234 >,
        bluetoe::characteristic< bluetoe::characteristic_uuid16< 0x2345 >, bluetoe::bind_characteristic_value< std::uint8_t, &char_value > > > >;
using ll_t = bluetoe::link_layer::link_layer< server_t, llw::radio >;

mc::Placed< ll_t > ll;

static const unsigned interval_units = 0x18;                 // 30 ms
static const unsigned interval_us    = interval_units * 1250;

struct Script
{
    unsigned hop; mask_t map; unsigned rfu;
    unsigned latency;
    unsigned pattern;           // bit ( step mod 8 ) set: that connection event is missed
    int      upd_step;          // first step >= upd_step that is not missed carries LL_CHANNEL_MAP_REQ; -1: none
    mask_t   upd_map; unsigned upd_delta;     // instant = counter of the carrying event + delta
    std::uint64_t until;        // run until this many connection events have passed
    std::uint64_t upd_from;     // != 0: deliver the update at the first event with number >= upd_from instead ( wrap scripts )
    // up to two further LL_CHANNEL_MAP_REQ: sent in the first event that takes place `gap` or more events after the instant of the one before
    unsigned more;
    mask_t   more_map[ 2 ]; unsigned more_delta[ 2 ]; unsigned more_gap[ 2 ];
};

std::string line( const Script& s )
{
    return mc::fmt( "hop=%u map=%s rfu=%02x latency=%u pattern=%02x upd_step=%d upd_map=%s upd_delta=%u until=%llu upd_from=%llu",
                    s.hop, csa1::hex( s.map ).c_str(), s.rfu, s.latency, s.pattern, s.upd_step, csa1::hex( s.upd_map ).c_str(), s.upd_delta,
                    (unsigned long long)s.until, (unsigned long long)s.upd_from )
         + mc::fmt( " more=%u m1=%s:%u:%u m2=%s:%u:%u", s.more, csa1::hex( s.more_map[ 0 ] ).c_str(), s.more_delta[ 0 ], s.more_gap[ 0 ],
                    csa1::hex( s.more_map[ 1 ] ).c_str(), s.more_delta[ 1 ], s.more_gap[ 1 ] );
}

bool parse( const std::string& l, Script& s )
{
    unsigned long long m = 0, um = 0, until = 0, from = 0;
    if ( sscanf( l.c_str(), "hop=%u map=%llx rfu=%x latency=%u pattern=%x upd_step=%d upd_map=%llx upd_delta=%u until=%llu upd_from=%llu",
                 &s.hop, &m, &s.rfu, &s.latency, &s.pattern, &s.upd_step, &um, &s.upd_delta, &until, &from ) != 10 ) return false;
    s.map = m; s.upd_map = um; s.until = until; s.upd_from = from;
    s.more = 0; s.more_map[ 0 ] = s.more_map[ 1 ] = 0; s.more_delta[ 0 ] = s.more_delta[ 1 ] = s.more_gap[ 0 ] = s.more_gap[ 1 ] = 0;
    const std::size_t mp = l.find( " more=" );
    if ( mp != std::string::npos )
    {
        unsigned long long m1 = 0, m2 = 0;
        if ( sscanf( l.c_str() + mp, " more=%u m1=%llx:%u:%u m2=%llx:%u:%u", &s.more, &m1, &s.more_delta[ 0 ], &s.more_gap[ 0 ], &m2, &s.more_delta[ 1 ], &s.more_gap[ 1 ] ) != 7 || s.more > 2 ) return false;
        s.more_map[ 0 ] = m1; s.more_map[ 1 ] = m2;
    }
    return true;
}

// number of the planned connection event relative to the last anchor, from the receive window the radio was given
unsigned events_since_anchor()
{
    const std::uint64_t mid = ( std::uint64_t( ll->log.ce_start_us ) + ll->log.ce_end_us ) / 2;
    return unsigned( ( mid + interval_us / 4 ) / interval_us );
}

struct Out { mc::Report& rep; bool verbose; std::uint64_t sim_events = 0; };

void run_script( const Script& s, Out& o )
{
    mc::Report& rep = o.rep;
    auto fail = [&]( const std::string& sig, const std::string& detail ) {
        if ( o.verbose ) printf( "    FAIL %s: %s\n", sig.c_str(), detail.c_str() );
        rep.fail( sig, detail, { line( s ) } );
    };

    ll.construct();
    ll->run();
    if ( ll->log.adv_count == 0 ) { fail( "ll-not-advertising", "run() did not schedule an advertisement" ); return; }

    llw::connect_ind ci;
    ci.hop = std::uint8_t( s.hop ); ci.latency = std::uint16_t( s.latency ); ci.interval = interval_units; ci.timeout = 0x0c80;
    ci.win_offset = 0; ci.win_size = 1;
    csa1::to_bytes( s.map, ci.map ); ci.map[ 4 ] |= std::uint8_t( s.rfu );
    std::uint8_t pdu[ 40 ];
    const std::size_t n = ci.build( pdu, ll->log.adv_data );
    const std::uint32_t adv_before = ll->log.adv_count, access_before = ll->log.access_count;
    ll->sim_adv_received( pdu, n );

    const bool valid = csa1::valid_hop( s.hop ) && csa1::valid_map( s.map );
    const bool entered = ll->log.ce_count != 0 || ll->log.access_count != access_before;
    if ( o.verbose ) printf( "  CONNECT_IND hop %u map %s (%d used): %s\n", s.hop, csa1::hex( s.map ).c_str(), csa1::used_count( s.map ), entered ? "connection entered" : "ignored" );
    if ( entered != valid )
    {
        fail( mc::fmt( "ll-connect:%s:%s", entered ? "accepted" : "rejected", !csa1::valid_hop( s.hop ) ? "invalid-hop" : !csa1::valid_map( s.map ) ? "less-than-two-channels" : "valid" ),
              mc::fmt( "CONNECT_IND with hop %u, map %s (%d used channels): connection %s", s.hop, csa1::hex( s.map ).c_str(), csa1::used_count( s.map ), entered ? "entered" : "not entered" ) );
        return;
    }
    if ( !valid )
    {
        rep.cls( mc::fmt( "connect-ind-ignored:%s", !csa1::valid_hop( s.hop ) ? ( s.hop < 5 ? "hop-low" : "hop-high" ) : csa1::used_count( s.map ) ? "one-channel" : "no-channel" ) );
        return;
    }

    std::uint64_t anchor = 0;               // number of the connection event the current anchor belongs to ( CONNECT_IND: 0 )
    mask_t        map = s.map & csa1::all_channels;
    bool          upd_sent = false, upd_pending = false, upd_applied = false;     // about the last request that was sent
    std::uint64_t upd_instant = 0;
    unsigned      next_upd = 0;                 // 0: the first request, 1, 2: the further ones
    mask_t        cur_upd_map = 0, prev_map = s.map & csa1::all_channels;     // map of the last request; map in force before it was applied
    bool          rejected_seen = false, cur_after_rejected = false;         // an invalid request passed its instant ( before the last request was sent )
    const char*   kind = "first-event";
    std::uint32_t ce_seen = 0;
    std::uint64_t last_planned = 0;
    bool          table_was_ok = false, table_lost_at_invalid_update = false;

    for ( unsigned step = 0; ; ++step )
    {
        // ---- check what the link layer scheduled
        if ( ll->log.adv_count != adv_before )
        {
            rep.cls( mc::fmt( "link-closed:%s", anchor == 0 && step < 8 ? "while-connecting" : "supervision" ) );
            if ( o.verbose ) printf( "  link closed after step %u\n", step );
            return;
        }
        if ( ll->log.ce_count != ce_seen + 1 )
        {
            fail( mc::fmt( "ll-schedule-count:%s", kind ), mc::fmt( "%u connection events scheduled by one callback", unsigned( ll->log.ce_count - ce_seen ) ) );
            return;
        }
        ce_seen = ll->log.ce_count;
        const unsigned      rel     = events_since_anchor();
        const std::uint64_t planned = anchor + rel;
        if ( step != 0 && planned <= last_planned )
        {
            fail( mc::fmt( "ll-window:not-advancing:%s", kind ), mc::fmt( "receive window [%u,%u] us after the anchor is not later than the previous event", ll->log.ce_start_us, ll->log.ce_end_us ) );
            return;
        }
        if ( step != 0 && planned != last_planned + 1 ) kind = "latency-skip";
        if ( upd_pending && planned >= upd_instant )
        {
            upd_pending = false;
            if ( csa1::valid_map( cur_upd_map ) ) { prev_map = map; map = cur_upd_map & csa1::all_channels; upd_applied = true; }
            else rejected_seen = true;
        }
        const unsigned want = csa1::channel( map, s.hop, planned );
        const unsigned got  = ll->log.ce_channel;
        if ( o.verbose ) printf( "  step %u (%s): event %llu scheduled on channel %u, window [%u,%u] us; reference %u; counter %u index %u\n", step, kind,
                                 (unsigned long long)planned, got, ll->log.ce_start_us, ll->log.ce_end_us, want, unsigned( ll->connection_event_counter() ), ll->current_channel_index() );
        // does the link layer's table ( observation through -fno-access-control, used for the diagnosis only ) equal the reference
        // table of a map?
        auto table_is = [&]( mask_t m ) { for ( unsigned i = 0; i != 37; ++i ) if ( ll->channels_.data_channel( i ) != csa1::channel( m, s.hop, i ) ) return false; return true; };
        const bool table_ok = table_is( map );
        if ( table_was_ok && !table_ok && upd_sent && !csa1::valid_map( cur_upd_map ) && planned >= upd_instant ) table_lost_at_invalid_update = true;
        if ( got != want )
        {
            // every mismatch is a violation; the signature names the mechanism: the table of the map in force is wrong
            // ( selection ), the table belongs to the other map ( update timing ), or the table is right but the wrong entry
            // is used ( index not following the elapsed events; there the kind of step matters )
            std::string why;
            if ( table_ok )
                why = mc::fmt( "index-not-following-elapsed-events:%s%s", kind, planned > 0xffff ? ":after-counter-wrap" : "" );
            else if ( upd_sent && csa1::valid_map( cur_upd_map ) && table_is( upd_applied ? prev_map : cur_upd_map ) )
                why = upd_applied ? ( cur_after_rejected ? "map-update-not-in-force-at-instant:after-rejected-update" : "map-update-not-in-force-at-instant" ) : "map-update-in-force-before-instant";
            else if ( table_lost_at_invalid_update )
                why = "invalid-map-update-applied";
            else
                why = "selection-wrong";
            fail( "ll-channel:" + why,
                  mc::fmt( "connection event %llu (%s; hop %u, map %s, %d used) scheduled on channel %u, Channel Selection Algorithm #1 gives %u; link layer counter %u, index %u",
                           (unsigned long long)planned, kind, s.hop, csa1::hex( map ).c_str(), csa1::used_count( map ), got, want, unsigned( ll->connection_event_counter() ), ll->current_channel_index() ) );
            return;
        }
        table_was_ok = table_ok;
        {
            bool remapped = false; csa1::channel( map, s.hop, planned, &remapped );
            rep.cls( mc::fmt( "channel-ok:%s:%s%s%s", kind, remapped ? "remapped" : "unmapped", upd_applied ? ( cur_after_rejected ? ":new-map-after-rejected-update" : next_upd > 1 ? ":new-map-of-later-update" : ":new-map" ) : upd_sent ? ( upd_pending ? ":update-pending" : ":update-ignored" ) : "",
                              planned > 0xffff ? ":after-counter-wrap" : "" ) );
        }
        last_planned = planned;
        if ( planned >= s.until ) return;

        // ---- let the planned event happen or be missed
        ++o.sim_events;
        const bool missed = ( s.pattern >> ( step % 8 ) ) & 1;
        if ( missed )
        {
            kind = "missed-event";
            ll->sim_timeout();
            continue;
        }
        kind = "event";
        const bool carry = !upd_pending && s.upd_step >= 0 && next_upd <= s.more
                        && ( next_upd == 0 ? ( s.upd_from ? planned >= s.upd_from : int( step ) >= s.upd_step ) : planned >= upd_instant + s.more_gap[ next_upd - 1 ] );
        if ( carry )
        {
            const unsigned delta = next_upd == 0 ? s.upd_delta : s.more_delta[ next_upd - 1 ];
            cur_upd_map = next_upd == 0 ? s.upd_map : s.more_map[ next_upd - 1 ];
            cur_after_rejected = rejected_seen;
            ++next_upd;
            const std::uint16_t instant = std::uint16_t( planned + delta );
            std::uint8_t req[ 8 ] = { 0x01 };
            csa1::to_bytes( cur_upd_map, req + 1 );
            req[ 6 ] = std::uint8_t( instant ); req[ 7 ] = std::uint8_t( instant >> 8 );
            upd_sent = true; upd_pending = true; upd_applied = false; upd_instant = planned + delta;
            if ( o.verbose ) printf( "  LL_CHANNEL_MAP_REQ map %s (%d used) instant %u delivered in event %llu\n", csa1::hex( cur_upd_map ).c_str(), csa1::used_count( cur_upd_map ), instant, (unsigned long long)planned );
            const unsigned acked = ll->sim_ll_control( req, sizeof req );
            if ( acked != 1 ) { rep.cls( "update-not-acknowledged" ); }
        }
        else
        {
            ll->sim_empty_event();
        }
        anchor = planned;
    }
}

} // namespace

int main( int argc, char** argv )
{
    mc::Args a = mc::parse_args( argc, argv );
    mc::Report rep; rep.property = "C20"; rep.unit = a.opt.count( "unit" ) ? a.opt[ "unit" ] : "C20_ll_channels";
    if ( !csa1::self_test() ) { fprintf( stderr, "reference CSA#1 does not reproduce the worked examples\n" ); return 2; }

    if ( !a.replay.empty() )
    {
        mc::ReplayFile rf = mc::read_replay( a.replay );
        int rc = 0;
        for ( auto& st : rf.steps )
        {
            Script s;
            if ( !parse( st, s ) ) { printf( "cannot parse step: %s\n", st.c_str() ); continue; }
            printf( "replaying %s\n", st.c_str() );
            mc::Report r2; Out o{ r2, true };
            run_script( s, o );
            if ( r2.violations.count( rf.sig ) ) { printf( "REPRODUCED %s: %s\n", rf.sig.c_str(), r2.violations[ rf.sig ].detail.c_str() ); rc = 1; }
        }
        if ( !rc ) printf( "not reproduced\n" );
        return rc;
    }

    const mask_t one = 1;
    const std::uint8_t few[ 5 ] = { 0x17, 0x44, 0x00, 0xff, 0x05 };
    std::vector< mask_t > maps = {
        csa1::all_channels,
        csa1::all_channels & ~( one << 36 ),            // all but the last
        csa1::all_channels & ~( one << 25 ),            // "real life example" of the tests
        csa1::from_bytes( few ),                        // 16 channels
        one | one << 36,                                // two channels, far apart
        one << 5 | one << 6,                            // two adjacent channels
        0x0aaaaaaaaaull,                                // every second channel
        ( one << 18 ) - 1,                              // lower half
        one << 3 | one << 17 | one << 30,               // three channels
        csa1::all_channels & ~( ( one << 10 ) - 1 ) };  // 10..36
    if ( !a.thorough() ) maps.resize( 8 );
    std::vector< unsigned > patterns;
    if ( a.thorough() ) for ( unsigned p = 0; p != 255; ++p ) patterns.push_back( p );
    else patterns = { 0x00, 0x02, 0x05, 0x12, 0x6c, 0x01, 0xf0, 0x55, 0x7f, 0xee };
    struct Upd { int step; int map_sel; unsigned delta; unsigned more; int sel1; unsigned delta1, gap1; int sel2; unsigned delta2, gap2; };  // map_sel: index offset into maps, -1: one channel, -2: no channel
    const std::vector< Upd > updates = { { -1, 0, 0 }, { 3, 3, 2 }, { 10, -1, 6 }, { 5, -2, 1 }, { 20, 1, 9 }, { 0, 5, 1 },
                                         { 3, -1, 2, 1, 3, 3, 2 },                 // rejected, then valid
                                         { 2, 2, 2, 2, -2, 2, 1, 5, 6, 1 },        // valid, rejected, valid
                                         { 4, -2, 1, 2, -1, 1, 0, 1, 2, 0 } };     // rejected, rejected, valid ( back to back )
    const unsigned latencies[] = { 0, 1, 3 };

    Out o{ rep, false };
    bool cut = false;
    auto one_script = [&]( const Script& s ) {
        ++rep.evaluations; ++rep.traces_validated;
        run_script( s, o );
        if ( rep.evaluations % 4099 == 0 ) rep.sample( line( s ) );
        if ( ( rep.evaluations & 255 ) == 0 && ( a.expired() || rep.violations.size() > 20 ) ) cut = true;
    };

    const unsigned hop_from = unsigned( a.num( "hop-from", 5 ) ), hop_to = unsigned( a.num( "hop-to", 16 ) );    // variants split the hop range
    // 1) CONNECT_IND that must be ignored: every invalid hop of the 5 bit field x maps; valid hops x maps with < 2 channels
    for ( unsigned hop = 0; hop != 32 && hop_from == 5; ++hop )
    {
        if ( csa1::valid_hop( hop ) )
        {
            for ( unsigned rfu = 0; rfu <= 0xe0; rfu += 0xe0 )
            {
                one_script( Script{ hop, 0, rfu, 0, 0, -1, 0, 0, 3, 0 } );
                for ( int c = 0; c != 37; ++c ) one_script( Script{ hop, one << c, rfu, 0, 0, -1, 0, 0, 3, 0 } );
            }
        }
        else
            for ( mask_t m : maps ) one_script( Script{ hop, m, 0, 0, 0, -1, 0, 0, 3, 0 } );
    }
    // 2) event counters 0..100
    for ( unsigned hop = hop_from; hop <= hop_to && !cut; ++hop )
        for ( std::size_t mi = 0; mi != maps.size() && !cut; ++mi )
            for ( unsigned lat : latencies )
                for ( unsigned p : patterns )
                    for ( const Upd& u : updates )
                    {
                        if ( cut ) break;
                        auto sel = [&]( int k ) { return k == -1 ? ( one << ( ( hop + mi ) % 37 ) ) : k == -2 ? mask_t( 0 ) : maps[ ( mi + k ) % maps.size() ]; };
                        one_script( Script{ hop, maps[ mi ], ( mi & 1 ) ? 0xe0u : 0u, lat, p, u.step, sel( u.map_sel ), u.delta, 101, 0,
                                            u.more, { u.more > 0 ? sel( u.sel1 ) : 0, u.more > 1 ? sel( u.sel2 ) : 0 }, { u.delta1, u.delta2 }, { u.gap1, u.gap2 } } );
                    }
    // 3) the 65535 -> 0 wrap of the event counter, with and without latency / misses / a map update whose instant lies behind the wrap
    {
        const unsigned wrap_patterns[] = { 0x00, 0x24 };
        for ( unsigned hop = hop_from; hop <= hop_to && !cut; ++hop )
            for ( std::size_t mi = 0; mi != ( a.thorough() ? maps.size() : 3 ) && !cut; ++mi )
                for ( unsigned lat : { 0u, 3u } )
                    for ( unsigned p : wrap_patterns )
                        for ( int upd = 0; upd != 3 && !cut; ++upd )
                        {
                            if ( !a.thorough() && ( hop % 4 ) != ( mi + lat ) % 4 ) continue;    // quick: a quarter of the hops per combination
                            const mask_t um = upd == 2 ? ( one << 7 ) : maps[ ( mi + 1 ) % maps.size() ];
                            one_script( Script{ hop, maps[ mi ], 0, lat, p, upd ? 0 : -1, um, 9, 65536 + 120, upd ? 65529u : 0u } );
                        }
    }
    rep.transitions = o.sim_events;
    rep.counters[ "simulated_connection_events" ] = o.sim_events;
    if ( cut ) { rep.exhaustive = false; rep.notes[ "cut" ] = "deadline or too many signatures"; }
    rep.notes[ "bound" ] = mc::fmt( "%zu maps x hop %u..%u x latency {0,1,3} x %zu cyclic 8-event hit/miss patterns x 9 channel map update variants (single requests; rejected-then-valid, valid-rejected-valid, rejected-rejected-valid sequences), event numbers 0..101; all invalid hops / maps with < 2 channels in CONNECT_IND; counter wrap scripts up to event 65656",
                                    maps.size(), hop_from, hop_to, patterns.size() );
    rep.write( a );
    return 0;
}
