// C12 - notification_queue<Sizes, Mixin> is a fair priority queue.
// E1: full reachable state space of the real queue for all compositions of n <= 5 into priority levels.
#include "../mc/mc.hpp"
#include <tuple>
#include <type_traits>
#include <bluetoe/notification_queue.hpp>

namespace {

struct empty_mixin {};

template < int... S > using sizes = std::tuple< std::integral_constant< int, S >... >;

template < int... S >
struct World
{
    static constexpr int nlevels = sizeof...( S );
    static constexpr int total   = ( 0 + ... + S );
    using queue_t = bluetoe::notification_queue< sizes< S... >, empty_mixin >;
    using entry   = bluetoe::details::notification_queue_entry_type;

    mc::Placed< queue_t > q;
    struct Ref {
        std::uint8_t pend_n[ 16 ];
        std::uint8_t pend_i[ 16 ];
        std::uint8_t outstanding;
    } ref;

    static int level_of( int idx )
    {
        const int sz[] = { S... };
        int l = 0;
        while ( idx >= sz[ l ] ) { idx -= sz[ l ]; ++l; }
        return l;
    }
    static int level_size( int l ) { const int sz[] = { S... }; return sz[ l ]; }
    static std::string name()
    {
        std::string n = "sizes<";
        const int sz[] = { S... };
        for ( int i = 0; i != nlevels; ++i ) n += ( i ? "," : "" ) + std::to_string( sz[ i ] );
        return n + ">";
    }

    void init()
    {
        q.construct();
        memset( &ref, 0, sizeof ref );
    }
    void regions( mc::Regions& r ) { r.add( q.raw, sizeof q.raw ); r.add( ref ); }

    // events: [0,total) queue_notification(i); [total,2*total) queue_indication(i); dequeue; confirm; clear
    int num_events() const { return 2 * total + 3; }
    std::string describe( int ev ) const
    {
        if ( ev < total ) return mc::fmt( "queue_notification(%d)", ev );
        if ( ev < 2 * total ) return mc::fmt( "queue_indication(%d)", ev - total );
        if ( ev == 2 * total ) return "dequeue";
        if ( ev == 2 * total + 1 ) return "indication_confirmed";
        return "clear";
    }

    bool dequeuable( int idx ) const { return ref.pend_n[ idx ] || ( ref.pend_i[ idx ] && !ref.outstanding ); }

    // checks a dequeue result against the reference and updates the reference; returns false on mismatch
    bool ref_dequeue( std::pair< entry, std::size_t > r, mc::Ctx& c )
    {
        int best_level = -1;
        for ( int i = 0; i != total; ++i )
            if ( dequeuable( i ) ) { best_level = level_of( i ); break; }
        const char* k = r.first == entry::empty ? "empty" : r.first == entry::notification ? "notification" : "indication";
        c.obs = mc::fmt( "dequeue->%s,%zu", k, r.second );
        if ( r.first == entry::empty )
        {
            if ( best_level >= 0 )
            {
                c.fail( mc::fmt( "dequeue-empty-while-pending:levelsize%d", level_size( best_level ) ),
                        "dequeue returned empty although a dequeuable request is pending" );
                return false;
            }
            return true;
        }
        const int idx = int( r.second );
        if ( idx >= total ) { c.fail( "dequeue-index-out-of-range", c.obs ); return false; }
        const bool was = r.first == entry::notification ? ref.pend_n[ idx ] : ( ref.pend_i[ idx ] && !ref.outstanding );
        if ( !was )
        {
            c.fail( mc::fmt( "dequeue-not-pending:%s:levelsize%d", k, level_size( level_of( idx ) ) ),
                    "dequeue returned a request that is not pending (or an indication while one is outstanding): " + c.obs );
            return false;
        }
        if ( level_of( idx ) != best_level )
        {
            c.fail( "dequeue-priority-inversion", mc::fmt( "dequeued index %d (level %d) while level %d has a dequeuable request", idx, level_of( idx ), best_level ) );
            return false;
        }
        if ( r.first == entry::notification ) ref.pend_n[ idx ] = 0;
        else { ref.pend_i[ idx ] = 0; ref.outstanding = 1; }
        c.cls( std::string( "dequeue-" ) + k );
        return true;
    }

    bool apply( int ev, mc::Ctx& c )
    {
        if ( ev < total )
        {
            const bool r = q->queue_notification( ev );
            const bool expect = !ref.pend_n[ ev ];
            c.obs = mc::fmt( "->%d", r );
            if ( r != expect )
                c.fail( mc::fmt( "queue-return:notification:%s:levelsize%d", r ? "true-but-pending" : ( ref.pend_i[ ev ] ? "refused-while-indication-pending" : "refused" ), level_size( level_of( ev ) ) ),
                        mc::fmt( "queue_notification(%d) returned %d, reference says %d", ev, r, expect ) );
            ref.pend_n[ ev ] = 1;
            c.cls( r ? "qn-new" : "qn-dup" );
            return true;
        }
        if ( ev < 2 * total )
        {
            const int i = ev - total;
            const bool r = q->queue_indication( i );
            const bool expect = !ref.pend_i[ i ];
            c.obs = mc::fmt( "->%d", r );
            if ( r != expect )
                c.fail( mc::fmt( "queue-return:indication:%s:levelsize%d", r ? "true-but-pending" : ( ref.pend_n[ i ] ? "refused-while-notification-pending" : "refused" ), level_size( level_of( i ) ) ),
                        mc::fmt( "queue_indication(%d) returned %d, reference says %d", i, r, expect ) );
            ref.pend_i[ i ] = 1;
            c.cls( r ? "qi-new" : "qi-dup" );
            return true;
        }
        if ( ev == 2 * total )
        {
            ref_dequeue( q->dequeue_indication_or_confirmation(), c );
            return true;
        }
        if ( ev == 2 * total + 1 )
        {
            q->indication_confirmed();
            c.cls( ref.outstanding ? "confirm-outstanding" : "confirm-idle" );
            ref.outstanding = 0;
            return true;
        }
        q->clear_indications_and_confirmations();
        memset( &ref, 0, sizeof ref );
        return true;
    }

    // bounded liveness from every reachable state:
    //  (a) plain drain: [dequeue, confirm-if-indication] returns every pending request exactly once
    //  (b) fairness: for every pending request t, an adversary that immediately re-queues every *other characteristic*
    //      of the same level cannot delay t for more than 2*levelsize+1 dequeues of that level
    void drain( mc::Ctx& c )
    {
        const std::size_t isz = sizeof q.raw;
        unsigned char keep_q[ sizeof q.raw ]; Ref keep_ref = ref;
        memcpy( keep_q, q.raw, isz );

        {   // (a)
            int pending = 0;
            for ( int i = 0; i != total; ++i ) pending += ref.pend_n[ i ] + ref.pend_i[ i ];
            if ( ref.outstanding ) { q->indication_confirmed(); ref.outstanding = 0; }
            int got = 0;
            for ( int step = 0; step != 2 * total + 2; ++step )
            {
                auto r = q->dequeue_indication_or_confirmation();
                mc::Ctx cc;
                if ( !ref_dequeue( r, cc ) ) { c.fail( "drain:" + cc.fails[ 0 ].sig, cc.fails[ 0 ].detail ); break; }
                if ( r.first == entry::empty ) break;
                ++got;
                if ( r.first == entry::indication ) { q->indication_confirmed(); ref.outstanding = 0; }
            }
            if ( c.fails.empty() && got != pending )
                c.fail( "drain:lost-or-duplicated", mc::fmt( "%d requests pending, %d dequeued by a full drain", pending, got ) );
        }
        memcpy( q.raw, keep_q, isz ); ref = keep_ref;

        // (b)
        for ( int t = 0; t != 2 * total && c.fails.empty(); ++t )
        {
            const int ti = t % total; const bool tind = t >= total;
            if ( !( tind ? ref.pend_i[ ti ] : ref.pend_n[ ti ] ) ) continue;
            if ( ref.outstanding ) { q->indication_confirmed(); ref.outstanding = 0; }
            const int L = level_of( ti );
            int same_level = 0; bool out = false;
            for ( int step = 0; step != 6 * total + 6; ++step )
            {
                auto r = q->dequeue_indication_or_confirmation();
                mc::Ctx cc;
                if ( !ref_dequeue( r, cc ) ) { c.fail( "fair:" + cc.fails[ 0 ].sig, cc.fails[ 0 ].detail ); break; }
                if ( r.first == entry::empty ) break;
                if ( r.first == entry::indication ) { q->indication_confirmed(); ref.outstanding = 0; }
                const int idx = int( r.second );
                if ( idx == ti && ( r.first == entry::indication ) == tind ) { out = true; break; }
                if ( level_of( idx ) == L )
                {
                    ++same_level;
                    if ( idx != ti )
                    {   // adversary: re-queue immediately
                        if ( r.first == entry::indication ) { q->queue_indication( idx ); ref.pend_i[ idx ] = 1; }
                        else { q->queue_notification( idx ); ref.pend_n[ idx ] = 1; }
                    }
                }
                if ( same_level > 2 * level_size( L ) + 1 ) break;
            }
            if ( c.fails.empty() && !out )
                c.fail( mc::fmt( "fair:starved:levelsize%d", level_size( L ) ),
                        mc::fmt( "pending %s(%d) not dequeued within %d dequeues of its level while other characteristics are re-queued", tind ? "indication" : "notification", ti, same_level ) );
            memcpy( q.raw, keep_q, isz ); ref = keep_ref;
        }
        memcpy( q.raw, keep_q, isz ); ref = keep_ref;
    }
};

template < int... S >
void run_one( const mc::Args& a, mc::Report& total, const std::string& only, int& rc )
{
    static World< S... > w;
    mc::Report rep; rep.property = "C12"; rep.unit = World< S... >::name();
    if ( !only.empty() && only != rep.unit ) return;
    mc::BfsOptions o; o.with_drain = true;
    mc::Bfs< World< S... > > bfs( w, rep, a, o );
    if ( !a.replay.empty() ) { rc |= bfs.replay_file( mc::read_replay( a.replay ) ); return; }
    bfs.run();
    total.states += rep.states; total.transitions += rep.transitions; total.evaluations += rep.evaluations;
    total.traces_validated += rep.traces_validated;
    total.exhaustive = total.exhaustive && rep.exhaustive && rep.fixpoint;
    for ( auto& cl : rep.classes ) total.cls( cl );
    for ( auto& s : rep.samples ) total.sample( rep.unit + ": " + s, 8 );
    total.counters[ "states " + rep.unit ] = rep.states;
    total.counters[ "configurations" ]++;
    for ( auto& v : rep.violations )
    {
        std::vector< std::string > t = v.second.trace;
        total.fail( v.first, rep.unit + ": " + v.second.detail, t );
        if ( total.violations[ v.first ].trace == t ) total.notes[ "unit-of " + v.first ] = rep.unit;
    }
}

} // namespace

int main( int argc, char** argv )
{
    mc::Args a = mc::parse_args( argc, argv );
    mc::Report total; total.property = "C12"; total.unit = a.opt.count( "unit" ) ? a.opt[ "unit" ] : "C12_notification_queue";
    std::string only;
    int rc = 0;
    if ( !a.replay.empty() )
    {
        // the trace's "detail" line starts with the configuration name
        std::ifstream f( a.replay ); std::string l;
        while ( std::getline( f, l ) ) if ( l.rfind( "detail ", 0 ) == 0 ) only = l.substr( 7, l.find( ':' ) - 7 );
    }
#define R( ... ) run_one< __VA_ARGS__ >( a, total, only, rc );
    R(1) R(2) R(1,1) R(3) R(2,1) R(1,2) R(1,1,1)
    R(4) R(3,1) R(1,3) R(2,2) R(2,1,1) R(1,2,1) R(1,1,2) R(1,1,1,1)
    R(5) R(4,1) R(1,4) R(3,2) R(2,3) R(3,1,1) R(1,3,1) R(1,1,3) R(2,2,1) R(2,1,2) R(1,2,2)
    R(2,1,1,1) R(1,2,1,1) R(1,1,2,1) R(1,1,1,2) R(1,1,1,1,1)
    if ( a.thorough() ) { R(6) R(1,5) R(5,1) R(2,4) R(3,3) R(2,2,2) R(7) }
    if ( !a.replay.empty() ) return rc;
    total.fixpoint = total.exhaustive;
    total.notes[ "bound" ] = "full reachable state space (fixpoint) of every listed Sizes tuple; drain + fairness run from every reachable state";
    total.write( a );
    return 0;
}
