// C13, second engine: interrupt at every *machine instruction* boundary of the real compiled code.
// The main context executes one queue operation instruction by instruction (x86-64 trap flag -> SIGTRAP after every
// instruction); for every k the interrupt handler - one complete operation of the other side - runs after the k-th
// instruction.  Both nestings: a producer (queue_notification / queue_indication) interrupting a dequeue, and a dequeue
// interrupting a producer.  This covers what the byte hook of C13_notify_isr.cpp cannot split (the plain bool / bit-field
// state of single-entry priority levels) at the granularity the host compiler generates with -O0.
// Oracle: as in C13_notify_isr.cpp - history + final drain linearizable w.r.t. the set model.
#include "../mc/mc.hpp"
#include "../mc/linearize.hpp"
#include <tuple>
#include <type_traits>
#include <iterator>
#include <bluetoe/notification_queue.hpp>
#include <ucontext.h>

#if !defined( __x86_64__ ) || !defined( __linux__ )
#error "needs x86-64 Linux"
#endif

namespace {

struct empty_mixin {};
template < int... S > using sizes = std::tuple< std::integral_constant< int, S >... >;
using entry = bluetoe::details::notification_queue_entry_type;

int clock_ = 0;
std::vector< mc::HOp > hist;

template < int... S >
struct set_spec
{
    static constexpr int total = ( 0 + ... + S );
    unsigned char pn[ 16 ] = {}, pi[ 16 ] = {}, outstanding = 0;
    bool dequeuable( int i ) const { return pn[ i ] || ( pi[ i ] && !outstanding ); }
    bool apply( const mc::HOp& o )
    {
        if ( o.kind == 0 ) { if ( bool( o.ret ) != !pn[ o.arg ] ) return false; pn[ o.arg ] = 1; return true; }
        if ( o.kind == 1 ) { if ( bool( o.ret ) != !pi[ o.arg ] ) return false; pi[ o.arg ] = 1; return true; }
        if ( o.kind == 3 ) { outstanding = 0; return true; }
        bool any = false;
        for ( int i = 0; i != total; ++i ) if ( dequeuable( i ) ) any = true;
        if ( o.ret == 0 ) return !any;
        const int idx = int( o.ret2 );
        if ( idx < 0 || idx >= total ) return false;
        if ( o.ret == 1 ) { if ( !pn[ idx ] ) return false; pn[ idx ] = 0; return true; }
        if ( !pi[ idx ] || outstanding ) return false; pi[ idx ] = 0; outstanding = 1; return true;
    }
};

// ---- single stepping ------------------------------------------------------------------------------------------
volatile long step_ = 0, fire_at = -1;
volatile bool tracing = false, fired = false;
void ( *isr_fn )() = nullptr;

void on_trap( int, siginfo_t*, void* ctx )
{
    ucontext_t* const uc = static_cast< ucontext_t* >( ctx );
    if ( !tracing ) { uc->uc_mcontext.gregs[ REG_EFL ] &= ~0x100LL; return; }
    if ( step_ == fire_at && !fired )
    {
        // the rest of the interrupted operation needs no single stepping any more
        fired = true; isr_fn();
        uc->uc_mcontext.gregs[ REG_EFL ] &= ~0x100LL; tracing = false;
        return;
    }
    ++step_;
}
inline void trace_on()  { tracing = true; asm volatile( "pushfq\n\torq $0x100, (%%rsp)\n\tpopfq" ::: "memory", "cc" ); }
inline void trace_off() { asm volatile( "pushfq\n\tandq $~0x100, (%%rsp)\n\tpopfq" ::: "memory", "cc" ); tracing = false; }

struct pop { int kind; int idx; };   // kind 0 queue_notification, 1 queue_indication, 2 dequeue

template < int... S >
struct Case
{
    using queue_t = bluetoe::notification_queue< sizes< S... >, empty_mixin >;
    static constexpr int total = ( 0 + ... + S );
    static Case* self;
    mc::Placed< queue_t > q;
    pop isr_op;

    static std::string name()
    {
        std::string n = "sizes<"; const int sz[] = { S... };
        for ( int i = 0; i != int( sizeof...( S ) ); ++i ) n += ( i ? "," : "" ) + std::to_string( sz[ i ] );
        return n + ">";
    }
    // traced = executed instruction by instruction
    void call( int thread, int kind, int idx, bool traced )
    {
        mc::HOp o; o.thread = thread; o.kind = kind; o.arg = idx; o.t_call = clock_++;
        if ( kind == 0 ) { if ( traced ) { trace_on(); const bool r = q->queue_notification( idx ); trace_off(); o.ret = r; } else o.ret = q->queue_notification( idx ); }
        else if ( kind == 1 ) { if ( traced ) { trace_on(); const bool r = q->queue_indication( idx ); trace_off(); o.ret = r; } else o.ret = q->queue_indication( idx ); }
        else if ( kind == 3 ) q->indication_confirmed();
        else
        {
            std::pair< entry, std::size_t > r;
            if ( traced ) { trace_on(); r = q->dequeue_indication_or_confirmation(); trace_off(); } else r = q->dequeue_indication_or_confirmation();
            o.ret = r.first == entry::empty ? 0 : r.first == entry::notification ? 1 : 2; o.ret2 = long( r.second );
        }
        o.t_ret = clock_++;
        hist.push_back( o );
    }
    static void isr() { self->call( 0, self->isr_op.kind, self->isr_op.idx, false ); }

    // one execution: prefill, main operation with the interrupt after instruction `at` (-1: none, count only); returns
    // the number of instructions of the main operation; verdict in *fail
    long run( const std::vector< pop >& prefill, pop main_op, pop isr, long at, std::string* fail )
    {
        q.construct(); clock_ = 0; hist.clear(); hist.reserve( 64 );
        self = this; isr_op = isr; isr_fn = &Case::isr;
        for ( auto& p : prefill ) call( 2, p.kind, p.idx, false );
        step_ = 0; fire_at = at; fired = false;
        call( 1, main_op.kind, main_op.idx, true );
        const long n = step_;
        if ( at < 0 ) return n;
        if ( !fired ) { fired = true; Case::isr(); }    // position behind the last instruction
        for ( int i = 0; i != 2 * total + 3; ++i )
        {
            call( 2, 3, 0, false );
            call( 2, 2, 0, false );
            if ( hist.back().ret == 0 ) break;
        }
        if ( !mc::linearizable( hist, set_spec< S... >() ) )
        {
            int accepted[ 2 ][ 16 ] = {}, got[ 2 ][ 16 ] = {};
            for ( auto& o : hist )
            {
                if ( ( o.kind == 0 || o.kind == 1 ) && o.ret ) ++accepted[ o.kind ][ o.arg ];
                if ( o.kind == 2 && o.ret != 0 && o.ret2 < 16 ) ++got[ o.ret - 1 ][ o.ret2 ];
            }
            std::string cls = "other";
            for ( int k = 0; k != 2; ++k ) for ( int i = 0; i != total; ++i )
            {
                if ( got[ k ][ i ] < accepted[ k ][ i ] ) cls = "lost";
                else if ( got[ k ][ i ] > accepted[ k ][ i ] && cls != "lost" ) cls = "duplicated";
            }
            std::string h;
            static const char* kn[] = { "queue_notification", "queue_indication", "dequeue", "confirm" };
            for ( auto& o : hist )
            {
                h += mc::fmt( "T%d %s", o.thread, kn[ o.kind ] );
                if ( o.kind < 2 ) h += mc::fmt( "(%ld)->%ld", o.arg, o.ret );
                if ( o.kind == 2 ) h += o.ret == 0 ? std::string( "->empty" ) : mc::fmt( "->%s,%ld", o.ret == 1 ? "notification" : "indication", o.ret2 );
                h += mc::fmt( " [%d,%d]; ", o.t_call, o.t_ret );
            }
            *fail = cls + "|history not linearizable w.r.t. the set model (T0 interrupt, T1 interrupted context, T2 sequential prefix/drain): " + h;
        }
        return n;
    }
};
template < int... S > Case< S... >* Case< S... >::self = nullptr;

std::string op_name( pop p ) { return p.kind == 2 ? std::string( "deq" ) : mc::fmt( "%c%d", p.kind == 0 ? 'n' : 'i', p.idx ); }

template < int... S >
void family( const mc::Args& a, mc::Report& rep, const mc::ReplayFile* rf, int& rc )
{
    static Case< S... > c;
    constexpr int total = ( 0 + ... + S );
    std::vector< pop > all;
    for ( int k = 0; k != 2; ++k ) for ( int i = 0; i != total; ++i ) all.push_back( pop{ k, i } );
    std::vector< std::vector< pop > > prefills{ {} };
    for ( auto& p : all ) prefills.push_back( { p } );
    if ( ( a.thorough() && total <= 2 ) || total <= 1 ) for ( std::size_t i = 0; i != all.size(); ++i ) for ( std::size_t j = i + 1; j != all.size(); ++j ) prefills.push_back( { all[ i ], all[ j ] } );
    for ( int mode = 0; mode != 2; ++mode )          // 0: producer interrupts dequeue, 1: dequeue interrupts producer
        for ( auto& pre : prefills )
            for ( auto& pr : all )
            {
                if ( a.expired() ) { rep.exhaustive = false; return; }
                const pop main_op = mode == 0 ? pop{ 2, 0 } : pr, isr = mode == 0 ? pr : pop{ 2, 0 };
                std::string pn; for ( auto& p : pre ) pn += op_name( p );
                const std::string name = Case< S... >::name() + ":pre=" + ( pn.empty() ? "-" : pn ) + ":main=" + op_name( main_op ) + ":isr=" + op_name( isr );
                static const char* mn[] = { "isr-producer", "isr-consumer" };
                if ( rf )
                {
                    if ( rf->steps.size() != 2 || rf->steps[ 0 ] != name ) continue;
                    std::string f; c.run( pre, main_op, isr, atol( rf->steps[ 1 ].c_str() ), &f );
                    printf( "replayed %s with the interrupt after instruction %s\n%s\n", name.c_str(), rf->steps[ 1 ].c_str(), f.empty() ? "history is linearizable" : f.c_str() );
                    if ( !f.empty() ) { printf( "REPRODUCED\n" ); rc = 1; }
                    continue;
                }
                std::string dummy;
                const long n = c.run( pre, main_op, isr, -1, &dummy );
                std::set< std::string > outcomes;
                for ( long at = 0; at <= n; ++at )
                {
                    std::string f;
                    c.run( pre, main_op, isr, at, &f );
                    ++rep.evaluations; ++rep.states; ++rep.traces_validated; rep.transitions += ( at < n ? at + 1 : n );
                    std::string oc; for ( auto& h : hist ) if ( h.thread != 2 ) oc += mc::fmt( "%d%ld.%ld,", h.kind, h.ret, h.ret2 );
                    outcomes.insert( oc );
                    if ( !f.empty() )
                    {
                        std::string f2; c.run( pre, main_op, isr, at, &f2 );
                        if ( f2 != f ) { fprintf( stderr, "NONDETERMINISM in %s\n", name.c_str() ); exit( 2 ); }
                        const std::string cls = f.substr( 0, f.find( '|' ) );
                        rep.fail( mc::fmt( "not-linearizable:instruction-level:%s:%s", mn[ mode ], cls.c_str() ), name + mc::fmt( " (interrupt after instruction %ld of %ld): ", at, n ) + f.substr( f.find( '|' ) + 1 ),
                                  { name, std::to_string( at ) } );
                        break;
                    }
                }
                for ( auto& oc : outcomes ) rep.cls( Case< S... >::name() + ":" + oc );
                rep.counters[ "programs" ]++;
                if ( ( rep.counters[ "programs" ] % 41 ) == 1 )
                    rep.sample( name + mc::fmt( ": %ld instructions, interrupt tried at each of the %ld positions, %zu distinct result vectors", n, n + 1, outcomes.size() ), 10 );
            }
}

} // namespace

int main( int argc, char** argv )
{
    mc::Args a = mc::parse_args( argc, argv );
    mc::Report rep; rep.property = "C13"; rep.unit = a.opt.count( "unit" ) ? a.opt[ "unit" ] : "C13_singlestep";
    struct sigaction sa; memset( &sa, 0, sizeof sa ); sa.sa_sigaction = &on_trap; sa.sa_flags = SA_SIGINFO;
    sigaction( SIGTRAP, &sa, nullptr );
    mc::ReplayFile rf; const mc::ReplayFile* prf = nullptr; int rc = 0;
    if ( !a.replay.empty() ) { rf = mc::read_replay( a.replay ); prf = &rf; }
    family< 1 >( a, rep, prf, rc ); family< 2 >( a, rep, prf, rc ); family< 1, 1 >( a, rep, prf, rc );
    if ( a.thorough() ) { family< 1, 2 >( a, rep, prf, rc ); family< 2, 1 >( a, rep, prf, rc ); family< 3 >( a, rep, prf, rc ); family< 1, 1, 1 >( a, rep, prf, rc ); }
    if ( prf ) return rc;
    rep.notes[ "bound" ] = "every instruction boundary of one operation of the interrupted context x one complete operation of the interrupting context, both nestings, sequential prefixes of <=1 (quick, <=2 for up to two characteristics) / <=2 (thorough) requests";
    rep.notes[ "scope" ] = "granularity = the instructions the host compiler generates with -O0 for x86-64; a single x86 read-modify-write instruction is not split";
    rep.write( a );
    return 0;
}
