// C14 - advertising and scan response data are well-formed.
// E2: exhaustive product  (generated server<> declarations of this shard) x {advertising_data, scan_response_data} x buffer size 0..31.
// Every evaluation calls the real server three times: twice into a canary-framed block (two different canary patterns: writes
// beyond `size`, bytes of the payload that were never written) and once into an exact-size heap block (ASan red zones).
// The reference record of every configuration comes from gen/C14_servers.py and is independent of bluetoe's meta programming.
#include "../mc/mc.hpp"
#include <bluetoe/server.hpp>

namespace c14 {

enum { kind_auto = 0, kind_custom = 1, kind_runtime = 2 };
enum { what_adv = 0, what_scan = 1 };

struct Spec;
// performs one real call: what = what_adv / what_scan
typedef std::size_t ( *call_t )( const Spec&, int what, std::uint8_t* buffer, std::size_t size );

struct Spec
{
    const char*          id;
    int                  name_len;          // -1: no server_name<>
    const char*          name;
    int                  app;               // advertise_appearance given
    unsigned             app_value;
    int                  n16, req16;        // expected 16 bit UUIDs; the first req16 are declared by the user, the rest (GAP 0x1800) is added by the library
    std::uint16_t        u16[ 16 ];
    int                  n128, req128;
    std::uint8_t         u128[ 2 ][ 16 ];   // wire format
    int                  rng;
    unsigned             rng_min, rng_max;
    int                  adv_kind;
    const std::uint8_t*  adv_data;
    int                  adv_len;           // supplied octets; -1: runtime data never set
    int                  scan_kind;
    const std::uint8_t*  scan_data;
    int                  scan_len;
    call_t               call;
};

// the input of set_runtime_custom_*() lives in an exact-size heap block (over-reads hit a red zone)
struct exact_copy
{
    std::uint8_t* p;
    exact_copy( const std::uint8_t* src, std::size_t n ) : p( new std::uint8_t[ n ] ) { if ( n ) memcpy( p, src, n ); }
    ~exact_copy() { delete[] p; }
};

template < class Server, int AdvKind, int ScanKind >
struct runner
{
    static std::size_t call( const Spec& sp, int what, std::uint8_t* buffer, std::size_t size )
    {
        static mc::Placed< Server > srv;
        srv.construct();

        if constexpr ( AdvKind == kind_runtime )
        {
            if ( sp.adv_len >= 0 )
            {
                exact_copy in( sp.adv_data, sp.adv_len );
                srv->set_runtime_custom_advertising_data( in.p, sp.adv_len );
            }
        }
        if constexpr ( ScanKind == kind_runtime )
        {
            if ( sp.scan_len >= 0 )
            {
                exact_copy in( sp.scan_data, sp.scan_len );
                srv->set_runtime_custom_scan_response_data( in.p, sp.scan_len );
            }
        }

        const Server& s = srv.get();
        return what == what_adv ? s.advertising_data( buffer, size ) : s.scan_response_data( buffer, size );
    }
};

} // namespace c14

#ifndef C14_HDR
#error "C14_HDR (generated header of this shard) is not defined"
#endif
#include C14_HDR

namespace c14 {

static const unsigned head = 32, cap = 31, tail = 160;

struct Obs
{
    std::string  guard;                 // "" / "asan" / "signal-N"
    std::size_t  ret = 0;
    std::uint8_t img[ head + cap + tail ];
};

static void framed_call( const Spec& sp, int what, std::size_t size, std::uint8_t fill, Obs& o )
{
    memset( o.img, fill, sizeof o.img );
    o.ret = 0;
    o.guard = mc::Guard::call( [&]{ o.ret = sp.call( sp, what, o.img + head, size ); } );
}

static const char* ad_kind( unsigned type )
{
    switch ( type )
    {
        case 0x01: return "flags";
        case 0x02: case 0x03: return "uuid16-list";
        case 0x06: case 0x07: return "uuid128-list";
        case 0x08: case 0x09: return "name";
        case 0x12: return "interval-range";
        case 0x19: return "appearance";
    }
    return "other";
}

// name of the AD structure (as laid out from the start of the buffer) that covers octet `pos`
static std::string culprit( const std::uint8_t* b, std::size_t limit, std::size_t pos )
{
    std::size_t p = 0;
    std::string previous = "start";
    while ( p < limit )
    {
        const std::size_t len = b[ p ];
        if ( len == 0 ) return "terminator";
        const std::string kind = ad_kind( p + 1 < limit ? b[ p + 1 ] : 0 );
        // octets that do not belong to a structure of a known type are attributed to the item written before them
        if ( kind == "other" ) return "after-" + previous;
        if ( pos <= p + len ) return kind;
        previous = kind;
        p += 1 + len;
    }
    return "after-" + previous;
}

struct Verdict
{
    std::string sig, detail, cls;
    bool failed() const { return !sig.empty(); }
    void fail( const std::string& s, const std::string& d ) { if ( sig.empty() ) { sig = s; detail = d; } }
};

static const char* kind_name( int k ) { return k == kind_auto ? "auto" : k == kind_custom ? "custom" : "runtime"; }

struct Item { unsigned type; const std::uint8_t* data; std::size_t len; };

// content of generated (non user supplied) payloads
static void check_generated( const Spec& sp, int what, std::size_t size, const std::uint8_t* out, std::size_t ret, const std::string& mech, Verdict& v )
{
    std::vector< Item > items;
    std::size_t p = 0;
    std::size_t padding = 0;
    while ( p < ret )
    {
        const std::size_t len = out[ p ];
        if ( len == 0 )
        {
            // Core Vol 3 Part C 11: a zero length ends the significant part, the rest has to be all zero
            for ( std::size_t q = p; q != ret; ++q )
                if ( out[ q ] != 0 )
                    return v.fail( "tiling:" + mech + ":data-after-zero-length-structure", mc::fmt( "zero length octet at offset %zu is followed by non zero data at offset %zu", p, q ) );
            padding = ret - p;
            break;
        }
        if ( p + 1 + len > ret )
            return v.fail( "tiling:" + mech + ":structure-runs-past-end:" + ad_kind( p + 1 < ret ? out[ p + 1 ] : 0 ),
                           mc::fmt( "AD structure at offset %zu has length %zu but the payload ends at %zu", p, len, ret ) );
        items.push_back( Item{ out[ p + 1 ], out + p + 2, len - 1 } );
        p += 1 + len;
    }
    const std::size_t significant = p;
    const std::size_t unused = size - significant;    // room that could have been used for generated content

    bool have_flags = false, have_app = false, have_name = false, have_16 = false, have_128 = false, have_rng = false;
    bool name_short = false, inc16 = false, inc128 = false;
    std::string shape;
    for ( const Item& it : items )
    {
        const std::string kind = ad_kind( it.type );
        bool* seen = it.type == 0x01 ? &have_flags : it.type == 0x19 ? &have_app : kind == "name" ? &have_name
                   : kind == "uuid16-list" ? &have_16 : kind == "uuid128-list" ? &have_128 : it.type == 0x12 ? &have_rng : nullptr;
        if ( !seen )
            return v.fail( "unexpected-ad:" + mech + ":other", mc::fmt( "AD type 0x%02x is not the result of any declared option", it.type ) );
        if ( *seen )
            return v.fail( "duplicate-ad:" + mech + ":" + kind, "AD type " + kind + " appears twice" );
        *seen = true;

        if ( it.type == 0x01 )
        {
            if ( it.len != 1 ) return v.fail( "flags:" + mech + ":malformed", mc::fmt( "flags AD with %zu data octets", it.len ) );
            shape += "flags ";
        }
        else if ( it.type == 0x19 )
        {
            if ( !sp.app ) return v.fail( "unexpected-ad:" + mech + ":appearance", "appearance AD without advertise_appearance" );
            if ( it.len != 2 || unsigned( it.data[ 0 ] | ( it.data[ 1 ] << 8 ) ) != sp.app_value )
                return v.fail( "appearance:" + mech + ":wrong-value", mc::fmt( "appearance AD %s, declared 0x%04x", mc::hex( it.data, it.len ).c_str(), sp.app_value ) );
            shape += "appearance ";
        }
        else if ( kind == "name" )
        {
            if ( sp.name_len < 0 ) return v.fail( "unexpected-ad:" + mech + ":name", "name AD without server_name<>" );
            if ( it.len > std::size_t( sp.name_len ) || memcmp( it.data, sp.name, it.len ) != 0 )
                return v.fail( "name:" + mech + ":not-a-prefix", mc::fmt( "name AD '%s' is not a prefix of the declared name (%d octets)", mc::hex( it.data, it.len ).c_str(), sp.name_len ) );
            const bool whole = it.len == std::size_t( sp.name_len );
            if ( it.type == 0x09 && !whole )
                return v.fail( "name:" + mech + ":complete-but-truncated", mc::fmt( "Complete Local Name with %zu of %d octets", it.len, sp.name_len ) );
            if ( it.type == 0x08 && whole )
                return v.fail( "name:" + mech + ":shortened-but-whole", mc::fmt( "Shortened Local Name carries the whole name (%d octets)", sp.name_len ) );
            name_short = !whole;
            shape += whole ? "name " : "name-short ";
        }
        else if ( kind == "uuid16-list" )
        {
            if ( sp.n16 == 0 ) return v.fail( "unexpected-ad:" + mech + ":uuid16-list", "list of 16 bit service UUIDs although none is declared / the list is switched off" );
            if ( it.len % 2 ) return v.fail( "uuid16-list:" + mech + ":malformed", mc::fmt( "%zu data octets", it.len ) );
            bool listed[ 16 ] = { false };
            for ( std::size_t i = 0; i != it.len; i += 2 )
            {
                const unsigned u = it.data[ i ] | ( it.data[ i + 1 ] << 8 );
                int idx = -1;
                for ( int k = 0; k != sp.n16; ++k ) if ( sp.u16[ k ] == u ) idx = k;
                if ( idx < 0 ) return v.fail( "uuid16-list:" + mech + ":undeclared-uuid", mc::fmt( "UUID 0x%04x is listed but not declared", u ) );
                if ( listed[ idx ] ) return v.fail( "uuid16-list:" + mech + ":duplicate-uuid", mc::fmt( "UUID 0x%04x is listed twice", u ) );
                listed[ idx ] = true;
            }
            bool all_required = true, all = true;
            for ( int k = 0; k != sp.n16; ++k ) { all = all && listed[ k ]; if ( k < sp.req16 ) all_required = all_required && listed[ k ]; }
            if ( it.type == 0x03 && !all_required )
                return v.fail( "uuid16-list:" + mech + ":complete-but-missing", mc::fmt( "Complete List with %zu UUIDs, %d are declared", it.len / 2, sp.req16 ) );
            if ( it.type == 0x02 && all )
                return v.fail( "uuid16-list:" + mech + ":incomplete-but-all-listed", mc::fmt( "Incomplete List carries all %d UUIDs", sp.n16 ) );
            inc16 = !all_required;
            shape += it.type == 0x03 ? "uuid16 " : "uuid16-incomplete ";
        }
        else if ( kind == "uuid128-list" )
        {
            if ( sp.n128 == 0 ) return v.fail( "unexpected-ad:" + mech + ":uuid128-list", "list of 128 bit service UUIDs although none is declared / the list is switched off" );
            if ( it.len % 16 ) return v.fail( "uuid128-list:" + mech + ":malformed", mc::fmt( "%zu data octets", it.len ) );
            bool listed[ 2 ] = { false, false };
            for ( std::size_t i = 0; i != it.len; i += 16 )
            {
                int idx = -1;
                for ( int k = 0; k != sp.n128; ++k ) if ( memcmp( sp.u128[ k ], it.data + i, 16 ) == 0 ) idx = k;
                if ( idx < 0 ) return v.fail( "uuid128-list:" + mech + ":undeclared-uuid", "UUID " + mc::hex( it.data + i, 16 ) + " is listed but not declared" );
                if ( listed[ idx ] ) return v.fail( "uuid128-list:" + mech + ":duplicate-uuid", "UUID " + mc::hex( it.data + i, 16 ) + " is listed twice" );
                listed[ idx ] = true;
            }
            bool all = true;
            for ( int k = 0; k != sp.n128; ++k ) all = all && listed[ k ];
            if ( it.type == 0x07 && !all )
                return v.fail( "uuid128-list:" + mech + ":complete-but-missing", mc::fmt( "Complete List with %zu UUIDs, %d are declared", it.len / 16, sp.n128 ) );
            if ( it.type == 0x06 && all )
                return v.fail( "uuid128-list:" + mech + ":incomplete-but-all-listed", mc::fmt( "Incomplete List carries all %d UUIDs", sp.n128 ) );
            inc128 = !all;
            shape += it.type == 0x07 ? "uuid128 " : "uuid128-incomplete ";
        }
        else
        {
            if ( !sp.rng ) return v.fail( "unexpected-ad:" + mech + ":interval-range", "connection interval range AD without peripheral_connection_interval_range<>" );
            if ( it.len != 4 || unsigned( it.data[ 0 ] | ( it.data[ 1 ] << 8 ) ) != sp.rng_min || unsigned( it.data[ 2 ] | ( it.data[ 3 ] << 8 ) ) != sp.rng_max )
                return v.fail( "interval-range:" + mech + ":wrong-value", mc::fmt( "range AD %s, declared 0x%04x..0x%04x", mc::hex( it.data, it.len ).c_str(), sp.rng_min, sp.rng_max ) );
            shape += "range ";
        }
    }
    if ( padding ) shape += "zero-padding ";

    if ( what == what_adv )
    {
        if ( size >= 3 && !have_flags )
            return v.fail( "flags:" + mech + ":missing", mc::fmt( "buffer of %zu octets but no flags AD", size ) );

        // what is declared shows up unless the buffer really has no room for it (tail of the buffer after the significant part)
        if ( sp.app && !have_app && unused >= 4 )
            return v.fail( "omitted-with-room:" + mech + ":appearance", mc::fmt( "%zu octets unused, appearance AD needs 4", unused ) );
        if ( sp.name_len >= 1 && !have_name && unused >= 3 )
            return v.fail( "omitted-with-room:" + mech + ":name", mc::fmt( "%zu octets unused, one character of the name needs 3", unused ) );
        if ( sp.req16 >= 1 && !have_16 && unused >= 4 )
            return v.fail( "omitted-with-room:" + mech + ":uuid16-list", mc::fmt( "%zu octets unused, one 16 bit UUID needs 4", unused ) );
        if ( sp.req128 >= 1 && !have_128 && unused >= 18 )
            return v.fail( "omitted-with-room:" + mech + ":uuid128-list", mc::fmt( "%zu octets unused, one 128 bit UUID needs 18", unused ) );
        if ( sp.rng && !have_rng && unused >= 6 )
            return v.fail( "omitted-with-room:" + mech + ":interval-range", mc::fmt( "%zu octets unused, the range AD needs 6", unused ) );
        if ( name_short && unused >= 1 )
            return v.fail( "truncated-with-room:" + mech + ":name", mc::fmt( "name shortened although %zu octets of the buffer are unused", unused ) );
        if ( inc16 && unused >= 2 )
            return v.fail( "truncated-with-room:" + mech + ":uuid16-list", mc::fmt( "list incomplete although %zu octets of the buffer are unused", unused ) );
        if ( inc128 && unused >= 16 )
            return v.fail( "truncated-with-room:" + mech + ":uuid128-list", mc::fmt( "list incomplete although %zu octets of the buffer are unused", unused ) );
    }
    if ( shape.empty() ) shape = "empty ";
    v.cls = mech + ": " + shape;
}

static void check_custom( const std::uint8_t* data, int len, std::size_t size, const std::uint8_t* out, std::size_t ret, const std::string& mech, Verdict& v )
{
    const std::size_t supplied = len < 0 ? 0 : std::min< std::size_t >( len, 31 );   // set_runtime_... keeps at most 31 octets
    if ( ret > supplied || memcmp( out, data, ret ) != 0 )
        return v.fail( "custom-data:" + mech + ":not-a-prefix", mc::fmt( "%zu octets returned, %s; supplied %s", ret, mc::hex( out, ret ).c_str(), mc::hex( data, supplied ).c_str() ) );
    if ( supplied <= size && ret != supplied )
        return v.fail( "custom-data:" + mech + ":truncated-although-it-fits", mc::fmt( "%zu of %zu supplied octets returned into a buffer of %zu", ret, supplied, size ) );
    v.cls = mech + ": " + ( len < 0 ? "never-set " : ret == std::size_t( len ) ? "whole " : ret == 0 ? "nothing " : "prefix " );
}

struct Eval { Verdict v; std::size_t ret = 0; std::string out; unsigned calls = 0; };

static Eval evaluate( const Spec& sp, int what, std::size_t size )
{
    Eval e;
    Verdict& v = e.v;
    const int kind = what == what_adv ? sp.adv_kind : sp.scan_kind;
    const std::string mech = std::string( what == what_adv ? "adv-" : "scan-" ) + kind_name( kind );

    static Obs a, b;
    framed_call( sp, what, size, 0xA5, a ); ++e.calls;
    e.ret = a.ret;
    e.out = mc::hex( a.img + head, std::min< std::size_t >( a.ret, cap + tail ) );
    if ( !a.guard.empty() )
        { v.fail( "crash:" + mech + ":" + a.guard, "call into a large buffer: " + a.guard ); return e; }
    framed_call( sp, what, size, 0x5A, b ); ++e.calls;
    if ( !b.guard.empty() )
        { v.fail( "crash:" + mech + ":" + b.guard, "call into a large buffer: " + b.guard ); return e; }
    if ( a.ret != b.ret )
        { v.fail( "unstable:" + mech + ":return-value", mc::fmt( "two identical calls returned %zu and %zu", a.ret, b.ret ) ); return e; }

    // 1. nothing outside [ buffer, buffer + size )
    for ( unsigned i = 0; i != head; ++i )
        if ( a.img[ i ] != 0xA5 || b.img[ i ] != 0x5A )
            { v.fail( "writes-before-buffer:" + mech, mc::fmt( "octet at buffer[-%u] changed", head - i ) ); return e; }
    std::size_t first_beyond = ~std::size_t( 0 ), n_beyond = 0;
    for ( std::size_t i = head + size; i != sizeof a.img; ++i )
        if ( a.img[ i ] != 0xA5 || b.img[ i ] != 0x5A )
            { if ( !n_beyond ) first_beyond = i - head; ++n_beyond; }
    if ( n_beyond || a.ret > size )
    {
        const std::size_t pos = n_beyond ? first_beyond : size;
        const std::string who = kind == kind_auto ? culprit( a.img + head, cap + tail, pos ) : "copy";
        v.fail( "writes-beyond-size:" + mech + ":" + who,
                mc::fmt( "buffer size %zu: returned length %zu, %zu octets written at or beyond buffer[%zu] (first at [%zu]); block now %s",
                         size, a.ret, n_beyond, size, n_beyond ? first_beyond : 0, mc::hex( a.img + head, std::min< std::size_t >( std::max( a.ret, size ) + 2, cap + tail ) ).c_str() ) );
        return e;
    }
    if ( a.ret > 31 )
        { v.fail( "length-over-31:" + mech, mc::fmt( "returned length %zu", a.ret ) ); return e; }

    // 2. the payload is written, not left over
    for ( std::size_t i = 0; i != a.ret; ++i )
        if ( a.img[ head + i ] != b.img[ head + i ] )
        {
            v.fail( "payload-not-written:" + mech + ":" + ( kind == kind_auto ? culprit( a.img + head, a.ret, i ) : "copy" ),
                    mc::fmt( "octet %zu of the returned %zu octets keeps the previous buffer content", i, a.ret ) );
            return e;
        }

    // 3. exact-size heap block: ASan sees every access outside, and reads beyond name / UUID / custom data arrays
    {
        std::uint8_t* exact = new std::uint8_t[ size ];
        memset( exact, 0xEE, size );
        std::size_t r = 0;
        const std::string g = mc::Guard::call( [&]{ r = sp.call( sp, what, exact, size ); } ); ++e.calls;
        std::string problem;
        if ( !g.empty() ) problem = g;
        else if ( r != a.ret || memcmp( exact, a.img + head, std::min( r, size ) ) != 0 ) problem = "differs";
        delete[] exact;
        if ( problem == "differs" )
            { v.fail( "unstable:" + mech + ":payload", "call into the exact-size block gave a different payload" ); return e; }
        if ( !problem.empty() )
            { v.fail( "memory:" + mech + ":" + problem, "call with an exact-size heap buffer: " + problem ); return e; }
    }

    const std::uint8_t* out = a.img + head;
    if ( kind == kind_auto ) check_generated( sp, what, size, out, a.ret, mech, v );
    else check_custom( what == what_adv ? sp.adv_data : sp.scan_data, what == what_adv ? sp.adv_len : sp.scan_len, size, out, a.ret, mech, v );
    return e;
}

static std::string step_line( const Spec& sp, int what, std::size_t size )
{
    return mc::fmt( "%s %s %zu", sp.id, what == what_adv ? "adv" : "scan", size );
}

} // namespace c14

int main( int argc, char** argv )
{
    using namespace c14;
    mc::Args a = mc::parse_args( argc, argv );
    mc::Report rep; rep.property = "C14";
    rep.unit = a.opt.count( "unit" ) ? a.opt[ "unit" ] : std::string( "C14_adv_data-" ) + c14_shard;
    const std::size_t nspecs = sizeof c14_specs / sizeof c14_specs[ 0 ];

    if ( !a.replay.empty() )
    {
        const mc::ReplayFile rf = mc::read_replay( a.replay );
        int rc = 0;
        for ( auto& s : rf.steps )
        {
            char id[ 256 ], what[ 16 ]; unsigned size = 0;
            if ( sscanf( s.c_str(), "%255s %15s %u", id, what, &size ) != 3 ) { printf( "unparsable step '%s'\n", s.c_str() ); continue; }
            const Spec* sp = nullptr;
            for ( std::size_t i = 0; i != nspecs; ++i ) if ( std::string( c14_specs[ i ].id ) == id ) sp = &c14_specs[ i ];
            if ( !sp ) { printf( "configuration %s is not part of unit %s (shard %s); replay with the unit named in the trace (thorough-only units need --tier thorough)\n", id, rep.unit.c_str(), c14_shard ); continue; }
            const int w = std::string( what ) == "adv" ? what_adv : what_scan;
            Eval e = evaluate( *sp, w, size );
            printf( "  step: %s( buffer, %u ) on %s -> %zu  %s\n", w == what_adv ? "advertising_data" : "scan_response_data", size, id, e.ret, e.out.c_str() );
            if ( e.v.failed() ) printf( "    FAIL %s: %s\n", e.v.sig.c_str(), e.v.detail.c_str() );
            if ( e.v.sig == rf.sig ) { printf( "REPRODUCED %s: %s\n", e.v.sig.c_str(), e.v.detail.c_str() ); rc = 1; }
        }
        if ( !rc ) printf( "not reproduced\n" );
        return rc;
    }

    std::size_t done = 0;
    for ( std::size_t i = 0; i != nspecs; ++i )
    {
        if ( a.expired() ) break;
        const Spec& sp = c14_specs[ i ];
        for ( int what = what_adv; what <= what_scan; ++what )
            for ( std::size_t size = 0; size <= 31; ++size )
            {
                Eval e = evaluate( sp, what, size );
                ++rep.evaluations;
                rep.traces_validated += e.calls;
                if ( e.v.failed() )
                {
                    rep.fail( e.v.sig, std::string( sp.id ) + ( what == what_adv ? " advertising_data" : " scan_response_data" ) + mc::fmt( "( buffer, %zu ): ", size ) + e.v.detail,
                              { step_line( sp, what, size ) } );
                    rep.cls( "violation " + e.v.sig );
                }
                else
                {
                    rep.cls( e.v.cls );
                    if ( ( i * 64 + what * 32 + size ) % 397 == 211 )
                        rep.sample( step_line( sp, what, size ) + mc::fmt( " -> %zu ", e.ret ) + e.out, 8 );
                }
            }
        ++done;
    }
    if ( done != nspecs )
    {
        rep.exhaustive = false;
        rep.notes[ "cut" ] = mc::fmt( "deadline: %zu of %zu configurations of this shard completely evaluated", done, nspecs );
    }
    rep.counters[ "configurations" ] = done;
    rep.counters[ "server types" ] = c14_server_types;
    rep.notes[ "bound" ] = mc::fmt( "shard %s: %zu configurations x { advertising_data, scan_response_data } x buffer size 0..31", c14_shard, nspecs );
    rep.write( a );
    return 0;
}
