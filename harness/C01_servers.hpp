// C01 - server configurations (one per harness variant, selected with -DC01_CFG=<n>).
//
// Every configuration provides
//     using server_t = bluetoe::server< ... >;
//     static const char* const value_kinds[]  : kind of the i-th characteristic *value* attribute in declaration order
//                                               ("bound", "const", "handler", "control-point"); attributes of the
//                                               automatically appended GAP service are classified as "const".
// All mutable data the servers touch lives in c01::data (one object, registered as one snapshot region) or inside
// the server object (mixins).  Handlers are well behaved: they honour read_size / write_size and never touch `value`
// when write_size == 0.
#ifndef VERIF_C01_SERVERS_HPP
#define VERIF_C01_SERVERS_HPP

#include <iterator>
#include <algorithm>
#include <cstring>
#include <tuple>
#include <utility>
#include <bluetoe/server.hpp>
#include <bluetoe/service.hpp>
#include <bluetoe/characteristic.hpp>
#include <bluetoe/characteristic_value.hpp>
#include <bluetoe/descriptor.hpp>
#include <bluetoe/gatt_options.hpp>
#include <bluetoe/encryption.hpp>
#include <bluetoe/mixin.hpp>
#include <bluetoe/server_name.hpp>
#include <bluetoe/appearance.hpp>
#include <bluetoe/write_queue.hpp>
#include <bluetoe/attribute_handle.hpp>
#include <bluetoe/outgoing_priority.hpp>

#ifndef C01_CFG
#   define C01_CFG 1
#endif

namespace c01 {

    // ---- values bound to characteristics: separate globals, so that ASan puts red zones between them ----------
    std::uint8_t        v_u8   = 0x11;
    std::uint16_t       v_u16  = 0x2222;
    std::uint32_t       v_u32  = 0x33333333;
    const std::uint16_t v_c16  = 0x4444;
    std::uint8_t        v_a3[ 3 ]     = { 1, 2, 3 };
    std::uint8_t        v_a20[ 20 ]   = { 20 };
    std::uint8_t        v_a22[ 22 ]   = { 22 };
    std::uint8_t        v_a30[ 30 ]   = { 30 };
    std::uint8_t        v_a64[ 64 ]   = { 64 };
    std::uint8_t        v_a200[ 200 ] = { 200 };
    std::uint8_t        v_b1   = 0x55;
    std::uint8_t        v_b2   = 0x66;
    std::uint8_t        v_b3   = 0x77;

    // ---- storage behind the free handlers ----------------------------------------------------------------------
    constexpr std::size_t blob_size = 30;
    std::uint8_t        h_blob[ blob_size ] = { 0xb0 };
    std::uint8_t        h_raw[ 8 ]  = { 0xa0 };
    std::uint8_t        h_small[ 5 ] = { 1, 2, 3, 4, 5 };
    std::uint32_t       h_word = 0;

    static const char          name_a[] = "Temperature";
    static const char          name_b[] = "A characteristic name that is longer than one default MTU";
    static const char          text_a[] = "const string value";
    static const char          srv_name[] = "C01 server";
    static const std::uint8_t  desc_a[ 4 ]  = { 1, 2, 3, 4 };
    static const std::uint8_t  desc_b[ 30 ] = { 9, 8, 7 };
    static const std::uint8_t  blob_a[ 40 ] = { 4, 0 };

    inline std::uint8_t rd_blob( std::size_t offset, std::size_t read_size, std::uint8_t* out, std::size_t& out_size )
    {
        if ( offset > blob_size )
            return bluetoe::error_codes::invalid_offset;

        out_size = std::min( blob_size - offset, read_size );
        std::copy( &h_blob[ offset ], &h_blob[ offset + out_size ], out );
        return bluetoe::error_codes::success;
    }

    inline std::uint8_t wr_blob( std::size_t offset, std::size_t write_size, const std::uint8_t* value )
    {
        if ( offset > blob_size )
            return bluetoe::error_codes::invalid_offset;

        if ( write_size > blob_size - offset )
            return bluetoe::error_codes::invalid_attribute_value_length;

        if ( write_size )
            std::copy( value, value + write_size, &h_blob[ offset ] );
        return bluetoe::error_codes::success;
    }

    inline std::uint8_t rd_small( std::size_t read_size, std::uint8_t* out, std::size_t& out_size )
    {
        out_size = std::min( sizeof( h_small ), read_size );
        std::copy( &h_small[ 0 ], &h_small[ out_size ], out );
        return bluetoe::error_codes::success;
    }

    inline std::uint8_t wr_raw( std::size_t write_size, const std::uint8_t* value )
    {
        if ( write_size > sizeof( h_raw ) )
            return bluetoe::error_codes::invalid_attribute_value_length;

        if ( write_size )
            std::copy( value, value + write_size, &h_raw[ 0 ] );
        return bluetoe::error_codes::success;
    }

    inline std::uint8_t wr_u8( std::uint8_t v )   { h_word = v; return bluetoe::error_codes::success; }
    inline std::uint8_t wr_u32( std::uint32_t v ) { h_word = v; return bluetoe::error_codes::success; }
    inline std::uint8_t wr_bool( bool v )         { h_word = v; return v ? bluetoe::error_codes::success : bluetoe::error_codes::out_of_range; }

    // mixin with state inside the server object
    struct cp_mixin
    {
        cp_mixin() : last( 0 ), calls( 0 ) { std::fill( std::begin( store ), std::end( store ), 0x3c ); }

        std::pair< std::uint8_t, bool > cp_write( std::size_t write_size, const std::uint8_t* value )
        {
            ++calls;
            if ( write_size == 0 )
                return std::pair< std::uint8_t, bool >( bluetoe::error_codes::invalid_attribute_value_length, false );
            if ( write_size > sizeof( store ) )
                return std::pair< std::uint8_t, bool >( bluetoe::error_codes::invalid_attribute_value_length, false );

            std::copy( value, value + write_size, &store[ 0 ] );
            last = value[ 0 ];
            return std::pair< std::uint8_t, bool >( bluetoe::error_codes::success, ( last & 1 ) != 0 );
        }

        std::uint8_t cp_read( std::size_t read_size, std::uint8_t* out, std::size_t& out_size )
        {
            out_size = std::min< std::size_t >( 3, read_size );
            std::copy( &store[ 0 ], &store[ out_size ], out );
            return bluetoe::error_codes::success;
        }

        std::uint8_t m_read_blob( std::size_t offset, std::size_t read_size, std::uint8_t* out, std::size_t& out_size )
        {
            if ( offset > sizeof( store ) )
                return bluetoe::error_codes::invalid_offset;
            out_size = std::min( sizeof( store ) - offset, read_size );
            std::copy( &store[ offset ], &store[ offset + out_size ], out );
            return bluetoe::error_codes::success;
        }

        std::uint8_t m_write_blob( std::size_t offset, std::size_t write_size, const std::uint8_t* value )
        {
            if ( offset > sizeof( store ) )
                return bluetoe::error_codes::invalid_offset;
            if ( write_size > sizeof( store ) - offset )
                return bluetoe::error_codes::invalid_attribute_value_length;
            if ( write_size )
                std::copy( value, value + write_size, &store[ offset ] );
            return bluetoe::error_codes::success;
        }

        std::uint8_t m_write( std::size_t write_size, const std::uint8_t* value )
        {
            return m_write_blob( 0, write_size, value );
        }

        std::uint8_t store[ 24 ];
        std::uint8_t last;
        std::uint8_t calls;
    };

    using namespace bluetoe;

    using suuid_a = service_uuid< 0x8C8B4094, 0x0DE2, 0x499F, 0xA28A, 0x4EED5BC73CA9 >;
    using suuid_b = service_uuid< 0xD9473E00, 0xE7D3, 0x4D90, 0x9366, 0x282AC4F44FEB >;
    template < unsigned N >
    using cuuid = characteristic_uuid< 0x8C8B4094, 0x0DE2, 0x499F, 0xA28A, 0x4EED5BC73C00 + N >;

// ------------------------------------------------------------------------------------------------------------------
#if C01_CFG == 1
    // 16 bit UUIDs only, bound values of several sizes, no write queue, default MTU, no GAP service
    static const char cfg_name[] = "u16-basic-mtu23";
    using server_t = server<
        service<
            service_uuid16< 0x1810 >,
            characteristic< characteristic_uuid16< 0x2A01 >, bind_characteristic_value< std::uint8_t, &v_u8 > >,
            characteristic< characteristic_uuid16< 0x2A02 >, bind_characteristic_value< std::uint32_t, &v_u32 >, no_write_access >,
            characteristic< characteristic_uuid16< 0x2A03 >, bind_characteristic_value< const std::uint16_t, &v_c16 > >,
            characteristic< characteristic_uuid16< 0x2A04 >, bind_characteristic_value< decltype( v_a22 ), &v_a22 > >,
            characteristic< characteristic_uuid16< 0x2A05 >, bind_characteristic_value< decltype( v_a30 ), &v_a30 >, no_read_access >
        >,
        no_gap_service_for_gatt_servers
    >;
    static const char* const value_kinds[] = { "bound", "bound", "const", "bound", "bound" };

#elif C01_CFG == 2
    // 128 bit UUIDs, one automatic characteristic UUID, value longer than an MTU, write queue, MTU 65, GAP service
    static const char cfg_name[] = "u128-queue64-mtu65";
    using server_t = server<
        shared_write_queue< 64 >,
        max_mtu_size< 65 >,
        server_name< srv_name >,
        service<
            suuid_a,
            characteristic< cuuid< 1 >, bind_characteristic_value< std::uint16_t, &v_u16 > >,
            characteristic< bind_characteristic_value< decltype( v_a30 ), &v_a30 > >,
            characteristic< cuuid< 3 >, bind_characteristic_value< decltype( v_a64 ), &v_a64 > >,
            characteristic< cuuid< 4 >, fixed_uint32_value< 0x01020304 > >
        >
    >;
    static const char* const value_kinds[] = { "bound", "bound", "bound", "const" };

#elif C01_CFG == 3
    // fixed attribute handles with gaps between services, between characteristics and inside a characteristic
    static const char cfg_name[] = "handle-gaps-queue32-mtu23";
    using server_t = server<
        shared_write_queue< 32 >,
        service<
            service_uuid16< 0x1811 >,
            attribute_handle< 0x0004 >,
            characteristic< characteristic_uuid16< 0x2A11 >, bind_characteristic_value< std::uint8_t, &v_u8 > >,
            characteristic< characteristic_uuid16< 0x2A12 >, bind_characteristic_value< decltype( v_a3 ), &v_a3 >, attribute_handle< 0x0010 > >,
            characteristic< characteristic_uuid16< 0x2A13 >, bind_characteristic_value< std::uint16_t, &v_u16 >, notify,
                            attribute_handles< 0x0014, 0x0016, 0x0019 >, characteristic_name< name_a > >
        >,
        service<
            suuid_a,
            attribute_handle< 0x0020 >,
            characteristic< cuuid< 1 >, bind_characteristic_value< decltype( v_a20 ), &v_a20 >, attribute_handles< 0x0022, 0x0025 > >
        >,
        no_gap_service_for_gatt_servers
    >;
    static const char* const value_kinds[] = { "bound", "bound", "bound", "bound" };

#elif C01_CFG == 4
    // descriptors (several per characteristic do not compile in bluetoe: 'currently not supported'), user descriptions
    // (one longer than an MTU), constant values, no write queue, MTU 65
    static const char cfg_name[] = "descriptors-const-mtu65";
    using server_t = server<
        max_mtu_size< 65 >,
        service<
            service_uuid16< 0x1812 >,
            characteristic< characteristic_uuid16< 0x2A21 >, bind_characteristic_value< std::uint16_t, &v_u16 >,
                            descriptor< 0x4711, desc_a, sizeof( desc_a ) > >,
            characteristic< characteristic_uuid16< 0x2A22 >, bind_characteristic_value< std::uint8_t, &v_u8 >, notify,
                            characteristic_name< name_b >,
                            descriptor< 0x4712, desc_b, sizeof( desc_b ) > >,
            characteristic< characteristic_uuid16< 0x2A23 >, cstring_value< text_a > >,
            characteristic< characteristic_uuid16< 0x2A24 >, fixed_uint16_value< 0xBEEF >, characteristic_name< name_a > >,
            characteristic< cuuid< 5 >, fixed_blob_value< blob_a, sizeof( blob_a ) > >
        >,
        no_gap_service_for_gatt_servers
    >;
    static const char* const value_kinds[] = { "bound", "bound", "const", "const", "const" };

#elif C01_CFG == 5
    // CCCDs (notify, indicate, both) with a shared write queue, default MTU
    static const char cfg_name[] = "cccd-queue40-mtu23";
    using server_t = server<
        shared_write_queue< 40 >,
        service<
            service_uuid16< 0x1813 >,
            characteristic< characteristic_uuid16< 0x2A31 >, bind_characteristic_value< std::uint8_t, &v_b1 >, notify >,
            characteristic< characteristic_uuid16< 0x2A32 >, bind_characteristic_value< std::uint8_t, &v_b2 >, indicate >,
            characteristic< cuuid< 3 >, bind_characteristic_value< decltype( v_a20 ), &v_a20 >, notify, indicate >,
            characteristic< characteristic_uuid16< 0x2A34 >, bind_characteristic_value< std::uint8_t, &v_b3 > >
        >,
        no_gap_service_for_gatt_servers
    >;
    static const char* const value_kinds[] = { "bound", "bound", "bound", "bound" };

#elif C01_CFG == 6
    // CCCDs without a write queue, MTU 247, priorities
    static const char cfg_name[] = "cccd-noqueue-mtu247";
    using server_t = server<
        max_mtu_size< 247 >,
        service<
            suuid_a,
            characteristic< cuuid< 1 >, bind_characteristic_value< std::uint8_t, &v_b1 >, notify >,
            characteristic< cuuid< 2 >, bind_characteristic_value< decltype( v_a200 ), &v_a200 >, indicate, notify >,
            characteristic< cuuid< 3 >, bind_characteristic_value< std::uint8_t, &v_b3 >, indicate >,
            higher_outgoing_priority< cuuid< 3 > >
        >
    >;
    static const char* const value_kinds[] = { "bound", "bound", "bound" };

#elif C01_CFG == 7
    // free read / write handlers of every flavour with a write queue, MTU 65
    static const char cfg_name[] = "free-handlers-queue64-mtu65";
    using server_t = server<
        shared_write_queue< 64 >,
        max_mtu_size< 65 >,
        service<
            service_uuid16< 0x1814 >,
            characteristic< characteristic_uuid16< 0x2A41 >, free_read_blob_handler< &rd_blob >, free_write_blob_handler< &wr_blob > >,
            characteristic< characteristic_uuid16< 0x2A42 >, free_read_handler< &rd_small > >,
            characteristic< characteristic_uuid16< 0x2A43 >, free_raw_write_handler< &wr_raw >, write_without_response >,
            characteristic< characteristic_uuid16< 0x2A44 >, free_write_handler< std::uint8_t, &wr_u8 > >,
            characteristic< cuuid< 5 >,                      free_write_handler< std::uint32_t, &wr_u32 >, free_read_handler< &rd_small >, notify >,
            characteristic< characteristic_uuid16< 0x2A46 >, free_write_handler< bool, &wr_bool >, only_write_without_response >
        >,
        no_gap_service_for_gatt_servers
    >;
    static const char* const value_kinds[] = { "handler", "handler", "handler", "handler", "handler", "handler" };

#elif C01_CFG == 8 || C01_CFG == 9
    // mixin handlers and control points (write handler looks at the CCCD of its own characteristic)
    using cp_uuid1 = characteristic_uuid16< 0x2A51 >;
    using cp_uuid2 = cuuid< 2 >;
    using cp_service = service<
            service_uuid16< 0x1815 >,
            mixin< cp_mixin >,
            characteristic< cp_uuid1,
                mixin_write_indication_control_point_handler< cp_mixin, &cp_mixin::cp_write, cp_uuid1 >,
                mixin_read_handler< cp_mixin, &cp_mixin::cp_read >, no_read_access, indicate >,
            characteristic< cp_uuid2,
                mixin_write_notification_control_point_handler< cp_mixin, &cp_mixin::cp_write, cp_uuid2 >,
                mixin_read_handler< cp_mixin, &cp_mixin::cp_read >, notify >,
            characteristic< characteristic_uuid16< 0x2A53 >,
                mixin_read_blob_handler< cp_mixin, &cp_mixin::m_read_blob >, mixin_write_blob_handler< cp_mixin, &cp_mixin::m_write_blob > >,
            characteristic< characteristic_uuid16< 0x2A54 >,
                mixin_write_handler< cp_mixin, &cp_mixin::m_write > >
        >;
#   if C01_CFG == 8
    static const char cfg_name[] = "control-points-queue32-mtu23";
    using server_t = server< shared_write_queue< 32 >, cp_service, no_gap_service_for_gatt_servers >;
#   else
    static const char cfg_name[] = "control-points-noqueue-mtu65";
    using server_t = server< max_mtu_size< 65 >, cp_service, no_gap_service_for_gatt_servers >;
#   endif
    static const char* const value_kinds[] = { "control-point", "control-point", "handler", "handler" };

#elif C01_CFG == 10
    // a secondary service that is included (16 bit and 128 bit include definitions), write queue
    static const char cfg_name[] = "secondary-include-queue32-mtu23";
    using server_t = server<
        shared_write_queue< 32 >,
        service<
            service_uuid16< 0x1816 >,
            include_service< service_uuid16< 0x1817 > >,
            include_service< suuid_b >,
            characteristic< characteristic_uuid16< 0x2A61 >, bind_characteristic_value< std::uint8_t, &v_u8 > >,
            characteristic< characteristic_uuid16< 0x2A62 >, bind_characteristic_value< decltype( v_a3 ), &v_a3 > >
        >,
        service<
            service_uuid16< 0x1817 >,
            is_secondary_service,
            characteristic< characteristic_uuid16< 0x2A63 >, bind_characteristic_value< std::uint16_t, &v_u16 > >
        >,
        service<
            suuid_b,
            is_secondary_service,
            characteristic< cuuid< 4 >, fixed_uint8_value< 0x42 > >
        >,
        no_gap_service_for_gatt_servers
    >;
    static const char* const value_kinds[] = { "bound", "bound", "bound", "const" };

#elif C01_CFG == 11
    // MTU 247 with long values, a large write queue, services of mixed UUID size
    static const char cfg_name[] = "long-values-queue300-mtu247";
    using server_t = server<
        shared_write_queue< 300 >,
        max_mtu_size< 247 >,
        service<
            service_uuid16< 0x1818 >,
            characteristic< characteristic_uuid16< 0x2A71 >, bind_characteristic_value< decltype( v_a200 ), &v_a200 > >
        >,
        service<
            suuid_a,
            characteristic< cuuid< 2 >, bind_characteristic_value< decltype( v_a64 ), &v_a64 > >,
            characteristic< cuuid< 3 >, bind_characteristic_value< decltype( v_a64 ), &v_a64 >, no_write_access >
        >,
        service<
            service_uuid16< 0x1819 >,
            characteristic< characteristic_uuid16< 0x2A74 >, bind_characteristic_value< std::uint8_t, &v_u8 > >
        >,
        no_gap_service_for_gatt_servers
    >;
    static const char* const value_kinds[] = { "bound", "bound", "bound", "bound" };

#elif C01_CFG == 12
    // many characteristics of mixed kinds, access restrictions, small write queue, GAP service with name and appearance
    static const char cfg_name[] = "mixed-queue23-mtu65";
    using server_t = server<
        shared_write_queue< 23 >,
        max_mtu_size< 65 >,
        server_name< srv_name >,
        appearance::thermometer,
        service<
            service_uuid16< 0x181A >,
            characteristic< characteristic_uuid16< 0x2A81 >, bind_characteristic_value< std::uint8_t, &v_u8 >, write_without_response >,
            characteristic< cuuid< 2 >,                      bind_characteristic_value< std::uint16_t, &v_u16 >, only_write_without_response >,
            characteristic< characteristic_uuid16< 0x2A83 >, bind_characteristic_value< std::uint32_t, &v_u32 >, no_read_access, notify >,
            characteristic< cuuid< 4 >,                      bind_characteristic_value< decltype( v_a20 ), &v_a20 >, no_write_access, indicate,
                            characteristic_name< name_a > >
        >,
        service<
            suuid_b,
            characteristic< free_read_blob_handler< &rd_blob >, free_write_blob_handler< &wr_blob > >,
            characteristic< characteristic_uuid16< 0x2A86 >, cstring_value< text_a >, descriptor< 0x4711, desc_a, sizeof( desc_a ) > >
        >
    >;
    static const char* const value_kinds[] = { "bound", "bound", "bound", "bound", "handler", "const" };

#elif C01_CFG == 13
    // characteristics that require an encrypted link (state "encrypted" is explored in addition)
    static const char cfg_name[] = "encryption-queue32-mtu23";
#   define C01_HAS_ENCRYPTION 1
    using server_t = server<
        shared_write_queue< 32 >,
        service<
            service_uuid16< 0x181B >,
            requires_encryption,
            characteristic< characteristic_uuid16< 0x2A91 >, bind_characteristic_value< std::uint8_t, &v_u8 >, notify >,
            characteristic< characteristic_uuid16< 0x2A92 >, bind_characteristic_value< decltype( v_a3 ), &v_a3 >, no_encryption_required >,
            characteristic< characteristic_uuid16< 0x2A93 >, free_read_blob_handler< &rd_blob >, free_write_blob_handler< &wr_blob >, may_require_encryption >
        >,
        no_gap_service_for_gatt_servers
    >;
    static const char* const value_kinds[] = { "bound", "bound", "handler" };

#else
#   error "unknown C01_CFG"
#endif

} // namespace c01

#endif
