// C39 - The bootloader only touches white-listed memory.
// E1: explicit-state BFS over the real bluetoe::bootloader_service<> (controller + flash_buffer) inside a real
// bluetoe::server<>, driven through l2cap_input / l2cap_output, end_flash() and the handler call backs only.
// The user handler records every memory touching call (address, size); the input PDU ends at an inaccessible page and
// the output buffer is an exact-size heap block (ASan), so reads behind the written value / writes behind the buffer
// become observable.  Reference: address -> byte map of what a client sent in a clean flash session + checksum chain.
//
// build variants: -DC39_PAGE=4|16  -DC39_REGIONS=1|2
#include "C39_bootloader.hpp"

namespace {
using namespace c39;

using server_t = bluetoe::server<
    bluetoe::bootloader_service<
        bluetoe::bootloader::page_size< page >,
        bluetoe::bootloader::handler< flash_handler >,
        white_list > >;
using conn_t = server_t::channel_data_t< bluetoe::details::link_state >;

constexpr std::size_t mtu = 23;
constexpr std::size_t asz = sizeof( std::uint8_t* );

enum EvKind { E_CP, E_DATA, E_END_FLASH, E_POLL, E_CONFIRM, E_READ };
struct Event
{
    EvKind kind; std::uint8_t opcode; std::uint8_t len; std::uintptr_t a1, a2;
    std::vector< std::uint8_t > pdu;      // complete ATT PDU (filled by World::finish_events)
    std::string in_class;                 // input class used in signatures and outcome classes
    std::string cls_accepted;
};

enum StartClass : std::uint8_t { S_INSIDE, S_AT_END, S_OUTSIDE };

struct World
{
    mc::Placed< server_t > srv;
    mc::Placed< conn_t >   conn;

    struct Ref
    {
        // flash session as a protocol conforming client sees it
        std::uint8_t   started;          // a Start Flash was accepted (labels only)
        std::uint8_t   start_class;      // StartClass of the last accepted Start Flash
        std::uint8_t   clobber;          // Get CRC / Read accepted since the last accepted Start Flash (labels only)
        std::uint8_t   synced;           // clean session: content and checksum oracles are on
        std::uint8_t   flushed;          // Flush accepted in this session
        std::uint8_t   tentative;        // another control point procedure was interleaved: the session goes on iff the next data write / Flush is accepted
        std::uint8_t   prog_ok;          // progress notifications of this session can be aligned with blocks
        std::uint8_t   prog_queued;      // a progress notification is queued and not yet sent
        std::uint8_t   stale_flash;      // the session was started while flash operations / progress of an earlier session were in flight (labels only)
        std::uint8_t   outstanding;      // indication sent, not yet confirmed
        std::uintptr_t session_start;
        std::uintptr_t lin_end;          // session_start + all data bytes written since (labels only): where a linear session can have got to
        std::uintptr_t addr;             // address of the next data byte
        std::uintptr_t pend_base;        // [pend_base, addr) received but not yet handed to start_flash
        std::uint8_t   pend[ 2 * page + 24 ];
        std::uint32_t  crc;
        std::uint16_t  block;            // consecutive number of the block that is currently filled
        struct Prog { std::uint32_t crc; std::uint16_t consecutive; } prog[ 4 ];
        std::uint8_t   nprog;
        // control point procedure awaiting its notification
        std::uint8_t   cp_queued;        // notification queued, not yet sent
        std::uint8_t   cp_opcode;
        std::uint8_t   cp_check;         // payload can be predicted (no overlap, nothing in between)
        std::uint32_t  cp_crc;
        std::uint16_t  cp_consecutive;
        // read procedure
        std::uint8_t   rd_synced;
        std::uintptr_t rd_addr, rd_end;
        std::uint32_t  rd_crc;
        std::uint8_t   mem[ mem_size ];  // expected flash content
    } ref;

    std::string acc_cls[ 7 ][ 2 ];
    std::uint16_t h_cp = 0, h_cp_cccd = 0, h_data = 0, h_data_cccd = 0, h_prog = 0, h_prog_cccd = 0;
    std::vector< Event > events;
    GuardedInput gin;
    int ev_flush = -1;
    std::vector< std::uint8_t > resp_;
    std::uint8_t* const out_block = new std::uint8_t[ mtu ];   // exact-size heap block: ASan red zones right behind the 23 bytes

    // ---------------------------------------------------------------------------------------------------------
    static bool l2cap_cb( const bluetoe::details::notification_data& item, void* that, bluetoe::details::notification_type type )
    {
        World& w = *static_cast< World* >( that );
        switch ( type )
        {
        case bluetoe::details::notification_type::notification: return w.conn->queue_notification( item.client_characteristic_configuration_index() );
        case bluetoe::details::notification_type::indication:   return w.conn->queue_indication( item.client_characteristic_configuration_index() );
        case bluetoe::details::notification_type::confirmation: w.conn->indication_confirmed(); return true;
        }
        return true;
    }

    // call backs requested by the controller are served right after the call into bluetoe returned
    void serve_callbacks()
    {
        if ( srv->cp_notify_req ) { srv->cp_notify_req = 0; srv->bootloader_control_point_notification( srv.get() ); }
        if ( srv->data_ind_req )  { srv->data_ind_req = 0;  srv->bootloader_data_indication( srv.get() ); }
    }

    std::string request( const std::uint8_t* pdu, std::size_t n, std::vector< std::uint8_t >& resp )
    {
        const std::uint8_t* in = gin.place( pdu, n );
        std::uint8_t* out = out_block;
        memset( out, 0, mtu );
        std::size_t out_size = mtu;
        std::string g = Guarded::call( [&]{ srv->l2cap_input( in, n, out, out_size, conn.get() ); serve_callbacks(); } );
        if ( g.empty() && out_size > mtu ) g = "response-size-exceeds-buffer";
        if ( g.empty() ) resp.assign( out, out + out_size ); else resp.clear();
        return g;
    }
    std::string request( const std::vector< std::uint8_t >& pdu, std::vector< std::uint8_t >& resp ) { return request( pdu.data(), pdu.size(), resp ); }

    void fresh( bool subscribe )
    {
        srv.construct();
        conn.construct();
        srv->notification_callback( &l2cap_cb, this );
        memset( &ref, 0, sizeof ref );
        for ( std::size_t i = 0; i != mem_size; ++i ) ref.mem[ i ] = original( mem_lo + i );
        ref.cp_opcode = 0xfe;
        log().clear();
        if ( !subscribe ) return;
        std::vector< std::uint8_t > r;
        const std::uint16_t cccd[ 3 ] = { h_cp_cccd, h_prog_cccd, h_data_cccd };
        const std::uint8_t  val[ 3 ]  = { 1, 1, 2 };
        for ( int i = 0; i != 3; ++i )
        {
            request( { 0x12, std::uint8_t( cccd[ i ] & 0xff ), std::uint8_t( cccd[ i ] >> 8 ), val[ i ], 0 }, r );
            if ( r.size() != 1 || r[ 0 ] != 0x13 ) { fprintf( stderr, "C39: cannot subscribe (cccd 0x%04x): %s\n", cccd[ i ], mc::hex( r ).c_str() ); exit( 2 ); }
        }
    }

    void discover()
    {
        fresh( false );
        std::uint16_t start = 1;
        std::vector< std::uint16_t > decls;
        for ( int guard = 0; guard != 32; ++guard )
        {
            std::vector< std::uint8_t > r;
            request( { 0x08, std::uint8_t( start & 0xff ), std::uint8_t( start >> 8 ), 0xff, 0xff, 0x03, 0x28 }, r );
            if ( r.size() < 2 || r[ 0 ] != 0x09 ) break;
            const std::size_t l = r[ 1 ];
            for ( std::size_t p = 2; p + l <= r.size(); p += l )
            {
                const std::uint16_t decl = r[ p ] | ( r[ p + 1 ] << 8 ), val = r[ p + 3 ] | ( r[ p + 4 ] << 8 );
                decls.push_back( decl );
                static const std::uint8_t tail[] = { 0x53, 0x57, 0x7f, 0x83, 0x95, 0xb5, 0x57, 0x4f, 0x50, 0x28, 0x4d, 0x5f, 0x29, 0x7d };
                if ( l == 21 && memcmp( &r[ p + 7 ], tail, sizeof tail ) == 0 && r[ p + 6 ] == 0xf8 )
                {
                    if ( r[ p + 5 ] == 0xa9 ) h_cp = val;
                    if ( r[ p + 5 ] == 0xaa ) h_data = val;
                    if ( r[ p + 5 ] == 0xab ) h_prog = val;
                }
                start = decl + 1;
            }
        }
        auto cccd_of = [&]( std::uint16_t value ) -> std::uint16_t
        {
            for ( std::uint16_t h = value + 1; h < value + 4; ++h )
            {
                if ( std::find( decls.begin(), decls.end(), h ) != decls.end() ) break;
                std::vector< std::uint8_t > r;
                request( { 0x04, std::uint8_t( h & 0xff ), std::uint8_t( h >> 8 ), std::uint8_t( h & 0xff ), std::uint8_t( h >> 8 ) }, r );
                if ( r.size() >= 6 && r[ 0 ] == 0x05 && r[ 1 ] == 0x01 && r[ 4 ] == 0x02 && r[ 5 ] == 0x29 ) return h;
            }
            return 0;
        };
        h_cp_cccd = cccd_of( h_cp ); h_data_cccd = cccd_of( h_data ); h_prog_cccd = cccd_of( h_prog );
        if ( !h_cp || !h_data || !h_prog || !h_cp_cccd || !h_data_cccd || !h_prog_cccd )
        {
            fprintf( stderr, "C39: bootloader characteristics not found (%x %x %x / %x %x %x)\n", h_cp, h_data, h_prog, h_cp_cccd, h_data_cccd, h_prog_cccd );
            exit( 2 );
        }
    }

    void add_cp( std::uint8_t op, std::uint8_t len, std::uintptr_t a1 = 0x0101010101010101ull, std::uintptr_t a2 = 0x0101010101010101ull )
    {
        events.push_back( Event{ E_CP, op, len, a1, a2 } );
    }

    World()
    {
        discover();
        for ( int k = 0; k != 7; ++k ) { acc_cls[ k ][ 0 ] = mc::fmt( "access:%s:zero-size", kind_name( Kind( k ) ) ); acc_cls[ k ][ 1 ] = mc::fmt( "access:%s:inside", kind_name( Kind( k ) ) ); }
        const std::uintptr_t first = c39::regions[ 0 ].start, last_end = c39::regions[ num_regions - 1 ].end;
        // --- simplest first: the documented happy path
        add_cp( 3, 1 + asz, first );
        events.push_back( Event{ E_DATA, 0, std::uint8_t( page ), 0, 0 } );
        events.push_back( Event{ E_POLL, 0, 0, 0, 0 } );
        events.push_back( Event{ E_END_FLASH, 0, 0, 0, 0 } );
        events.push_back( Event{ E_CONFIRM, 0, 0, 0, 0 } );
        add_cp( 5, 1 );
        for ( std::size_t n : { std::size_t( 1 ), page - 1, page + 1, std::size_t( 20 ), std::size_t( 0 ) } )
            if ( n != page ) events.push_back( Event{ E_DATA, 0, std::uint8_t( n ), 0, 0 } );
        // --- Start Flash addresses
        std::vector< std::uintptr_t > one{ first + 0x22, last_end - page, last_end - 1, last_end, last_end + 1, first - 1, 0, addr_max };
        if ( num_regions == 2 )
            for ( std::uintptr_t a : { c39::regions[ 0 ].end - page, c39::regions[ 0 ].end - 1, c39::regions[ 0 ].end, c39::regions[ 0 ].end + 1, c39::regions[ num_regions - 1 ].start - 1, c39::regions[ num_regions - 1 ].start } ) one.push_back( a );
        for ( std::uintptr_t a : one ) add_cp( 3, 1 + asz, a );
        // --- two address procedures: Read (8) and Get CRC (1)
        std::vector< std::pair< std::uintptr_t, std::uintptr_t > > two{
            { first, first + 0x22 }, { last_end - page, last_end }, { first, last_end }, { first, first }, { last_end - 1, last_end },
            { last_end, last_end }, { last_end, last_end + 1 }, { last_end - 1, last_end + 1 }, { first - 1, first }, { first - 1, first + 0x22 },
            { first + 0x22, first }, { 0, addr_max }, { addr_max, addr_max }, { 0, 0 } };
        if ( num_regions == 2 )
        {
            const region r0 = c39::regions[ 0 ], r1 = c39::regions[ num_regions - 1 ];
            two.push_back( { first, r0.end } );
            two.push_back( { r0.end - 1, r0.end + 1 } );
            two.push_back( { r0.end, r1.start } );
            two.push_back( { r0.end - 1, r1.start + 1 } );
            two.push_back( { r1.start, last_end } );
        }
        for ( auto& p : two ) add_cp( 8, 1 + 2 * asz, p.first, p.second );
        for ( auto& p : two ) add_cp( 1, 1 + 2 * asz, p.first, p.second );
        // --- every opcode with every length class (addresses: start of the first region / whole first region)
        const std::uint8_t opcodes[] = { 0, 1, 2, 3, 4, 5, 6, 7, 8, 9, 0xff };
        const std::uint8_t lens[]    = { 1, 1 + asz, 1 + 2 * asz, 2, 5, 20 };
        for ( std::uint8_t l : lens )
            for ( std::uint8_t o : opcodes )
            {
                if ( ( o == 3 && l == 1 + asz ) || ( ( o == 1 || o == 8 ) && l == 1 + 2 * asz ) || ( o == 5 && l == 1 ) ) continue; // listed above
                if ( l == 1 + asz || l == 1 + 2 * asz || l == 20 ) add_cp( o, l, first, c39::regions[ 0 ].end );
                else add_cp( o, l );
            }
        add_cp( 6, 1 + asz, addr_max );                      // Start (run) outside of every region
        // --- ATT reads of the three characteristic values
        for ( int i = 0; i != 3; ++i ) events.push_back( Event{ E_READ, std::uint8_t( i ), 0, 0, 0 } );
        finish_events();
    }

    void finish_events()
    {
        for ( std::size_t i = 0; i != events.size(); ++i ) if ( events[ i ].kind == E_CP && events[ i ].opcode == 5 && events[ i ].len == 1 && ev_flush < 0 ) ev_flush = int( i );
        for ( Event& e : events )
        {
            if ( e.kind == E_CP )
            {
                e.pdu = { 0x12, std::uint8_t( h_cp & 0xff ), std::uint8_t( h_cp >> 8 ) };
                const std::vector< std::uint8_t > v = cp_pdu( e );
                e.pdu.insert( e.pdu.end(), v.begin(), v.end() );
                const std::size_t need = ( e.opcode == 1 || e.opcode == 8 ) ? 1 + 2 * asz : ( e.opcode == 3 || e.opcode == 6 ) ? 1 + asz : 1;
                e.in_class = mc::fmt( "opcode%02x-%s", e.opcode, e.len < need ? "short" : e.len == need ? "exact" : "long" );
                e.cls_accepted = "cp:" + e.in_class + "->accepted";
            }
            if ( e.kind == E_DATA )
            {
                e.pdu = { 0x12, std::uint8_t( h_data & 0xff ), std::uint8_t( h_data >> 8 ) };
                for ( unsigned i = 0; i != e.len; ++i ) e.pdu.push_back( 0x80 + i );
                e.in_class = e.len == 0 ? "empty" : e.len < page ? "less-than-page" : e.len == page ? "page" : "more-than-page";
            }
        }
    }

    // ---------------------------------------------------------------------------------------------------------
    void init() { fresh( true ); }
    void regions( mc::Regions& r ) { r.add( srv.raw, sizeof srv.raw ); r.add( conn.raw, sizeof conn.raw ); r.add( ref ); }
    int  num_events() const { return int( events.size() ); }
    std::string describe( int ev ) const
    {
        const Event& e = events[ ev ];
        switch ( e.kind )
        {
        case E_CP:
            if ( e.len >= 1 + 2 * asz ) return mc::fmt( "cp-write(opcode=0x%02x,len=%d,a1=0x%lx,a2=0x%lx)", e.opcode, e.len, (unsigned long)e.a1, (unsigned long)e.a2 );
            if ( e.len >= 1 + asz )     return mc::fmt( "cp-write(opcode=0x%02x,len=%d,a1=0x%lx)", e.opcode, e.len, (unsigned long)e.a1 );
            return mc::fmt( "cp-write(opcode=0x%02x,len=%d)", e.opcode, e.len );
        case E_DATA:      return mc::fmt( "data-write(%d bytes)", e.len );
        case E_END_FLASH: return "end_flash";
        case E_POLL:      return "l2cap_output";
        case E_CONFIRM:   return "handle-value-confirmation";
        case E_READ:      return mc::fmt( "att-read(%s)", e.opcode == 0 ? "control-point" : e.opcode == 1 ? "data" : "progress" );
        }
        return "?";
    }

    std::vector< std::uint8_t > cp_pdu( const Event& e ) const
    {
        std::vector< std::uint8_t > v{ e.opcode };
        std::uintptr_t a = e.a1, b = e.a2;
        for ( unsigned i = 0; i != asz; ++i, a >>= 8 ) v.push_back( a & 0xff );
        for ( unsigned i = 0; i != asz; ++i, b >>= 8 ) v.push_back( b & 0xff );
        while ( v.size() < 20 ) v.push_back( 0x01 );
        v.resize( e.len );
        return v;
    }

    // --- white list oracle over the access log of the step ---------------------------------------------------------
    // returns false if a violation was reported
    bool check_accesses( mc::Ctx& c, int ctx_ev, const char* ctx_name = nullptr )
    {
        if ( log().overflow ) { c.fail( "handler-call-flood", "more than 24 handler calls in one step: " + ( ctx_name ? std::string( ctx_name ) : describe( ctx_ev ) ) ); return false; }
        for ( int i = 0; i != log().n; ++i )
        {
            const Access& x = log().a[ i ];
            if ( x.kind == A_RUN )   { c.cls( inside( x.addr, 1 ) ? "run:inside-white-list" : "run:outside-white-list(unchecked by design)" ); continue; }
            if ( x.kind == A_RESET ) { c.cls( "reset" ); continue; }
            if ( x.size == 0 )       { c.cls( acc_cls[ x.kind ][ 0 ] ); continue; }
            if ( inside( x.addr, x.size ) ) { c.cls( acc_cls[ x.kind ][ 1 ] ); continue; }
            // label of the mechanism (never part of the verdict): is the access where a linear continuation of the session is?
            const bool flash_kind = x.kind == A_START_FLASH || x.kind == A_READ_MEM;
            const bool linear = ref.started && flash_kind && x.addr / page >= ref.session_start / page && x.addr / page <= ref.lin_end / page;
            const char* mech =
                  linear && ref.start_class == S_AT_END && x.addr / page == ref.session_start / page ? "start-address-at-region-end-accepted"
                : linear && x.addr / page != ref.session_start / page ? "page-continuation-unchecked"
                : !linear && ref.clobber && x.kind != A_PUBLIC_CRC ? "start-address-shared-with-read-or-crc-procedure"   // ( Get CRC works on the addresses of its own request )
                : "other";
            const char* what = ( x.kind == A_START_FLASH || x.kind == A_READ_MEM ) ? "flash" : x.kind == A_PUBLIC_READ ? "read" : "crc";
            c.fail( mc::fmt( "white-list:%s:%s", mech, what ),
                    mc::fmt( "%s( 0x%lx, %zu bytes ) during %s is not inside one white-listed region", kind_name( x.kind ), (unsigned long)x.addr, x.size, ( ctx_name ? std::string( ctx_name ) : describe( ctx_ev ) ).c_str() ) );
            return false;
        }
        return true;
    }

    static bool FlashBacked( std::uintptr_t a ) { return a >= mem_lo && a <= mem_hi; }

    // ref.mem mirrors the flash: whatever was handed to start_flash (verified before, where the session is clean) is there now
    void mirror_flash()
    {
        for ( int i = 0; i != log().n; ++i )
        {
            const Access& x = log().a[ i ];
            if ( x.kind == A_START_FLASH && flash_handler::backed( x.addr, x.size ) && x.size <= sizeof x.data ) memcpy( &ref.mem[ x.addr - mem_lo ], x.data, x.size );
        }
    }

    int count_flash() const { int n = 0; for ( int i = 0; i != log().n; ++i ) n += log().a[ i ].kind == A_START_FLASH; return n; }

    // the pages completed by the reference in this step must have been handed to start_flash with the expected content
    // `pages` = number of pages the reference completed ( each starts at pend_base rounded down )
    bool check_flashed_pages( mc::Ctx& c, int pages, const char* context )
    {
        int li = 0;
        for ( int k = 0; k != pages; ++k )
        {
            const std::uintptr_t pa = ref.pend_base - ref.pend_base % page;
            while ( li != log().n && log().a[ li ].kind != A_START_FLASH ) ++li;
            if ( li == log().n )
            {
                c.fail( "flash-content:page-not-flashed", mc::fmt( "%s completed page 0x%lx but start_flash was not called for it", context, (unsigned long)pa ) );
                return false;
            }
            const Access& x = log().a[ li++ ];
            std::uint8_t expect[ page ];
            for ( std::size_t i = 0; i != page; ++i )
            {
                const std::uintptr_t a = pa + i;
                expect[ i ] = ( a >= ref.pend_base && a < ref.addr ) ? ref.pend[ a - ref.pend_base ] : ref.mem[ a - mem_lo ];
            }
            if ( x.addr != pa || x.size != page )
            {
                c.fail( "flash-content:wrong-address", mc::fmt( "%s: start_flash( 0x%lx, %zu ) but the client addressed page 0x%lx (size %zu)", context, (unsigned long)x.addr, x.size, (unsigned long)pa, page ) );
                return false;
            }
            if ( memcmp( expect, x.data, page ) != 0 )
            {
                c.fail( "flash-content:wrong-bytes", mc::fmt( "%s: start_flash( 0x%lx ) content %s, expected %s (client data over unchanged flash)", context, (unsigned long)pa,
                                                              mc::hex( x.data, page ).c_str(), mc::hex( expect, page ).c_str() ) );
                return false;
            }
            // commit
            const std::uintptr_t page_end = pa + page;
            const std::uintptr_t upto = std::min( page_end, ref.addr );
            for ( std::uintptr_t a = ref.pend_base; a < upto; ++a ) ref.mem[ a - mem_lo ] = ref.pend[ a - ref.pend_base ];
            const std::size_t consumed = upto - ref.pend_base, rest = ref.addr - upto;
            memmove( ref.pend, ref.pend + consumed, rest );
            memset( ref.pend + rest, 0, sizeof ref.pend - rest );
            ref.pend_base = upto;
        }
        while ( li != log().n && log().a[ li ].kind != A_START_FLASH ) ++li;
        if ( li != log().n )
        {
            c.fail( "flash-content:unexpected-flash", mc::fmt( "%s: unexpected start_flash( 0x%lx, %zu )", context, (unsigned long)log().a[ li ].addr, log().a[ li ].size ) );
            return false;
        }
        return true;
    }

    void end_session()
    {
        ref.synced = 0; ref.flushed = 0; ref.tentative = 0; ref.nprog = 0; ref.prog_ok = 0;
        ref.addr = ref.pend_base = 0; ref.crc = 0; ref.block = 0;
        memset( ref.pend, 0, sizeof ref.pend ); memset( ref.prog, 0, sizeof ref.prog );
    }
    void end_read() { ref.rd_synced = 0; ref.rd_addr = ref.rd_end = 0; ref.rd_crc = 0; }
    void cp_unpredictable() { ref.cp_check = 0; ref.cp_crc = 0; ref.cp_consecutive = 0; }

    // --- control point write -----------------------------------------------------------------------------------
    void do_cp( const Event& e, mc::Ctx& c )
    {
        std::vector< std::uint8_t >& r = resp_;
        log().clear();
        const std::string g = request( e.pdu, r );
        c.obs = mc::hex( r );
        const std::string& in_class = e.in_class;
        if ( !g.empty() )
        {
            c.fail( mc::fmt( "over-read:control-point-write:%s:%s", in_class.c_str(), g == "signal-11" ? "reads-behind-written-value" : g.c_str() ),
                    mc::fmt( "control point write of %zu bytes (%s): %s - the handler read behind the written value", e.pdu.size() - 3, mc::hex( e.pdu.data() + 3, e.pdu.size() - 3 ).c_str(), g.c_str() ) );
            return;
        }
        const bool accepted = r.size() == 1 && r[ 0 ] == 0x13;
        const bool error    = r.size() == 5 && r[ 0 ] == 0x01;
        if ( !accepted && !error ) { c.fail( "write-response-malformed", "control point write answered " + mc::hex( r ) ); return; }
        if ( accepted ) c.cls( e.cls_accepted ); else c.cls( mc::fmt( "cp:%s->error-%02x", in_class.c_str(), r[ 4 ] ) );

        // bootloader.md: the address (range) only has to lie within the flashable ranges
        if ( !accepted && ( ( e.opcode == 3 && e.len == 1 + asz && inside( e.a1, 1 ) ) ||
                            ( ( e.opcode == 1 || e.opcode == 8 ) && e.len == 1 + 2 * asz && e.a1 <= e.a2 && e.a1 != e.a2 && inside( e.a1, e.a2 - e.a1 ) ) ) )
        {
            c.fail( mc::fmt( "refused-inside-white-list:opcode%02x", e.opcode ), mc::fmt( "%s answered %s although the address (range) lies inside a white-listed region", describe_event( e ).c_str(), mc::hex( r ).c_str() ) );
            return;
        }

        // labels have to be up to date before the accesses of this very step are judged
        const bool was_synced = ref.synced, was_flushed = ref.flushed;
        if ( accepted && ( e.opcode == 1 || e.opcode == 8 ) && ref.started ) ref.clobber = 1;
        if ( accepted && e.opcode == 3 && e.len == 1 + asz )
        {
            ref.started = 1; ref.clobber = 0;
            ref.start_class = inside( e.a1, 1 ) ? S_INSIDE : at_region_end( e.a1 ) ? S_AT_END : S_OUTSIDE;
            ref.session_start = e.a1; ref.lin_end = e.a1;
            c.cls( mc::fmt( "start-flash-accepted:%s", ref.start_class == S_INSIDE ? "inside" : ref.start_class == S_AT_END ? "at-region-end" : "outside" ) );
        }
        if ( !check_accesses( c, int( &e - &events[ 0 ] ) ) ) return;

        // any control point write ends a read procedure.  bootloader.md lets every control point procedure end the flash mode, bluetoe
        // stays in flash mode for some (Get CRC, Start, Reset, unknown opcodes).  Both is fine: the reference is kept, and IF the
        // next data write (or Flush) is accepted it has to continue exactly where the client is; if it is refused the session is over.
        end_read();
        if ( accepted && e.opcode == 5 && was_synced && !was_flushed )
        {
            ref.flushed = 1; ref.tentative = 0;
            if ( ref.addr != ref.pend_base )
            {
                // Flush of a partially filled page
                if ( !check_flashed_pages( c, 1, "Flush" ) ) return;
                if ( ref.prog_ok ) { if ( ref.nprog < 4 ) { ref.prog[ ref.nprog ].crc = ref.crc; ref.prog[ ref.nprog ].consecutive = ref.block; ++ref.nprog; } else ref.prog_ok = 0; }
            }
            else
            {
                // nothing received for the current page (start address in the middle of a page): flashing the unchanged page is tolerated
                c.cls( "flush:accepted-without-pending-data" );
                ref.prog_ok = 0;
            }
        }
        else
        {
            if ( was_synced && count_flash() )
            {
                c.fail( "flash-content:unexpected-flash", mc::fmt( "start_flash called by %s", describe_event( e ).c_str() ) );
                return;
            }
            if ( was_synced && !was_flushed && !( accepted && e.opcode == 3 && e.len == 1 + asz ) )
            {
                ref.tentative = 1;
                ref.prog_ok   = 0;      // the procedure may have released the page buffers: progress notifications cannot be aligned any more
                ref.nprog = 0; memset( ref.prog, 0, sizeof ref.prog );
            }
            else end_session();
        }

        if ( accepted && e.opcode == 3 && e.len == 1 + asz )
        {
            end_session();
            ref.synced  = ref.start_class == S_INSIDE;
            ref.flushed = 0;
            ref.addr = ref.pend_base = e.a1;
            memset( ref.pend, 0, sizeof ref.pend );
            ref.crc = crc_addr( e.a1 );
            ref.block = 0; ref.nprog = 0;
            ref.prog_ok = srv->flashing == 0 && !ref.prog_queued;
            ref.stale_flash = !ref.prog_ok;
        }

        // notification bookkeeping: a second control point write before the first one was answered makes the answer unpredictable
        // ( bootloader.md: only one active control point procedure at any time )
        const bool overlap = ref.cp_queued;
        if ( overlap ) cp_unpredictable();
        const bool read_with_data = e.opcode == 8 && e.len >= 1 + 2 * asz && e.a1 != e.a2;
        const bool notifies = accepted && !read_with_data;
        if ( accepted && e.opcode == 8 && e.len >= 1 + 2 * asz )
        {
            ref.rd_synced = 1; ref.rd_addr = e.a1; ref.rd_end = e.a2; ref.rd_crc = crc_addr( e.a1 );
        }
        if ( notifies )
        {
            // ( Start / Reset are answered as well by bluetoe - harmless ); the payload is only predicted for a single outstanding procedure
            ref.cp_check  = !overlap;
            ref.cp_queued = 1;
            ref.cp_opcode = e.opcode;
            ref.cp_crc = 0; ref.cp_consecutive = 0;
            if ( e.opcode == 3 ) ref.cp_crc = crc_addr( e.a1 );
            if ( e.opcode == 5 ) { ref.cp_crc = ref.crc; ref.cp_consecutive = ref.block; if ( !( was_synced && !was_flushed ) ) ref.cp_check = 0; }
            if ( e.opcode != 1 && e.opcode != 3 && e.opcode != 5 && e.opcode != 8 ) { ref.cp_crc = 0; }
            if ( e.opcode == 1 )
            {
                if ( e.len == 1 + 2 * asz && e.a1 <= e.a2 && ( e.a1 == e.a2 ? FlashBacked( e.a1 ) : inside( e.a1, e.a2 - e.a1 ) ) ) ref.cp_crc = crc_bytes( &ref.mem[ e.a1 - mem_lo ], e.a2 - e.a1, crc_seed );
                else ref.cp_check = 0;
            }
            if ( e.opcode == 8 ) ref.cp_crc = ref.rd_crc;
            if ( e.opcode == 3 && e.len != 1 + asz ) ref.cp_check = 0;
            if ( !ref.cp_check ) cp_unpredictable();
        }
        else if ( !accepted && ref.cp_queued ) cp_unpredictable();   // the rejected write overwrote the opcode the pending notification reports
    }
    std::string describe_event( const Event& e ) const { return describe( int( &e - &events[ 0 ] ) ); }

    // --- data write -------------------------------------------------------------------------------------------------
    void do_data( const Event& e, mc::Ctx& c )
    {
        std::vector< std::uint8_t >& r = resp_;
        log().clear();
        const std::string g = request( e.pdu, r );
        c.obs = mc::hex( r );
        if ( !g.empty() ) { c.fail( "crash:data-write:" + g, mc::fmt( "data write of %d bytes: %s", e.len, g.c_str() ) ); return; }
        const bool accepted = r.size() == 1 && r[ 0 ] == 0x13;
        const bool error    = r.size() == 5 && r[ 0 ] == 0x01;
        if ( !accepted && !error ) { c.fail( "write-response-malformed", "data write answered " + mc::hex( r ) ); return; }
        c.cls( mc::fmt( "data:%s:%s->%s", e.in_class.c_str(),
                        ref.synced ? ( ref.flushed ? "after-flush" : "clean-session" ) : "other", accepted ? "accepted" : mc::fmt( "error-%02x", r[ 4 ] ).c_str() ) );
        if ( ref.started && ref.lin_end + e.len >= ref.lin_end ) ref.lin_end += e.len;
        if ( !check_accesses( c, int( &e - &events[ 0 ] ) ) ) return;
        end_read();
        if ( ref.cp_queued && ref.cp_opcode == 5 ) cp_unpredictable();
        const bool data_before_start_response = ref.cp_queued && ref.cp_opcode == 3 && e.len;   // also a refused write may have been consumed partly
        if ( data_before_start_response && ref.cp_check ) ref.cp_check = 2;   // 2: the md demands crc( start address ) nevertheless
        if ( !ref.synced ) return;
        if ( !accepted || ref.flushed )
        {
            // buffer overrun (client has to watch the buffers) or data behind a Flush: the client lost track, no content oracle any more
            end_session();
            return;
        }
        if ( ref.tentative ) { ref.tentative = 0; c.cls( "data:accepted-after-interleaved-control-point-procedure" ); }
        // clean session: bytes land at ref.addr...
        int pages = 0;
        for ( unsigned i = 0; i != e.len; ++i )
        {
            if ( ref.addr - ref.pend_base >= sizeof ref.pend ) { c.prune = true; return; }
            ref.pend[ ref.addr - ref.pend_base ] = 0x80 + i;
            ref.crc = crc_byte( ref.crc, 0x80 + i );
            ++ref.addr;
            if ( ref.addr % page == 0 )
            {
                ++pages;
                if ( ref.prog_ok ) { if ( ref.nprog < 4 ) { ref.prog[ ref.nprog ].crc = ref.crc; ref.prog[ ref.nprog ].consecutive = ref.block; ++ref.nprog; } else ref.prog_ok = 0; }
                ++ref.block;
            }
        }
        if ( !inside( ref.session_start, ref.addr - ref.session_start ) )
        {
            // the client itself left the white list: the data must not be flashed there (checked by the white list oracle);
            // whether the write is refused or the surplus dropped is not specified -> no content oracle from here on
            if ( !check_flashed_pages_inside( c, pages ) ) return;
            end_session();
            return;
        }
        check_flashed_pages( c, pages, "data write" );
    }

    // like check_flashed_pages but stops at the first page that is not white-listed any more
    bool check_flashed_pages_inside( mc::Ctx& c, int pages )
    {
        int ok_pages = 0;
        std::uintptr_t pa = ref.pend_base - ref.pend_base % page;
        for ( int k = 0; k != pages && inside( pa, page ); ++k, pa += page ) ++ok_pages;
        // unexpected-flash of the following (outside) pages is already covered by the white list oracle, which ran before
        int li = 0, seen = 0;
        for ( ; li != log().n; ++li ) if ( log().a[ li ].kind == A_START_FLASH ) ++seen;
        if ( seen < ok_pages ) { c.fail( "flash-content:page-not-flashed", "data write completed a white-listed page that was not handed to start_flash" ); return false; }
        return true;
    }

    // --- l2cap_output -----------------------------------------------------------------------------------------------
    void do_poll( mc::Ctx& c )
    {
        std::uint8_t* out = out_block;
        memset( out, 0, mtu );
        std::size_t out_size = mtu;
        log().clear();
        const std::string g = Guarded::call( [&]{ srv->l2cap_output( out, out_size, conn.get() ); serve_callbacks(); } );
        std::vector< std::uint8_t > r;
        if ( g.empty() && out_size <= mtu ) r.assign( out, out + out_size );
        c.obs = r.empty() ? std::string( "nothing" ) : mc::hex( r );
        if ( !g.empty() ) { c.fail( "crash:l2cap_output:" + g, "l2cap_output: " + g ); return; }
        if ( out_size > mtu ) { c.fail( "output-size-exceeds-buffer", mc::fmt( "l2cap_output returned size %zu for a %zu byte buffer", out_size, mtu ) ); return; }
        if ( !check_accesses( c, -1, "l2cap_output" ) ) return;
        if ( r.empty() ) { c.cls( "poll:nothing" ); return; }
        if ( r.size() < 3 ) { c.fail( "unexpected-output", mc::hex( r ) ); return; }
        const std::uint16_t h = r[ 1 ] | ( r[ 2 ] << 8 );
        const std::uint8_t* v = r.data() + 3; const std::size_t n = r.size() - 3;
        auto u32 = []( const std::uint8_t* p ) { return std::uint32_t( p[ 0 ] ) | ( std::uint32_t( p[ 1 ] ) << 8 ) | ( std::uint32_t( p[ 2 ] ) << 16 ) | ( std::uint32_t( p[ 3 ] ) << 24 ); };

        if ( r[ 0 ] == 0x1b && h == h_cp )
        {
            const std::uint8_t op = ref.cp_opcode; const std::uint8_t check = ref.cp_check;
            const std::uint32_t cp_crc = ref.cp_crc; const std::uint16_t cp_consecutive = ref.cp_consecutive;
            ref.cp_queued = 0; ref.cp_opcode = 0xfe; cp_unpredictable();
            c.cls( mc::fmt( "poll:cp-notification(%02x)%s", n ? v[ 0 ] : 0xfe, check ? "" : ":unpredicted" ) );
            if ( !check ) return;
            if ( n < 1 || v[ 0 ] != op ) { c.fail( "cp-response:wrong-opcode", mc::fmt( "notification %s for procedure 0x%02x", mc::hex( r ).c_str(), op ) ); return; }
            switch ( op )
            {
            case 3:
                if ( n != 6 || v[ 1 ] != mtu ) { c.fail( "cp-response:start-flash-layout", mc::hex( r ) ); return; }
                if ( u32( v + 2 ) != cp_crc )
                    c.fail( check == 2 ? "checksum:start-flash-response-covers-data-received-before-it-was-sent" : "checksum:start-flash-response",
                            mc::fmt( "Start Flash response carries checksum 0x%08x, bootloader.md: crc( start address ) = 0x%08x", u32( v + 2 ), cp_crc ) );
                break;
            case 5:
                if ( n != 7 ) { c.fail( "cp-response:flush-layout", mc::hex( r ) ); return; }
                if ( u32( v + 1 ) != cp_crc || ( v[ 5 ] | ( v[ 6 ] << 8 ) ) != cp_consecutive )
                    c.fail( "checksum:flush-response", mc::fmt( "Flush response %s, expected checksum 0x%08x over start address and all data, consecutive %u", mc::hex( r ).c_str(), cp_crc, cp_consecutive ) );
                break;
            case 1:
                if ( n != 5 ) { c.fail( "cp-response:get-crc-layout", mc::hex( r ) ); return; }
                if ( u32( v + 1 ) != cp_crc ) c.fail( "checksum:get-crc-response", mc::fmt( "Get CRC response %s, expected 0x%08x over the requested range", mc::hex( r ).c_str(), cp_crc ) );
                break;
            case 8:
                if ( n != 6 ) { c.fail( "cp-response:read-layout", mc::hex( r ) ); return; }
                if ( ref.rd_synced && ( u32( v + 1 ) != ref.rd_crc || v[ 5 ] != 0 || ref.rd_addr != ref.rd_end ) )
                    c.fail( "checksum:read-response", mc::fmt( "Read response %s, expected checksum 0x%08x after 0x%lx of 0x%lx", mc::hex( r ).c_str(), ref.rd_crc, (unsigned long)ref.rd_addr, (unsigned long)ref.rd_end ) );
                end_read();
                break;
            }
            return;
        }
        if ( r[ 0 ] == 0x1b && h == h_prog )
        {
            ref.prog_queued = 0;
            c.cls( ref.prog_ok && ref.nprog ? "poll:progress" : "poll:progress:unaligned" );
            if ( n != 7 ) { c.fail( "progress:layout", mc::hex( r ) ); return; }
            if ( !ref.prog_ok || !ref.nprog ) return;
            const Ref::Prog p = ref.prog[ 0 ];
            for ( int i = 1; i < ref.nprog; ++i ) ref.prog[ i - 1 ] = ref.prog[ i ];
            --ref.nprog; ref.prog[ ref.nprog ] = Ref::Prog{ 0, 0 };
            if ( u32( v ) != p.crc || ( v[ 4 ] | ( v[ 5 ] << 8 ) ) != p.consecutive || v[ 6 ] != mtu )
                c.fail( "checksum:progress-notification", mc::fmt( "progress %s, expected checksum 0x%08x (start address + all data up to the end of the block), consecutive %u, mtu %zu",
                                                                   mc::hex( r ).c_str(), p.crc, p.consecutive, mtu ) );
            return;
        }
        if ( r[ 0 ] == 0x1d && h == h_data )
        {
            ref.outstanding = 1;
            c.cls( ref.rd_synced ? "poll:data-indication" : "poll:data-indication:unpredicted" );
            if ( !ref.rd_synced ) return;
            const std::size_t want = std::min< std::uintptr_t >( mtu - 3, ref.rd_end - ref.rd_addr );
            if ( n != want || memcmp( v, &ref.mem[ ref.rd_addr - mem_lo ], n ) != 0 )
            {
                c.fail( "read-content", mc::fmt( "data indication %s, expected %zu bytes of flash from 0x%lx: %s", mc::hex( r ).c_str(), want, (unsigned long)ref.rd_addr,
                                                 mc::hex( &ref.mem[ ref.rd_addr - mem_lo ], want ).c_str() ) );
                return;
            }
            ref.rd_crc = crc_bytes( v, n, ref.rd_crc );
            ref.rd_addr += n;
            if ( ref.rd_addr == ref.rd_end )
            {
                // the final Read response is queued now
                ref.cp_check = !ref.cp_queued; ref.cp_queued = 1; ref.cp_opcode = 8;
            }
            return;
        }
        c.fail( "unexpected-output", "l2cap_output produced " + mc::hex( r ) );
    }

    // ---------------------------------------------------------------------------------------------------------
    bool apply( int ev, mc::Ctx& c )
    {
        const Event& e = events[ ev ];
        switch ( e.kind )
        {
        case E_CP:   do_cp( e, c ); mirror_flash(); return true;
        case E_DATA: do_data( e, c ); mirror_flash(); return true;
        case E_POLL: do_poll( c ); mirror_flash(); return true;
        case E_END_FLASH:
            if ( srv->flashing == 0 ) return false;
            do_end_flash( c );
            return true;
        case E_CONFIRM:
            return do_confirm_event( c );
        case E_READ:
            do_att_read( e, c );
            return true;
        }
        return false;
    }

    void do_end_flash( mc::Ctx& c )
    {
        {
            log().clear();
            --srv->flashing;
            const std::string g = Guarded::call( [&]{ bluetoe::bootloader::end_flash( srv.get() ); serve_callbacks(); } );
            if ( !g.empty() ) { c.fail( "crash:end_flash:" + g, g ); return; }
            if ( !check_accesses( c, -1, "end_flash" ) ) return;
            if ( ref.prog_queued ) { ref.prog_ok = 0; c.cls( "end_flash:coalesced-with-queued-progress" ); } else c.cls( "end_flash" );
            ref.prog_queued = 1;
            c.obs = "progress notification requested";
        }
    }

    bool do_confirm_event( mc::Ctx& c )
    {
        {
            if ( !ref.outstanding ) return false;
            std::vector< std::uint8_t > r;
            log().clear();
            const std::string g = request( { 0x1e }, r );
            if ( !g.empty() ) { c.fail( "crash:confirmation:" + g, g ); return true; }
            if ( !check_accesses( c, -1, "confirmation" ) ) return true;
            ref.outstanding = 0;
            c.cls( "confirm" );
            c.obs = r.empty() ? std::string( "nothing" ) : mc::hex( r );
            return true;
        }
    }

    void do_att_read( const Event& e, mc::Ctx& c )
    {
        {
            const std::uint16_t h = e.opcode == 0 ? h_cp : e.opcode == 1 ? h_data : h_prog;
            std::vector< std::uint8_t > r;
            log().clear();
            const std::string g = request( { 0x0a, std::uint8_t( h & 0xff ), std::uint8_t( h >> 8 ) }, r );
            c.obs = mc::hex( r );
            if ( !g.empty() ) { c.fail( "crash:att-read:" + g, g ); return; }
            if ( !check_accesses( c, -1, "ATT read" ) ) return;
            // bluetoe answers ATT reads of these characteristics through the notification read handlers (no_read_access is not
            // enforced): the handlers have side effects the protocol description does not cover -> no content / checksum oracle afterwards
            c.cls( mc::fmt( "att-read(%s)->%s%s", e.opcode == 0 ? "control-point" : e.opcode == 1 ? "data" : "progress",
                            r.size() == 5 && r[ 0 ] == 0x01 ? mc::fmt( "error-%02x", r[ 4 ] ).c_str() : "value", log().n ? ":handler-called" : "" ) );
            if ( !( r.size() == 5 && r[ 0 ] == 0x01 ) ) { end_session(); end_read(); cp_unpredictable(); }
            mirror_flash();
        }
    }

    // bounded run from every state that is inside a clean flash session: a conforming client collects the pending
    // notifications, flushes what it sent, lets the flash operations complete and reads the progress notifications.
    // Content and checksum chain must be what bootloader.md announces.  (state is restored afterwards)
    void drain( mc::Ctx& c )
    {
        if ( !ref.synced || ref.flushed || ref.outstanding || ref.tentative ) { c.obs = "no clean session"; return; }
        unsigned char keep_srv[ sizeof srv.raw ], keep_conn[ sizeof conn.raw ];
        const Ref keep_ref = ref;
        memcpy( keep_srv, srv.raw, sizeof srv.raw ); memcpy( keep_conn, conn.raw, sizeof conn.raw );

        mc::Ctx d;
        auto bad = [&]() { return !d.fails.empty(); };
        auto poll_all = [&]()
        {
            for ( int i = 0; i != 4 && !bad(); ++i ) { do_poll( d ); mirror_flash(); if ( d.obs == "nothing" ) break; }
        };
        do
        {
            poll_all();
            if ( bad() ) break;
            if ( ref.synced && ref.addr != ref.pend_base )
            {
                do_cp( events[ ev_flush ], d ); mirror_flash();
                if ( bad() ) break;
                if ( d.obs != "13" )
                {
                    d.fail( ref.stale_flash ? "flush:refused-with-pending-data:after-end_flash-of-an-earlier-session" : "flush:refused-with-pending-data",
                            "Flush of a partially filled page in a clean session answered " + d.obs + " (the received data is gone)" );
                    break;
                }
                poll_all();
                if ( bad() ) break;
            }
            for ( int i = 0; i != 3 && srv->flashing && !bad(); ++i ) { do_end_flash( d ); if ( !bad() ) poll_all(); }
        } while ( false );

        for ( auto& f : d.fails ) c.fail( f.sig, "drain: " + f.detail );
        c.obs = d.fails.empty() ? "drained" : "drain failed";
        memcpy( srv.raw, keep_srv, sizeof srv.raw ); memcpy( conn.raw, keep_conn, sizeof conn.raw ); ref = keep_ref;
    }
};

} // namespace

int main( int argc, char** argv )
{
    mc::Args a = mc::parse_args( argc, argv );
    mc::Report rep; rep.property = "C39";
    rep.unit = a.opt.count( "unit" ) ? a.opt[ "unit" ] : mc::fmt( "C39_bootloader-p%dr%d", int( C39_PAGE ), int( C39_REGIONS ) );

    static World w;
    mc::BfsOptions o;
    o.max_depth  = int( a.num( "depth", a.thorough() ? 5 : 3 ) );   // the registry passes --depth per variant and tier
    o.with_drain = true;
    o.max_states = std::uint64_t( a.num( "max-states", 3000000 ) );
    o.max_sigs   = 24;
    mc::Bfs< World > bfs( w, rep, a, o );
    if ( !a.replay.empty() ) return bfs.replay_file( mc::read_replay( a.replay ) );
    bfs.run();
    rep.notes[ "configuration" ] = mc::fmt( "page size %zu, %zu white-listed region(s), address size %zu", page, num_regions, asz );
    rep.notes[ "handles" ] = mc::fmt( "control point 0x%04x, data 0x%04x, progress 0x%04x", w.h_cp, w.h_data, w.h_prog );
    rep.counters[ "events" ] = w.events.size();
    rep.counters[ "state_bytes" ] = bfs.isz;
    rep.write( a );
    return 0;
}
