// C38 - every passkey the nRF52 toolbox generates is a uniformly chosen value 000000 ... 999999.
// The RNG peripheral is the environment: *all* octet streams security_tool_box::create_passkey() can consume are
// enumerated on the real code (host build against stubs/nrf.h, the RNG's VALUE register hands out the stream).
//
//  round 1: every stream over the first D octets (D = what the generator reads from an all-zero stream; 3 today -> 2^24
//           runs, no sampling).  A run that reads more than D octets "redraws" (its first D octets were rejected); it is
//           continued with zeros and has to end within `horizon` octets.
//  round 2: for the first and for the last rejected prefix, every continuation over the next D octets.
// Oracles: (a) the returned 128 bit value, read as the number that is displayed (read_32bit of the first four octets,
//              io_capabilities.hpp) and used as TK (whole array), is <= 999999;
//          (b) per round, every value 0 ... 999999 is produced by the same number of accepted streams;
//          (c) the generator terminates: a rejected prefix has at least one accepted continuation and the zero
//              continuation ends within the horizon.
// (b) is only judged if (a) holds: if values outside the range exist, the distribution over the range is not the defect.
#include "../mc/mc.hpp"
#include "../stubs/nrf_emul.hpp"

#include <bluetoe/security_tool_box.hpp>

namespace {

typedef std::uint8_t u8;

const unsigned horizon   = 64;        // octets one call may consume
const unsigned max_value = 999999;

// the random stream: a prefix that is under the enumerator's control, extended with zeros on demand
struct Stream
{
    u8       data[ horizon ];
    unsigned given;      // length of the prefix chosen by the enumerator
    unsigned used;       // octets consumed by the current run

    static u8 next( void* ctx )
    {
        Stream& s = *static_cast< Stream* >( ctx );
        if ( s.used == horizon ) throw verif_nrf::stuck{ "random octet horizon exceeded" };
        if ( s.used >= s.given ) s.data[ s.used ] = 0;
        return s.data[ s.used++ ];
    }
};

struct Result
{
    bool          stuck;
    const char*   why;
    unsigned      used;
    bool          upper_zero;    // octets 4..15 are zero
    std::uint32_t value;         // read_32bit( key.data() )
    bluetoe::details::uint128_t key;
};

Result run( Stream& s )
{
    Result r; r.stuck = false; r.why = ""; r.upper_zero = true; r.value = 0;
    s.used = 0;
    verif_nrf::reset();
    bluetoe::nrf52_details::security_tool_box tb;
    try { r.key = tb.create_passkey(); }
    catch ( const verif_nrf::stuck& e ) { r.stuck = true; r.why = e.what; }
    r.used = s.used;
    if ( !r.stuck )
    {
        r.value = bluetoe::details::read_32bit( r.key.data() );     // as pairing_output::sm_pairing_numeric_output() decodes it
        for ( int i = 4; i != 16; ++i ) if ( r.key[ i ] ) r.upper_zero = false;
    }
    return r;
}

struct Round
{
    std::string   name;
    std::uint64_t runs = 0, accepted = 0, redraw = 0, out_of_range = 0;
    std::uint32_t max_seen = 0;
    std::vector< std::uint32_t > count = std::vector< std::uint32_t >( max_value + 1, 0 );
    bool          have_first = false;
    u8            first_rejected[ horizon ], last_rejected[ horizon ];
    bool          complete = false;
    bool          kind_seen[ 4 * ( horizon + 1 ) ] = { false };
    std::string   prefix;        // hex of the fixed (rejected) octets in front of the enumerated window
};

struct Checker
{
    mc::Report&     rep;
    const mc::Args& args;
    Stream          s;
    bool            range_failed = false;

    Checker( mc::Report& r, const mc::Args& a ) : rep( r ), args( a ) { verif_nrf::set_rng_source( &Stream::next, &s ); }

    static std::string stream_line( const u8* p, unsigned n ) { return "stream " + mc::hex( p, n ); }

    // cheap path for repeated occurrences of a signature that is already recorded with its (first = smallest) stream
    bool again( const std::string& sig )
    {
        auto it = rep.violations.find( sig );
        if ( it == rep.violations.end() ) return false;
        ++it->second.count;
        return true;
    }

    // judge one finished run (range, shape, termination); returns false on a violation
    bool judge( const Result& r, const char* where )
    {
        if ( r.stuck )
        {
            const std::string sig = std::string( "passkey-generator-does-not-terminate:" ) + where;
            if ( !again( sig ) )
                rep.fail( sig, mc::fmt( "create_passkey() did not return within %u random octets (%s); stream %s", horizon, r.why, mc::hex( s.data, r.used ).c_str() ),
                          { stream_line( s.data, r.used ) } );
            return false;
        }
        if ( !r.upper_zero )
        {
            static const std::string sig = "passkey-upper-octets-nonzero";
            if ( !again( sig ) )
                rep.fail( sig, mc::fmt( "create_passkey() = %s (little endian): octets 4..15 are not zero, the 128 bit TK is not the displayed number; stream %s",
                                        mc::hex( r.key.data(), 16 ).c_str(), mc::hex( s.data, r.used ).c_str() ),
                          { stream_line( s.data, r.used ) } );
            return false;
        }
        if ( r.value > max_value )
        {
            static const std::string sig = "passkey-out-of-range";
            range_failed = true;
            if ( !again( sig ) )
                rep.fail( sig, mc::fmt( "random octets %s: create_passkey() = %s (little endian) = %u, more than six decimal digits", mc::hex( s.data, r.used ).c_str(),
                                        mc::hex( r.key.data(), 16 ).c_str(), r.value ),
                          { stream_line( s.data, r.used ) } );
            return false;
        }
        return true;
    }

    // all streams whose octets [ from, from + depth ) vary; octets below `from` are fixed in s.data
    void enumerate( Round& rd, unsigned from, unsigned depth )
    {
        const unsigned limit = from + depth;
        rd.prefix = mc::hex( s.data, from );
        memset( s.data + from, 0, horizon - from );
        s.given = limit;

        for ( ;; )
        {
            const Result r = run( s );
            ++rd.runs; ++rep.evaluations; ++rep.traces_validated;

            const bool redraw = !r.stuck && r.used > limit;
            if ( redraw )
            {
                ++rd.redraw;
                if ( !rd.have_first ) { memcpy( rd.first_rejected, s.data, limit ); rd.have_first = true; }
                memcpy( rd.last_rejected, s.data, limit );
            }
            else if ( !r.stuck )
                ++rd.accepted;

            const bool ok = judge( r, redraw ? "zero-continuation-of-rejected-prefix" : rd.name.c_str() );
            if ( !r.stuck )
            {
                if ( r.value > rd.max_seen ) rd.max_seen = r.value;
                if ( r.value > max_value ) ++rd.out_of_range;
                else if ( !redraw && ok ) ++rd.count[ r.value ];
                const unsigned kind = ( redraw ? 1 : 0 ) | ( r.value > max_value ? 2 : 0 ) | ( r.used << 2 );
                if ( !rd.kind_seen[ kind ] )
                {
                    rd.kind_seen[ kind ] = true;
                    rep.cls( rd.name + ( redraw ? "/redraw" : "/accepted" ) + ( r.value > max_value ? "/value-out-of-range" : "/value-in-range" ) + mc::fmt( "/octets-read-%u", r.used ) );
                }
            }
            if ( ( rd.runs % 2796203 ) == 1 && !r.stuck )
                rep.sample( mc::fmt( "%s: octets %s -> %u", rd.name.c_str(), mc::hex( s.data, r.used ).c_str(), r.value ), 8 );

            // odometer over the octets actually consumed inside the window: streams that differ only behind the
            // last octet read are the same run
            unsigned pos = std::min( r.used, limit );
            if ( pos <= from ) { rd.complete = true; return; }     // nothing in the window was read: single run
            --pos;
            for ( ;; )
            {
                if ( ++s.data[ pos ] != 0 ) break;
                if ( pos == from ) { rd.complete = true; return; }
                --pos;
            }
            memset( s.data + pos + 1, 0, horizon - pos - 1 );

            if ( ( rd.runs & 0xffff ) == 0 && args.expired() ) return;
        }
    }

    void uniformity( const Round& rd )
    {
        if ( !rd.complete || range_failed ) return;
        std::uint32_t lo = ~0u, hi = 0, lo_v = 0, hi_v = 0;
        for ( std::uint32_t v = 0; v <= max_value; ++v )
        {
            if ( rd.count[ v ] < lo ) { lo = rd.count[ v ]; lo_v = v; }
            if ( rd.count[ v ] > hi ) { hi = rd.count[ v ]; hi_v = v; }
        }
        rep.counters[ rd.name + " accepted streams per value (min)" ] = lo;
        rep.counters[ rd.name + " accepted streams per value (max)" ] = hi;
        if ( lo != hi )
            rep.fail( lo == 0 ? "passkey-not-uniform:value-never-produced" : "passkey-not-uniform",
                      mc::fmt( "%s: passkey %06u is produced by %u of the accepted random streams, passkey %06u by %u", rd.name.c_str(), lo_v, lo, hi_v, hi ),
                      { mc::fmt( "count %u %u %s", lo_v, hi_v, rd.prefix.c_str() ) } );
        else
            rep.cls( rd.name + mc::fmt( "/uniform-%u-streams-per-value", lo ) );
    }

    void summary( const Round& rd )
    {
        rep.counters[ rd.name + " streams" ] = rd.runs;
        rep.counters[ rd.name + " accepted" ] = rd.accepted;
        rep.counters[ rd.name + " redraws" ] = rd.redraw;
        rep.counters[ rd.name + " values above 999999" ] = rd.out_of_range;
        rep.counters[ rd.name + " largest value" ] = rd.max_seen;
        if ( !rd.complete ) { rep.exhaustive = false; rep.notes[ "cut " + rd.name ] = "deadline reached before all streams of this round were enumerated"; }
    }
};

} // namespace

int main( int argc, char** argv )
{
    mc::Args a = mc::parse_args( argc, argv );
    mc::Report rep; rep.property = "C38"; rep.unit = a.opt.count( "unit" ) ? a.opt[ "unit" ] : "C38_passkey";

    if ( !verif_nrf::check_low_memory() ) { fprintf( stderr, "C38: static data is not below 4 GB, build with -no-pie\n" ); return 2; }

    Checker ck( rep, a );

    // D: what the generator reads when the first draw is accepted (all-zero stream = passkey 000000, which has to be acceptable)
    ck.s.given = 0;
    const Result z = run( ck.s );
    const unsigned D = z.used;
    if ( a.replay.empty() ) { ++rep.evaluations; ++rep.traces_validated; }

    if ( !a.replay.empty() )
    {
        const mc::ReplayFile rf = mc::read_replay( a.replay );
        int rc = 0;
        for ( const std::string& st : rf.steps )
        {
            printf( "step %s\n", st.c_str() );
            if ( st.rfind( "stream ", 0 ) == 0 )
            {
                const std::vector< u8 > b = mc::unhex( st.substr( 7 ) );
                memset( ck.s.data, 0, horizon );
                memcpy( ck.s.data, b.data(), std::min< std::size_t >( b.size(), horizon ) );
                ck.s.given = unsigned( std::min< std::size_t >( b.size(), horizon ) );
                const Result r = run( ck.s );
                if ( r.stuck ) printf( "  create_passkey() does not return: %s\n", r.why );
                else printf( "  random octets %s -> create_passkey() = %s = %u%s\n", mc::hex( ck.s.data, r.used ).c_str(), mc::hex( r.key.data(), 16 ).c_str(), r.value,
                             r.value > max_value ? "  (more than six digits)" : "" );
                if ( !ck.judge( r, "replay" ) ) rc = 1;
            }
            else if ( st.rfind( "count ", 0 ) == 0 )
            {
                unsigned v1 = 0, v2 = 0; char pre[ 2 * horizon + 2 ] = { 0 };
                sscanf( st.c_str(), "count %u %u %128s", &v1, &v2, pre );
                if ( v1 > max_value || v2 > max_value ) continue;
                const std::vector< u8 > prefix = mc::unhex( pre );
                if ( prefix.size() + D > horizon ) continue;
                memcpy( ck.s.data, prefix.data(), prefix.size() );
                Round rd; rd.name = "replay";
                ck.enumerate( rd, unsigned( prefix.size() ), D );
                printf( "  all %llu streams of the draw after the prefix '%s': passkey %06u from %u streams, passkey %06u from %u streams\n", ( unsigned long long )rd.runs, pre, v1, rd.count[ v1 ], v2, rd.count[ v2 ] );
                if ( rd.complete && rd.count[ v1 ] != rd.count[ v2 ] ) rc = 1;
            }
        }
        printf( rc ? "REPRODUCED %s\n" : "not reproduced\n", rf.sig.c_str() );
        return rc;
    }

    rep.counters[ "octets read per draw (D)" ] = D;
    if ( z.stuck || D == 0 || D > 4 )
    {
        // 0: no randomness at all; > 4: more than 2^32 first-round streams cannot be enumerated
        if ( z.stuck ) ck.judge( z, "all-zero-stream" );
        else if ( D == 0 )
            rep.fail( "passkey-not-random", "create_passkey() returns without reading the random number generator", { "stream " } );
        else
        {
            rep.exhaustive = false;
            rep.notes[ "cut" ] = mc::fmt( "the generator reads %u octets per draw: 2^%u first-round streams are not enumerated; only the all-zero stream was run", D, 8 * D );
            ck.judge( z, "all-zero-stream" );
        }
        rep.write( a );
        return 0;
    }

    Round r1; r1.name = "round1";
    ck.enumerate( r1, 0, D );
    ck.summary( r1 );
    ck.uniformity( r1 );

    if ( r1.complete && r1.have_first && rep.violations.empty() )
    {
        for ( int which = 0; which != 2; ++which )
        {
            Round r2; r2.name = which == 0 ? "round2-after-first-rejected-prefix" : "round2-after-last-rejected-prefix";
            const u8* prefix = which == 0 ? r1.first_rejected : r1.last_rejected;
            if ( which == 1 && memcmp( r1.first_rejected, r1.last_rejected, D ) == 0 ) break;
            memcpy( ck.s.data, prefix, D );
            ck.enumerate( r2, D, D );
            ck.summary( r2 );
            rep.notes[ r2.name ] = "prefix " + mc::hex( prefix, D );
            if ( r2.complete && r2.accepted == 0 )
                rep.fail( "passkey-generator-does-not-terminate:no-continuation-accepted",
                          mc::fmt( "after the rejected draw %s none of the 2^%u continuations is accepted", mc::hex( prefix, D ).c_str(), 8 * D ),
                          { Checker::stream_line( prefix, D ) } );
            ck.uniformity( r2 );
            if ( !rep.violations.empty() ) break;
        }
    }

    if ( ck.range_failed )
        rep.notes[ "uniformity" ] = "not judged: values above 999999 are produced (passkey-out-of-range), the distribution inside the range is not the defect";
    rep.notes[ "bound" ] = mc::fmt( "all 2^%u random streams of the first draw%s", 8 * D, r1.have_first ? "; all streams of the second draw after the first and the last rejected prefix" : "; the generator never redraws" );
    rep.write( a );
    return 0;
}
