// C37 reference cryptography, written from the specification texts only:
//   AES-128 encryption          FIPS-197
//   AES-CMAC                    RFC 4493
//   c1, s1                      Bluetooth Core Vol 3 Part H 2.2.3, 2.2.4
//   f4, f5, f6, g2              Bluetooth Core Vol 3 Part H 2.2.6 - 2.2.9
//   LL session key              Bluetooth Core Vol 6 Part B 5.1.3.1   SK = e( LTK, SKDs || SKDm )
//   P-256 membership            y^2 = x^3 - 3x + b (mod p), 0 <= x, y < p   (FIPS 186-4 D.1.2.3)
//
// Conventions: everything in this file is in *specification order*: octet 0 of an array is the most significant
// octet of the number as the specification prints it.  Conversion from/to bluetoe's little endian arrays is done
// by the harness, not here.  Nothing in this file is shared with /repo (tests/test_tools/aes.c is not used).
#ifndef VERIF_C37_REF_CRYPTO_HPP
#define VERIF_C37_REF_CRYPTO_HPP

#include <cstdint>
#include <cstring>
#include <string>
#include <vector>

namespace ref {

typedef std::uint8_t u8;

// ------------------------------------------------------------------------------------------------------------
// AES-128 (table S-box, row/column formulation of FIPS-197 5.1)
static const u8 aes_sbox[ 256 ] = {
    0x63,0x7c,0x77,0x7b,0xf2,0x6b,0x6f,0xc5,0x30,0x01,0x67,0x2b,0xfe,0xd7,0xab,0x76,
    0xca,0x82,0xc9,0x7d,0xfa,0x59,0x47,0xf0,0xad,0xd4,0xa2,0xaf,0x9c,0xa4,0x72,0xc0,
    0xb7,0xfd,0x93,0x26,0x36,0x3f,0xf7,0xcc,0x34,0xa5,0xe5,0xf1,0x71,0xd8,0x31,0x15,
    0x04,0xc7,0x23,0xc3,0x18,0x96,0x05,0x9a,0x07,0x12,0x80,0xe2,0xeb,0x27,0xb2,0x75,
    0x09,0x83,0x2c,0x1a,0x1b,0x6e,0x5a,0xa0,0x52,0x3b,0xd6,0xb3,0x29,0xe3,0x2f,0x84,
    0x53,0xd1,0x00,0xed,0x20,0xfc,0xb1,0x5b,0x6a,0xcb,0xbe,0x39,0x4a,0x4c,0x58,0xcf,
    0xd0,0xef,0xaa,0xfb,0x43,0x4d,0x33,0x85,0x45,0xf9,0x02,0x7f,0x50,0x3c,0x9f,0xa8,
    0x51,0xa3,0x40,0x8f,0x92,0x9d,0x38,0xf5,0xbc,0xb6,0xda,0x21,0x10,0xff,0xf3,0xd2,
    0xcd,0x0c,0x13,0xec,0x5f,0x97,0x44,0x17,0xc4,0xa7,0x7e,0x3d,0x64,0x5d,0x19,0x73,
    0x60,0x81,0x4f,0xdc,0x22,0x2a,0x90,0x88,0x46,0xee,0xb8,0x14,0xde,0x5e,0x0b,0xdb,
    0xe0,0x32,0x3a,0x0a,0x49,0x06,0x24,0x5c,0xc2,0xd3,0xac,0x62,0x91,0x95,0xe4,0x79,
    0xe7,0xc8,0x37,0x6d,0x8d,0xd5,0x4e,0xa9,0x6c,0x56,0xf4,0xea,0x65,0x7a,0xae,0x08,
    0xba,0x78,0x25,0x2e,0x1c,0xa6,0xb4,0xc6,0xe8,0xdd,0x74,0x1f,0x4b,0xbd,0x8b,0x8a,
    0x70,0x3e,0xb5,0x66,0x48,0x03,0xf6,0x0e,0x61,0x35,0x57,0xb9,0x86,0xc1,0x1d,0x9e,
    0xe1,0xf8,0x98,0x11,0x69,0xd9,0x8e,0x94,0x9b,0x1e,0x87,0xe9,0xce,0x55,0x28,0xdf,
    0x8c,0xa1,0x89,0x0d,0xbf,0xe6,0x42,0x68,0x41,0x99,0x2d,0x0f,0xb0,0x54,0xbb,0x16 };

inline u8 xtime( u8 a ) { return u8( ( a << 1 ) ^ ( ( a & 0x80 ) ? 0x1b : 0 ) ); }

struct aes128
{
    u8 w[ 44 ][ 4 ];    // key schedule, words as in FIPS-197 5.2

    explicit aes128( const u8 key[ 16 ] )
    {
        for ( int i = 0; i != 4; ++i )
            for ( int j = 0; j != 4; ++j ) w[ i ][ j ] = key[ 4 * i + j ];

        u8 rcon = 1;
        for ( int i = 4; i != 44; ++i )
        {
            u8 t[ 4 ] = { w[ i - 1 ][ 0 ], w[ i - 1 ][ 1 ], w[ i - 1 ][ 2 ], w[ i - 1 ][ 3 ] };
            if ( i % 4 == 0 )
            {
                const u8 t0 = t[ 0 ];                                   // RotWord, SubWord, Rcon
                t[ 0 ] = aes_sbox[ t[ 1 ] ] ^ rcon; t[ 1 ] = aes_sbox[ t[ 2 ] ]; t[ 2 ] = aes_sbox[ t[ 3 ] ]; t[ 3 ] = aes_sbox[ t0 ];
                rcon = xtime( rcon );
            }
            for ( int j = 0; j != 4; ++j ) w[ i ][ j ] = w[ i - 4 ][ j ] ^ t[ j ];
        }
    }

    void encrypt( const u8 in[ 16 ], u8 out[ 16 ] ) const
    {
        u8 st[ 4 ][ 4 ];    // st[ row ][ column ]
        for ( int c = 0; c != 4; ++c )
            for ( int r = 0; r != 4; ++r ) st[ r ][ c ] = in[ 4 * c + r ] ^ w[ c ][ r ];

        for ( int round = 1; round <= 10; ++round )
        {
            u8 t[ 4 ][ 4 ];
            for ( int r = 0; r != 4; ++r )
                for ( int c = 0; c != 4; ++c ) t[ r ][ c ] = aes_sbox[ st[ r ][ ( c + r ) % 4 ] ];   // SubBytes + ShiftRows

            for ( int c = 0; c != 4; ++c )
            {
                if ( round != 10 )
                {
                    const u8 a0 = t[ 0 ][ c ], a1 = t[ 1 ][ c ], a2 = t[ 2 ][ c ], a3 = t[ 3 ][ c ];    // MixColumns
                    st[ 0 ][ c ] = xtime( a0 ) ^ ( xtime( a1 ) ^ a1 ) ^ a2 ^ a3;
                    st[ 1 ][ c ] = a0 ^ xtime( a1 ) ^ ( xtime( a2 ) ^ a2 ) ^ a3;
                    st[ 2 ][ c ] = a0 ^ a1 ^ xtime( a2 ) ^ ( xtime( a3 ) ^ a3 );
                    st[ 3 ][ c ] = ( xtime( a0 ) ^ a0 ) ^ a1 ^ a2 ^ xtime( a3 );
                }
                else
                    for ( int r = 0; r != 4; ++r ) st[ r ][ c ] = t[ r ][ c ];

                for ( int r = 0; r != 4; ++r ) st[ r ][ c ] ^= w[ 4 * round + c ][ r ];
            }
        }

        for ( int c = 0; c != 4; ++c )
            for ( int r = 0; r != 4; ++r ) out[ 4 * c + r ] = st[ r ][ c ];
    }
};

// the security function e of Vol 3 Part H 2.2.1
inline void e( const u8 key[ 16 ], const u8 plain[ 16 ], u8 out[ 16 ] )
{
    aes128( key ).encrypt( plain, out );
}

// ------------------------------------------------------------------------------------------------------------
// AES-CMAC, RFC 4493.  `info` (optional) reports which branches were taken.
struct cmac_info
{
    bool msb_l;           // MSB( L ) set:  K1 = ( L << 1 ) xor Rb
    bool msb_k1;          // MSB( K1 ) set: K2 = ( K1 << 1 ) xor Rb
    bool complete_block;  // last block complete (uses K1) or padded (uses K2)
    unsigned blocks;
};

inline void cmac_shift_xor( const u8 in[ 16 ], u8 out[ 16 ] )
{
    const bool msb = in[ 0 ] & 0x80;
    for ( int i = 0; i != 16; ++i )
        out[ i ] = u8( ( in[ i ] << 1 ) | ( i != 15 ? in[ i + 1 ] >> 7 : 0 ) );
    if ( msb ) out[ 15 ] ^= 0x87;
}

inline void cmac_subkeys( const aes128& a, u8 k1[ 16 ], u8 k2[ 16 ], cmac_info* info = nullptr )
{
    static const u8 zero[ 16 ] = { 0 };
    u8 l[ 16 ];
    a.encrypt( zero, l );
    cmac_shift_xor( l, k1 );
    cmac_shift_xor( k1, k2 );
    if ( info ) { info->msb_l = l[ 0 ] & 0x80; info->msb_k1 = k1[ 0 ] & 0x80; }
}

inline void cmac( const u8 key[ 16 ], const u8* msg, std::size_t len, u8 mac[ 16 ], cmac_info* info = nullptr )
{
    const aes128 a( key );
    u8 k1[ 16 ], k2[ 16 ];
    cmac_subkeys( a, k1, k2, info );

    std::size_t n = ( len + 15 ) / 16;
    bool complete;
    if ( n == 0 ) { n = 1; complete = false; }
    else complete = ( len % 16 ) == 0;

    u8 last[ 16 ];
    if ( complete )
    {
        for ( int i = 0; i != 16; ++i ) last[ i ] = msg[ 16 * ( n - 1 ) + i ] ^ k1[ i ];
    }
    else
    {
        const std::size_t rest = len - 16 * ( n - 1 );
        for ( std::size_t i = 0; i != 16; ++i )
        {
            const u8 m = i < rest ? msg[ 16 * ( n - 1 ) + i ] : ( i == rest ? 0x80 : 0x00 );
            last[ i ] = m ^ k2[ i ];
        }
    }

    u8 x[ 16 ] = { 0 }, y[ 16 ];
    for ( std::size_t b = 0; b + 1 < n; ++b )
    {
        for ( int i = 0; i != 16; ++i ) y[ i ] = x[ i ] ^ msg[ 16 * b + i ];
        a.encrypt( y, x );
    }
    for ( int i = 0; i != 16; ++i ) y[ i ] = x[ i ] ^ last[ i ];
    a.encrypt( y, mac );

    if ( info ) { info->complete_block = complete; info->blocks = unsigned( n ); }
}

// ------------------------------------------------------------------------------------------------------------
// LE legacy pairing, Vol 3 Part H 2.2.3 / 2.2.4

// c1( k, r, preq, pres, iat, rat, ia, ra ) = e( k, e( k, r XOR p1 ) XOR p2 ); p1 and p2 are given
inline void c1( const u8 k[ 16 ], const u8 r[ 16 ], const u8 p1[ 16 ], const u8 p2[ 16 ], u8 out[ 16 ] )
{
    u8 t[ 16 ], u[ 16 ];
    for ( int i = 0; i != 16; ++i ) t[ i ] = r[ i ] ^ p1[ i ];
    e( k, t, u );
    for ( int i = 0; i != 16; ++i ) u[ i ] ^= p2[ i ];
    e( k, u, out );
}

// p1 = pres || preq || rat' || iat'     (iat' least significant octet)
inline void c1_p1( const u8 pres[ 7 ], const u8 preq[ 7 ], u8 rat, u8 iat, u8 p1[ 16 ] )
{
    std::memcpy( p1, pres, 7 ); std::memcpy( p1 + 7, preq, 7 ); p1[ 14 ] = rat & 1; p1[ 15 ] = iat & 1;
}

// p2 = padding(32 bit 0) || ia || ra
inline void c1_p2( const u8 ia[ 6 ], const u8 ra[ 6 ], u8 p2[ 16 ] )
{
    std::memset( p2, 0, 4 ); std::memcpy( p2 + 4, ia, 6 ); std::memcpy( p2 + 10, ra, 6 );
}

// s1( k, r1, r2 ) = e( k, r' ), r' = r1' || r2', rN' = least significant 64 bits of rN
inline void s1( const u8 k[ 16 ], const u8 r1[ 16 ], const u8 r2[ 16 ], u8 out[ 16 ] )
{
    u8 r[ 16 ];
    std::memcpy( r, r1 + 8, 8 );
    std::memcpy( r + 8, r2 + 8, 8 );
    e( k, r, out );
}

// ------------------------------------------------------------------------------------------------------------
// LE secure connections, Vol 3 Part H 2.2.6 - 2.2.9

// f4( U, V, X, Z ) = AES-CMAC_X( U || V || Z )
inline void f4( const u8 U[ 32 ], const u8 V[ 32 ], const u8 X[ 16 ], u8 Z, u8 out[ 16 ], cmac_info* info = nullptr )
{
    u8 m[ 65 ];
    std::memcpy( m, U, 32 ); std::memcpy( m + 32, V, 32 ); m[ 64 ] = Z;
    cmac( X, m, sizeof m, out, info );
}

// f5( W, N1, N2, A1, A2 ): T = AES-CMAC_SALT( W ),
//   MacKey = AES-CMAC_T( 0 || keyID || N1 || N2 || A1 || A2 || 256 ), LTK = AES-CMAC_T( 1 || ... )
// A1, A2: 56 bit, most significant octet = address type (0 public, 1 random)
inline void f5( const u8 W[ 32 ], const u8 N1[ 16 ], const u8 N2[ 16 ], const u8 A1[ 7 ], const u8 A2[ 7 ],
                u8 mackey[ 16 ], u8 ltk[ 16 ], cmac_info* info_t = nullptr )
{
    static const u8 salt[ 16 ]  = { 0x6C,0x88,0x83,0x91,0xAA,0xF5,0xA5,0x38,0x60,0x37,0x0B,0xDB,0x5A,0x60,0x83,0xBE };
    static const u8 key_id[ 4 ] = { 0x62, 0x74, 0x6c, 0x65 };

    u8 T[ 16 ];
    cmac( salt, W, 32, T );

    u8 m[ 53 ];
    m[ 0 ] = 0;
    std::memcpy( m + 1, key_id, 4 );
    std::memcpy( m + 5, N1, 16 );
    std::memcpy( m + 21, N2, 16 );
    std::memcpy( m + 37, A1, 7 );
    std::memcpy( m + 44, A2, 7 );
    m[ 51 ] = 0x01; m[ 52 ] = 0x00;     // Length = 256

    cmac( T, m, sizeof m, mackey, info_t );
    m[ 0 ] = 1;
    cmac( T, m, sizeof m, ltk );
}

// f6( W, N1, N2, R, IOcap, A1, A2 ) = AES-CMAC_W( N1 || N2 || R || IOcap || A1 || A2 )
inline void f6( const u8 W[ 16 ], const u8 N1[ 16 ], const u8 N2[ 16 ], const u8 R[ 16 ], const u8 IOcap[ 3 ],
                const u8 A1[ 7 ], const u8 A2[ 7 ], u8 out[ 16 ], cmac_info* info = nullptr )
{
    u8 m[ 65 ];
    std::memcpy( m, N1, 16 ); std::memcpy( m + 16, N2, 16 ); std::memcpy( m + 32, R, 16 );
    std::memcpy( m + 48, IOcap, 3 ); std::memcpy( m + 51, A1, 7 ); std::memcpy( m + 58, A2, 7 );
    cmac( W, m, sizeof m, out, info );
}

// g2( U, V, X, Y ) = AES-CMAC_X( U || V || Y ) mod 2^32
inline std::uint32_t g2( const u8 U[ 32 ], const u8 V[ 32 ], const u8 X[ 16 ], const u8 Y[ 16 ], cmac_info* info = nullptr )
{
    u8 m[ 80 ], mac[ 16 ];
    std::memcpy( m, U, 32 ); std::memcpy( m + 32, V, 32 ); std::memcpy( m + 64, Y, 16 );
    cmac( X, m, sizeof m, mac, info );
    return ( std::uint32_t( mac[ 12 ] ) << 24 ) | ( std::uint32_t( mac[ 13 ] ) << 16 ) | ( std::uint32_t( mac[ 14 ] ) << 8 ) | mac[ 15 ];
}

// Link layer session key, Vol 6 Part B 5.1.3.1: SKD = SKDs || SKDm (SKDm least significant), SK = e( LTK, SKD )
inline void ll_session_key( const u8 ltk[ 16 ], const u8 skd_m[ 8 ], const u8 skd_s[ 8 ], u8 sk[ 16 ] )
{
    u8 skd[ 16 ];
    std::memcpy( skd, skd_s, 8 ); std::memcpy( skd + 8, skd_m, 8 );
    e( ltk, skd, sk );
}

// ------------------------------------------------------------------------------------------------------------
// P-256 membership with a deliberately naive 256 bit arithmetic: numbers are 4 x 64 bit limbs (limb 0 least
// significant), products are reduced by binary long division.  Slow (~10 us per multiplication), obviously right.
struct u256 { std::uint64_t l[ 4 ]; };

inline u256 u256_from_be( const u8 b[ 32 ] )
{
    u256 r;
    for ( int i = 0; i != 4; ++i )
    {
        std::uint64_t v = 0;
        for ( int j = 0; j != 8; ++j ) v = ( v << 8 ) | b[ 8 * ( 3 - i ) + j ];
        r.l[ i ] = v;
    }
    return r;
}

inline int u256_cmp( const u256& a, const u256& b )
{
    for ( int i = 3; i >= 0; --i )
        if ( a.l[ i ] != b.l[ i ] ) return a.l[ i ] < b.l[ i ] ? -1 : 1;
    return 0;
}

// returns the carry / borrow
inline unsigned u256_add( u256& a, const u256& b )
{
    unsigned __int128 c = 0;
    for ( int i = 0; i != 4; ++i ) { c += ( unsigned __int128 )a.l[ i ] + b.l[ i ]; a.l[ i ] = std::uint64_t( c ); c >>= 64; }
    return unsigned( c );
}
inline unsigned u256_sub( u256& a, const u256& b )
{
    unsigned borrow = 0;
    for ( int i = 0; i != 4; ++i )
    {
        const unsigned __int128 d = ( unsigned __int128 )a.l[ i ] - b.l[ i ] - borrow;
        a.l[ i ] = std::uint64_t( d );
        borrow = unsigned( ( d >> 64 ) & 1 );
    }
    return borrow;
}

struct p256
{
    u256 p, b;

    p256()
    {
        static const u8 p_be[ 32 ] = { 0xFF,0xFF,0xFF,0xFF,0x00,0x00,0x00,0x01,0x00,0x00,0x00,0x00,0x00,0x00,0x00,0x00,
                                       0x00,0x00,0x00,0x00,0xFF,0xFF,0xFF,0xFF,0xFF,0xFF,0xFF,0xFF,0xFF,0xFF,0xFF,0xFF };
        static const u8 b_be[ 32 ] = { 0x5A,0xC6,0x35,0xD8,0xAA,0x3A,0x93,0xE7,0xB3,0xEB,0xBD,0x55,0x76,0x98,0x86,0xBC,
                                       0x65,0x1D,0x06,0xB0,0xCC,0x53,0xB0,0xF6,0x3B,0xCE,0x3C,0x3E,0x27,0xD2,0x60,0x4B };
        p = u256_from_be( p_be );
        b = u256_from_be( b_be );
    }

    // all arguments < p
    u256 addm( u256 a, const u256& c ) const
    {
        const unsigned carry = u256_add( a, c );
        if ( carry || u256_cmp( a, p ) >= 0 ) u256_sub( a, p );
        return a;
    }
    u256 subm( u256 a, const u256& c ) const
    {
        if ( u256_sub( a, c ) ) u256_add( a, p );
        return a;
    }
    // a * c mod p by double-and-add over the bits of c (256 modular doublings and additions)
    u256 mulm( const u256& a, const u256& c ) const
    {
        u256 r = { { 0, 0, 0, 0 } };
        for ( int bit = 255; bit >= 0; --bit )
        {
            r = addm( r, r );
            if ( ( c.l[ bit / 64 ] >> ( bit % 64 ) ) & 1 ) r = addm( r, a );
        }
        return r;
    }

    // x, y as 32 octets most significant first
    bool on_curve( const u8 x_be[ 32 ], const u8 y_be[ 32 ] ) const
    {
        const u256 x = u256_from_be( x_be ), y = u256_from_be( y_be );
        if ( u256_cmp( x, p ) >= 0 || u256_cmp( y, p ) >= 0 ) return false;

        const u256 y2 = mulm( y, y );
        const u256 x3 = mulm( mulm( x, x ), x );
        const u256 x_3 = addm( addm( x, x ), x );
        const u256 rhs = addm( subm( x3, x_3 ), b );
        return u256_cmp( y2, rhs ) == 0;
    }
};

// ------------------------------------------------------------------------------------------------------------
// self test against published vectors; returns "" or the name of the first failing vector
inline std::vector< u8 > from_hex( const char* s )
{
    std::vector< u8 > r;
    auto v = []( char c ) -> int { return c >= '0' && c <= '9' ? c - '0' : c >= 'a' && c <= 'f' ? c - 'a' + 10 : c >= 'A' && c <= 'F' ? c - 'A' + 10 : -1; };
    int hi = -1;
    for ( ; *s; ++s )
    {
        const int d = v( *s );
        if ( d < 0 ) continue;
        if ( hi < 0 ) hi = d; else { r.push_back( u8( hi * 16 + d ) ); hi = -1; }
    }
    return r;
}

inline bool eq_hex( const u8* p, const char* hex )
{
    const std::vector< u8 > v = from_hex( hex );
    return std::memcmp( p, v.data(), v.size() ) == 0;
}

inline std::string self_test()
{
    u8 out[ 16 ], out2[ 16 ];

    // FIPS-197 Appendix B and Appendix C.1
    e( from_hex( "2b7e151628aed2a6abf7158809cf4f3c" ).data(), from_hex( "3243f6a8885a308d313198a2e0370734" ).data(), out );
    if ( !eq_hex( out, "3925841d02dc09fbdc118597196a0b32" ) ) return "FIPS-197 Appendix B";
    e( from_hex( "000102030405060708090a0b0c0d0e0f" ).data(), from_hex( "00112233445566778899aabbccddeeff" ).data(), out );
    if ( !eq_hex( out, "69c4e0d86a7b0430d8cdb78070b4c55a" ) ) return "FIPS-197 Appendix C.1";

    // RFC 4493 section 4
    const std::vector< u8 > k = from_hex( "2b7e151628aed2a6abf7158809cf4f3c" );
    const std::vector< u8 > m = from_hex( "6bc1bee22e409f96e93d7e117393172a ae2d8a571e03ac9c9eb76fac45af8e51"
                                          "30c81c46a35ce411e5fbc1191a0a52ef f69f2445df4f9b17ad2b417be66c3710" );
    {
        u8 k1[ 16 ], k2[ 16 ];
        cmac_subkeys( aes128( k.data() ), k1, k2 );
        if ( !eq_hex( k1, "fbeed618357133667c85e08f7236a8de" ) ) return "RFC 4493 K1";
        if ( !eq_hex( k2, "f7ddac306ae266ccf90bc11ee46d513b" ) ) return "RFC 4493 K2";
    }
    cmac( k.data(), m.data(), 0, out );  if ( !eq_hex( out, "bb1d6929e95937287fa37d129b756746" ) ) return "RFC 4493 example 1 (len 0)";
    cmac( k.data(), m.data(), 16, out ); if ( !eq_hex( out, "070a16b46b4d4144f79bdd9dd04a287c" ) ) return "RFC 4493 example 2 (len 16)";
    cmac( k.data(), m.data(), 40, out ); if ( !eq_hex( out, "dfa66747de9ae63030ca32611497c827" ) ) return "RFC 4493 example 3 (len 40)";
    cmac( k.data(), m.data(), 64, out ); if ( !eq_hex( out, "51f0bebf7e3b9d92fc49741779363cfe" ) ) return "RFC 4493 example 4 (len 64)";

    // Core Vol 3 Part H 2.2.3 (c1) and 2.2.4 (s1) examples
    {
        const std::vector< u8 > zero = from_hex( "00000000000000000000000000000000" );
        c1( zero.data(), from_hex( "5783D52156AD6F0E6388274EC6702EE0" ).data(), from_hex( "05000800000302070710000001010001" ).data(),
            from_hex( "00000000A1A2A3A4A5A6B1B2B3B4B5B6" ).data(), out );
        if ( !eq_hex( out, "1e1e3fef878988ead2a74dc5bef13b86" ) ) return "Core 3.H.2.2.3 c1 example";

        // the same example from its components: iat 1, rat 0, preq 0x07071000000101, pres 0x05000800000302, ia A1.., ra B1..
        u8 p1[ 16 ], p2[ 16 ];
        c1_p1( from_hex( "05000800000302" ).data(), from_hex( "07071000000101" ).data(), 0, 1, p1 );
        c1_p2( from_hex( "A1A2A3A4A5A6" ).data(), from_hex( "B1B2B3B4B5B6" ).data(), p2 );
        if ( !eq_hex( p1, "05000800000302070710000001010001" ) ) return "Core 3.H.2.2.3 p1 example";
        if ( !eq_hex( p2, "00000000A1A2A3A4A5A6B1B2B3B4B5B6" ) ) return "Core 3.H.2.2.3 p2 example";

        s1( zero.data(), from_hex( "000F0E0D0C0B0A091122334455667788" ).data(), from_hex( "010203040506070899AABBCCDDEEFF00" ).data(), out );
        if ( !eq_hex( out, "9a1fe1f0e8b0f49b5b4216ae796da062" ) ) return "Core 3.H.2.2.4 s1 example";
    }

    // Core Vol 3 Part H Appendix D sample data
    const std::vector< u8 > U  = from_hex( "20b003d2f297be2c5e2c83a7e9f9a5b9eff49111acf4fddbcc0301480e359de6" );
    const std::vector< u8 > V  = from_hex( "55188b3d32f6bb9a900afcfbeed4e72a59cb9ac2f19d7cfb6b4fdd49f47fc5fd" );
    const std::vector< u8 > X  = from_hex( "d5cb8454d177733effffb2ec712baeab" );
    const std::vector< u8 > Y  = from_hex( "a6e8e7cc25a75f6e216583f7ff3dc4cf" );
    const std::vector< u8 > W  = from_hex( "ec0234a357c8ad05341010a60a397d9b99796b13b4f866f1868d34f373bfa698" );
    const std::vector< u8 > A1 = from_hex( "00561237 37bfce" );
    const std::vector< u8 > A2 = from_hex( "00a71370 2dcfc1" );

    f4( U.data(), V.data(), X.data(), 0, out );
    if ( !eq_hex( out, "f2c916f107a9bd1cf1eda1bea974872d" ) ) return "Core 3.H.D.2 f4";

    f5( W.data(), X.data(), Y.data(), A1.data(), A2.data(), out, out2 );
    if ( !eq_hex( out,  "2965f176a1084a02fd3f6a20ce636e20" ) ) return "Core 3.H.D.3 f5 MacKey";
    if ( !eq_hex( out2, "6986791169d7cd23980522b594750a38" ) ) return "Core 3.H.D.3 f5 LTK";

    f6( from_hex( "2965f176a1084a02fd3f6a20ce636e20" ).data(), X.data(), Y.data(), from_hex( "12a3343bb453bb5408da42d20c2d0fc8" ).data(),
        from_hex( "010102" ).data(), A1.data(), A2.data(), out );
    if ( !eq_hex( out, "e3c473989cd0e8c5d26c0b09da958f61" ) ) return "Core 3.H.D.4 f6";

    if ( g2( U.data(), V.data(), X.data(), Y.data() ) != 0x2f9ed5bau ) return "Core 3.H.D.5 g2";

    // Core Vol 6 Part C 1 (encryption sample data): LTK, SKDm, SKDs -> SK
    ll_session_key( from_hex( "4C68384139F574D836BCF34E9DFB01BF" ).data(), from_hex( "ACBDCEDFE0F10213" ).data(), from_hex( "0213243546576879" ).data(), out );
    if ( !eq_hex( out, "99AD1B5226A37E3E058E3B8E27C2C666" ) ) return "Core 6.C.1 session key";

    // P-256: base point, Core Vol 3 Part H 2.3.5.6.1 debug public key, sample keys of Part H Appendix D / Vol 2 Part G 7.1.2
    const p256 curve;
    const std::vector< u8 > gx = from_hex( "6B17D1F2E12C4247F8BCE6E563A440F277037D812DEB33A0F4A13945D898C296" );
    const std::vector< u8 > gy = from_hex( "4FE342E2FE1A7F9B8EE7EB4A7C0F9E162BCE33576B315ECECBB6406837BF51F5" );
    if ( !curve.on_curve( gx.data(), gy.data() ) ) return "P-256 base point";
    if ( curve.on_curve( gy.data(), gx.data() ) ) return "P-256 base point, coordinates swapped";
    if ( !curve.on_curve( from_hex( "20b003d2f297be2c5e2c83a7e9f9a5b9eff49111acf4fddbcc0301480e359de6" ).data(),
                          from_hex( "dc809c49652aeb6d63329abf5a52155c766345c28fed3024741c8ed01589d28b" ).data() ) ) return "P-256 Core sample public key A";
    if ( !curve.on_curve( from_hex( "1ea1f0f01faf1d9609592284f19e4c0047b58afd8615a69f559077b22faaa190" ).data(),
                          from_hex( "4c55f33e429dad377356703a9ab85160472d1130e28e36765f89aff915b1214a" ).data() ) ) return "P-256 Core sample public key B";

    return "";
}

} // namespace ref

#endif
