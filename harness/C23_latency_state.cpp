// C23 - peripheral latency skips only permitted events.   DUT 1: details::peripheral_latency_state< Cfg > alone.
// E1: BFS (depth bound) over the real state object for every latency configuration; the reference keeps the number of
// connection events that passed and derives what is permitted from the *documentation* of the options.
//
// time model: the anchor is the last connection event that took place ( plan_next_connection_event ).  `since` = number
// of intervals between the anchor and the planned event, `passed` = number of the last event (relative to the anchor)
// that is known to be over ( 0 after a successful event, the timed-out event after plan_..._after_timeout ).
// disarm_connection_event() returns the current time relative to the anchor plus a margin: only answers T with
// passed * interval <= T <= since * interval are consistent with that ( an event that is over can not be "now" ).
//
// build variants: -DC23_GROUP=0 named configurations, =1 single option configurations, =2 run-time switchable sets
#include "../mc/mc.hpp"
// peripheral_latency.hpp relies on its includer for these
#include <cassert>
#include <tuple>
#include <utility>
#include <algorithm>
#include <type_traits>
#include <bluetoe/meta_tools.hpp>
#include <bluetoe/delta_time.hpp>
#include <bluetoe/channel_map.hpp>
#include <bluetoe/peripheral_latency.hpp>

#ifndef C23_GROUP
#define C23_GROUP 0
#endif

namespace {

namespace bll = bluetoe::link_layer;
using bll::delta_time;
using pl = bll::peripheral_latency;

// reference side description of a configuration ( independent of bluetoe's meta programming )
enum : unsigned { UNACK = 1, RXNE = 2, TXNE = 4, MD = 8, PEND = 16, ERR = 32, ALWAYS = 64 };
static const char* const cond_name[] = { "unacknowledged_data", "last_received_not_empty", "last_transmitted_not_empty", "last_received_had_more_data", "pending_outgoing_data", "error_occured" };

struct fake_radio
{
    std::uint8_t  ok;
    std::uint32_t time_us;
    std::uint32_t calls;
    std::pair< bool, delta_time > disarm_connection_event() { ++calls; return { ok != 0, delta_time( time_us ) }; }
};

// ---- configurations ----------------------------------------------------------------------------------------------------
template < class Cfg, unsigned Mask >
struct static_cfg
{
    using cfg = Cfg;
    using state_t = bll::details::peripheral_latency_state< Cfg >;
    static constexpr int n = 1;
    static unsigned mask( int ) { return Mask; }
    static void change( state_t&, int ) {}
};

template < class C0, unsigned M0, class C1, unsigned M1, class C2 = void, unsigned M2 = 0 >
struct set_cfg
{
    using cfg = bll::peripheral_latency_configuration_set< C0, C1, C2 >;
    using state_t = bll::details::peripheral_latency_state< cfg >;
    static constexpr int n = 3;
    static unsigned mask( int i ) { return i == 0 ? M0 : i == 1 ? M1 : M2; }
    static void change( state_t& s, int i )
    {
        if ( i == 0 ) s.template change_peripheral_latency< C0 >();
        else if ( i == 1 ) s.template change_peripheral_latency< C1 >();
        else s.template change_peripheral_latency< C2 >();
    }
};
template < class C0, unsigned M0, class C1, unsigned M1 >
struct set_cfg< C0, M0, C1, M1, void, 0 >
{
    using cfg = bll::peripheral_latency_configuration_set< C0, C1 >;
    using state_t = bll::details::peripheral_latency_state< cfg >;
    static constexpr int n = 2;
    static unsigned mask( int i ) { return i == 0 ? M0 : M1; }
    static void change( state_t& s, int i )
    {
        if ( i == 0 ) s.template change_peripheral_latency< C0 >();
        else s.template change_peripheral_latency< C1 >();
    }
};

static const unsigned latencies[] = { 0, 1, 2, 5, 499 };
static const unsigned instants[]  = { 0, 1, 2, 9 };         // 0 = no pending instant

template < class D >
struct World
{
    using state_t = typename D::state_t;

    mc::Placed< state_t > st;
    fake_radio            radio;
    struct Ref
    {
        std::uint16_t counter;      // counter of the planned event
        std::uint8_t  index;        // its channel index
        std::uint32_t since;        // intervals between anchor and planned event
        std::uint32_t passed;       // last event (relative to the anchor) that is over
        std::uint8_t  cfg;          // active configuration of a set
        std::uint8_t  pulled;       // the planned event was pulled back already
    } ref;

    // not part of the state
    std::uint32_t interval_us = 30000;
    bool          near_wrap = false;
    std::string   cfg_name;

    delta_time interval() const { return delta_time( interval_us ); }

    void init()
    {
        st.construct();
        memset( &radio, 0, sizeof radio );
        memset( &ref, 0, sizeof ref );
        st->reset_connection_state();
        if ( near_wrap )
        {
            // 65 530 events nobody received, then one that took place: counter 65 531, anchor there
            for ( unsigned i = 0; i != 65530; ++i ) st->plan_next_connection_event_after_timeout( delta_time( 100 ) );
            st->plan_next_connection_event( 0, bll::connection_event_events(), interval(), { false, 0 } );
            ref.counter = 65531; ref.index = 65531 % 37; ref.since = 1; ref.passed = 0;
        }
    }
    void regions( mc::Regions& r ) { r.add( st.raw, sizeof st.raw ); r.add( radio ); r.add( ref ); }

    // ---- events
    static constexpr int n_plan = 5 * 64 * 4;
    enum { ev_timeout = n_plan, ev_resched = n_plan + 1, n_resched = 9, ev_switch = ev_resched + n_resched, ev_reset = ev_switch + 3, ev_count };
    int num_events() const { return ev_count; }

    static void decode_plan( int ev, unsigned& lat, unsigned& evts, unsigned& inst )
    {
        // simplest first: no flags, no instant, small latency
        evts = unsigned( ev ) % 64; ev /= 64;
        inst = instants[ ev % 4 ]; ev /= 4;
        lat  = latencies[ ev ];
    }
    static std::string evts_text( unsigned e )
    {
        std::string s;
        for ( int b = 0; b != 6; ++b ) if ( e & ( 1u << b ) ) s += std::string( s.empty() ? "" : "+" ) + cond_name[ b ];
        return s.empty() ? "none" : s;
    }

    // answers of the radio to disarm_connection_event(): 0 = refused, else the time since the anchor (us); -1: not possible here
    std::int64_t disarm_time( int k ) const
    {
        const std::int64_t I = interval_us, lo = std::int64_t( ref.passed ) * I, hi = std::int64_t( ref.since ) * I;
        std::int64_t t = -1;
        switch ( k )
        {
            case 1: t = lo; break;
            case 2: t = lo + 1; break;
            case 3: t = lo + I / 2; break;
            case 4: t = lo + I; break;
            case 5: t = lo + 3 * I; break;
            case 6: t = hi - I / 2; break;
            case 7: t = hi; break;
            case 8: t = hi - I + 1; break;
        }
        return ( t < lo || t > hi ) ? -1 : t;
    }

    std::string describe( int ev ) const
    {
        if ( ev < n_plan )
        {
            unsigned lat, e, inst; decode_plan( ev, lat, e, inst );
            return mc::fmt( "plan_next_connection_event(latency %u, events {%s}, %s)", lat, evts_text( e ).c_str(), inst ? mc::fmt( "instant at +%u", inst ).c_str() : "no pending instant" );
        }
        if ( ev == ev_timeout ) return "plan_next_connection_event_after_timeout()";
        if ( ev < ev_switch )
        {
            static const char* const t[] = { "refuses", "now = last event", "now = last event + 1us", "now = last event + 1/2 interval", "now = last event + 1 interval",
                                             "now = last event + 3 intervals", "now = planned event - 1/2 interval", "now = planned event", "now = planned event - 1 interval + 1us" };
            return mc::fmt( "reschedule_on_pending_data(), radio: %s", t[ ev - ev_resched ] );
        }
        if ( ev < ev_reset ) return mc::fmt( "change_peripheral_latency< configuration %d >()", ev - ev_switch );
        return "reset_connection_state()";
    }

    struct Obs { std::uint16_t counter; unsigned index; std::uint32_t time; };
    Obs observe() { return Obs{ st->connection_event_counter(), st->current_channel_index(), st->time_since_last_event().usec() }; }

    std::string cfgkind() const { return cfg_name + ( D::n > 1 ? mc::fmt( "#%d", ref.cfg ) : std::string() ); }

    bool apply( int ev, mc::Ctx& c )
    {
        const Obs before = observe();
        // the reference and the object have to agree before the step (they do by construction; guards against a harness slip)
        if ( before.counter != ref.counter || before.index != ref.index || std::uint64_t( before.time ) != std::uint64_t( ref.since ) * interval_us )
        {
            c.fail( "harness:reference-out-of-step", "reference and object disagree before the step" ); return true;
        }

        if ( ev < n_plan )
        {
            unsigned lat, e, inst; decode_plan( ev, lat, e, inst );
            const bll::connection_event_events evts( e & UNACK, e & RXNE, e & TXNE, e & MD, e & PEND, e & ERR );
            const std::uint16_t instant = std::uint16_t( before.counter + inst );
            st->plan_next_connection_event( std::uint16_t( lat ), evts, interval(), { inst != 0, instant } );
            const Obs after = observe();
            const std::uint16_t adv = std::uint16_t( after.counter - before.counter );
            c.obs = mc::fmt( "counter %u->%u index %u->%u time %u us", before.counter, after.counter, before.index, after.index, after.time );

            const unsigned mask = D::mask( ref.cfg );
            const unsigned hit  = ( mask & ALWAYS ) ? ALWAYS : ( e & ( mask | ERR ) );
            if ( adv == 0 || adv >= 0x8000 )
                c.fail( "plan:event-counter-not-advancing", mc::fmt( "%s: %s", cfgkind().c_str(), c.obs.c_str() ) );
            else if ( adv - 1u > lat )
                c.fail( "plan:skipped-more-than-latency", mc::fmt( "%s: %u events skipped with peripheral latency %u; %s", cfgkind().c_str(), adv - 1u, lat, c.obs.c_str() ) );
            else if ( hit && adv != 1 )
            {
                int b = 0; while ( b != 6 && !( hit & ( 1u << b ) ) ) ++b;
                c.fail( mc::fmt( "plan:skipped-although-listen-condition:%s", ( hit & ALWAYS ) ? "listen_always" : ( hit & ERR ) ? cond_name[ 5 ] : cond_name[ b ] ),
                        mc::fmt( "%s: %u events skipped although {%s} happened; %s", cfgkind().c_str(), adv - 1u, evts_text( e ).c_str(), c.obs.c_str() ) );
            }
            else if ( inst && adv > inst )
                c.fail( "plan:skipped-past-pending-instant", mc::fmt( "%s: next event at +%u but a procedure instant is pending at +%u; %s", cfgkind().c_str(), adv, inst, c.obs.c_str() ) );
            else if ( after.index != ( before.index + adv ) % 37 )
                c.fail( "plan:channel-index-and-counter-apart", mc::fmt( "%s: counter advanced by %u, channel index %u -> %u; latency %u", cfgkind().c_str(), adv, before.index, after.index, lat ) );
            else if ( std::uint64_t( after.time ) != std::uint64_t( adv ) * interval_us )
                c.fail( "plan:time-and-counter-apart", mc::fmt( "%s: counter advanced by %u, time_since_last_event %u us, interval %u us", cfgkind().c_str(), adv, after.time, interval_us ) );
            if ( !c.fails.empty() ) return true;

            c.cls( mc::fmt( "plan:%s:%s:%s", cfgkind().c_str(),
                            hit ? ( ( hit & ALWAYS ) ? "listen_always" : ( hit & ERR ) ? "error" : "listen-condition" ) : ( lat == 0 ? "latency-0" : "nothing-to-listen-for" ),
                            adv == 1 ? "next-event" : ( inst && adv == inst ) ? ( adv == lat + 1 ? "full-skip-to-instant" : "skip-limited-by-instant" ) : adv == lat + 1 ? "full-skip" : "partial-skip" ) );
            if ( std::uint16_t( before.counter + adv ) < before.counter ) c.cls( "plan:counter-wrapped" );
            ref.counter = after.counter; ref.index = std::uint8_t( after.index ); ref.since = adv; ref.passed = 0; ref.pulled = 0;
            return true;
        }
        if ( ev == ev_timeout )
        {
            st->plan_next_connection_event_after_timeout( interval() );
            const Obs after = observe();
            const std::uint16_t adv = std::uint16_t( after.counter - before.counter );
            c.obs = mc::fmt( "counter %u->%u index %u->%u time %u us", before.counter, after.counter, before.index, after.index, after.time );
            if ( adv != 1 )
                c.fail( "timeout:counter-step-not-one", c.obs );
            else if ( after.index != ( before.index + 1 ) % 37 )
                c.fail( "timeout:channel-index-and-counter-apart", c.obs );
            else if ( std::uint64_t( after.time ) != std::uint64_t( ref.since + 1 ) * interval_us )
                c.fail( "timeout:time-and-counter-apart", mc::fmt( "%u events since the last event that took place, time_since_last_event %u us", ref.since + 1, after.time ) );
            if ( !c.fails.empty() ) return true;
            c.cls( ref.pulled ? "timeout:after-pull-back" : ref.passed ? "timeout:repeated" : "timeout:first" );
            if ( after.counter == 0 ) c.cls( "timeout:counter-wrapped" );
            ref.passed = ref.since; ref.since += 1; ref.counter = after.counter; ref.index = std::uint8_t( after.index );
            return true;
        }
        if ( ev < ev_switch )
        {
            const int k = ev - ev_resched;
            std::int64_t T = 0;
            if ( k != 0 ) { T = disarm_time( k ); if ( T < 0 ) return false; }
            radio.ok = k != 0; radio.time_us = std::uint32_t( T ); radio.calls = 0;
            const bool r = st->reschedule_on_pending_data( radio, interval() );
            const Obs after = observe();
            const std::uint16_t back = std::uint16_t( before.counter - after.counter );
            c.obs = mc::fmt( "->%d, radio asked %u times; counter %u->%u index %u->%u time %u->%u us", r, radio.calls, before.counter, after.counter, before.index, after.index, before.time, after.time );
            const bool disarmed = radio.calls != 0 && radio.ok;
            radio.calls = 0; radio.ok = 0; radio.time_us = 0;       // observations, not state

            if ( !r && disarmed )
                c.fail( "pull-back:false-after-successful-disarm", "the radio disarmed the connection event but reschedule_on_pending_data() returned false: nobody schedules it again; " + c.obs );
            else if ( r && !disarmed )
                c.fail( "pull-back:true-without-disarm", "reschedule_on_pending_data() returned true although the radio did not disarm the event; " + c.obs );
            else if ( !r && ( back != 0 || after.index != before.index || after.time != before.time ) )
                c.fail( "pull-back:refused-but-state-changed", c.obs );
            // the configuration listens on pending transmit data, at least one event is skipped, nothing happened since the event
            // was planned and the radio leaves room for an earlier event: the radio has to be asked and the event has to move
            // ( to any earlier event )
            {
                const std::uint32_t now_events = std::uint32_t( ( T + interval_us - 1 ) / interval_us );
                const bool possible = k != 0 && ( D::mask( ref.cfg ) & PEND ) && ref.passed == 0 && !ref.pulled && ref.since >= 2 && std::max< std::uint32_t >( 1, now_events ) < ref.since;
                if ( c.fails.empty() && possible && !disarmed )
                    c.fail( "pull-back:radio-not-asked-although-event-is-skipped", mc::fmt( "%s: next event %u intervals after the anchor, now %lld us; %s", cfgkind().c_str(), ref.since, (long long)T, c.obs.c_str() ) );
                else if ( c.fails.empty() && possible && back == 0 )
                    c.fail( "pull-back:event-not-moved-although-possible", mc::fmt( "%s: next event %u intervals after the anchor, now %lld us; %s", cfgkind().c_str(), ref.since, (long long)T, c.obs.c_str() ) );
                if ( possible ) c.cls( mc::fmt( "reschedule:possible:planned-%s-ahead", ref.since == 2 ? "2" : ref.since == 3 ? "3" : "4+" ) );
            }
            if ( !c.fails.empty() ) return true;
            if ( !r )
            {
                c.cls( mc::fmt( "reschedule:%s", k == 0 ? "radio-refused-or-not-asked" : ref.pulled ? "not-tried-again-after-pull-back" : ref.since - ref.passed == 1 ? "not-tried:nothing-to-gain" : "not-tried" ) );
                return true;
            }
            if ( back >= 0x8000 )
                c.fail( "pull-back:event-moved-later", c.obs );
            else if ( back >= ref.since - ref.passed )
                c.fail( "pull-back:into-the-past", mc::fmt( "planned event was %u intervals after the anchor, event %u is over; pulled back by %u; %s", ref.since, ref.passed, back, c.obs.c_str() ) );
            else if ( std::int64_t( ref.since - back ) * interval_us < T )
                c.fail( "pull-back:into-the-past", mc::fmt( "now is %lld us after the anchor, the new event is %u intervals (%u us) after it; %s", (long long)T, ref.since - back, interval_us, c.obs.c_str() ) );
            else if ( after.index != ( before.index + 37u * 20u - back ) % 37 )
                c.fail( "pull-back:channel-index-and-counter-apart", mc::fmt( "counter moved back by %u; %s", back, c.obs.c_str() ) );
            else if ( std::uint64_t( after.time ) != std::uint64_t( ref.since - back ) * interval_us )
                c.fail( "pull-back:time-and-counter-apart", mc::fmt( "counter moved back by %u from %u intervals after the anchor; %s", back, ref.since, c.obs.c_str() ) );
            if ( !c.fails.empty() ) return true;
            {
                const std::uint32_t now_events = std::uint32_t( ( T + interval_us - 1 ) / interval_us );
                const std::uint32_t earliest = std::max( ref.passed + 1, std::max< std::uint32_t >( 1, now_events ) );
                c.cls( mc::fmt( "reschedule:pulled-back:%s:%s%s", back == 0 ? "by-0" : back == 1 ? "by-1" : back < 10 ? "by-2..9" : "by-10+",
                                ref.since - back == earliest ? "earliest-possible" : "later-than-possible", ref.passed ? ":after-timeout" : "" ) );
                if ( after.counter > before.counter ) c.cls( "reschedule:counter-wrapped-backwards" );
                if ( !( D::mask( ref.cfg ) & PEND ) ) c.cls( "reschedule:pulled-back-without-listen_if_pending_transmit_data-active" );
            }
            ref.since -= back; ref.counter = after.counter; ref.index = std::uint8_t( after.index ); ref.pulled = 1;
            return true;
        }
        if ( ev < ev_reset )
        {
            const int i = ev - ev_switch;
            if ( D::n == 1 || i >= D::n || i == ref.cfg ) return false;
            D::change( st.get(), i );
            const Obs after = observe();
            if ( after.counter != before.counter || after.index != before.index || after.time != before.time )
                c.fail( "switch-configuration:changes-planned-event", c.obs );
            ref.cfg = std::uint8_t( i );
            c.cls( mc::fmt( "switch:to-%d", i ) );
            return true;
        }
        // new connection
        if ( near_wrap ) return false;
        st->reset_connection_state();
        const Obs after = observe();
        c.obs = mc::fmt( "counter %u index %u time %u", after.counter, after.index, after.time );
        if ( after.counter != 0 || after.index != 0 || after.time != 0 ) c.fail( "reset:not-at-event-0", c.obs );
        const std::uint8_t cfg = ref.cfg;
        memset( &ref, 0, sizeof ref ); ref.cfg = cfg;
        return true;
    }
};

struct Total { mc::Report& rep; const mc::Args& a; std::string only; int rc = 0; };

template < class D >
void run_one( Total& t, const char* name, std::uint32_t interval_us, bool near_wrap, int depth )
{
    static World< D > w;
    w.interval_us = interval_us; w.near_wrap = near_wrap; w.cfg_name = name;
    mc::Report rep; rep.property = "C23";
    rep.unit = mc::fmt( "%s/interval%uus/%s", name, interval_us, near_wrap ? "counter65531" : "counter0" );
    if ( !t.only.empty() && t.only != rep.unit ) return;
    mc::BfsOptions o; o.max_depth = depth; o.max_states = 3000000;
    mc::Bfs< World< D > > bfs( w, rep, t.a, o );
    if ( !t.a.replay.empty() ) { t.rc |= bfs.replay_file( mc::read_replay( t.a.replay ) ); return; }
    bfs.run();
    mc::Report& total = t.rep;
    total.states += rep.states; total.transitions += rep.transitions; total.evaluations += rep.evaluations; total.traces_validated += rep.traces_validated;
    total.exhaustive = total.exhaustive && rep.exhaustive;
    total.max_depth_completed = total.max_depth_completed < 0 ? rep.max_depth_completed : std::min( total.max_depth_completed, rep.max_depth_completed );
    for ( auto& cl : rep.classes ) total.cls( cl );
    for ( auto& s : rep.samples ) total.sample( rep.unit + ": " + s, 8 );
    total.counters[ "states " + rep.unit ] = rep.states;
    total.counters[ "worlds" ]++;
    for ( auto& kv : rep.notes ) total.notes[ rep.unit + " " + kv.first ] = kv.second;
    for ( auto& v : rep.violations )
    {
        // the configuration is part of the detail (replay selects the world by it), not of the signature
        total.fail( v.first, rep.unit + ": " + v.second.detail, v.second.trace );
    }
}

} // namespace

int main( int argc, char** argv )
{
    mc::Args a = mc::parse_args( argc, argv );
    mc::Report total; total.property = "C23"; total.unit = a.opt.count( "unit" ) ? a.opt[ "unit" ] : "C23_latency_state";
    Total t{ total, a };
    if ( !a.replay.empty() )
    {
        std::ifstream f( a.replay ); std::string l;
        while ( std::getline( f, l ) ) if ( l.rfind( "detail ", 0 ) == 0 ) t.only = l.substr( 7, l.find( ": " ) - 7 );
    }
    const int depth = int( a.num( "depth", a.thorough() ? 7 : 5 ) );

    using none_t   = bll::peripheral_latency_configuration<>;
    using pend_t   = bll::peripheral_latency_configuration< pl::listen_if_pending_transmit_data >;
    using unack_t  = bll::peripheral_latency_configuration< pl::listen_if_unacknowledged_data >;
    using rxne_t   = bll::peripheral_latency_configuration< pl::listen_if_last_received_not_empty >;
    using txne_t   = bll::peripheral_latency_configuration< pl::listen_if_last_transmitted_not_empty >;
    using md_t     = bll::peripheral_latency_configuration< pl::listen_if_last_received_had_more_data >;
    using always_t = bll::peripheral_latency_configuration< pl::listen_always >;
    using pend_unack_t = bll::peripheral_latency_configuration< pl::listen_if_pending_transmit_data, pl::listen_if_unacknowledged_data >;

#define RUN( D, NAME ) \
    run_one< D >( t, NAME, 30000, false, depth ); \
    run_one< D >( t, NAME, 30000, true, depth ); \
    if ( a.thorough() ) { run_one< D >( t, NAME, 7500, false, depth - 1 ); run_one< D >( t, NAME, 4000000, false, depth - 1 ); }

#if C23_GROUP == 0
    // what the documentation of the named configurations promises
    { using d1 = static_cfg< bll::peripheral_latency_ignored, ALWAYS >; RUN( d1, "peripheral_latency_ignored" ) }
    { using d2 = static_cfg< bll::peripheral_latency_strict, PEND | MD >; RUN( d2, "peripheral_latency_strict" ) }
    { using d3 = static_cfg< bll::peripheral_latency_strict_plus, RXNE | MD >; RUN( d3, "peripheral_latency_strict_plus" ) }
    { using d4 = static_cfg< bll::periperal_latency_default_configuration, PEND | UNACK | RXNE | TXNE | MD >; RUN( d4, "default" ) }
#elif C23_GROUP == 1
    { using d5 = static_cfg< none_t, 0 >; RUN( d5, "configuration<>" ) }
    { using d6 = static_cfg< pend_t, PEND >; RUN( d6, "listen_if_pending_transmit_data" ) }
    { using d7 = static_cfg< unack_t, UNACK >; RUN( d7, "listen_if_unacknowledged_data" ) }
    { using d8 = static_cfg< rxne_t, RXNE >; RUN( d8, "listen_if_last_received_not_empty" ) }
    { using d9 = static_cfg< txne_t, TXNE >; RUN( d9, "listen_if_last_transmitted_not_empty" ) }
    { using d10 = static_cfg< md_t, MD >; RUN( d10, "listen_if_last_received_had_more_data" ) }
    { using d11 = static_cfg< always_t, ALWAYS >; RUN( d11, "listen_always" ) }
#else
    { using d12 = set_cfg< bll::peripheral_latency_ignored, ALWAYS, bll::peripheral_latency_strict_plus, RXNE | MD >; RUN( d12, "set<ignored,strict_plus>" ) }
    { using d13 = set_cfg< none_t, 0, pend_unack_t, PEND | UNACK >; RUN( d13, "set<none,pending+unacknowledged>" ) }
    { using d14 = set_cfg< bll::peripheral_latency_strict, PEND | MD, bll::peripheral_latency_strict_plus, RXNE | MD, txne_t, TXNE >; RUN( d14, "set<strict,strict_plus,transmitted>" ) }
#endif
    if ( !a.replay.empty() ) return t.rc;
    total.notes[ "bound" ] = mc::fmt( "every listed configuration: all event sequences up to depth %d from event counter 0 and from 65531 (interval 30 ms)%s; alphabet: latency {0,1,2,5,499} x 2^6 event flags x instant {none,+1,+2,+9}, timeout, 9 radio answers to disarm, configuration switch, new connection",
                                      depth, a.thorough() ? mc::fmt( ", depth %d for intervals 7.5 ms and 4 s", depth - 1 ).c_str() : "" );
    total.write( a );
    return 0;
}
