// C31 (a) - L2CAP channel multiplexing: E2 exhaustive product over frames x connection states x buffer availability
// on the real bluetoe::details::l2cap<> ( handle_l2cap_input / transmit_pending_l2cap_output ).
//
// CFG 0 : recording channels on CIDs 4/5/6 (two MTU layouts, scripted replies up to "fill everything offered")
// CFG 1 : real ATT server + real signaling_channel<> + real legacy_security_manager
// CFG 2 : real ATT server (max_mtu_size 65) + real signaling_channel<> + real lesc_security_manager
// CFG 3 : real ATT server + real signaling_channel<> + real security_manager (legacy + LESC)
// CFG 4 : real ATT server (max_mtu_size 65) + no_signaling_channel + no_security_manager
#include "C31_common.hpp"

#ifndef CFG
#define CFG 0
#endif

#if CFG != 0
#include <bluetoe/server.hpp>
#include <bluetoe/service.hpp>
#include <bluetoe/characteristic.hpp>
#include <bluetoe/link_state.hpp>
#include <bluetoe/security_manager.hpp>
#include <bluetoe/address.hpp>
#endif

namespace {

using namespace c31;

// ---------------------------------------------------------------------------------------------------------------
// devices under test
#if CFG == 0

struct ll23 : bluetoe::details::l2cap< ll23, base_channel_data,
                  spy< rec_channel< 4, 23, 23, 0 >, 0 >, spy< rec_channel< 5, 23, 23, 1 >, 1 >, spy< rec_channel< 6, 23, 23, 2 >, 2 > >,
              fake_buffers
{
    static const char* name() { return "rec23"; }
};

struct ll65 : bluetoe::details::l2cap< ll65, base_channel_data,
                  spy< rec_channel< 4, 23, 65, 0 >, 0 >, spy< rec_channel< 5, 23, 23, 1 >, 1 >, spy< rec_channel< 6, 65, 65, 2 >, 2 > >,
              fake_buffers
{
    static const char* name() { return "rec65"; }
};

static constexpr bool is_rec = true;

#else

std::uint32_t g_val;
std::uint8_t  g_long[ 70 ];

using service_t = bluetoe::service<
    bluetoe::service_uuid16< 0x1815 >,
    bluetoe::characteristic< bluetoe::characteristic_uuid16< 0x2A56 >, bluetoe::bind_characteristic_value< std::uint32_t, &g_val >, bluetoe::notify >,
    bluetoe::characteristic< bluetoe::characteristic_uuid16< 0x2A57 >, bluetoe::bind_characteristic_value< decltype( g_long ), &g_long > >
>;

// deterministic stand-ins for the radio's security tool box (values are irrelevant for framing)
struct sec_functions
{
    using u128 = bluetoe::details::uint128_t;
    using device_address = bluetoe::link_layer::device_address;

    static u128 mix( const std::uint8_t* a, std::size_t na, const std::uint8_t* b, std::size_t nb, std::uint8_t tag )
    {
        u128 r; for ( std::size_t i = 0; i != 16; ++i ) r[ i ] = std::uint8_t( tag * 31 + i );
        for ( std::size_t i = 0; i != na; ++i ) r[ i % 16 ] = std::uint8_t( r[ i % 16 ] * 5 + a[ i ] + i );
        for ( std::size_t i = 0; i != nb; ++i ) r[ ( i + 7 ) % 16 ] = std::uint8_t( r[ ( i + 7 ) % 16 ] * 3 ^ b[ i ] );
        return r;
    }

    device_address local_address() const { return bluetoe::link_layer::public_device_address( { 0xb6, 0xb5, 0xb4, 0xb3, 0xb2, 0xb1 } ); }
    u128 create_srand() { u128 r; for ( int i = 0; i != 16; ++i ) r[ i ] = std::uint8_t( 0xa0 + i ); return r; }
    u128 create_passkey() { u128 r{}; r[ 0 ] = 0x40; r[ 1 ] = 0xe2; r[ 2 ] = 0x01; return r; }
    bluetoe::details::longterm_key_t create_long_term_key()
    {
        bluetoe::details::longterm_key_t k; for ( int i = 0; i != 16; ++i ) k.longterm_key[ i ] = std::uint8_t( 0x50 + i );
        k.rand = 0x1122334455667788ull; k.ediv = 0x4711; return k;
    }
    u128 c1( const u128& k, const u128& r, const u128& p1, const u128& p2 ) const
    {
        u128 a = mix( k.data(), 16, r.data(), 16, 1 ); u128 b = mix( p1.data(), 16, p2.data(), 16, 2 ); return mix( a.data(), 16, b.data(), 16, 3 );
    }
    u128 s1( const u128& k, const u128& r1, const u128& r2 ) { u128 a = mix( k.data(), 16, r1.data(), 16, 4 ); return mix( a.data(), 16, r2.data(), 16, 5 ); }
    bool is_valid_public_key( const std::uint8_t* k ) const { return k[ 0 ] != 0xff; }
    std::pair< bluetoe::details::ecdh_public_key_t, bluetoe::details::ecdh_private_key_t > generate_keys()
    {
        std::pair< bluetoe::details::ecdh_public_key_t, bluetoe::details::ecdh_private_key_t > r;
        for ( std::size_t i = 0; i != r.first.size(); ++i ) r.first[ i ] = std::uint8_t( 0x10 + i );
        for ( std::size_t i = 0; i != r.second.size(); ++i ) r.second[ i ] = std::uint8_t( 0x80 + i );
        return r;
    }
    u128 select_random_nonce() { u128 r; for ( int i = 0; i != 16; ++i ) r[ i ] = std::uint8_t( 0xc0 + i ); return r; }
    bluetoe::details::ecdh_shared_secret_t p256( const std::uint8_t* priv, const std::uint8_t* pub )
    {
        bluetoe::details::ecdh_shared_secret_t r; u128 a = mix( priv, 32, pub, 64, 6 );
        for ( std::size_t i = 0; i != r.size(); ++i ) r[ i ] = a[ i % 16 ];
        return r;
    }
    u128 f4( const std::uint8_t* u, const std::uint8_t* v, const std::array< std::uint8_t, 16 >& k, std::uint8_t z )
    {
        u128 a = mix( u, 32, v, 32, 7 ); return mix( a.data(), 16, k.data(), 16, std::uint8_t( 8 + z ) );
    }
    std::pair< u128, u128 > f5( const bluetoe::details::ecdh_shared_secret_t dh, const u128& nc, const u128& np, const device_address& ac, const device_address& ap )
    {
        u128 a = mix( dh.data(), 32, nc.data(), 16, 9 ); u128 b = mix( a.data(), 16, np.data(), 16, 10 );
        std::uint8_t ad[ 14 ]; std::memcpy( ad, ac.begin(), 6 ); ad[ 6 ] = ac.is_random(); std::memcpy( ad + 7, ap.begin(), 6 ); ad[ 13 ] = ap.is_random();
        return { mix( b.data(), 16, ad, 14, 11 ), mix( b.data(), 16, ad, 14, 12 ) };
    }
    u128 f6( const u128& key, const u128& n1, const u128& n2, const u128& r, const bluetoe::details::io_capabilities_t& io, const device_address& ac, const device_address& ap )
    {
        u128 a = mix( key.data(), 16, n1.data(), 16, 13 ); u128 b = mix( n2.data(), 16, r.data(), 16, 14 );
        std::uint8_t ad[ 17 ]; std::memcpy( ad, io.data(), 3 ); std::memcpy( ad + 3, ac.begin(), 6 ); ad[ 9 ] = ac.is_random(); std::memcpy( ad + 10, ap.begin(), 6 ); ad[ 16 ] = ap.is_random();
        u128 c = mix( a.data(), 16, b.data(), 16, 15 ); return mix( c.data(), 16, ad, 17, 16 );
    }
    std::uint32_t g2( const std::uint8_t* u, const std::uint8_t* v, const u128& x, const u128& y )
    {
        u128 a = mix( u, 32, v, 32, 17 ); u128 b = mix( x.data(), 16, y.data(), 16, 18 ); u128 c = mix( a.data(), 16, b.data(), 16, 19 );
        return ( std::uint32_t( c[ 0 ] ) | std::uint32_t( c[ 1 ] ) << 8 | std::uint32_t( c[ 2 ] ) << 16 ) % 1000000u;
    }
};

#if CFG == 1
using server_t = bluetoe::server< service_t >;
using sig_t    = bluetoe::l2cap::signaling_channel<>;
using sm_sel   = bluetoe::legacy_security_manager;
static const char* cfg_name = "att+signaling+legacy-sm";
#elif CFG == 2
using server_t = bluetoe::server< bluetoe::max_mtu_size< 65 >, service_t >;
using sig_t    = bluetoe::l2cap::signaling_channel<>;
using sm_sel   = bluetoe::lesc_security_manager;
static const char* cfg_name = "att65+signaling+lesc-sm";
#elif CFG == 3
using server_t = bluetoe::server< service_t >;
using sig_t    = bluetoe::l2cap::signaling_channel<>;
using sm_sel   = bluetoe::security_manager;
static const char* cfg_name = "att+signaling+full-sm";
#else
using server_t = bluetoe::server< bluetoe::max_mtu_size< 65 >, service_t >;
using sig_t    = bluetoe::l2cap::no_signaling_channel;
using sm_sel   = bluetoe::no_security_manager;
static const char* cfg_name = "att65+no-signaling+no-sm";
#endif

static constexpr bool has_signaling = CFG != 4;

struct real_ll : bluetoe::details::l2cap< real_ll, bluetoe::details::link_state,
                     spy< server_t, 0 >, spy< sig_t, 1 >, spy< typename sm_sel::template impl< real_ll >, 2 > >,
                 fake_buffers, sec_functions
{
    static const char* name() { return cfg_name; }
};

static constexpr bool is_rec = false;

#endif

// ---------------------------------------------------------------------------------------------------------------
struct Case
{
    int          state = 0;
    int          bufs  = 4;
    int          reply = 0, pend = 0, outmode = 0;
    std::size_t  n = 0;
    std::uint8_t frame[ 80 ];

    std::string line() const
    {
        return mc::fmt( "state=%d bufs=%d reply=%d pend=%d outmode=%d frame=%s", state, bufs, reply, pend, outmode, n ? mc::hex( frame, n ).c_str() : "-" );
    }

    static Case parse( const std::string& s )
    {
        Case c;
        std::istringstream is( s ); std::string tok;
        while ( is >> tok )
        {
            auto eq = tok.find( '=' ); if ( eq == std::string::npos ) continue;
            const std::string k = tok.substr( 0, eq ), v = tok.substr( eq + 1 );
            if ( k == "state" ) c.state = atoi( v.c_str() );
            else if ( k == "bufs" ) c.bufs = atoi( v.c_str() );
            else if ( k == "reply" ) c.reply = atoi( v.c_str() );
            else if ( k == "pend" ) c.pend = atoi( v.c_str() );
            else if ( k == "outmode" ) c.outmode = atoi( v.c_str() );
            else if ( k == "frame" && v != "-" ) { auto b = mc::unhex( v ); c.n = std::min( b.size(), sizeof c.frame ); memcpy( c.frame, b.data(), c.n ); }
        }
        return c;
    }
};

struct Outcome
{
    std::string sig, detail;      // first failing oracle, empty = fine
    // outcome class, kept as numbers / literals so that the common path allocates nothing
    int         state = 0;
    const char* in_a = "";  const char* in_b = "";
    int         out_n = -1, out_cid = 0;
    // observation
    bool        ret = true; int calls = 0, commits = 0; std::uint8_t first[ 12 ]; std::size_t first_n = 0;

    std::string cls( const std::vector< std::string >& names ) const
    {
        std::string r = names[ state ] + "/" + in_a + in_b + "/";
        if ( out_n < 0 ) return r + "-";
        r += mc::fmt( "out%d", out_n );
        if ( out_n ) r += mc::fmt( "-first-cid%d", out_cid );
        return r;
    }
    std::string obs() const
    {
        std::string r = mc::fmt( "ret=%d calls=%d commits=%d", int( ret ), calls, commits );
        if ( first_n ) r += " first=" + mc::hex( first, first_n );
        return r;
    }
    long key() const
    {
        long k = state;
        for ( const char* p : { in_a, in_b } ) for ( ; *p; ++p ) k = k * 131 + *p;
        return ( k * 131 + out_n ) * 131 + out_cid;
    }
    void fail( const std::string& s, const std::string& d ) { if ( sig.empty() ) { sig = s; detail = d; } }
};

const char* cid_class( int idx ) { return idx == 0 ? "cid-att" : idx == 1 ? "cid-signaling" : idx == 2 ? "cid-sm" : "cid-unknown"; }
const char* payload_class( std::size_t n, std::size_t full ) { return n < 4 ? "no-header" : n == 4 ? "payload-empty" : n == 5 ? "payload-1" : n >= full ? "payload-full" : "payload-short"; }

template < class LL >
struct Dut
{
    mc::Placed< LL >                              ll;
    mc::Placed< typename LL::connection_data_t >  cd;
    std::vector< std::vector< std::uint8_t > >    images;
    std::vector< std::string >                    state_names;
    mc::Regions                                   regs;

    static constexpr std::size_t max_mtu = LL::maximum_mtu_size;
    static constexpr std::size_t full    = LL::maximum_mtu_size + l2cap_hdr;

    bool feed( std::initializer_list< std::uint8_t > f )
    {
        std::uint8_t* b = new std::uint8_t[ f.size() ]; std::copy( f.begin(), f.end(), b );
        env().frame = b; env().frame_size = f.size();
        const bool r = ll->handle_l2cap_input( b, f.size(), cd.get() );
        delete[] b;
        return r;
    }

    void fresh()
    {
#if CFG != 0
        g_val = 0x44332211; for ( std::size_t i = 0; i != sizeof g_long; ++i ) g_long[ i ] = std::uint8_t( i + 1 );
#endif
        ll.construct();
        cd.construct();
#if CFG != 0
        cd->remote_connection_created( bluetoe::link_layer::random_device_address( { 0xa6, 0xa5, 0xa4, 0xa3, 0xa2, 0xa1 } ) );
#endif
        env().reset( 8 );
    }

    void keep( const std::string& name )
    {
        std::vector< std::uint8_t > img( regs.size() );
        regs.save( img.data() );
        images.push_back( img ); state_names.push_back( name );
        env().reset( 0 );
    }

    void prepare()
    {
        regs.add( ll.raw, sizeof ll.raw ); regs.add( cd.raw, sizeof cd.raw );
#if CFG != 0
        regs.add( g_val ); regs.add( g_long );
#endif
        fresh(); keep( "fresh" );
#if CFG != 0
        // handles: 1 service, 2 decl, 3 value, 4 CCCD, 5 decl, 6 value
        fresh(); feed( { 0x05, 0x00, 0x04, 0x00, 0x12, 0x04, 0x00, 0x01, 0x00 } ); cd->queue_notification( 0 ); keep( "att-notification-pending" );
        if ( has_signaling )
        {
            fresh(); static_cast< sig_t& >( ll.get() ).connection_parameter_update_request( 0x20, 0x100, 0x55, 0xC80 ); keep( "signaling-request-queued" );
            fresh(); static_cast< sig_t& >( ll.get() ).connection_parameter_update_request( 0x20, 0x100, 0x55, 0xC80 );
            ll->transmit_pending_l2cap_output( cd.get() ); keep( "signaling-request-transmitted" );
            fresh(); feed( { 0x05, 0x00, 0x04, 0x00, 0x12, 0x04, 0x00, 0x01, 0x00 } ); cd->queue_notification( 0 );
            static_cast< sig_t& >( ll.get() ).connection_parameter_update_request( 0x20, 0x100, 0x55, 0xC80 ); keep( "att-notification+signaling-request-pending" );
        }
        if ( server_t::maximum_channel_mtu_size > 23 )
        {
            fresh(); feed( { 0x03, 0x00, 0x04, 0x00, 0x02, 0x41, 0x00 } ); keep( "att-mtu-65" );
        }
#endif
    }

    static int chan_index( unsigned cid ) { return cid == 4 ? 0 : cid == 5 ? 1 : cid == 6 ? 2 : -1; }
    static unsigned chan_cid( int idx ) { return 4 + idx; }

    void check_reply_frame( Outcome& o, const char* phase, const call_entry& src, const commit_entry& c, unsigned cid )
    {
        const std::string p = phase;
        if ( !c.ptr_ok ) return o.fail( "mux:" + p + "-commits-foreign-buffer", "commit_l2cap_output_buffer() called with a pointer that is not the start of the buffer allocated last" );
        if ( !c.fits )   return o.fail( "mux:" + p + "-exceeds-buffer", mc::fmt( "committed %zu bytes, the link layer handed out %zu", c.size, c.block ) );
        if ( c.size != src.produced + l2cap_hdr )
            return o.fail( "mux:" + p + "-wrong-commit-size", mc::fmt( "channel produced %zu bytes, %zu bytes committed", src.produced, c.size ) );
        const unsigned len = c.bytes[ 0 ] | c.bytes[ 1 ] << 8, rc = c.bytes[ 2 ] | c.bytes[ 3 ] << 8;
        if ( len != src.produced )
            return o.fail( "mux:" + p + "-wrong-length-field", mc::fmt( "length field %u, payload %zu", len, src.produced ) );
        if ( rc != cid )
            return o.fail( "mux:" + p + "-wrong-cid", mc::fmt( "frame from channel 0x%04x carries CID 0x%04x", cid, rc ) );
        const std::size_t cmp = std::min( src.produced, max_copy - l2cap_hdr );
        if ( memcmp( c.bytes + l2cap_hdr, src.bytes, cmp ) != 0 )
            return o.fail( "mux:" + p + "-payload-corrupted", "committed payload differs from what the channel wrote" );
    }

    void check_call_buffers( Outcome& o, const char* phase, const call_entry& c )
    {
        const std::string p = phase;
        if ( !c.out_ptr_ok ) return o.fail( "mux:" + p + "-buffer-not-from-link-layer", "channel was given an output pointer that is not allocated buffer + 4" );
        if ( !c.cap_ok ) return o.fail( "mux:" + p + "-offered-capacity-exceeds-buffer", mc::fmt( "channel was offered %zu bytes at offset 4 of a %zu byte buffer", c.offered, env().cur_size ) );
        if ( c.returned && c.produced > c.offered )
            return o.fail( std::string( "channel:" ) + p + "-larger-than-offered:" + cid_class( c.chan ), mc::fmt( "channel was offered %zu bytes and claims %zu", c.offered, c.produced ) );
    }

    Outcome evaluate( const Case& c, bool verbose )
    {
        Outcome o;
        environment& e = env();
        regs.load( images[ c.state ].data() );
        e.reset( c.bufs );
        e.reply_mode = c.reply; e.out_mode = c.outmode;
        for ( int i = 0; i != 3; ++i ) e.pending[ i ] = ( c.pend >> i ) & 1;

        std::uint8_t* f = new std::uint8_t[ c.n ];
        memcpy( f, c.frame, c.n );
        e.frame = f; e.frame_size = c.n;

        const std::size_t n = c.n;
        const bool     have_hdr   = n >= l2cap_hdr;
        const unsigned len        = have_hdr ? f[ 0 ] | f[ 1 ] << 8 : 0;
        const unsigned cid        = have_hdr ? f[ 2 ] | f[ 3 ] << 8 : 0;
        const bool     wellformed = have_hdr && std::size_t( len ) + l2cap_hdr == n;
        const int      idx        = have_hdr ? chan_index( cid ) : -1;
        const char*    lenclass   = !have_hdr ? "truncated-header" : std::size_t( len ) + l2cap_hdr < n ? "length-field-too-small" : "length-field-too-large";

        // ---- phase 1: input
        bool ret = true;
        const char* const g = guarded( [&]{ ret = ll->handle_l2cap_input( f, n, cd.get() ); } );

        if ( verbose )
        {
            printf( "  handle_l2cap_input( %s ) -> %d   calls=%d commits=%d allocs=%d guard=%s\n", n ? mc::hex( f, n ).c_str() : "<empty>", int( ret ), e.n_calls, e.n_commit, e.n_alloc, g );
            for ( int i = 0; i != e.n_commit; ++i ) printf( "    commit %zu bytes: %s\n", e.commit[ i ].size, mc::hex( e.commit[ i ].bytes, std::min( e.commit[ i ].size, max_copy ) ).c_str() );
        }

        if ( *g )
            o.fail( std::string( "memory:" ) + g + ":input:" + cid_class( wellformed ? idx : -1 ) + ":" + payload_class( n, full ),
                    "handle_l2cap_input: " + std::string( g ) + " while processing the frame" );
        else if ( e.log_overflow )
            o.fail( "mux:input-call-storm", "more than 16 channel calls / commits for one frame" );
        else if ( !wellformed || idx < 0 )
        {
            o.in_a = "dropped-"; o.in_b = !wellformed ? lenclass : "unknown-cid";
            if ( e.n_calls )
                o.fail( !wellformed ? std::string( "mux:handler-called-despite-length-mismatch:" ) + lenclass : std::string( "mux:handler-called-for-unknown-cid" ),
                        mc::fmt( "channel %d was called for a frame that has to be dropped", e.calls[ 0 ].chan ) );
            else if ( e.n_commit )
                o.fail( std::string( "mux:output-for-dropped-frame:" ) + ( !wellformed ? "length-mismatch" : "unknown-cid" ), "a frame was committed although the input has to be dropped" );
            else if ( !wellformed && !ret )
                o.fail( "mux:malformed-frame-not-consumed", "handle_l2cap_input returned false for a malformed frame (it would be presented again forever)" );
            else if ( wellformed && !ret && c.bufs > 0 )
                o.fail( "mux:unknown-cid-not-consumed", "handle_l2cap_input returned false although a buffer was available" );
        }
        else if ( c.bufs == 0 )
        {
            o.in_a = "deferred-no-buffer";
            if ( e.n_calls ) o.fail( "mux:handler-called-without-buffer", "channel called although no output buffer could be allocated" );
            else if ( e.n_commit ) o.fail( "mux:commit-without-buffer", "commit although no buffer was handed out" );
            else if ( ret ) o.fail( "mux:frame-consumed-without-buffer", "frame reported as consumed although it could not be handled (request lost)" );
        }
        else
        {
            const call_entry& k = e.calls[ 0 ];
            if ( !ret ) o.fail( "mux:frame-not-consumed", "handle_l2cap_input returned false although a buffer was available" );
            else if ( e.n_calls == 0 ) o.fail( "mux:handler-not-called", mc::fmt( "well formed frame for CID 0x%04x was not delivered", cid ) );
            else if ( e.n_calls > 1 ) o.fail( "mux:handler-called-more-than-once", mc::fmt( "%d channel calls for one frame", e.n_calls ) );
            else if ( k.kind != 0 || k.chan != idx ) o.fail( "mux:wrong-handler-called", mc::fmt( "frame for CID 0x%04x went to channel index %d kind %d", cid, k.chan, k.kind ) );
            else if ( !k.in_ptr_ok || k.in_size != n - l2cap_hdr ) o.fail( "mux:wrong-payload-window", mc::fmt( "channel got %zu bytes, payload has %zu", k.in_size, n - l2cap_hdr ) );
            else check_call_buffers( o, "reply", k );
            if ( o.sig.empty() )
            {
                if ( k.produced == 0 )
                {
                    o.in_a = cid_class( idx ); o.in_b = "-no-reply";
                    if ( e.n_commit ) o.fail( "mux:commit-without-reply", "channel produced nothing but a frame was committed" );
                }
                else
                {
                    o.in_a = cid_class( idx ); o.in_b = k.produced == k.offered ? "-reply-full" : "-reply";
                    if ( e.n_commit == 0 ) o.fail( "mux:reply-not-committed", mc::fmt( "channel produced %zu bytes, nothing committed", k.produced ) );
                    else if ( e.n_commit > 1 ) o.fail( "mux:reply-committed-more-than-once", mc::fmt( "%d commits", e.n_commit ) );
                    else check_reply_frame( o, "reply", k, e.commit[ 0 ], cid );
                }
            }
        }

        // ---- phase 2: collect pending output with enough buffers
        if ( o.sig.empty() )
        {
            const int c0 = e.n_calls, m0 = e.n_commit;
            e.buffers_available = 4;
            const char* const g2 = guarded( [&]{ ll->transmit_pending_l2cap_output( cd.get() ); } );
            if ( verbose )
            {
                printf( "  transmit_pending_l2cap_output -> calls=%d commits=%d guard=%s\n", e.n_calls - c0, e.n_commit - m0, g2 );
                for ( int i = m0; i < e.n_commit; ++i ) printf( "    commit %zu bytes: %s\n", e.commit[ i ].size, mc::hex( e.commit[ i ].bytes, std::min( e.commit[ i ].size, max_copy ) ).c_str() );
            }
            if ( *g2 )
                o.fail( std::string( "memory:" ) + g2 + ":output", std::string( "transmit_pending_l2cap_output: " ) + g2 );
            else if ( e.log_overflow )
                o.fail( "mux:output-call-storm", "more than 16 channel calls / commits while collecting output" );
            else
            {
                int m = m0, produced = 0;
                for ( int i = c0; i < e.n_calls && o.sig.empty(); ++i )
                {
                    const call_entry& k = e.calls[ i ];
                    if ( k.kind != 1 ) { o.fail( "mux:input-handler-called-from-output-poll", "l2cap_input called by transmit_pending_l2cap_output" ); break; }
                    // the block that was current during this call is gone once the next one was allocated; the spy evaluated the pointers in place
                    check_call_buffers( o, "output", k );
                    if ( !o.sig.empty() ) break;
                    if ( k.produced == 0 ) continue;
                    ++produced;
                    if ( m >= e.n_commit ) { o.fail( "mux:output-not-committed", mc::fmt( "channel %d produced %zu bytes that were never committed", k.chan, k.produced ) ); break; }
                    check_reply_frame( o, "output", k, e.commit[ m ], chan_cid( k.chan ) );
                    ++m;
                }
                if ( o.sig.empty() && m != e.n_commit ) o.fail( "mux:output-without-source", mc::fmt( "%d commits, %d channel outputs", e.n_commit - m0, produced ) );
                if ( o.sig.empty() && is_rec && ( e.pending[ 0 ] || e.pending[ 1 ] || e.pending[ 2 ] ) )
                    o.fail( "mux:pending-output-not-collected", mc::fmt( "channels still pending after transmit_pending_l2cap_output with 4 free buffers: %d%d%d", e.pending[ 0 ], e.pending[ 1 ], e.pending[ 2 ] ) );
                o.out_n = produced;
                if ( produced && e.n_commit > m0 ) o.out_cid = e.commit[ m0 ].bytes[ 2 ];
            }
        }

        o.state = c.state; o.ret = ret; o.calls = e.n_calls; o.commits = e.n_commit;
        if ( e.n_commit ) { o.first_n = std::min( e.commit[ 0 ].size, sizeof o.first ); memcpy( o.first, e.commit[ 0 ].bytes, o.first_n ); }
        delete[] f;
        e.frame = nullptr;
        return o;
    }

    // ---- enumeration
    template < class F >
    void frames( bool thorough, F&& f )
    {
        std::vector< std::size_t > sizes;
        for ( std::size_t n = 0; n <= 12; ++n ) sizes.push_back( n );
        if ( full > 27 ) sizes.push_back( 27 );
        sizes.push_back( full );
        static const unsigned cids[] = { 0, 4, 5, 6, 7, 0x40, 0xFFFF, 0x0104, 0x0500 };

        std::vector< unsigned > b0_all, b0_small{ 0x00, 0x13 }, b1_big, b1_small{ 0x01 };
        for ( unsigned b = 0; b != 256; ++b ) b0_all.push_back( b );
        if ( thorough ) { for ( unsigned b = 0; b != 256; ++b ) if ( b < 32 || b % 8 == 0 || b % 8 == 7 || b == 0x41 || b == 0x77 ) b1_big.push_back( b ); }
        else b1_big = { 0x00, 0x01, 0x03, 0x04, 0x06, 0x07, 0x41, 0x77, 0xFF };
        static const std::uint8_t fills[][ 6 ] = {
            { 0, 0, 0, 0, 0, 0 }, { 0xFF, 0xFF, 0xFF, 0xFF, 0xFF, 0xFF }, { 0x00, 0xFF, 0xFF, 0x00, 0x28, 0x00 },
            { 0x00, 0x01, 0x00, 0x02, 0x00, 0x03 }, { 0x02, 0x00, 0x00, 0x00, 0x00, 0x00 }, { 0x00, 0x01, 0x10, 0x00, 0x00, 0x00 } };

        Case c;
        for ( std::size_t n : sizes )
        {
            const std::size_t p = n >= l2cap_hdr ? n - l2cap_hdr : 0;
            std::vector< unsigned > lens{ 0u };
            for ( long v : { long( p ) - 1, long( p ), long( p ) + 1, 0xFFFFl } )
                if ( v >= 0 && std::find( lens.begin(), lens.end(), unsigned( v ) ) == lens.end() ) lens.push_back( unsigned( v ) );
            for ( unsigned lf : lens )
                for ( unsigned cid : cids )
                {
                    const bool dispatched = n >= l2cap_hdr && lf == p && chan_index( cid ) >= 0;
                    const bool big = dispatched && !is_rec;
                    const auto& B0 = p >= 1 ? ( big ? b0_all : b0_small ) : b1_small;
                    const auto& B1 = p >= 2 ? ( big ? b1_big : b1_small ) : b1_small;
                    const int   nf = p >= 3 ? ( big ? 6 : 1 ) : 1;
                    for ( unsigned b0 : B0 ) for ( unsigned b1 : B1 ) for ( int fi = 0; fi != nf; ++fi )
                    {
                        std::uint8_t full_frame[ 80 ] = { std::uint8_t( lf ), std::uint8_t( lf >> 8 ), std::uint8_t( cid ), std::uint8_t( cid >> 8 ) };
                        for ( std::size_t i = 0; i != p; ++i )
                            full_frame[ 4 + i ] = i == 0 ? b0 : i == 1 ? b1 : i - 2 < 6 ? fills[ fi ][ i - 2 ] : fills[ fi ][ 0 ];
                        c.n = n; memcpy( c.frame, full_frame, n );
                        const bool small = ( p < 1 || b0 == 0x00 || b0 == 0x13 ) && ( p < 2 || b1 == 0x01 ) && fi == 0;
                        f( c, dispatched, small );
                    }
                }
        }
    }

    void run( const mc::Args& a, mc::Report& rep )
    {
        prepare();
        bool cut = false;
        std::uint64_t evals = 0;
        std::set< long > seen_classes;
        for ( int s = 0; s != int( images.size() ) && !cut; ++s )
            for ( int bufs : { 4, 0 } )
            {
                frames( a.thorough(), [&]( Case& c, bool dispatched, bool small )
                {
                    if ( cut ) return;
                    c.state = s; c.bufs = bufs;
                    // without a buffer no channel is ever reached: the payload alphabet is irrelevant there
                    if ( bufs == 0 && !small ) return;
                    const int nreply = is_rec && dispatched && bufs ? 3 : 1;
                    const int npend  = is_rec ? 8 : 1;
                    const int nout   = is_rec ? 2 : 1;
                    for ( c.reply = 0; c.reply != nreply; ++c.reply )
                        for ( c.pend = 0; c.pend != npend; ++c.pend )
                            for ( c.outmode = 0; c.outmode != ( c.pend ? nout : 1 ); ++c.outmode )
                            {
                                Outcome o = evaluate( c, false );
                                ++evals; ++rep.evaluations; ++rep.traces_validated;
                                if ( seen_classes.insert( o.key() ).second ) rep.cls( std::string( LL::name() ) + "/" + o.cls( state_names ) );
                                if ( !o.sig.empty() )
                                    rep.fail( o.sig, std::string( LL::name() ) + ": " + o.detail + " [" + state_names[ c.state ] + "; " + o.obs() + "]", { std::string( LL::name() ) + " " + c.line() } );
                                else if ( ( evals % 9973 ) == 17 || ( dispatched && evals % 1009 == 5 ) )
                                    rep.sample( std::string( LL::name() ) + " " + state_names[ c.state ] + " " + c.line() + " => " + o.obs(), 8 );
                            }
                    if ( ( evals & 0xfff ) == 0 && a.expired() ) cut = true;
                } );
            }
        if ( cut ) { rep.exhaustive = false; rep.notes[ std::string( "cut " ) + LL::name() ] = "deadline hit before the product was complete"; }
        rep.counters[ std::string( "evaluations " ) + LL::name() ] = evals;
        rep.counters[ std::string( "states " ) + LL::name() ] = images.size();
        rep.counters[ std::string( "maximum_mtu_size " ) + LL::name() ] = max_mtu;
    }

    int replay( const std::string& line )
    {
        prepare();
        Case c = Case::parse( line );
        if ( c.state >= int( images.size() ) ) { printf( "state index out of range\n" ); return -1; }
        printf( "config %s, state %s, %s\n", LL::name(), state_names[ c.state ].c_str(), c.line().c_str() );
        Outcome o = evaluate( c, true );
        printf( "  outcome class %s; %s\n", o.cls( state_names ).c_str(), o.obs().c_str() );
        if ( !o.sig.empty() ) printf( "  FAIL %s: %s\n", o.sig.c_str(), o.detail.c_str() );
        last_sig = o.sig;
        return 0;
    }
    std::string last_sig;
};

template < class LL >
int go( const mc::Args& a, mc::Report& rep, const mc::ReplayFile* rf )
{
    static Dut< LL > d;
    if ( !rf ) { d.run( a, rep ); return 0; }
    int rc = 0;
    for ( auto& s : rf->steps )
    {
        auto sp = s.find( ' ' );
        if ( s.substr( 0, sp ) != LL::name() ) continue;
        d.replay( s.substr( sp + 1 ) );
        if ( d.last_sig == rf->sig ) { printf( "REPRODUCED %s\n", rf->sig.c_str() ); rc = 1; }
        else printf( "not reproduced (got '%s')\n", d.last_sig.c_str() );
    }
    return rc;
}

} // namespace

int main( int argc, char** argv )
{
    mc::Args a = mc::parse_args( argc, argv );
    mc::Report rep; rep.property = "C31";
    rep.unit = a.opt.count( "unit" ) ? a.opt[ "unit" ] : "C31_l2cap_mux";

    mc::ReplayFile rf; const mc::ReplayFile* prf = nullptr;
    if ( !a.replay.empty() ) { rf = mc::read_replay( a.replay ); prf = &rf; }

    int rc = 0;
#if CFG == 0
    rc |= go< ll23 >( a, rep, prf );
    rc |= go< ll65 >( a, rep, prf );
#else
    rc |= go< real_ll >( a, rep, prf );
#endif
    if ( prf ) return rc;

    rep.notes[ "bound" ] = "frame sizes 0..12, 27 and maximum_mtu_size+4; length field {0,n-1,n,n+1,0xFFFF}; CID {0,4,5,6,7,0x40,0xFFFF,0x0104,0x0500}; "
                           "delivered frames: first payload byte 0..255, second byte alphabet (quick 9, thorough 90 values), 6 tail patterns; every prepared connection state; buffers {available, none}";
    rep.write( a );
    return 0;
}
