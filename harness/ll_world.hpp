// Shared "world LL": a plain-old-data scheduled radio for bluetoe::link_layer::link_layer<> plus a reference central.
//
//   using ll_t = bluetoe::link_layer::link_layer< Server, llw::radio, Options... >;
//   mc::Placed< ll_t > ll;   ll.construct();   ll->run();      // run() starts advertising and returns at once
//   ll->sim_adv_timeout();                                     // advertising PDU sent, nobody answered
//   ll->sim_adv_received( pdu, n );                            // CONNECT_IND / SCAN_REQ ... received after the advertising PDU
//   ll->sim_connection_event( pdus, n );                       // central sends n PDUs (LL header without SN/NESN/MD + payload)
//   ll->sim_timeout();                                         // connection event missed (nothing received)
//   ll->log                                                    // everything the link layer asked the radio to do (POD)
//
// The radio keeps no heap memory and no clock: the whole link layer object (which derives from the radio) can be
// snapshotted and restored with memcpy at its fixed address.  The central implements the real SN/NESN rules, so PDUs the
// peripheral did not accept (receive buffer full) are retransmitted and retransmissions of the peripheral are dropped.
#ifndef VERIF_LL_WORLD_HPP
#define VERIF_LL_WORLD_HPP

#include <cstdint>
#include <cstring>
#include <utility>
#include <bluetoe/link_layer.hpp>
#include <bluetoe/ll_data_pdu_buffer.hpp>
#include <bluetoe/connection_events.hpp>

#ifndef LLW_MAX_PDU
#define LLW_MAX_PDU 64      // bytes kept per logged PDU (2 header + payload); longer PDUs are truncated in the log only
#endif
#ifndef LLW_MAX_TX_LOG
#define LLW_MAX_TX_LOG 8    // PDUs (new, non-empty or empty) logged per connection event
#endif

namespace llw {

    using bluetoe::link_layer::delta_time;
    using bluetoe::link_layer::read_buffer;
    using bluetoe::link_layer::write_buffer;
    using bluetoe::link_layer::device_address;

    struct pdu
    {
        std::uint8_t  d[ LLW_MAX_PDU ];
        std::uint16_t n;            // real size (may exceed LLW_MAX_PDU, then d[] is truncated)
        std::uint8_t  encrypted;    // transmit encryption was on when it was sent
    };

    struct radio_log
    {
        // advertising
        std::uint32_t adv_count;            // calls of schedule_advertisment
        std::uint32_t adv_channel;
        std::uint32_t adv_when_us;
        std::uint8_t  adv_data[ 48 ];  std::uint32_t adv_size;
        std::uint8_t  rsp_data[ 48 ];  std::uint32_t rsp_size;
        std::uint8_t* adv_receive_buffer;   std::uint32_t adv_receive_size;
        // connection events
        std::uint32_t ce_count;             // calls of schedule_connection_event
        std::uint32_t ce_channel, ce_start_us, ce_end_us, ce_interval_us;
        std::uint32_t access_address, crc_init, access_count;
        std::uint32_t disarm_count;
        std::uint8_t  disarm_answer;        // harness: 0 = "too late" (false), 1 = ( true, disarm_time_us )
        std::uint32_t disarm_time_us;
        // user timer
        std::uint32_t timer_count, timer_cancel_count, timer_us, timer_runtime_us;
        std::uint8_t  timer_answer;         // harness: result of schedule_synchronized_user_timer
        // misc requests
        std::uint32_t wake_ups, cancelation_requests, phy_count;
        std::uint8_t  phy_rx, phy_tx;
        std::uint8_t  rx_encrypted, tx_encrypted;
        std::uint32_t enc_setup_count;
        std::uint8_t  enc_key[ 16 ];  std::uint64_t skdm;  std::uint32_t ivm;
        std::uint64_t rx_counter, tx_counter;   // increment_*_packet_counter calls
        // radio white list
        device_address wl[ 4 ];  std::uint8_t wl_used[ 4 ];
        std::uint8_t   conn_filter, scan_filter;
        // reference central
        std::uint8_t  c_sn, c_nesn;
        // result of the last simulated connection event
        pdu           tx[ LLW_MAX_TX_LOG ]; std::uint32_t tx_count;     // new PDUs the central accepted, in order (incl. empty ones)
        std::uint32_t tx_nonempty;                                      // how many of them have a payload
        std::uint32_t exchanges;                                        // PDU pairs exchanged
        std::uint32_t central_unsent;                                   // PDUs of the central not accepted by the peripheral in this event
        std::uint32_t duplicates;                                       // retransmissions seen from the peripheral
    };

    template < std::size_t TransmitSize, std::size_t ReceiveSize, typename CallBack >
    class radio : public bluetoe::link_layer::ll_data_pdu_buffer< TransmitSize, ReceiveSize, radio< TransmitSize, ReceiveSize, CallBack > >
    {
    public:
        using buffer_t = bluetoe::link_layer::ll_data_pdu_buffer< TransmitSize, ReceiveSize, radio< TransmitSize, ReceiveSize, CallBack > >;
        using layout   = typename buffer_t::layout;

        radio_log log;

        radio() { std::memset( &log, 0, sizeof log ); log.timer_answer = 1; }

        // ---- scheduled_radio interface --------------------------------------------------------------------------
        void schedule_advertisment( unsigned channel, const write_buffer& advertising_data, const write_buffer& response_data,
                                    delta_time when, const read_buffer& receive )
        {
            ++log.adv_count;
            log.adv_channel = channel;
            log.adv_when_us = when.usec();
            log.adv_size = std::uint32_t( advertising_data.size );
            std::memset( log.adv_data, 0, sizeof log.adv_data );
            std::memcpy( log.adv_data, advertising_data.buffer, advertising_data.size < sizeof log.adv_data ? advertising_data.size : sizeof log.adv_data );
            log.rsp_size = std::uint32_t( response_data.size );
            std::memset( log.rsp_data, 0, sizeof log.rsp_data );
            if ( response_data.buffer )
                std::memcpy( log.rsp_data, response_data.buffer, response_data.size < sizeof log.rsp_data ? response_data.size : sizeof log.rsp_data );
            log.adv_receive_buffer = receive.buffer;
            log.adv_receive_size   = std::uint32_t( receive.size );
        }

        delta_time schedule_connection_event( unsigned channel, delta_time start_receive, delta_time end_receive, delta_time connection_interval )
        {
            ++log.ce_count;
            log.ce_channel = channel; log.ce_start_us = start_receive.usec(); log.ce_end_us = end_receive.usec();
            log.ce_interval_us = connection_interval.usec();
            return start_receive;
        }

        std::pair< bool, delta_time > disarm_connection_event()
        {
            ++log.disarm_count;
            return { log.disarm_answer != 0, delta_time( log.disarm_time_us ) };
        }

        bool schedule_synchronized_user_timer( delta_time timeout, delta_time max_cb_runtime )
        {
            ++log.timer_count; log.timer_us = timeout.usec(); log.timer_runtime_us = max_cb_runtime.usec();
            return log.timer_answer != 0;
        }
        bool cancel_synchronized_user_timer() { ++log.timer_cancel_count; return true; }

        void set_access_address_and_crc_init( std::uint32_t access_address, std::uint32_t crc_init )
        {
            ++log.access_count; log.access_address = access_address; log.crc_init = crc_init;
            log.c_sn = 0; log.c_nesn = 0;   // new connection: the central starts with SN = NESN = 0
        }

        std::uint32_t static_random_address_seed() const { return 0x47110815; }
        void run() {}
        void wake_up() { ++log.wake_ups; }
        void request_event_cancelation() { ++log.cancelation_requests; }

        class lock_guard { public: lock_guard() {} };

        static constexpr std::size_t radio_maximum_white_list_entries = 4;
        bool radio_add_to_white_list( const device_address& a )
        {
            if ( radio_is_in_white_list( a ) ) return true;
            for ( int i = 0; i != 4; ++i ) if ( !log.wl_used[ i ] ) { log.wl[ i ] = a; log.wl_used[ i ] = 1; return true; }
            return false;
        }
        bool radio_remove_from_white_list( const device_address& a )
        {
            for ( int i = 0; i != 4; ++i ) if ( log.wl_used[ i ] && log.wl[ i ] == a ) { log.wl_used[ i ] = 0; return true; }
            return false;
        }
        bool radio_is_in_white_list( const device_address& a ) const
        {
            for ( int i = 0; i != 4; ++i ) if ( log.wl_used[ i ] && log.wl[ i ] == a ) return true;
            return false;
        }
        std::size_t radio_white_list_free_size() const { std::size_t n = 0; for ( int i = 0; i != 4; ++i ) n += !log.wl_used[ i ]; return n; }
        void radio_clear_white_list() { for ( int i = 0; i != 4; ++i ) log.wl_used[ i ] = 0; }
        void radio_connection_request_filter( bool b ) { log.conn_filter = b; }
        bool radio_connection_request_filter() const { return log.conn_filter; }
        void radio_scan_request_filter( bool b ) { log.scan_filter = b; }
        bool radio_scan_request_filter() const { return log.scan_filter; }
        bool radio_is_connection_request_in_filter( const device_address& a ) const { return !log.conn_filter || radio_is_in_white_list( a ); }
        bool radio_is_scan_request_in_filter( const device_address& a ) const { return !log.scan_filter || radio_is_in_white_list( a ); }

        void radio_set_phy( bluetoe::link_layer::phy_ll_encoding::phy_ll_encoding_t rx, bluetoe::link_layer::phy_ll_encoding::phy_ll_encoding_t tx )
        {
            ++log.phy_count; log.phy_rx = std::uint8_t( rx ); log.phy_tx = std::uint8_t( tx );
        }

        void increment_receive_packet_counter()  { ++log.rx_counter; }
        void increment_transmit_packet_counter() { ++log.tx_counter; }

        static constexpr std::size_t radio_package_overhead = 0;
        static constexpr bool hardware_supports_encryption = false;
        static constexpr bool hardware_supports_2mbit = true;
        static constexpr bool hardware_supports_synchronized_user_timer = true;
        static constexpr unsigned connection_event_setup_time_us = 100u;

        // ---- the harness plays radio hardware and central --------------------------------------------------------
        void sim_adv_timeout() { cb().adv_timeout(); }

        // received PDU: 2 header bytes + body, as on air (default layout: memory image == air image)
        void sim_adv_received( const std::uint8_t* p, std::size_t n )
        {
            read_buffer rb{ log.adv_receive_buffer, log.adv_receive_size };
            if ( rb.buffer && rb.size )
            {
                std::memset( rb.buffer, 0, rb.size );
                std::memcpy( rb.buffer, p, n < rb.size ? n : rb.size );
            }
            cb().adv_received( rb );
        }

        void sim_timeout() { cb().timeout(); }

        struct in_pdu { const std::uint8_t* p; std::size_t n; };

        // One connection event: the central sends the given PDUs one after the other (more-data), then empty PDUs as long
        // as the peripheral announces more data (at most max_exchanges PDU pairs); afterwards end_event() is called.
        // Returns the number of central PDUs the peripheral acknowledged.
        unsigned sim_connection_event( const in_pdu* pdus, unsigned npdus, unsigned max_exchanges = 6, bool error = false )
        {
            log.tx_count = 0; log.tx_nonempty = 0; log.exchanges = 0; log.central_unsent = 0; log.duplicates = 0;
            std::memset( log.tx, 0, sizeof log.tx );
            bluetoe::link_layer::connection_event_events ev;
            unsigned next = 0;
            bool peripheral_md = false;
            for ( unsigned x = 0; x != max_exchanges; ++x )
            {
                const bool have = next < npdus;
                if ( x != 0 && !have && !peripheral_md ) break;
                static const std::uint8_t empty_pdu[ 2 ] = { 0x01, 0x00 };
                const std::uint8_t* p = have ? pdus[ next ].p : empty_pdu;
                const std::size_t   n = have ? pdus[ next ].n : 2;
                const bool central_md = have && next + 1 < npdus;

                read_buffer rb = this->allocate_receive_buffer();
                write_buffer rsp;
                std::uint8_t h0 = std::uint8_t( ( p[ 0 ] & 0x03 ) | ( log.c_sn ? 0x08 : 0 ) | ( log.c_nesn ? 0x04 : 0 ) | ( central_md ? 0x10 : 0 ) );
                if ( rb.size >= 2 && rb.buffer && rb.size >= n )
                {
                    std::memcpy( rb.buffer, p, n );
                    rb.buffer[ 0 ] = h0;
                    rsp = this->received( rb );
                    ev.last_received_not_empty = p[ 1 ] != 0;
                    ev.last_received_had_more_data = central_md;
                }
                else
                {
                    // no room: the radio could not store the PDU (treated like a CRC error: nothing is acknowledged)
                    rsp = this->next_transmit();
                    ev.last_received_not_empty = false;
                    ev.last_received_had_more_data = false;
                }
                ++log.exchanges;
                const std::uint8_t r0 = rsp.buffer[ 0 ], rlen = rsp.buffer[ 1 ];
                ev.last_transmitted_not_empty = rlen != 0;
                // central: was my PDU acknowledged?
                if ( bool( r0 & 0x04 ) != bool( log.c_sn ) ) { log.c_sn ^= 1; if ( have ) ++next; }
                // central: new data from the peripheral?
                if ( bool( r0 & 0x08 ) == bool( log.c_nesn ) )
                {
                    log.c_nesn ^= 1;
                    if ( log.tx_count < LLW_MAX_TX_LOG )
                    {
                        pdu& t = log.tx[ log.tx_count ];
                        t.n = std::uint16_t( 2 + rlen );
                        std::memcpy( t.d, rsp.buffer, t.n < LLW_MAX_PDU ? t.n : LLW_MAX_PDU );
                        t.d[ 0 ] &= 0x03;   // keep LLID only, SN/NESN/MD are protocol noise for the oracles
                        t.encrypted = log.tx_encrypted;
                    }
                    ++log.tx_count;
                    if ( rlen ) ++log.tx_nonempty;
                }
                else ++log.duplicates;
                peripheral_md = ( r0 & 0x10 ) != 0;
            }
            log.central_unsent = npdus - next;
            ev.error_occured = error;
            cb().end_event( ev );
            return next;
        }

        // convenience: one control PDU ( opcode + parameters ) / one L2CAP start fragment / an empty event
        unsigned sim_ll_control( const std::uint8_t* ctrl, std::size_t n )
        {
            std::uint8_t b[ 2 + 255 ]; b[ 0 ] = 0x03; b[ 1 ] = std::uint8_t( n ); std::memcpy( b + 2, ctrl, n );
            in_pdu p{ b, n + 2 };
            return sim_connection_event( &p, 1 );
        }
        unsigned sim_l2cap( std::uint16_t cid, const std::uint8_t* payload, std::size_t n )
        {
            std::uint8_t b[ 2 + 4 + 255 ]; b[ 0 ] = 0x02; b[ 1 ] = std::uint8_t( n + 4 );
            b[ 2 ] = std::uint8_t( n ); b[ 3 ] = std::uint8_t( n >> 8 ); b[ 4 ] = std::uint8_t( cid ); b[ 5 ] = std::uint8_t( cid >> 8 );
            std::memcpy( b + 6, payload, n );
            in_pdu p{ b, n + 6 };
            return sim_connection_event( &p, 1 );
        }
        unsigned sim_empty_event() { return sim_connection_event( nullptr, 0 ); }

    private:
        CallBack& cb() { return *static_cast< CallBack* >( this ); }
    };

    // radio with link layer encryption support and a *fake* security toolbox: every function is a deterministic, cheap
    // mixer of its inputs (no real cryptography) - enough for link layer level worlds ( C27..C29 ); the security manager
    // worlds ( C32..C35 ) bring their own tagging toolbox.
    template < std::size_t TransmitSize, std::size_t ReceiveSize, typename CallBack >
    class radio_enc : public radio< TransmitSize, ReceiveSize, CallBack >
    {
    public:
        static constexpr bool hardware_supports_lesc_pairing   = true;
        static constexpr bool hardware_supports_legacy_pairing = true;
        static constexpr bool hardware_supports_encryption     = true;

        using u128 = bluetoe::details::uint128_t;

        static u128 mix( const std::uint8_t* a, std::size_t na, const std::uint8_t* b, std::size_t nb, std::uint8_t tag )
        {
            u128 r; for ( std::size_t i = 0; i != 16; ++i ) r[ i ] = std::uint8_t( tag * 31 + i );
            for ( std::size_t i = 0; i != na; ++i ) r[ i % 16 ] = std::uint8_t( r[ i % 16 ] * 5 + a[ i ] + i );
            for ( std::size_t i = 0; i != nb; ++i ) r[ ( i + 7 ) % 16 ] = std::uint8_t( r[ ( i + 7 ) % 16 ] * 3 ^ b[ i ] );
            return r;
        }

        u128 create_srand() { u128 r; for ( int i = 0; i != 16; ++i ) r[ i ] = std::uint8_t( 0xa0 + i ); return r; }
        bluetoe::details::longterm_key_t create_long_term_key()
        {
            bluetoe::details::longterm_key_t k; for ( int i = 0; i != 16; ++i ) k.longterm_key[ i ] = std::uint8_t( 0x50 + i );
            k.rand = 0x1122334455667788ull; k.ediv = 0x4711; return k;
        }
        u128 c1( const u128& temp_key, const u128& rand, const u128& p1, const u128& p2 ) const
        {
            u128 a = mix( temp_key.data(), 16, rand.data(), 16, 1 ); u128 b = mix( p1.data(), 16, p2.data(), 16, 2 );
            return mix( a.data(), 16, b.data(), 16, 3 );
        }
        u128 s1( const u128& temp_key, const u128& prand, const u128& crand )
        {
            u128 a = mix( temp_key.data(), 16, prand.data(), 16, 4 ); return mix( a.data(), 16, crand.data(), 16, 5 );
        }
        std::pair< std::uint64_t, std::uint32_t > setup_encryption( u128 key, std::uint64_t skdm, std::uint32_t ivm )
        {
            ++this->log.enc_setup_count; std::memcpy( this->log.enc_key, key.data(), 16 ); this->log.skdm = skdm; this->log.ivm = ivm;
            return { 0x3fac22107855aa56ull, 0x78563412u };
        }
        bool is_valid_public_key( const std::uint8_t* k ) const { return k[ 0 ] != 0xff; }
        std::pair< bluetoe::details::ecdh_public_key_t, bluetoe::details::ecdh_private_key_t > generate_keys()
        {
            std::pair< bluetoe::details::ecdh_public_key_t, bluetoe::details::ecdh_private_key_t > r;
            for ( std::size_t i = 0; i != r.first.size(); ++i ) r.first[ i ] = std::uint8_t( 0x10 + i );
            for ( std::size_t i = 0; i != r.second.size(); ++i ) r.second[ i ] = std::uint8_t( 0x80 + i );
            return r;
        }
        u128 select_random_nonce() { u128 r; for ( int i = 0; i != 16; ++i ) r[ i ] = std::uint8_t( 0xc0 + i ); return r; }
        bluetoe::details::ecdh_shared_secret_t p256( const std::uint8_t* priv, const std::uint8_t* pub )
        {
            bluetoe::details::ecdh_shared_secret_t r; u128 a = mix( priv, 32, pub, 64, 6 );
            for ( std::size_t i = 0; i != r.size(); ++i ) r[ i ] = a[ i % 16 ];
            return r;
        }
        u128 f4( const std::uint8_t* u, const std::uint8_t* v, const std::array< std::uint8_t, 16 >& k, std::uint8_t z )
        {
            u128 a = mix( u, 32, v, 32, 7 ); return mix( a.data(), 16, k.data(), 16, std::uint8_t( 8 + z ) );
        }
        std::pair< u128, u128 > f5( const bluetoe::details::ecdh_shared_secret_t dh, const u128& nc, const u128& np,
                                    const device_address& ac, const device_address& ap )
        {
            u128 a = mix( dh.data(), 32, nc.data(), 16, 9 ); u128 b = mix( a.data(), 16, np.data(), 16, 10 );
            std::uint8_t ad[ 14 ]; std::memcpy( ad, ac.begin(), 6 ); ad[ 6 ] = ac.is_random(); std::memcpy( ad + 7, ap.begin(), 6 ); ad[ 13 ] = ap.is_random();
            return { mix( b.data(), 16, ad, 14, 11 ), mix( b.data(), 16, ad, 14, 12 ) };
        }
        u128 f6( const u128& key, const u128& n1, const u128& n2, const u128& r, const bluetoe::details::io_capabilities_t& io,
                 const device_address& ac, const device_address& ap )
        {
            u128 a = mix( key.data(), 16, n1.data(), 16, 13 ); u128 b = mix( n2.data(), 16, r.data(), 16, 14 );
            std::uint8_t ad[ 17 ]; std::memcpy( ad, io.data(), 3 ); std::memcpy( ad + 3, ac.begin(), 6 ); ad[ 9 ] = ac.is_random(); std::memcpy( ad + 10, ap.begin(), 6 ); ad[ 16 ] = ap.is_random();
            u128 c = mix( a.data(), 16, b.data(), 16, 15 ); return mix( c.data(), 16, ad, 17, 16 );
        }
        std::uint32_t g2( const std::uint8_t* u, const std::uint8_t* v, const u128& x, const u128& y )
        {
            u128 a = mix( u, 32, v, 32, 17 ); u128 b = mix( x.data(), 16, y.data(), 16, 18 ); u128 c = mix( a.data(), 16, b.data(), 16, 19 );
            return ( std::uint32_t( c[ 0 ] ) | std::uint32_t( c[ 1 ] ) << 8 | std::uint32_t( c[ 2 ] ) << 16 ) % 1000000u;
        }
        u128 create_passkey() { u128 r{}; r[ 0 ] = 0x40; r[ 1 ] = 0xe2; r[ 2 ] = 0x01; return r; } // 123456
        void start_receive_encrypted()  { this->log.rx_encrypted = 1; }
        void start_transmit_encrypted() { this->log.tx_encrypted = 1; }
        void stop_receive_encrypted()   { this->log.rx_encrypted = 0; }
        void stop_transmit_encrypted()  { this->log.tx_encrypted = 0; }
    };

    // CONNECT_IND for the default static random address the link layer derives from static_random_address_seed(); AdvA is
    // filled in from the advertising PDU the link layer last handed to the radio.
    struct connect_ind
    {
        std::uint8_t  init_addr[ 6 ] = { 0x3c, 0x1c, 0x62, 0x92, 0xf0, 0x48 };
        bool          init_random = true;
        std::uint32_t access_address = 0xaf9ab35a;
        std::uint32_t crc_init = 0xf68108;
        std::uint8_t  win_size = 3;
        std::uint16_t win_offset = 0x0b, interval = 0x18, latency = 0, timeout = 0x48;
        std::uint8_t  map[ 5 ] = { 0xff, 0xff, 0xff, 0xff, 0x1f };
        std::uint8_t  hop = 10, sca = 5;

        // writes the 36 byte PDU (2 header + 34 body); adv_pdu = log.adv_data (to copy AdvA and its address type)
        std::size_t build( std::uint8_t* out, const std::uint8_t* adv_pdu ) const
        {
            const bool adv_random = ( adv_pdu[ 0 ] & 0x40 ) != 0;
            out[ 0 ] = std::uint8_t( 0x05 | ( init_random ? 0x40 : 0 ) | ( adv_random ? 0x80 : 0 ) );
            out[ 1 ] = 34;
            std::memcpy( out + 2, init_addr, 6 );
            std::memcpy( out + 8, adv_pdu + 2, 6 );
            out[ 14 ] = std::uint8_t( access_address ); out[ 15 ] = std::uint8_t( access_address >> 8 );
            out[ 16 ] = std::uint8_t( access_address >> 16 ); out[ 17 ] = std::uint8_t( access_address >> 24 );
            out[ 18 ] = std::uint8_t( crc_init ); out[ 19 ] = std::uint8_t( crc_init >> 8 ); out[ 20 ] = std::uint8_t( crc_init >> 16 );
            out[ 21 ] = win_size;
            out[ 22 ] = std::uint8_t( win_offset ); out[ 23 ] = std::uint8_t( win_offset >> 8 );
            out[ 24 ] = std::uint8_t( interval );   out[ 25 ] = std::uint8_t( interval >> 8 );
            out[ 26 ] = std::uint8_t( latency );    out[ 27 ] = std::uint8_t( latency >> 8 );
            out[ 28 ] = std::uint8_t( timeout );    out[ 29 ] = std::uint8_t( timeout >> 8 );
            std::memcpy( out + 30, map, 5 );
            out[ 35 ] = std::uint8_t( ( hop & 0x1f ) | ( sca << 5 ) );
            return 36;
        }
    };

} // namespace llw

#endif
