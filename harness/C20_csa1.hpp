// C20 - reference Channel Selection Algorithm #1, written from the Core specification text (Vol 6, Part B, 4.5.8.2):
//
//   unmappedChannel = ( lastUnmappedChannel + hopIncrement ) mod 37        lastUnmappedChannel = 0 for the first event
//   if unmappedChannel is a used channel:  data channel = unmappedChannel
//   else: remappingIndex = unmappedChannel mod numUsedChannels
//         data channel   = remapping table[ remappingIndex ]              table = used channels in ascending order
//
// Channel maps are 37 bit masks ( bit n = data channel n used ); bits 37..39 of the 5 byte field are RFU and ignored.
#ifndef VERIF_C20_CSA1_HPP
#define VERIF_C20_CSA1_HPP

#include <cstdint>
#include <string>
#include "../mc/mc.hpp"

namespace csa1 {

    typedef std::uint64_t mask_t;
    static const mask_t all_channels = ( mask_t( 1 ) << 37 ) - 1;

    inline int used_count( mask_t m ) { int n = 0; for ( int c = 0; c != 37; ++c ) n += int( ( m >> c ) & 1 ); return n; }

    inline bool valid_hop( unsigned hop ) { return hop >= 5 && hop <= 16; }
    inline bool valid_map( mask_t m ) { return used_count( m & all_channels ) >= 2; }

    // event = number of connection events since the connection was created ( 0 = first event ); not wrapped
    inline unsigned unmapped_channel( unsigned hop, std::uint64_t event )
    {
        unsigned last = 0;      // iterate literally, as the text says; period is 37
        const unsigned n = unsigned( event % 37 );
        for ( unsigned i = 0; i <= n; ++i ) last = ( last + hop ) % 37;
        return last;
    }

    inline unsigned channel( mask_t map, unsigned hop, std::uint64_t event, bool* remapped = nullptr )
    {
        map &= all_channels;
        const unsigned un = unmapped_channel( hop, event );
        if ( ( map >> un ) & 1 ) { if ( remapped ) *remapped = false; return un; }
        unsigned table[ 37 ]; unsigned n = 0;
        for ( unsigned c = 0; c != 37; ++c ) if ( ( map >> c ) & 1 ) table[ n++ ] = c;
        if ( remapped ) *remapped = true;
        return table[ un % n ];
    }

    inline void to_bytes( mask_t m, std::uint8_t* out ) { for ( int i = 0; i != 5; ++i ) out[ i ] = std::uint8_t( m >> ( 8 * i ) ); }
    inline mask_t from_bytes( const std::uint8_t* b ) { mask_t m = 0; for ( int i = 0; i != 5; ++i ) m |= mask_t( b[ i ] ) << ( 8 * i ); return m; }
    inline std::string hex( mask_t m ) { return mc::fmt( "%010llx", (unsigned long long)m ); }

    // the reference is validated against the worked example of /repo/tests/link_layer/channel_map_tests.cpp
    // ( map 0x05ff004417 = channels 0,1,2,4,10,14,24..32,34; hop 7 ) and the closed form for the full map
    inline bool self_test()
    {
        static const unsigned expect[ 37 ] = { 25, 14, 14, 28, 4, 14, 30, 4, 26, 1, 4, 10, 1, 24, 31, 1, 26, 34, 24, 29, 10, 24, 31, 10, 27, 34, 4, 29, 2, 25, 32,
                                               2, 27, 0, 25, 30, 0 };
        const std::uint8_t few[ 5 ] = { 0x17, 0x44, 0x00, 0xff, 0x05 };
        for ( unsigned i = 0; i != 37; ++i ) if ( channel( from_bytes( few ), 7, i ) != expect[ i ] ) return false;
        for ( unsigned hop = 5; hop != 17; ++hop )
            for ( unsigned i = 0; i != 200; ++i ) if ( channel( all_channels, hop, i ) != ( ( i + 1 ) * hop ) % 37 ) return false;
        // map { 0, 36 }, hop 8 ( tests: 0,0,0,...,36,36,0 )
        const mask_t two = mask_t( 1 ) | ( mask_t( 1 ) << 36 );
        if ( channel( two, 8, 0 ) != 0 || channel( two, 8, 34 ) != 36 || channel( two, 8, 35 ) != 36 || channel( two, 8, 36 ) != 0 ) return false;
        return true;
    }
}

#endif
