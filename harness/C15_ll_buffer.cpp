// C15 / C16 / C17 - link layer data PDU buffer against an independent central under all fault patterns.
// E1: breadth first search over the real ll_data_pdu_buffer<> driven like the nrf52 radio interrupt handler drives it.
//   -DORACLE=15|16|17  the property whose oracle reports ( the other two only prune )
//   -DBUF=<n>          size of transmit and of receive memory
//   -DFORCED=1         the central may also repeat a PDU that was acknowledged already
//   -DDEPTH_Q / -DDEPTH_T  depth bound ( connection events ) of the quick / thorough tier
#include "C15_world.hpp"

#ifndef BUF
#define BUF 58
#endif
#ifndef TXBUF
#define TXBUF BUF
#endif
#ifndef RXBUF
#define RXBUF BUF
#endif
#ifndef IRQ_Q
#define IRQ_Q 1     // upper layer calls interrupted by the radio at their lock acquisition ( quick / thorough )
#endif
#ifndef IRQ_T
#define IRQ_T 1
#endif
#ifndef DEPTH_Q
#define DEPTH_Q 6
#endif
#ifndef DEPTH_T
#define DEPTH_T 9
#endif

// how many new connections ( reset_pdu_buffer() ) / PDUs with LLID 0 a path may contain, per tier
#ifndef RESETS_Q
#define RESETS_Q 1
#endif
#ifndef RESETS_T
#define RESETS_T 1
#endif
#ifndef LLID0_Q
#define LLID0_Q 1
#endif
#ifndef LLID0_T
#define LLID0_T 1
#endif

#define STR2( x ) #x
#define STR( x ) STR2( x )

#if defined( ISR ) && ISR
#include "C15_isr.hpp"
using world_t = c15::World< c15::IsrRadio< TXBUF, RXBUF > >;
#else
using world_t = c15::World< c15::Radio< TXBUF, RXBUF > >;
#endif

static int ev( int cact, int fcp, int fpc, int uact ) { return ( ( cact * 4 + fcp ) * 2 + fpc ) * c15::NU + uact; }

static std::string sample_run( world_t& w, const std::vector< int >& evs )
{
    std::string r;
    w.init();
    w.want_obs = true; w.in_drain = true;   // in_drain: do not book classes here
    for ( int e : evs )
    {
        mc::Ctx c;
        const bool en = w.apply( e, c );
        r += w.describe( e ) + ( en ? " => " + c.obs : " [not enabled]" ) + " | ";
        if ( !c.fails.empty() ) { r += "FAIL " + c.fails[ 0 ].sig; break; }
    }
    w.want_obs = false; w.in_drain = false;
    return r;
}

int main( int argc, char** argv )
{
    using namespace c15;
    mc::Args a = mc::parse_args( argc, argv );
    mc::Report rep;
    rep.property = "C" STR( ORACLE );
    rep.unit = a.opt.count( "unit" ) ? a.opt[ "unit" ] : "C15_ll_buffer-b" STR( BUF );

    static world_t w;
    w.max_resets = int( a.num( "resets", a.thorough() ? RESETS_T : RESETS_Q ) );
    w.max_llid0  = int( a.num( "llid0",  a.thorough() ? LLID0_T  : LLID0_Q ) );
    w.with_irq   = a.num( "irq", a.thorough() ? IRQ_T : IRQ_Q ) != 0;

    mc::BfsOptions o;
    o.max_depth  = int( a.num( "depth", a.thorough() ? DEPTH_T : DEPTH_Q ) );
    o.with_drain = ORACLE == 15;
    o.max_states = std::uint64_t( a.num( "max-states", 60000000 ) );
    mc::Bfs< world_t > bfs( w, rep, a, o );

    if ( !a.replay.empty() )
    {
        w.want_obs = true;
        // a trace may come from either tier
        w.max_resets = RESETS_Q > RESETS_T ? RESETS_Q : RESETS_T;
        w.max_llid0  = LLID0_Q > LLID0_T ? LLID0_Q : LLID0_T;
        w.with_irq   = IRQ_Q || IRQ_T;
        return bfs.replay_file( mc::read_replay( a.replay ) );
    }

    bfs.run();

    // samples with their observations ( the search itself does not format text )
    rep.samples.clear();
    rep.sample( sample_run( w, { ev( C_DATA, FT_OK, 0, U_COMMITMAX ), ev( C_EMPTY, FT_OK, 0, U_CONSUME ), ev( C_EMPTY, FT_OK, 0, U_NONE ) } ) );
    rep.sample( sample_run( w, { ev( C_DATA, FT_OK, 1, U_NONE ), ev( C_RETX, FT_MIC, 0, U_NONE ), ev( C_DATA, FT_CRC, 0, U_CONSUME ), ev( C_RETX, FT_OK, 0, U_NONE ) } ) );
    rep.sample( sample_run( w, { ev( C_DATA, FT_OK, 0, U_NONE ), ev( C_DATA, FT_OK, 0, U_NONE ), ev( C_DATA, FT_OK, 0, U_NONE ), ev( C_RETX, FT_OK, 0, U_NONE ), ev( C_RETX, FT_OK, 0, U_CONSUME_LATE ), ev( C_RETX, FT_OK, 0, U_CONSUME ) } ) );
    rep.sample( sample_run( w, { ev( C_EMPTY, FT_OK, 1, U_COMMIT1 ), ev( C_RETX, FT_LOST, 0, U_COMMITMAX ), ev( C_RETX, FT_OK, 0, U_NONE ), ev( C_EMPTY, FT_OK, 0, U_NONE ), ev( C_EMPTY, FT_OK, 0, U_NONE ) } ) );

    rep.sample( sample_run( w, { ev( C_LLID0, FT_OK, 0, U_NONE ), ev( C_EMPTY, FT_OK, 1, U_COMMIT1 ), ev( C_DATA, FT_OK, 0, U_RESET ), ev( C_EMPTY, FT_OK, 0, U_COMMIT1 ), ev( C_EMPTY, FT_OK, 0, U_NONE ) } ) );
    rep.notes[ "world" ] = mc::fmt( "%s; ll_data_pdu_buffer<%d,%d,Radio>, max_rx_size = max_tx_size = 29, sizeof = %zu bytes, state image %zu bytes, ids and packet counters modulo %u%s",
        world_t::dut_t::dut_name(), TXBUF, RXBUF, sizeof( world_t::dut_t ), bfs.isz, IDM, FORCED ? ", central may repeat acknowledged PDUs" : "" );
    rep.notes[ "bound" ] = mc::fmt( "all event sequences of %d connection events (alphabet %d, enabledness by reference state; at most %d new connection(s) and %d PDU(s) with LLID 0 per sequence)%s",
        o.max_depth, w.num_events(), w.max_resets, w.max_llid0, rep.fixpoint ? "; fixpoint reached: every reachable state was expanded" : "; no fixpoint within the bound" );
    rep.counters[ "foreign-oracle-C15-failures-pruned" ] = w.foreign[ 0 ];
    rep.counters[ "foreign-oracle-C16-failures-ignored" ] = w.foreign[ 1 ];
    rep.counters[ "foreign-oracle-C17-failures-pruned" ] = w.foreign[ 2 ];
    rep.counters[ "drain-runs" ] = w.drains;
    rep.counters[ "drain-skipped-empty-receive-ring-without-buffer(C18)" ] = w.stall_seen;
    rep.write( a );
    return 0;
}
