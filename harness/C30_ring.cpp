// C30 - bluetoe::details::ring<S,T> is a lossless single-producer/single-consumer FIFO under every interleaving.
// E3: all interleavings of the atomic loads/stores (and the element copies) of try_push / try_pop; the recorded call/return
// history of every execution is checked for linearizability against a bounded FIFO of capacity S.
#include "../mc/mc.hpp"
#include "../mc/sched.hpp"
#include "../mc/linearize.hpp"
#include <atomic>
#include <cstdint>
#include <deque>

namespace verif {
    // yielding stand-in for std::atomic_int: every load and store is a scheduling point (sequentially consistent, like the
    // defaulted memory order in ring.hpp)
    struct yielding_atomic_int
    {
        int v;
        yielding_atomic_int() : v( 0 ) {}
        yielding_atomic_int( int x ) : v( x ) {}
        int  load( std::memory_order = std::memory_order_seq_cst ) const { mc::Sched::point(); return v; }
        void store( int x, std::memory_order = std::memory_order_seq_cst ) { mc::Sched::point(); v = x; }
        // read-modify-write operations of std::atomic<int> are one atomic step each
        int fetch_sub( int d ) { mc::Sched::point(); int o = v; v -= d; return o; }
        int fetch_or( int d )  { mc::Sched::point(); int o = v; v |= d; return o; }
        int fetch_and( int d ) { mc::Sched::point(); int o = v; v &= d; return o; }
        int fetch_xor( int d ) { mc::Sched::point(); int o = v; v ^= d; return o; }
        int operator++()      { return fetch_add( 1 ) + 1; }
        int operator++( int ) { return fetch_add( 1 ); }
        int operator--()      { return fetch_sub( 1 ) - 1; }
        int operator--( int ) { return fetch_sub( 1 ); }
        int operator+=( int d ) { return fetch_add( d ) + d; }
        int operator-=( int d ) { return fetch_sub( d ) - d; }
        bool is_lock_free() const { return true; }
        operator int() const { return load(); }
        yielding_atomic_int& operator=( int x ) { store( x ); return *this; }
        int fetch_add( int d ) { mc::Sched::point(); int o = v; v += d; return o; }
        int exchange( int x ) { mc::Sched::point(); int o = v; v = x; return o; }
        bool compare_exchange_strong( int& e, int d ) { mc::Sched::point(); if ( v == e ) { v = d; return true; } e = v; return false; }
        bool compare_exchange_weak( int& e, int d ) { return compare_exchange_strong( e, d ); }
    };
    // ring element: copying it is a scheduling point of its own (the plain data_[] access)
    struct elem
    {
        int v;
        elem() : v( -1 ) {}
        explicit elem( int x ) : v( x ) {}
        elem( const elem& o ) : v( o.v ) {}
        elem& operator=( const elem& o ) { mc::Sched::point(); v = o.v; return *this; }
    };
}
namespace std { using verif_atomic_int = ::verif::yielding_atomic_int; }

#define atomic_int verif_atomic_int
#include <bluetoe/ring.hpp>
#undef atomic_int

namespace {

int clock_ = 0;
std::vector< mc::HOp > hist;

template < std::size_t S >
struct fifo_spec
{
    std::deque< long > q;
    bool apply( const mc::HOp& o )
    {
        if ( o.kind == 0 ) // push(arg) -> ret
        {
            if ( o.ret ) { if ( q.size() >= S ) return false; q.push_back( o.arg ); return true; }
            return q.size() == S;
        }
        // pop -> ret, ret2
        if ( o.ret ) { if ( q.empty() || q.front() != o.ret2 ) return false; q.pop_front(); return true; }
        return q.empty();
    }
};

template < std::size_t S >
struct Case
{
    using ring_t = bluetoe::details::ring< S, verif::elem >;
    mc::Placed< ring_t > r;
    int pushes, pops, prefill;

    void setup()
    {
        r.construct();
        clock_ = 0; hist.clear();
        // sequential prefix: start from non-initial states (wrapped indices)
        for ( int i = 0; i != prefill; ++i )
        {
            mc::HOp o; o.thread = 2; o.kind = 0; o.arg = 100 + i; o.t_call = clock_++;
            o.ret = r->try_push( verif::elem( 100 + i ) ); o.t_ret = clock_++; hist.push_back( o );
            if ( i % 2 == 0 )
            {
                mc::HOp p; p.thread = 2; p.kind = 1; p.t_call = clock_++; verif::elem e;
                p.ret = r->try_pop( e ); p.ret2 = e.v; p.t_ret = clock_++; hist.push_back( p );
            }
        }
    }
    void producer()
    {
        for ( int i = 0; i != pushes; ++i )
        {
            mc::HOp o; o.thread = 0; o.kind = 0; o.arg = i + 1; o.t_call = clock_++;
            o.ret = r->try_push( verif::elem( i + 1 ) );
            o.t_ret = clock_++; hist.push_back( o );
        }
    }
    void consumer()
    {
        for ( int i = 0; i != pops; ++i )
        {
            mc::HOp o; o.thread = 1; o.kind = 1; o.t_call = clock_++;
            verif::elem e;
            o.ret = r->try_pop( e ); o.ret2 = e.v;
            o.t_ret = clock_++; hist.push_back( o );
        }
    }
    std::string check()
    {
        // final sequential drain: everything still inside has to come out, in order
        for ( int i = 0; i != int( S ) + 2; ++i )
        {
            mc::HOp o; o.thread = 2; o.kind = 1; o.t_call = clock_++; verif::elem e;
            o.ret = r->try_pop( e ); o.ret2 = e.v; o.t_ret = clock_++; hist.push_back( o );
        }
        if ( mc::linearizable( hist, fifo_spec< S >() ) ) return "";
        std::string h;
        for ( auto& o : hist ) h += ( o.kind == 0 ? mc::fmt( "T%d push(%ld)->%ld [%d,%d]; ", o.thread, o.arg, o.ret, o.t_call, o.t_ret )
                                                    : mc::fmt( "T%d pop->%ld,%ld [%d,%d]; ", o.thread, o.ret, o.ret2, o.t_call, o.t_ret ) );
        return "history not linearizable w.r.t. bounded FIFO: " + h;
    }
};

template < std::size_t S >
void run( const mc::Args& a, mc::Report& rep, int pushes, int pops, int prefill, bool isr, const mc::ReplayFile* rf, int& rc )
{
    static Case< S > c;
    c.pushes = pushes; c.pops = pops; c.prefill = prefill;
    const std::string name = mc::fmt( "cap%zu:push%d:pop%d:prefill%d:%s", S, pushes, pops, prefill, isr ? "isr" : "thread" );
    mc::Sched s; mc::SchedOptions o; o.isr_mode = false;
    std::vector< std::function< void() > > bodies;
    // isr variants: the producer is an interrupt of the consumer, or the consumer is an interrupt of the producer
    if ( isr ) { o.isr_mode = true; }
    bodies = { [&]{ c.consumer(); }, [&]{ for ( int i = 0; i != 1; ++i ) c.producer(); } };
    if ( rf )
    {
        if ( rf->steps.empty() || rf->steps[ 0 ] != name ) return;
        std::vector< int > sch; for ( std::size_t i = 1; i < rf->steps.size(); ++i ) sch.push_back( atoi( rf->steps[ i ].c_str() ) );
        std::vector< int > tids;
        std::string f = s.replay( [&]{ c.setup(); }, bodies, [&]{ return c.check(); }, o, sch, &tids );
        printf( "replayed %s, thread order:", name.c_str() ); for ( int t : tids ) printf( " %d", t ); printf( "\n%s\n", f.empty() ? "history is linearizable" : f.c_str() );
        if ( !f.empty() ) { printf( "REPRODUCED\n" ); rc = 1; }
        return;
    }
    std::set< std::string > outcomes;
    auto res = s.explore( [&]{ c.setup(); }, bodies, [&]{
            std::string f = c.check();
            std::string oc; for ( auto& h : hist ) if ( h.thread != 2 ) oc += mc::fmt( "%d%ld", h.kind, h.ret );
            outcomes.insert( oc );
            return f; }, o, [&]{ return a.expired(); },
        [&]( const std::vector< int >& sch, const std::string& f ) {
            std::vector< std::string > t{ name }; for ( int x : sch ) t.push_back( std::to_string( x ) );
            // replay twice: same verdict both times
            for ( int k = 0; k != 2; ++k )
                if ( s.replay( [&]{ c.setup(); }, bodies, [&]{ return c.check(); }, o, sch ).empty() ) { fprintf( stderr, "NONDETERMINISM in %s\n", name.c_str() ); exit( 2 ); }
            rep.fail( mc::fmt( "not-linearizable:%s", isr ? "isr" : "thread" ), name + ": " + f, t );
            return true; } );
    rep.evaluations += res.schedules; rep.transitions += res.points; rep.states += res.schedules; rep.traces_validated += res.schedules;
    rep.exhaustive = rep.exhaustive && res.complete;
    rep.counters[ "schedules " + name ] = res.schedules;
    rep.counters[ "max preemptions " + name ] = res.max_preemptions;
    for ( auto& oc : outcomes ) rep.cls( mc::fmt( "cap%zu:", S ) + oc );
    rep.sample( name + mc::fmt( ": %llu schedules, %zu distinct result vectors, e.g. ", (unsigned long long)res.schedules, outcomes.size() ) + *outcomes.begin() );
}

}

int main( int argc, char** argv )
{
    mc::Args a = mc::parse_args( argc, argv );
    mc::Report rep; rep.property = "C30"; rep.unit = a.opt.count( "unit" ) ? a.opt[ "unit" ] : "C30_ring";
    mc::ReplayFile rf; const mc::ReplayFile* prf = nullptr; int rc = 0;
    if ( !a.replay.empty() ) { rf = mc::read_replay( a.replay ); prf = &rf; }
    const int maxops = a.thorough() ? 4 : 3;
    for ( int isr = 0; isr != 2; ++isr )
        for ( int prefill = 0; prefill != 4; ++prefill )
            for ( int pu = 1; pu <= maxops; ++pu )
                for ( int po = 1; po <= maxops; ++po )
                {
                    if ( !isr && pu + po > ( a.thorough() ? 6 : 5 ) ) continue;
                    run< 1 >( a, rep, pu, po, prefill, isr, prf, rc );
                    run< 2 >( a, rep, pu, po, prefill, isr, prf, rc );
                    if ( a.thorough() && ( isr || pu + po <= 5 ) ) run< 3 >( a, rep, pu, po, prefill, isr, prf, rc );
                }
    if ( prf ) return rc;
    rep.notes[ "bound" ] = "all interleavings (no preemption bound) of the listed producer/consumer programs; scheduling points: every atomic load/store and every element copy";
    rep.write( a );
    return 0;
}
