// C20 - channel_map::reset / data_channel against Channel Selection Algorithm #1 (spec text reference in C20_csa1.hpp).
// E2: product  map families x RFU bits {0, 0xE0} x hop 0..31 x index 0..36  on the real channel_map, each evaluation
// starting from an object that holds a different, valid map ( so "not applied" is observable ).
//
//   A) reset( map, hop ):  accepted  <=>  5 <= hop <= 16 and at least two used channels; accepted: all 37 entries equal
//      the reference; rejected: all 37 entries of the previous map unchanged
//   B) reset( map ) ( LL_CHANNEL_MAP_REQ path, hop kept ): the same for every valid previous hop
#include "../mc/mc.hpp"
#include "C20_csa1.hpp"
#include <bluetoe/channel_map.hpp>
#include <set>
#include <vector>

namespace {

using csa1::mask_t;
using bluetoe::link_layer::channel_map;

std::vector< mask_t > families( std::map< std::string, std::uint64_t >& sizes )
{
    std::set< mask_t > all;
    auto add = [&]( const char* fam, mask_t m ) { m &= csa1::all_channels; if ( all.insert( m ).second ) ++sizes[ fam ]; };
    add( "all-ones", csa1::all_channels );
    // at most 3 used, at most 3 unused
    add( "at-most-3-used", 0 ); add( "at-most-3-unused", csa1::all_channels );
    for ( int a = 0; a != 37; ++a )
    {
        const mask_t ma = mask_t( 1 ) << a;
        add( "at-most-3-used", ma ); add( "at-most-3-unused", ~ma );
        for ( int b = a + 1; b != 37; ++b )
        {
            const mask_t mb = ma | mask_t( 1 ) << b;
            add( "at-most-3-used", mb ); add( "at-most-3-unused", ~mb );
            for ( int c = b + 1; c != 37; ++c )
            {
                const mask_t mcc = mb | mask_t( 1 ) << c;
                add( "at-most-3-used", mcc ); add( "at-most-3-unused", ~mcc );
            }
        }
    }
    // contiguous runs, linear and cyclic
    for ( int s = 0; s != 37; ++s )
        for ( int l = 1; l <= 37; ++l )
        {
            mask_t m = 0;
            for ( int i = 0; i != l; ++i ) m |= mask_t( 1 ) << ( ( s + i ) % 37 );
            add( "contiguous-run", m );
        }
    // stride patterns: every k-th channel starting at o, and their complements
    for ( int k = 2; k <= 18; ++k )
        for ( int o = 0; o != k; ++o )
        {
            mask_t m = 0;
            for ( int c = o; c < 37; c += k ) m |= mask_t( 1 ) << c;
            add( "stride", m ); add( "stride", ~m );
        }
    return std::vector< mask_t >( all.begin(), all.end() );
}

struct Case { int mode; mask_t map; unsigned rfu; unsigned hop; mask_t prev_map; unsigned prev_hop; };   // mode 0 = A, 1 = B

std::string case_line( const Case& k )
{
    return mc::fmt( "mode=%d map=%s rfu=%02x hop=%u prev_map=%s prev_hop=%u", k.mode, csa1::hex( k.map ).c_str(), k.rfu, k.hop, csa1::hex( k.prev_map ).c_str(), k.prev_hop );
}

const char* used_bucket( int n ) { return n == 0 ? "0" : n == 1 ? "1" : n == 2 ? "2" : n <= 5 ? "3-5" : n <= 18 ? "6-18" : n <= 33 ? "19-33" : n <= 36 ? "34-36" : "37"; }

// one evaluation on the real class; returns true if a violation was reported
bool evaluate( const Case& k, mc::Report& rep, bool verbose )
{
    mc::Placed< channel_map > cm;
    cm.construct();
    std::uint8_t prev[ 5 ], now[ 5 ];
    csa1::to_bytes( k.prev_map, prev );
    csa1::to_bytes( k.map, now ); now[ 4 ] |= std::uint8_t( k.rfu );

    bool fail = false;
    auto report = [&]( const std::string& sig, const std::string& detail ) {
        if ( verbose ) printf( "    FAIL %s: %s\n", sig.c_str(), detail.c_str() );
        rep.fail( sig, detail, { case_line( k ) } ); fail = true;
    };

    if ( !cm->reset( prev, k.prev_hop ) ) { report( "reset-rejects:valid-map-and-hop:preparation", "preparing the previous map failed" ); return true; }
    unsigned before[ 37 ];
    for ( unsigned i = 0; i != 37; ++i ) before[ i ] = cm->data_channel( i );

    const unsigned hop      = k.mode == 0 ? k.hop : k.prev_hop;
    const bool     accepted = k.mode == 0 ? cm->reset( now, k.hop ) : cm->reset( now );
    const int      used     = csa1::used_count( k.map );
    const bool     expect   = csa1::valid_hop( hop ) && used >= 2;
    const char*    call     = k.mode == 0 ? "reset(map,hop)" : "reset(map)";
    if ( verbose ) printf( "  %s -> %d ( %d used channels, hop %u; expected %d )\n", call, accepted, used, hop, expect );

    if ( accepted != expect )
    {
        report( mc::fmt( "%s:%s", accepted ? "reset-accepts" : "reset-rejects", !csa1::valid_hop( hop ) ? "hop-out-of-range" : used < 2 ? "less-than-two-channels" : "valid-map-and-hop" ),
                mc::fmt( "%s returned %d for map %s (rfu bits %02x, %d used) hop %u", call, accepted, csa1::hex( k.map ).c_str(), k.rfu, used, hop ) );
        return true;
    }
    unsigned remapped_entries = 0;
    for ( unsigned i = 0; i != 37 && !fail; ++i )
    {
        const unsigned got = cm->data_channel( i );
        if ( !accepted )
        {
            if ( got != before[ i ] )
                report( mc::fmt( "rejected-reset:map-changed:%s", !csa1::valid_hop( hop ) ? "hop-out-of-range" : "less-than-two-channels" ),
                        mc::fmt( "%s was rejected but data_channel(%u) changed from %u to %u", call, i, before[ i ], got ) );
            continue;
        }
        bool remapped = false;
        const unsigned want = csa1::channel( k.map, hop, i, &remapped );
        remapped_entries += remapped;
        if ( verbose ) printf( "    data_channel(%2u) = %2u  reference %2u%s\n", i, got, want, remapped ? " (remapped)" : "" );
        if ( got != want )
        {
            const bool got_used = got < 37 && ( ( k.map >> got ) & 1 );
            // reset( map ) only gets its own signature if reset( map, hop ) is right for the same map and hop
            bool only_kept = false;
            if ( k.mode == 1 )
            {
                mc::Placed< channel_map > fresh; fresh.construct();
                only_kept = fresh->reset( now, hop );
                for ( unsigned j = 0; j != 37 && only_kept; ++j ) only_kept = fresh->data_channel( j ) == csa1::channel( k.map, hop, j );
            }
            report( mc::fmt( "data-channel:%s:%s%s", remapped ? "remapped" : "unmapped", got_used ? "wrong-used-channel" : "unused-channel-selected", only_kept ? ":only-when-hop-kept" : "" ),
                    mc::fmt( "map %s hop %u: data_channel(%u) = %u, Channel Selection Algorithm #1 gives %u (unmapped channel %u, %d used channels)",
                             csa1::hex( k.map ).c_str(), hop, i, got, want, csa1::unmapped_channel( hop, i ), used ) );
        }
    }
    if ( !fail )
    {
        rep.cls( mc::fmt( "%s:used-%s:hop-%s:%s", k.mode ? "keep-hop" : "map+hop", used_bucket( used ), csa1::valid_hop( hop ) ? "valid" : hop < 5 ? "low" : "high",
                          accepted ? ( remapped_entries == 0 ? "accepted:nothing-remapped" : remapped_entries < 19 ? "accepted:1-18-remapped" : "accepted:19+-remapped" ) : "rejected:old-map-kept" ) );
        if ( k.rfu && used < 2 ) rep.cls( "rfu-bits-not-counted-as-channels" );
        // observation only (not reachable through the link layer, see registry assumptions): a rejected reset( map, hop ) with a
        // valid hop and < 2 channels already replaced the stored hop
        if ( !accepted && k.mode == 0 && csa1::valid_hop( k.hop ) && cm->hop_ != k.prev_hop ) rep.cls( "note:rejected-reset-replaced-stored-hop" );
    }
    return fail;
}

// ---- sequences of resets on one object, as link_layer<> issues them: CONNECT_IND -> reset( map, hop ) ( optionally after a
// CONNECT_IND that was rejected ), then every LL_CHANNEL_MAP_REQ -> reset( map ).  A rejected call must leave map *and* hop
// in force, so that a later valid map is accepted and hops with the hop of the connection.
struct Seq { unsigned prefix; mask_t map0; unsigned hop; int n; mask_t maps[ 3 ]; unsigned rfu[ 3 ]; };   // prefix: 0 none, 1 rejected invalid hop, 2 rejected one-channel map

std::string seq_line( const Seq& q )
{
    std::string l = mc::fmt( "seq prefix=%u map0=%s hop=%u n=%d", q.prefix, csa1::hex( q.map0 ).c_str(), q.hop, q.n );
    for ( int i = 0; i != q.n; ++i ) l += mc::fmt( " m%d=%s/%02x", i, csa1::hex( q.maps[ i ] ).c_str(), q.rfu[ i ] );
    return l;
}

bool parse_seq( const std::string& l, Seq& q )
{
    unsigned long long m0 = 0; int used = 0;
    if ( sscanf( l.c_str(), "seq prefix=%u map0=%llx hop=%u n=%d%n", &q.prefix, &m0, &q.hop, &q.n, &used ) != 4 || q.n < 0 || q.n > 3 ) return false;
    q.map0 = m0;
    const char* p = l.c_str() + used;
    for ( int i = 0; i != q.n; ++i )
    {
        unsigned long long m = 0; unsigned r = 0; int idx = 0, u = 0;
        if ( sscanf( p, " m%d=%llx/%x%n", &idx, &m, &r, &u ) != 3 ) return false;
        q.maps[ i ] = m; q.rfu[ i ] = r; p += u;
    }
    return true;
}

bool evaluate_seq( const Seq& q, mc::Report& rep, bool verbose )
{
    mc::Placed< channel_map > cm;
    cm.construct();
    bool fail = false;
    auto report = [&]( const std::string& sig, const std::string& detail ) {
        if ( verbose ) printf( "    FAIL %s: %s\n", sig.c_str(), detail.c_str() );
        rep.fail( sig, detail, { seq_line( q ) } ); fail = true;
    };
    std::uint8_t b[ 5 ];
    if ( q.prefix == 1 ) { csa1::to_bytes( csa1::all_channels, b ); if ( cm->reset( b, 3 ) ) { report( "reset-accepts:hop-out-of-range", "prefix" ); return true; } }
    if ( q.prefix == 2 ) { csa1::to_bytes( mask_t( 1 ) << 9, b ); if ( cm->reset( b, 11 ) ) { report( "reset-accepts:less-than-two-channels", "prefix" ); return true; } }
    csa1::to_bytes( q.map0, b );
    if ( !cm->reset( b, q.hop ) )
    {
        report( mc::fmt( "reset-sequence:rejects-valid:reset(map,hop):%s", q.prefix ? "after-rejected-reset" : "first" ),
                mc::fmt( "reset( %s, %u ) rejected%s", csa1::hex( q.map0 ).c_str(), q.hop, q.prefix ? " after a rejected reset( map, hop )" : "" ) );
        return true;
    }
    mask_t in_force = q.map0;
    bool rejected_before = false, last_rejected = false;
    std::string history = q.prefix ? "X" : "";
    for ( int i = 0; i <= q.n && !fail; ++i )
    {
        // the table has to be the one of the map in force with the hop of the connection
        for ( unsigned k = 0; k != 37 && !fail; ++k )
            if ( cm->data_channel( k ) != csa1::channel( in_force, q.hop, k ) )
                report( mc::fmt( "reset-sequence:table-wrong:%s", i == 0 ? "after-reset(map,hop)" : last_rejected ? "after-rejected-reset(map)" : rejected_before ? "after-accepted-reset(map)-following-a-rejected-one" : "after-accepted-reset(map)" ),
                        mc::fmt( "step %d: data_channel(%u) = %u, map in force %s hop %u gives %u", i, k, cm->data_channel( k ), csa1::hex( in_force ).c_str(), q.hop, csa1::channel( in_force, q.hop, k ) ) );
        if ( i == q.n || fail ) break;
        csa1::to_bytes( q.maps[ i ], b ); b[ 4 ] |= std::uint8_t( q.rfu[ i ] );
        const bool valid = csa1::valid_map( q.maps[ i ] );
        const bool acc = cm->reset( b );
        if ( verbose ) printf( "  reset( %s ) -> %d ( %d used channels )\n", csa1::hex( q.maps[ i ] ).c_str(), acc, csa1::used_count( q.maps[ i ] ) );
        if ( acc != valid )
        {
            report( mc::fmt( "reset-sequence:%s:reset(map):%s", acc ? "accepts-invalid" : "rejects-valid", rejected_before ? "after-rejected-reset" : "after-accepted-resets-only" ),
                    mc::fmt( "reset( %s ) ( %d used channels ) returned %d as call %d of the sequence; calls before: %s", csa1::hex( q.maps[ i ] ).c_str(), csa1::used_count( q.maps[ i ] ), acc, i + 1, history.c_str() ) );
            break;
        }
        history += acc ? "A" : "R";
        if ( acc ) in_force = q.maps[ i ]; else rejected_before = true;
        last_rejected = !acc;
    }
    if ( !fail ) rep.cls( mc::fmt( "reset-sequence:%s%s", q.prefix == 1 ? "bad-hop," : q.prefix == 2 ? "bad-map," : "", ( std::string( "A" ) + history.substr( q.prefix ? 1 : 0 ) ).c_str() ) );
    return fail;
}

bool parse_case( const std::string& l, Case& k )
{
    unsigned long long m = 0, pm = 0; unsigned rfu = 0;
    if ( sscanf( l.c_str(), "mode=%d map=%llx rfu=%x hop=%u prev_map=%llx prev_hop=%u", &k.mode, &m, &rfu, &k.hop, &pm, &k.prev_hop ) != 6 ) return false;
    k.map = m; k.prev_map = pm; k.rfu = rfu;
    return true;
}

} // namespace

int main( int argc, char** argv )
{
    mc::Args a = mc::parse_args( argc, argv );
    mc::Report rep; rep.property = "C20"; rep.unit = a.opt.count( "unit" ) ? a.opt[ "unit" ] : "C20_channel_map";
    if ( !csa1::self_test() ) { fprintf( stderr, "reference CSA#1 does not reproduce the worked examples\n" ); return 2; }

    if ( !a.replay.empty() )
    {
        mc::ReplayFile rf = mc::read_replay( a.replay );
        int rc = 0;
        for ( auto& s : rf.steps )
        {
            if ( s.rfind( "seq ", 0 ) == 0 )
            {
                Seq q;
                if ( !parse_seq( s, q ) ) { printf( "cannot parse step: %s\n", s.c_str() ); continue; }
                printf( "replaying %s\n", s.c_str() );
                mc::Report r2; evaluate_seq( q, r2, true );
                if ( r2.violations.count( rf.sig ) ) { printf( "REPRODUCED %s: %s\n", rf.sig.c_str(), r2.violations[ rf.sig ].detail.c_str() ); rc = 1; }
                continue;
            }
            Case k;
            if ( !parse_case( s, k ) ) { printf( "cannot parse step: %s\n", s.c_str() ); continue; }
            printf( "replaying %s\n", s.c_str() );
            mc::Report r2; evaluate( k, r2, true );
            if ( r2.violations.count( rf.sig ) ) { printf( "REPRODUCED %s: %s\n", rf.sig.c_str(), r2.violations[ rf.sig ].detail.c_str() ); rc = 1; }
        }
        if ( !rc ) printf( "not reproduced\n" );
        return rc;
    }

    std::map< std::string, std::uint64_t > sizes;
    const std::vector< mask_t > maps = families( sizes );
    for ( auto& kv : sizes ) rep.counters[ "maps new in family " + kv.first ] = kv.second;
    rep.counters[ "maps" ] = maps.size();

    // sequences of up to three LL_CHANNEL_MAP_REQ after the CONNECT_IND: every word over 5 valid and 3 invalid maps
    {
        const mask_t one = 1;
        const mask_t alpha[ 8 ] = { csa1::all_channels, csa1::all_channels & ~( one << 36 ), one | one << 36, 0x0aaaaaaaaaull, ( one << 18 ) - 1,
                                    0, one << 7, one << 36 };
        const unsigned alpha_rfu[ 8 ] = { 0, 0xe0, 0, 0, 0, 0, 0, 0xe0 };
        const mask_t first[ 3 ] = { csa1::all_channels, one << 3 | one << 17 | one << 30, 0x1555555555ull };
        std::uint64_t nseq = 0;
        for ( unsigned prefix = 0; prefix != 3; ++prefix )
            for ( unsigned hop = 5; hop != 17; ++hop )
                for ( mask_t m0 : first )
                    for ( int n = 1; n <= 3; ++n )
                    {
                        int idx[ 3 ] = { 0, 0, 0 };
                        for ( ;; )
                        {
                            Seq q{ prefix, m0, hop, n, {}, {} };
                            for ( int i = 0; i != n; ++i ) { q.maps[ i ] = alpha[ idx[ i ] ]; q.rfu[ i ] = alpha_rfu[ idx[ i ] ]; }
                            ++rep.evaluations; ++rep.traces_validated; ++nseq;
                            evaluate_seq( q, rep, false );
                            if ( nseq % 20011 == 0 ) rep.sample( seq_line( q ) );
                            int d = 0; while ( d != n && ++idx[ d ] == 8 ) idx[ d++ ] = 0;
                            if ( d == n ) break;
                        }
                    }
        rep.counters[ "reset_sequences" ] = nseq;
    }

    // previous contents: a map that differs from every candidate in most entries
    const mask_t prev_maps[ 2 ] = { csa1::all_channels, ( mask_t( 0x15 ) << 30 ) | 0x2aaaaaa5ull };
    bool cut = false;
    for ( std::size_t mi = 0; mi != maps.size() && !cut; ++mi )
    {
        for ( unsigned rfu = 0; rfu <= 0xE0; rfu += 0xE0 )
        {
            // A: every hop value of the 5 bit field (and the values the tests use beyond it)
            static const unsigned hops[] = { 0, 1, 2, 3, 4, 5, 6, 7, 8, 9, 10, 11, 12, 13, 14, 15, 16, 17, 18, 19, 20, 21, 22, 23, 24, 25, 26, 27, 28, 29, 30, 31,
                                             32, 37, 42, 48, 99, 255, 261 };
            for ( unsigned hop : hops )
            {
                Case k{ 0, maps[ mi ], rfu, hop, prev_maps[ ( mi + hop ) & 1 ], 5 + ( hop + 3 ) % 12 };
                ++rep.evaluations; ++rep.traces_validated;
                if ( evaluate( k, rep, false ) && rep.violations.size() > 20 ) cut = true;
                if ( rep.evaluations % 50021 == 0 ) rep.sample( case_line( k ) );
            }
            // B: keep the hop
            for ( unsigned hop = 5; hop != 17; ++hop )
            {
                Case k{ 1, maps[ mi ], rfu, 0, prev_maps[ ( mi + hop ) & 1 ], hop };
                ++rep.evaluations; ++rep.traces_validated;
                if ( evaluate( k, rep, false ) && rep.violations.size() > 20 ) cut = true;
                if ( rep.evaluations % 50021 == 0 ) rep.sample( case_line( k ) );
            }
        }
        if ( ( mi & 255 ) == 0 && a.expired() ) cut = true;
    }
    if ( cut ) { rep.exhaustive = false; rep.notes[ "cut" ] = "deadline or too many signatures"; }
    rep.notes[ "bound" ] = mc::fmt( "%zu channel maps (families exhaustive within themselves) x RFU bits {00,e0} x ( hop 0..31,32,37,42,48,99,255,261 with reset(map,hop) + hop 5..16 with reset(map) ) x 37 indices; plus all sequences reset(map,hop) [after none / a rejected one] then 1..3 reset(map) over 5 valid and 3 invalid maps x hop 5..16 x 3 first maps",
                                    maps.size() );
    rep.write( a );
    return 0;
}
