// C30, free-running pass: the un-hooked ring<> between two real threads under ThreadSanitizer.  The cooperative scheduler of
// C30_ring.cpp cannot see unsynchronised plain accesses; this pass does.  A TSan report ends the process with exit code 66,
// which the driver reports as a violation.
#include "../mc/mc.hpp"
#include <bluetoe/ring.hpp>
#include <thread>
#include <atomic>

template < std::size_t S >
static bool pass( int n, std::string& err )
{
    bluetoe::details::ring< S, int > r;
    std::vector< int > got;
    // horizon: a lost element would make the consumer (a duplicated one the producer) wait for ever
    const double give_up = mc::now_s() + 20.0;
    std::atomic< bool > stuck( false );
    std::thread prod( [&]{ for ( int i = 0; i != n && !stuck; ) { if ( r.try_push( i ) ) ++i; else { std::this_thread::yield(); if ( mc::now_s() > give_up ) stuck = true; } } } );
    std::thread cons( [&]{ int v; for ( int i = 0; i != n && !stuck; ) { if ( r.try_pop( v ) ) { got.push_back( v ); ++i; } else { std::this_thread::yield(); if ( mc::now_s() > give_up ) stuck = true; } } } );
    prod.join(); cons.join();
    if ( stuck ) { err = mc::fmt( "capacity %zu: no progress for 20 s after %zu of %d elements (element lost or ring stuck)", S, got.size(), n ); return false; }
    for ( int i = 0; i != n; ++i ) if ( got[ i ] != i ) { err = mc::fmt( "capacity %zu: element %d popped as %d", S, i, got[ i ] ); return false; }
    return true;
}

int main( int argc, char** argv )
{
    mc::Args a = mc::parse_args( argc, argv );
    mc::Report rep; rep.property = "C30"; rep.unit = a.opt.count( "unit" ) ? a.opt[ "unit" ] : "C30_ring_tsan";
    if ( !a.replay.empty() ) { printf( "free-running pass: re-run the unit\n" ); }
    const int n = a.thorough() ? 200000 : 20000;
    std::string err;
    for ( int round = 0; round != 3; ++round )
    {
        bool ok = pass< 1 >( n, err ) && pass< 2 >( n, err ) && pass< 7 >( n, err );
        rep.evaluations += 3; rep.transitions += 6ull * n; rep.states += 3; rep.traces_validated += 3;
        if ( !ok ) { rep.fail( err.find( "no progress" ) != std::string::npos ? "free-running:no-progress" : "free-running:fifo-order", err, { "free-running" } ); break; }
    }
    rep.cls( "free-running-fifo-intact" ); rep.cls( "tsan-no-report" );
    rep.sample( mc::fmt( "3 rounds x capacities {1,2,7} x %d elements through two std::threads under -fsanitize=thread", n ) );
    rep.exhaustive = true; // this unit is a side pass; it does not enumerate anything
    rep.notes[ "kind" ] = "free-running ThreadSanitizer pass (not an enumeration); a data race report would end the process with exit code 66";
    rep.write( a );
    return !a.replay.empty() && !rep.violations.empty();
}
