// C23 - peripheral latency skips only permitted events.   DUT 2: the same oracle on the real link_layer<> (world LL).
// E1: BFS (depth bound) from an established connection with notifications enabled.  The radio of ll_world.hpp is extended
// (derived, this file only) to record the connection_event_events it hands to end_event() and whether outgoing data was
// pending at the moment the link layer scheduled the next event ( = what plan_next_connection_event() saw ).
//
// build variants: -DC23_LL=0 default configuration, latency 3      =1 peripheral_latency_strict_plus, latency 2
//                 =2 listen_if_pending_transmit_data only, latency 1   =3 set< configuration<>, pending+unacknowledged >, latency 3
//                 =4 peripheral_latency_ignored, latency 3
#include "../mc/mc.hpp"
#include <bluetoe/server.hpp>
#include <bluetoe/service.hpp>
#include <bluetoe/characteristic.hpp>
#include "ll_world.hpp"

#ifndef C23_LL
#define C23_LL 0
#endif

namespace {

namespace bll = bluetoe::link_layer;
using pl = bll::peripheral_latency;

enum : unsigned { UNACK = 1, RXNE = 2, TXNE = 4, MD = 8, PEND = 16, ERR = 32, ALWAYS = 64 };
static const char* const cond_name[] = { "unacknowledged_data", "last_received_not_empty", "last_transmitted_not_empty", "last_received_had_more_data", "pending_outgoing_data", "error_occured" };

// ---- radio: llw::radio + recording ----------------------------------------------------------------------------------------
template < std::size_t T, std::size_t R, class CB >
struct radio23 : llw::radio< T, R, CB >
{
    using base = llw::radio< T, R, CB >;
    struct capture { std::uint8_t pending_at_schedule, evts, scheduled; } cap;

    radio23() { std::memset( &cap, 0, sizeof cap ); }

    bll::delta_time schedule_connection_event( unsigned channel, bll::delta_time start_receive, bll::delta_time end_receive, bll::delta_time connection_interval )
    {
        cap.pending_at_schedule = this->pending_outgoing_data_available();
        ++cap.scheduled;
        return base::schedule_connection_event( channel, start_receive, end_receive, connection_interval );
    }

    // llw::radio::sim_connection_event() with two additions: the events given to end_event() are recorded and the radio can
    // be told to report unacknowledged data
    unsigned sim_event( const typename base::in_pdu* pdus, unsigned npdus, unsigned max_exchanges, bool error, bool unack )
    {
        auto& log = this->log;
        log.tx_count = 0; log.tx_nonempty = 0; log.exchanges = 0; log.central_unsent = 0; log.duplicates = 0;
        std::memset( log.tx, 0, sizeof log.tx );
        bll::connection_event_events ev;
        unsigned next = 0;
        bool peripheral_md = false;
        for ( unsigned x = 0; x != max_exchanges; ++x )
        {
            const bool have = next < npdus;
            if ( x != 0 && !have && !peripheral_md ) break;
            static const std::uint8_t empty_pdu[ 2 ] = { 0x01, 0x00 };
            const std::uint8_t* p = have ? pdus[ next ].p : empty_pdu;
            const std::size_t   n = have ? pdus[ next ].n : 2;
            const bool central_md = have && next + 1 < npdus;

            bll::read_buffer rb = this->allocate_receive_buffer();
            bll::write_buffer rsp;
            std::uint8_t h0 = std::uint8_t( ( p[ 0 ] & 0x03 ) | ( log.c_sn ? 0x08 : 0 ) | ( log.c_nesn ? 0x04 : 0 ) | ( central_md ? 0x10 : 0 ) );
            if ( rb.size >= 2 && rb.buffer && rb.size >= n )
            {
                std::memcpy( rb.buffer, p, n );
                rb.buffer[ 0 ] = h0;
                rsp = this->received( rb );
                ev.last_received_not_empty = p[ 1 ] != 0;
                ev.last_received_had_more_data = central_md;
            }
            else
            {
                rsp = this->next_transmit();
                ev.last_received_not_empty = false;
                ev.last_received_had_more_data = false;
            }
            ++log.exchanges;
            const std::uint8_t r0 = rsp.buffer[ 0 ], rlen = rsp.buffer[ 1 ];
            ev.last_transmitted_not_empty = rlen != 0;
            if ( bool( r0 & 0x04 ) != bool( log.c_sn ) ) { log.c_sn ^= 1; if ( have ) ++next; }
            if ( bool( r0 & 0x08 ) == bool( log.c_nesn ) )
            {
                log.c_nesn ^= 1;
                ++log.tx_count;
                if ( rlen ) ++log.tx_nonempty;
            }
            else ++log.duplicates;
            peripheral_md = ( r0 & 0x10 ) != 0;
        }
        log.central_unsent = npdus - next;
        ev.error_occured = error;
        ev.unacknowledged_data = unack;
        cap.evts = std::uint8_t( ( ev.unacknowledged_data ? UNACK : 0 ) | ( ev.last_received_not_empty ? RXNE : 0 ) | ( ev.last_transmitted_not_empty ? TXNE : 0 )
                               | ( ev.last_received_had_more_data ? MD : 0 ) | ( ev.pending_outgoing_data ? PEND : 0 ) | ( ev.error_occured ? ERR : 0 ) );
        static_cast< CB* >( this )->end_event( ev );
        return next;
    }
};

// ---- configuration under test ---------------------------------------------------------------------------------------------
using none_t       = bll::peripheral_latency_configuration<>;
using pend_t       = bll::peripheral_latency_configuration< pl::listen_if_pending_transmit_data >;
using pend_unack_t = bll::peripheral_latency_configuration< pl::listen_if_pending_transmit_data, pl::listen_if_unacknowledged_data >;

#if C23_LL == 0
    using option_t = bll::periperal_latency_default_configuration;
    static const unsigned cfg_masks[] = { PEND | UNACK | RXNE | TXNE | MD }; static const char* const cfg_name = "default"; static const unsigned latency = 3;
#elif C23_LL == 1
    using option_t = bll::peripheral_latency_strict_plus;
    static const unsigned cfg_masks[] = { RXNE | MD }; static const char* const cfg_name = "peripheral_latency_strict_plus"; static const unsigned latency = 2;
#elif C23_LL == 2
    using option_t = pend_t;
    static const unsigned cfg_masks[] = { PEND }; static const char* const cfg_name = "listen_if_pending_transmit_data"; static const unsigned latency = 1;
#elif C23_LL == 3
    using option_t = bll::peripheral_latency_configuration_set< none_t, pend_unack_t >;
    static const unsigned cfg_masks[] = { 0, PEND | UNACK }; static const char* const cfg_name = "set<none,pending+unacknowledged>"; static const unsigned latency = 3;
#else
    using option_t = bll::peripheral_latency_ignored;
    static const unsigned cfg_masks[] = { ALWAYS }; static const char* const cfg_name = "peripheral_latency_ignored"; static const unsigned latency = 3;
#endif
static constexpr int n_cfgs = int( sizeof cfg_masks / sizeof cfg_masks[ 0 ] );

std::uint8_t char_value = 0x42;
using server_t = bluetoe::server<
    bluetoe::no_gap_service_for_gatt_servers,
    bluetoe::service< bluetoe::service_uuid16< 0x1234 >,
        bluetoe::characteristic< bluetoe::characteristic_uuid16< 0x2345 >, bluetoe::bind_characteristic_value< std::uint8_t, &char_value >, bluetoe::notify > > >;
using ll_t = bluetoe::link_layer::link_layer< server_t, radio23, option_t >;

template < class L > void change_cfg( L& l, int i )
{
#if C23_LL == 3
    if ( i == 0 ) l.template change_peripheral_latency< none_t >(); else l.template change_peripheral_latency< pend_unack_t >();
#endif
}

static const unsigned interval_units = 0x18, interval_us = interval_units * 1250;

struct World
{
    mc::Placed< ll_t > ll;
    struct Ref
    {
        std::uint16_t counter;          // counter of the planned event
        std::uint8_t  index;
        std::uint32_t since, passed;    // see C23_latency_state.cpp
        std::uint8_t  cfg, pulled;
        std::uint8_t  closed;
        std::uint8_t  requested;        // bit per own LL procedure the application asked for ( each at most once )
        std::uint8_t  ll_request_waiting; // ... and an end_event() has not run since
        std::uint8_t  cancel_req;       // the link layer called request_event_cancelation(); the radio owes it a try_event_cancelation()
        std::uint8_t  must_cancel;      // ... and a callback ( end_event / timeout ) ran since: run() serves the request in the same pass
    } ref;

    void regions( mc::Regions& r ) { r.add( ll.raw, sizeof ll.raw ); r.add( ref ); r.add( &char_value, 1 ); }

    typename ll_t::in_pdu mk( const std::uint8_t* p, std::size_t n ) { return typename ll_t::in_pdu{ p, n }; }

    // the log of the radio is an observation: clear what is not needed to continue, so equal link layer states compare equal
    void normalise()
    {
        auto& g = ll->log;
        g.adv_count = 0; g.ce_count = 0; g.disarm_count = 0; g.disarm_answer = 0; g.disarm_time_us = 0; g.wake_ups = 0; g.cancelation_requests = 0;
        g.timer_count = 0; g.timer_cancel_count = 0; g.rx_counter = 0; g.tx_counter = 0; g.access_count = 0; g.phy_count = 0;
        g.tx_count = 0; g.tx_nonempty = 0; g.exchanges = 0; g.central_unsent = 0; g.duplicates = 0;
        std::memset( g.tx, 0, sizeof g.tx );
        std::memset( &ll->cap, 0, sizeof ll->cap );
    }

    unsigned events_since_anchor() const
    {
        auto& g = const_cast< World* >( this )->ll->log;
        const std::uint64_t mid = ( std::uint64_t( g.ce_start_us ) + g.ce_end_us ) / 2;
        return unsigned( ( mid + interval_us / 4 ) / interval_us );
    }

    void init()
    {
        char_value = 0x42;
        ll.construct();
        memset( &ref, 0, sizeof ref );
        ll->run();
        llw::connect_ind ci;
        ci.hop = 7; ci.latency = latency; ci.interval = interval_units; ci.timeout = 0x0c80; ci.win_offset = 0; ci.win_size = 1;
        std::uint8_t pdu[ 40 ];
        const std::size_t n = ci.build( pdu, ll->log.adv_data );
        ll->sim_adv_received( pdu, n );
        // first connection event: enable notifications; two more events: response goes out and is acknowledged
        static const std::uint8_t write_cccd[] = { 0x02, 0x09, 0x05, 0x00, 0x04, 0x00, 0x12, 0x04, 0x00, 0x01, 0x00 };
        auto p = mk( write_cccd, sizeof write_cccd );
        ll->sim_event( &p, 1, 6, false, false );
        ll->sim_event( nullptr, 0, 6, false, false );
        ll->sim_event( nullptr, 0, 6, false, false );
        ref.counter = ll->connection_event_counter(); ref.index = std::uint8_t( ll->current_channel_index() );
        ref.since = ll->time_since_last_event().usec() / interval_us; ref.passed = 0;
        normalise();
    }

    enum { ev_empty, ev_read, ev_md, ev_crc, ev_missed, ev_unack, ev_notify, ev_cancel1, ev_cancel2, ev_cancel3, ev_cancel0, ev_map2, ev_map6, ev_cfg0, ev_cfg1, ev_req_version, ev_req_phy, ev_req_param, ev_count };
    int num_events() const { return ev_count; }
    std::string describe( int ev ) const
    {
        static const char* const t[] = { "connection event: empty PDUs", "connection event: ATT Read Request", "connection event: ATT Read Request with MD=1, event closed after one exchange",
            "connection event: empty PDUs, CRC error reported", "connection event missed (timeout)", "connection event: empty PDUs, radio reports unacknowledged data",
            "application: notify()", "try_event_cancelation(), now = last event + 1us", "try_event_cancelation(), now = last event + 1/2 interval",
            "try_event_cancelation(), now = planned event - 1/2 interval", "try_event_cancelation(), radio refuses to disarm", "connection event: LL_CHANNEL_MAP_REQ instant +2", "connection event: LL_CHANNEL_MAP_REQ instant +6",
            "change_peripheral_latency< configuration 0 >()", "change_peripheral_latency< configuration 1 >()",
            "application: remote_versions_request()", "application: phy_update_request_to_2mbit()", "application: connection_parameter_update_request( 24, 40, 0, 100 )" };
        return t[ ev ];
    }

    struct Obs { std::uint16_t counter; unsigned index; std::uint32_t time; };
    Obs observe() { return Obs{ ll->connection_event_counter(), ll->current_channel_index(), ll->time_since_last_event().usec() }; }
    std::string cfgkind() const { return std::string( cfg_name ) + ( n_cfgs > 1 ? mc::fmt( "#%d", ref.cfg ) : std::string() ); }

    static std::string evts_text( unsigned e )
    {
        std::string s;
        for ( int b = 0; b != 6; ++b ) if ( e & ( 1u << b ) ) s += std::string( s.empty() ? "" : "+" ) + cond_name[ b ];
        return s.empty() ? "none" : s;
    }

    bool closed( mc::Ctx& c, const char* how )
    {
        if ( ll->log.adv_count == 0 ) return false;
        c.cls( mc::fmt( "link-closed:%s", how ) ); c.prune = true; ref.closed = 1;
        return true;
    }

    // the receive window the radio got has to be the planned event
    void check_window( const char* what, mc::Ctx& c )
    {
        if ( ll->cap.scheduled != 1 ) { c.fail( mc::fmt( "ll-%s:connection-event-scheduled-%s", what, ll->cap.scheduled ? "twice" : "never" ), c.obs ); return; }
        if ( events_since_anchor() != ref.since )
            c.fail( mc::fmt( "ll-%s:receive-window-and-counter-apart", what ),
                    mc::fmt( "receive window [%u,%u] us is event %u after the anchor, the counters say %u; %s", ll->log.ce_start_us, ll->log.ce_end_us, events_since_anchor(), ref.since, c.obs.c_str() ) );
    }

    bool apply( int ev, mc::Ctx& c )
    {
        if ( ref.closed ) return false;
        // scheduled_radio: try_event_cancelation() is called from run() after request_event_cancelation(), either before the
        // next connection event callback or ( nrf52 binding ) right after it in the same pass of run()
        const bool is_cancel = ev >= ev_cancel1 && ev <= ev_cancel0;
        if ( is_cancel != ( ref.cancel_req != 0 ) && ( is_cancel || ref.must_cancel ) ) return false;
        if ( ev == ev_notify && ref.cancel_req ) return false;
        const Obs before = observe();
        if ( before.counter != ref.counter || before.index != ref.index || std::uint64_t( before.time ) != std::uint64_t( ref.since ) * interval_us )
        {
            c.fail( "harness:reference-out-of-step", "reference and link layer disagree before the step" ); return true;
        }
        static const std::uint8_t read_req[] = { 0x02, 0x07, 0x03, 0x00, 0x04, 0x00, 0x0a, 0x03, 0x00 };

        switch ( ev )
        {
        case ev_empty: case ev_read: case ev_md: case ev_crc: case ev_unack: case ev_map2: case ev_map6:
        {
            // the pending instant is the one the link layer registered itself ( observation ): a request is only sent while none is
            // registered and the transmit buffer is empty, so that it is processed in the event that carries it
            const bool had_instant = !ll->defered_ll_control_pdu_.empty();
            const std::uint16_t had_instant_at = ll->defered_conn_event_counter_;
            if ( ( ev == ev_map2 || ev == ev_map6 ) && ( had_instant || ll->pending_outgoing_data_available() ) ) return false;
            bool carried = false; std::uint16_t carried_instant = 0;
            std::uint8_t map_req[ 10 ] = { 0x03, 0x08, 0x01, 0xff, 0xff, 0xff, 0xff, 0x1f, 0, 0 };
            typename ll_t::in_pdu p[ 2 ]; unsigned np = 0, max_ex = 6;
            if ( ev == ev_read ) { p[ np++ ] = mk( read_req, sizeof read_req ); }
            if ( ev == ev_md )   { p[ np++ ] = mk( read_req, sizeof read_req ); p[ np++ ] = mk( read_req, sizeof read_req ); max_ex = 1; }
            if ( ev == ev_map2 || ev == ev_map6 )
            {
                const std::uint16_t instant = std::uint16_t( before.counter + ( ev == ev_map2 ? 2 : 6 ) );
                map_req[ 8 ] = std::uint8_t( instant ); map_req[ 9 ] = std::uint8_t( instant >> 8 );
                p[ np++ ] = mk( map_req, sizeof map_req );
                carried = true; carried_instant = instant;
            }
            ll->sim_event( np ? p : nullptr, np, max_ex, ev == ev_crc, ev == ev_unack );
            if ( closed( c, "after-event" ) ) { normalise(); return true; }

            const Obs after = observe();
            const std::uint16_t adv = std::uint16_t( after.counter - before.counter );
            const unsigned e    = ll->cap.evts | ( ll->cap.pending_at_schedule ? PEND : 0 );
            const unsigned mask = cfg_masks[ ref.cfg ];
            const unsigned hit  = ( mask & ALWAYS ) ? ALWAYS : ( e & ( mask | ERR ) );
            // distance of the instant the plan had to respect ( registered before, or by the request of this very event )
            const bool now_instant = !ll->defered_ll_control_pdu_.empty();
            const unsigned dist = had_instant ? std::uint16_t( had_instant_at - before.counter )
                                : ( carried && ( now_instant || after.counter == carried_instant ) ) ? std::uint16_t( carried_instant - before.counter ) : 0;
            if ( carried ) c.cls( dist ? "map-request:registered" : "map-request:not-processed-in-this-event" );
            c.obs = mc::fmt( "events {%s}; counter %u->%u index %u->%u time %u us; pending data afterwards: %d", evts_text( e ).c_str(), before.counter, after.counter, before.index, after.index, after.time,
                             int( ll->pending_outgoing_data_available() ) );
            if ( adv == 0 || adv >= 0x8000 )
                c.fail( "ll-plan:event-counter-not-advancing", cfgkind() + ": " + c.obs );
            else if ( adv - 1u > latency )
                c.fail( "ll-plan:skipped-more-than-latency", mc::fmt( "%s: %u events skipped with peripheral latency %u; %s", cfgkind().c_str(), adv - 1u, latency, c.obs.c_str() ) );
            else if ( hit && adv != 1 )
            {
                int b = 0; while ( b != 6 && !( hit & ( 1u << b ) ) ) ++b;
                c.fail( mc::fmt( "ll-plan:skipped-although-listen-condition:%s", ( hit & ALWAYS ) ? "listen_always" : ( hit & ERR ) ? cond_name[ 5 ] : cond_name[ b ] ),
                        mc::fmt( "%s: %u events skipped; %s", cfgkind().c_str(), adv - 1u, c.obs.c_str() ) );
            }
            else if ( dist && dist < 0x8000 && adv > dist )
                c.fail( "ll-plan:skipped-past-pending-instant", mc::fmt( "%s: next event at +%u, instant at +%u; %s", cfgkind().c_str(), adv, dist, c.obs.c_str() ) );
            else if ( after.index != ( before.index + adv ) % 37 )
                c.fail( "ll-plan:channel-index-and-counter-apart", cfgkind() + ": " + c.obs );
            else if ( std::uint64_t( after.time ) != std::uint64_t( adv ) * interval_us )
                c.fail( "ll-plan:time-and-counter-apart", cfgkind() + ": " + c.obs );
            if ( !c.fails.empty() ) { normalise(); return true; }
            ref.counter = after.counter; ref.index = std::uint8_t( after.index ); ref.since = adv; ref.passed = 0; ref.pulled = 0;
            check_window( "plan", c );
            // listen_if_pending_transmit_data: "listen at the very next connection event if bluetoe has an available PDU for sending".
            // Data that the link layer itself put into its transmit buffer before end_event() returned (queued notification, L2CAP
            // output) is such a PDU - but it was created after the next event had been planned.
            if ( ref.cancel_req ) ref.must_cancel = 1;
            if ( c.fails.empty() && ( mask & PEND ) && adv != 1 && ll->pending_outgoing_data_available() && !ll->cap.pending_at_schedule && ref.cancel_req )
                c.cls( "ll-plan:outgoing-data-created-after-planning:repair-left-to-outstanding-cancelation-request" );
            else if ( c.fails.empty() && ( mask & PEND ) && adv != 1 && ll->pending_outgoing_data_available() && !ll->cap.pending_at_schedule )
                c.fail( ref.ll_request_waiting ? "ll-plan:own-ll-procedure-pdu-created-after-planning-waits-for-latency" : "ll-plan:outgoing-data-created-after-planning-waits-for-latency",
                        mc::fmt( "%s: end_event() returned with outgoing data in the transmit buffer, but the next connection event is %u events away (nothing was pending when it was planned); %s",
                                 cfgkind().c_str(), adv, c.obs.c_str() ) );
            if ( ref.ll_request_waiting ) c.cls( mc::fmt( "own-procedure-pdu:%s", ll->cap.pending_at_schedule ? "in-buffer-when-planned" : "not-in-buffer-when-planned" ) );
            ref.ll_request_waiting = 0;
            c.cls( mc::fmt( "ll-plan:%s:%s:%s", cfgkind().c_str(),
                            hit ? ( ( hit & ALWAYS ) ? "listen_always" : ( hit & ERR ) ? "error" : cond_name[ __builtin_ctz( hit ) ] ) : "nothing-to-listen-for",
                            adv == 1 ? "next-event" : ( dist && adv == dist ) ? "skip-to-instant" : adv == latency + 1 ? "full-skip" : "partial-skip" ) );
            normalise();
            return true;
        }
        case ev_missed:
        {
            ll->sim_timeout();
            if ( closed( c, "after-missed-event" ) ) { normalise(); return true; }
            const Obs after = observe();
            c.obs = mc::fmt( "counter %u->%u index %u->%u time %u us", before.counter, after.counter, before.index, after.index, after.time );
            if ( std::uint16_t( after.counter - before.counter ) != 1 ) c.fail( "ll-timeout:counter-step-not-one", c.obs );
            else if ( after.index != ( before.index + 1 ) % 37 ) c.fail( "ll-timeout:channel-index-and-counter-apart", c.obs );
            else if ( std::uint64_t( after.time ) != std::uint64_t( ref.since + 1 ) * interval_us ) c.fail( "ll-timeout:time-and-counter-apart", c.obs );
            if ( !c.fails.empty() ) { normalise(); return true; }
            c.cls( ref.pulled ? "ll-timeout:after-pull-back" : ref.passed ? "ll-timeout:repeated" : "ll-timeout:first" );
            ref.passed = ref.since; ref.since += 1; ref.counter = after.counter; ref.index = std::uint8_t( after.index );
            check_window( "timeout", c );
            if ( ref.cancel_req ) ref.must_cancel = 1;
            if ( !ll->defered_ll_control_pdu_.empty() && std::int16_t( ll->defered_conn_event_counter_ - before.counter ) > 0 && std::int16_t( ll->defered_conn_event_counter_ - after.counter ) < 0 )
                c.fail( "ll-timeout:skipped-past-pending-instant", c.obs );
            normalise();
            return true;
        }
        case ev_notify:
        {
            const bool r = ll->notify( char_value );
            c.obs = mc::fmt( "->%d, %u cancelation requests", r, ll->log.cancelation_requests );
            const Obs after = observe();
            if ( after.counter != before.counter || after.index != before.index || after.time != before.time || ll->cap.scheduled )
                c.fail( "ll-notify:changes-planned-event", c.obs );
            c.cls( mc::fmt( "notify:%s:%s", r ? "queued" : "not-queued", ll->log.cancelation_requests ? "cancelation-requested" : "no-cancelation-request" ) );
            if ( ll->log.cancelation_requests ) ref.cancel_req = 1;
            normalise();
            return true;
        }
        case ev_cancel0: case ev_cancel1: case ev_cancel2: case ev_cancel3:
        {
            const std::int64_t I = interval_us, lo = std::int64_t( ref.passed ) * I, hi = std::int64_t( ref.since ) * I;
            const std::int64_t T = ev == ev_cancel1 ? lo + 1 : ev == ev_cancel2 ? lo + I / 2 : ev == ev_cancel3 ? hi - I / 2 : 0;
            if ( ev != ev_cancel0 && ( T < lo || T > hi ) ) return false;
            ll->log.disarm_answer = ev != ev_cancel0; ll->log.disarm_time_us = std::uint32_t( T );
            ll->try_event_cancelation();
            ref.cancel_req = 0; ref.must_cancel = 0;
            const Obs after = observe();
            const bool asked = ll->log.disarm_count != 0, disarmed = asked && ev != ev_cancel0, rescheduled = ll->cap.scheduled != 0;
            const std::uint16_t back = std::uint16_t( before.counter - after.counter );
            c.obs = mc::fmt( "radio asked %u times, %u events scheduled; counter %u->%u index %u->%u time %u->%u us", ll->log.disarm_count, unsigned( ll->cap.scheduled ),
                             before.counter, after.counter, before.index, after.index, before.time, after.time );
            if ( disarmed && !rescheduled ) c.fail( "ll-pull-back:disarmed-but-not-scheduled-again", c.obs );
            else if ( !disarmed && rescheduled ) c.fail( "ll-pull-back:scheduled-again-without-disarm", c.obs );
            else if ( !disarmed && ( back != 0 || after.index != before.index || after.time != before.time ) ) c.fail( "ll-pull-back:refused-but-state-changed", c.obs );
            {
                // see C23_latency_state.cpp: listening on pending transmit data, an event is skipped, the radio leaves room
                const std::uint32_t now_events = std::uint32_t( ( T + I - 1 ) / I );
                const bool possible = ev != ev_cancel0 && ( cfg_masks[ ref.cfg ] & PEND ) && ref.passed == 0 && !ref.pulled && ref.since >= 2 && std::max< std::uint32_t >( 1, now_events ) < ref.since;
                if ( c.fails.empty() && possible && !disarmed ) c.fail( "ll-pull-back:radio-not-asked-although-event-is-skipped", mc::fmt( "%s: next event %u intervals after the anchor; %s", cfgkind().c_str(), ref.since, c.obs.c_str() ) );
                else if ( c.fails.empty() && possible && back == 0 ) c.fail( "ll-pull-back:event-not-moved-although-possible", mc::fmt( "%s: next event %u intervals after the anchor; %s", cfgkind().c_str(), ref.since, c.obs.c_str() ) );
                if ( possible ) c.cls( mc::fmt( "ll-cancel:possible:planned-%s-ahead", ref.since == 2 ? "2" : ref.since == 3 ? "3" : "4+" ) );
            }
            if ( !c.fails.empty() || !disarmed )
            {
                if ( c.fails.empty() ) c.cls( mc::fmt( "ll-cancel:%s", asked ? "radio-refused" : ref.pulled ? "not-tried-again-after-pull-back" : ref.since - ref.passed == 1 ? "not-tried:nothing-to-gain" : "not-tried" ) );
                normalise(); return true;
            }
            if ( back >= 0x8000 ) c.fail( "ll-pull-back:event-moved-later", c.obs );
            else if ( back >= ref.since - ref.passed || std::int64_t( ref.since - back ) * I < T )
                c.fail( "ll-pull-back:into-the-past", mc::fmt( "planned event %u intervals after the anchor, event %u is over, now %lld us; pulled back by %u; %s", ref.since, ref.passed, (long long)T, back, c.obs.c_str() ) );
            else if ( after.index != ( before.index + 37u * 20u - back ) % 37 ) c.fail( "ll-pull-back:channel-index-and-counter-apart", c.obs );
            else if ( std::uint64_t( after.time ) != std::uint64_t( ref.since - back ) * I ) c.fail( "ll-pull-back:time-and-counter-apart", c.obs );
            if ( !c.fails.empty() ) { normalise(); return true; }
            c.cls( mc::fmt( "ll-cancel:pulled-back:%s%s%s", back == 0 ? "by-0" : back == 1 ? "by-1" : "by-2+", ref.passed ? ":after-timeout" : "",
                            ( cfg_masks[ ref.cfg ] & PEND ) ? "" : ":listen_if_pending_transmit_data-not-active" ) );
            ref.since -= back; ref.counter = after.counter; ref.index = std::uint8_t( after.index ); ref.pulled = 1;
            check_window( "pull-back", c );
            normalise();
            return true;
        }
        case ev_req_version: case ev_req_phy: case ev_req_param:
        {
            // own LL procedures: the application asks between two connection events; the PDU has to be in the transmit buffer
            // when the next connection event is planned ( same oracle as for notifications )
            const unsigned bit = 1u << ( ev - ev_req_version );
            if ( ref.requested & bit ) return false;
            const bool r = ev == ev_req_version ? ll->remote_versions_request()
                         : ev == ev_req_phy     ? ll->phy_update_request_to_2mbit()
                         :                        ll->connection_parameter_update_request( 24, 40, 0, 100 );
            const Obs after = observe();
            c.obs = mc::fmt( "->%d, %u wake ups", r, ll->log.wake_ups );
            if ( after.counter != before.counter || after.index != before.index || after.time != before.time || ll->cap.scheduled )
                c.fail( "ll-request:changes-planned-event", c.obs );
            ref.requested |= bit;
            if ( r ) ref.ll_request_waiting = 1;
            c.cls( mc::fmt( "own-procedure:%s:%s", ev == ev_req_version ? "version" : ev == ev_req_phy ? "phy" : "connection-parameters", r ? "accepted" : "refused" ) );
            normalise();
            return true;
        }
        case ev_cfg0: case ev_cfg1:
        {
            const int i = ev - ev_cfg0;
            if ( n_cfgs == 1 || i >= n_cfgs || i == ref.cfg ) return false;
            change_cfg( ll.get(), i );
            ref.cfg = std::uint8_t( i );
            c.cls( mc::fmt( "switch:to-%d", i ) );
            return true;
        }
        }
        return false;
    }
};

World w;

} // namespace

int main( int argc, char** argv )
{
    mc::Args a = mc::parse_args( argc, argv );
    mc::Report rep; rep.property = "C23"; rep.unit = a.opt.count( "unit" ) ? a.opt[ "unit" ] : "C23_ll_latency";
    mc::BfsOptions o; o.max_depth = int( a.thorough() ? a.num( "thorough-depth", 6 ) : a.num( "depth", 4 ) ); o.max_states = 250000;
    mc::Bfs< World > bfs( w, rep, a, o );
    if ( !a.replay.empty() ) return bfs.replay_file( mc::read_replay( a.replay ) );
    bfs.run();
    rep.notes[ "configuration" ] = mc::fmt( "%s, peripheral latency %u, link layer object %zu bytes", cfg_name, latency, sizeof( ll_t ) );
    rep.notes[ "bound" ] = mc::fmt( "all sequences of up to %d steps (18 kinds: 6 kinds of connection events, missed event, notify(), 3 own LL procedures requested by the application, 4 radio answers to try_event_cancelation, LL_CHANNEL_MAP_REQ instant +2/+6, configuration switch) from an established connection with notifications enabled",
                                    o.max_depth );
    rep.write( a );
    return 0;
}
