// C19 (receive side) - reassembly of L2CAP SDUs in ll_l2cap_sdu_buffer is exact and memory safe for *any* fragment sequence.
//
// E1: BFS over the real object (placed in an exact-size heap block, ASan).  A reference central sends PDUs with correct
// SN/NESN through the radio interface of ll_data_pdu_buffer (allocate_receive_buffer / received); the link layer side calls
// next_ll_l2cap_received() (twice: documented idempotent) and free_ll_l2cap_received() when something was returned, exactly
// as link_layer::handle_received_data() does.
//
// Events   start(L,b)   LLID 2, L2CAP length field L in {0,1,MTU-1,MTU,MTU+1,0xffff}, b body bytes in {0,3,4,L+4 (complete),max}
//          cont(b)      LLID 1, b in {0 (the empty PDU),1,10,max, "rest" = exactly what the reference says is missing}
//          llid0, ctrl  LLID 0 with payload (must be ignored), LL control PDU (passed through)
//          consume      next_ll_l2cap_received x2, [free_ll_l2cap_received]
// Oracles  * ASan / signals
//          * frame: field-wise diff of the object against its pre-image (offsetof): a radio-side event must not touch the SDU
//            members at all; consume may change only receive_buffer_[], receive_size_, receive_buffer_used_ and the receive
//            ring's two pointers.  Padding bytes, transmit_* and the PDU storage must stay.  (Overflow of receive_buffer_ into
//            its neighbours is inside the object, ASan cannot see it.)
//          * non-interference: every next_ll_l2cap_received() that finds PDUs in the ring is run a second time from the same
//            pre-image with all payload bytes (not the L2CAP headers) of the queued PDUs flipped; receive_size_,
//            receive_buffer_used_ and the size handed out must come out the same - they may depend on lengths only.  This shows
//            an overflow that reaches just the two counters (which consume may legitimately change, so the frame is blind)
//          * delivery: what is handed out is either the oldest PDU of the ring itself (control PDU / unfragmented SDU), byte
//            exact, or a reassembled SDU = one start fragment sent + the continuation fragments sent after it up to the next
//            start fragment, truncated to the announced length, size = announced length + headers; nothing is handed out twice
// Signatures carry the *input class* (what was unusual about the fragments), judged by a reference tracker that follows the
// Core spec reading (a start fragment always begins a new SDU), never by looking at how the object failed:
//          fragment-exceeds-remaining | start-during-reassembly | rejected-start-during-reassembly | after-rejected-start |
//          unfragmented-start-during-reassembly | wellformed
// (a fragment that cannot fit into the buffer at all names the class of a memory failure; else a start fragment that arrived
// inside an incomplete SDU does - the most recent one; unfragmented-start-during-reassembly: a start
// fragment that is a whole SDU and is handed out as it is)
#include "C19_common.hpp"

namespace {

using namespace c19;

enum Kind : std::uint8_t { K_START = 2, K_CONT = 1, K_CTRL = 3, K_LLID0 = 0 };
enum Anomaly : std::uint8_t { A_NONE, A_START_DURING, A_REJECTED_START_DURING, A_EXCEEDS, A_REJECTED_START, A_UNFRAGMENTED_START_DURING };

struct Frag
{
    std::uint8_t  kind, j;          // j: number of the continuation since the last start fragment (mod 4), for the fill bytes
    std::uint16_t lfield, body, ring_off;
};

const std::uint8_t ctrl_payload[] = { 0x12, 0x81, 0x82 };   // LL_PING_REQ-like opcode + 2 bytes

// payload bytes: position dependent so that shifted / repeated / missing pieces show
void body_bytes( const Frag& f, std::uint8_t* out )
{
    if ( f.kind == K_START )
    {
        for ( int i = 0; i != f.body; ++i ) out[ i ] = std::uint8_t( 0x80 | ( ( i - 4 ) & 0x3f ) );
        const std::uint8_t h[ 4 ] = { std::uint8_t( f.lfield ), std::uint8_t( f.lfield >> 8 ), 0x04, 0x00 };
        for ( int i = 0; i != 4 && i != f.body; ++i ) out[ i ] = h[ i ];
    }
    else if ( f.kind == K_CONT ) for ( int i = 0; i != f.body; ++i ) out[ i ] = std::uint8_t( 0xC0 | ( ( f.j & 3 ) << 4 ) | ( i & 15 ) );
    else if ( f.kind == K_CTRL ) for ( int i = 0; i != f.body; ++i ) out[ i ] = ctrl_payload[ i % 3 ];
    else for ( int i = 0; i != f.body; ++i ) out[ i ] = 0xEE;
}

struct World
{
    dut_t* dut = nullptr;
    std::vector< Span > map = field_map();

    struct Ref
    {
        std::uint8_t  c_sn, c_nesn;
        std::uint8_t  nq, nh;
        Frag          q[ 12 ];           // PDUs stored in the receive ring, oldest first
        Frag          h[ 12 ];          // L2CAP fragments the SDU layer took out of the ring since the last delivered SDU
        // reference tracker (Core spec reading)
        std::uint8_t  active, sent_conts, anomaly, structural;  // since the last delivered SDU: anomaly = A_EXCEEDS if a fragment was longer than what was missing; structural = most recent start fragment inside an SDU
        std::uint8_t  pad_[ 2 ];      // sent_conts: continuations sent since the last start fragment (mod 4)
        std::uint16_t total, got;
    } ref;

    struct Ev { std::uint8_t kind; std::uint16_t lfield; int body; };   // body -1: complete (L+4), -2: max, -3: rest;  kind 9 = consume
    std::vector< Ev > events;
    std::set< std::string > seen_classes;

    // wide: the whole alphabet (thorough: two more length fields, body 4); deep: one representative per kind of fragment
    void set_alphabet( bool wide, bool thorough )
    {
        events.clear();
        if ( wide )
        {
            std::vector< int > ls = { 1, MTU, MTU + 1, 0xffff };
            if ( thorough ) { ls.push_back( 0 ); ls.push_back( MTU - 1 ); }
            std::sort( ls.begin(), ls.end() );
            for ( int l : ls )
            {
                std::set< int > bodies{ 0, 3, MAXBODY };
                if ( thorough ) bodies.insert( 4 );
                if ( l + 4 <= MAXBODY ) bodies.insert( l + 4 );
                for ( int b : bodies ) events.push_back( Ev{ K_START, std::uint16_t( l ), b } );
            }
            for ( int b : std::set< int >{ 0, 1, std::min( 10, MAXBODY ), MAXBODY } ) events.push_back( Ev{ K_CONT, 0, b } );
            events.push_back( Ev{ K_CONT, 0, -3 } );
            events.push_back( Ev{ K_CTRL, 0, 3 } );
            events.push_back( Ev{ K_LLID0, 0, 5 } );
        }
        else
        {
            events.push_back( Ev{ K_START, std::uint16_t( MTU ), std::min( MAXBODY, MTU + 3 ) } );   // first fragment of the largest SDU
            events.push_back( Ev{ K_START, 1, 5 } );                                                    // unfragmented SDU
            events.push_back( Ev{ K_START, std::uint16_t( MTU + 1 ), std::min( MAXBODY, MTU + 3 ) } ); // too large: rejected
            events.push_back( Ev{ K_START, 1, 3 } );                                                    // no room for the L2CAP header: rejected
            events.push_back( Ev{ K_CONT, 0, std::min( MAXBODY, MTU + 3 ) } );
            events.push_back( Ev{ K_CONT, 0, -3 } );
            events.push_back( Ev{ K_CTRL, 0, 3 } );
        }
        events.push_back( Ev{ 9, 0, 0 } );
    }

    World() { set_alphabet( true, false ); }

    void init()
    {
        if ( !dut ) dut = new_dut_block();
        memset( dut, 0xCD, sizeof( dut_t ) );
        new ( dut ) dut_t();
        dut->max_rx_size( MAXS );
        dut->max_tx_size( MAXS );
        memset( &ref, 0, sizeof ref );
    }
    void regions( mc::Regions& r ) { if ( !dut ) dut = new_dut_block(); r.add( dut, sizeof( dut_t ) ); r.add( ref ); }
    int num_events() const { return int( events.size() ); }

    int rest() const { return ref.active && ref.total > ref.got ? ref.total - ref.got : 0; }

    std::string describe( int ev ) const
    {
        const Ev& e = events[ ev ];
        if ( e.kind == 9 ) return "link layer: next_ll_l2cap_received() x2 [+ free_ll_l2cap_received()]";
        if ( e.kind == K_START ) return mc::fmt( "central sends start fragment, L2CAP length %u, %d body bytes", unsigned( e.lfield ), e.body );
        if ( e.kind == K_CONT ) return e.body == -3 ? std::string( "central sends continuation fragment with exactly the missing bytes" ) : mc::fmt( "central sends continuation fragment, %d body bytes", e.body );
        if ( e.kind == K_CTRL ) return "central sends LL control PDU (3 bytes)";
        return "central sends PDU with LLID 0 (5 bytes)";
    }

    void cls( mc::Ctx& c, const std::string& s ) { if ( seen_classes.insert( s ).second ) c.cls( s ); }

    static const char* anomaly_name( int a )
    {
        return a == A_START_DURING ? "start-during-reassembly" : a == A_REJECTED_START_DURING ? "rejected-start-during-reassembly" : a == A_EXCEEDS ? "fragment-exceeds-remaining" : a == A_REJECTED_START ? "after-rejected-start"
             : a == A_UNFRAGMENTED_START_DURING ? "unfragmented-start-during-reassembly" : "wellformed";
    }

    std::size_t sdu_used() const { return dut->receive_buffer_used_; }
    std::size_t sdu_rest() const { return dut->receive_size_; }

    // ---- radio side ------------------------------------------------------------------------------------------------
    bool receive( const Ev& e, mc::Ctx& c )
    {
        Frag f; memset( &f, 0, sizeof f );
        f.kind = e.kind; f.lfield = e.lfield;
        int body = e.body;
        if ( body == -3 ) { body = rest(); if ( body < 1 || body > MAXBODY ) return false; for ( auto& o : events ) if ( o.kind == K_CONT && o.body == body ) return false; }
        f.body = std::uint16_t( body );
        f.j = e.kind == K_CONT ? ref.sent_conts : 0;

        if ( ref.nq == 12 ) return false;                              // the reference central never has more than 12 PDUs unconsumed
        std::uint8_t pre[ sizeof( dut_t ) ]; memcpy( pre, dut, sizeof pre );
        read_buffer rb{ nullptr, 0 }; write_buffer rsp{ nullptr, 0 };
        const std::string g = guarded( [&]
        {
            rb = dut->hw_allocate_receive_buffer();
            if ( rb.size == 0 ) return;
            memset( rb.buffer, 0xEE, rb.size );
            layout_t::header( rb.buffer, std::uint16_t( f.kind | ( ref.c_sn ? 0x08 : 0 ) | ( ref.c_nesn ? 0x04 : 0 ) | ( body << 8 ) ) );
            body_bytes( f, layout_t::body( rb ).first );
            f.ring_off = std::uint16_t( rb.buffer - dut->receive_buffer() );
            rsp = dut->hw_received( rb );
        } );
        if ( !g.empty() ) { c.fail( "rx-memory:" + g + ":radio-side", describe_frag( f ) ); return true; }
        if ( rb.size == 0 ) return false;                              // receive ring full: the radio ignores the traffic
        if ( rb.size != std::size_t( MAXS + OVER ) ) { c.fail( "harness:receive-buffer-size", mc::fmt( "allocate_receive_buffer() -> %zu", rb.size ) ); return true; }
        // reference central: SN/NESN
        ref.c_sn ^= 1;
        if ( rsp.buffer && bool( layout_t::header( rsp.buffer ) & 0x08 ) == bool( ref.c_nesn ) ) ref.c_nesn ^= 1;
        // radio-side events must not touch the SDU members
        const std::string d = frame_diff( pre, reinterpret_cast< const std::uint8_t* >( dut ), map,
            { "ll_data_pdu_buffer::buffer_[receive part]", "ll_data_pdu_buffer::receive_buffer_ (ring)", "sequence numbers / empty PDU", "ll_data_pdu_buffer::buffer_[transmit part]", "ll_data_pdu_buffer::transmit_buffer_ (ring)" } );
        if ( !d.empty() ) { c.fail( "rx-frame:radio-side-event-changed-sdu-state", d ); return true; }
        const bool stored = f.kind != K_LLID0 && body != 0;           // ll_data_pdu_buffer drops LLID 0 and empty PDUs (C15)
        if ( stored )
        {
            if ( ref.nq == 12 ) { c.fail( "harness:queue", "reference ring queue too small" ); return true; }
            ref.q[ ref.nq++ ] = f;
            if ( f.kind == K_CONT ) ref.sent_conts = ( ref.sent_conts + 1 ) & 3;
            if ( f.kind == K_START ) ref.sent_conts = 0;
        }
        c.obs = mc::fmt( "%s, ring holds %d", stored ? "stored" : "dropped by ll_data_pdu_buffer", int( ref.nq ) );
        cls( c, mc::fmt( "rx:%s:%s", f.kind == K_START ? "start" : f.kind == K_CONT ? "cont" : f.kind == K_CTRL ? "ctrl" : "llid0", stored ? "stored" : "dropped" ) );
        return true;
    }

    std::string describe_frag( const Frag& f ) const
    {
        return mc::fmt( "%s L=%u body=%u", f.kind == K_START ? "start" : f.kind == K_CONT ? "cont" : f.kind == K_CTRL ? "ctrl" : "llid0", unsigned( f.lfield ), unsigned( f.body ) );
    }

    // ---- reference tracker: one fragment taken by the SDU layer; tells what is unusual about it
    struct Unusual { int structural; bool exceeds, does_not_fit; };
    Unusual track( const Frag& f )
    {
        Unusual u{ A_NONE, false, false };
        // a continuation while nothing is in progress and nothing was seen since the last delivered SDU belongs to no SDU
        const bool outside = f.kind == K_CONT && !ref.active && ref.nh == 0;
        if ( !outside )
        {
            if ( ref.nh == 12 ) { for ( int i = 1; i != 12; ++i ) ref.h[ i - 1 ] = ref.h[ i ]; --ref.nh; }
            ref.h[ ref.nh++ ] = f;
        }
        if ( f.kind == K_START )
        {
            const bool accepted = f.body >= 4 && f.lfield <= MTU;
            if ( ref.active ) u.structural = accepted ? A_START_DURING : A_REJECTED_START_DURING;
            else if ( !accepted ) u.structural = A_REJECTED_START;          // too short for an L2CAP header or longer than the MTU
            ref.active = 0; ref.total = 0; ref.got = 0;
            if ( !accepted ) return u;
            ref.active = 1; ref.total = std::uint16_t( f.lfield + 4 ); ref.got = f.body;
            u.exceeds = ref.got > ref.total;
            u.does_not_fit = u.exceeds && std::size_t( LLOH + f.body ) > SDU_BUF;
            return u;
        }
        // "does not fit": even written at the place the bytes received so far put it, the fragment ends behind the buffer
        const std::size_t at = ref.active ? LLOH + ref.got : 0;
        u.exceeds = !ref.active || ref.got + f.body > ref.total;
        u.does_not_fit = u.exceeds && at + f.body > SDU_BUF;
        if ( ref.active ) ref.got = std::uint16_t( ref.got + f.body );
        return u;
    }

    // can the delivered SDU be explained as one start fragment + the continuations sent after it?
    bool explain_sdu( const std::uint8_t* l2cap, std::size_t n, unsigned announced ) const
    {
        static std::uint8_t cat[ 12 * 256 ];
        for ( int s = 0; s != ref.nh; ++s )
        {
            if ( ref.h[ s ].kind != K_START || ref.h[ s ].body < 4 || ref.h[ s ].lfield != announced ) continue;
            std::size_t len = 0;
            body_bytes( ref.h[ s ], cat ); len = ref.h[ s ].body;
            for ( int k = s + 1; k != ref.nh && ref.h[ k ].kind == K_CONT; ++k ) { body_bytes( ref.h[ k ], cat + len ); len += ref.h[ k ].body; }
            if ( len >= n && memcmp( cat, l2cap, n ) == 0 ) return true;
        }
        return false;
    }

    bool consume( mc::Ctx& c )
    {
        std::uint8_t pre[ sizeof( dut_t ) ]; memcpy( pre, dut, sizeof pre );
        write_buffer d1{ nullptr, 0 }, d2{ nullptr, 0 }, head{ nullptr, 0 };
        std::string g = guarded( [&]{ d1 = dut->next_ll_l2cap_received(); d2 = dut->next_ll_l2cap_received(); head = dut->next_received(); } );

        // which PDUs did the SDU layer take out of the ring?
        int taken = ref.nq;
        if ( g.empty() && head.size != 0 )
        {
            taken = -1;
            for ( int i = 0; i != ref.nq; ++i ) if ( head.buffer == dut->receive_buffer() + ref.q[ i ].ring_off ) { taken = i; break; }
        }
        // input class: a fragment of this call that cannot fit names it; else the most recent structural irregularity since
        // the last delivered SDU; a fragment that is merely longer than what was missing cannot change what is delivered
        // (truncation is accepted), so it names the class of a wrong SDU only if nothing structural happened
        int structural = ref.structural; bool exceeded = ref.anomaly == A_EXCEEDS, no_fit = false;
        const int ntrack = taken >= 0 ? taken : int( ref.nq );
        const std::uint8_t nh_before = ref.nh;
        for ( int i = 0; i != ntrack; ++i )
            if ( ref.q[ i ].kind == K_START || ref.q[ i ].kind == K_CONT )
            {
                const Unusual u = track( ref.q[ i ] );
                if ( u.structural != A_NONE && ( u.structural != A_REJECTED_START || structural == A_NONE ) ) structural = u.structural;   // the most recent one names the class
                exceeded = exceeded || u.exceeds;
                no_fit = no_fit || u.does_not_fit;
            }
        if ( ref.nh != 0 || nh_before != 0 ) { ref.anomaly = exceeded ? A_EXCEEDS : A_NONE; ref.structural = std::uint8_t( structural ); }
        const std::string input_class     = anomaly_name( no_fit ? int( A_EXCEEDS ) : structural );
        const std::string input_class_sdu = anomaly_name( structural != A_NONE ? structural : exceeded ? int( A_EXCEEDS ) : int( A_NONE ) );
        auto history = [&]{ std::string s; for ( int i = 0; i != ref.nh; ++i ) s += ( i ? ", " : "" ) + describe_frag( ref.h[ i ] ); return "fragments taken by the SDU layer: [" + s + "]"; };

        if ( !g.empty() )
        {
            c.fail( "rx-overflow:" + input_class, mc::fmt( "%s report in next_ll_l2cap_received(); receive_buffer_ has %zu bytes; ", g.c_str(), SDU_BUF ) + history() );
            return true;
        }
        const std::uint8_t* post = reinterpret_cast< const std::uint8_t* >( dut );
        std::string d = frame_diff( pre, post, map, { "receive_buffer_", "receive_size_", "receive_buffer_used_", "ll_data_pdu_buffer::receive_buffer_ (ring)" } );
        if ( !d.empty() )
        {
            c.fail( "rx-overflow:" + input_class, "next_ll_l2cap_received() wrote outside receive_buffer_[" + std::to_string( SDU_BUF ) + "]: " + d + "; " + history() );
            return true;
        }
        if ( ref.nq != 0 )
        {
            // non-interference: same call from the same pre-image with the payload bytes of the queued PDUs flipped
            static std::uint8_t post1[ sizeof( dut_t ) ];
            memcpy( post1, dut, sizeof post1 );
            const std::size_t used1 = sdu_used(), rest1 = sdu_rest();
            memcpy( dut, pre, sizeof pre );
            for ( int i = 0; i != ref.nq; ++i )
            {
                if ( ref.q[ i ].kind != K_START && ref.q[ i ].kind != K_CONT ) continue;
                std::uint8_t* b = dut->receive_buffer() + ref.q[ i ].ring_off + LLOH;
                for ( int k = ref.q[ i ].kind == K_START ? 4 : 0; k < ref.q[ i ].body; ++k ) b[ k ] ^= 0x40;
            }
            write_buffer e1{ nullptr, 0 };
            guarded( [&]{ e1 = dut->next_ll_l2cap_received(); } );
            const std::size_t used2 = sdu_used(), rest2 = sdu_rest();
            memcpy( dut, post1, sizeof post1 );
            if ( used1 != used2 || rest1 != rest2 || e1.size != d1.size )
            {
                c.fail( "rx-overflow:" + input_class,
                        mc::fmt( "bookkeeping depends on payload *bytes*: receive_buffer_used_/receive_size_/size handed out = %zu/%zu/%zu, with other payload bytes %zu/%zu/%zu "
                                 "(the copy ran over the %zu bytes of receive_buffer_ into the counters behind it); ", used1, rest1, d1.size, used2, rest2, e1.size, SDU_BUF ) + history() );
                return true;
            }
        }
        if ( taken < 0 ) { c.fail( "rx-ring-out-of-step", "the oldest PDU of the receive ring is none of the PDUs sent" ); return true; }
        if ( d1.buffer != d2.buffer || d1.size != d2.size ) { c.fail( "rx-next-not-idempotent", mc::fmt( "first call %zu bytes, second call %zu bytes", d1.size, d2.size ) ); return true; }

        // remove what was taken from the reference queue
        for ( int i = taken; i < ref.nq; ++i ) ref.q[ i - taken ] = ref.q[ i ];
        ref.nq = std::uint8_t( ref.nq - taken );
        for ( int i = ref.nq; i != 12; ++i ) memset( &ref.q[ i ], 0, sizeof( Frag ) );

        if ( d1.size == 0 )
        {
            if ( ref.nq != 0 ) { c.fail( "rx-stuck:pdu-left-in-ring-nothing-delivered", describe_frag( ref.q[ 0 ] ) ); return true; }
            cls( c, std::string( "consume:nothing:" ) + ( ref.active ? "sdu-incomplete" : "idle" ) );
            c.obs = "nothing to deliver";
            return true;
        }

        const bool reassembled = d1.buffer == dut->receive_buffer_;
        if ( reassembled )
        {
            const unsigned announced = d1.size >= std::size_t( LLOH + 4 ) ? unsigned( d1.buffer[ LLOH ] | ( d1.buffer[ LLOH + 1 ] << 8 ) ) : 0u;
            const bool size_ok = d1.size >= std::size_t( LLOH + 4 ) && d1.size == announced + LLOH + 4;
            if ( !size_ok || ( layout_t::header( d1.buffer ) & 3 ) != 2 || !explain_sdu( d1.buffer + LLOH, d1.size - LLOH, announced ) )
            {
                c.fail( "rx-sdu-mismatch:" + input_class_sdu,
                        mc::fmt( "delivered %zu bytes (LL header %04x, L2CAP length field %u => %u bytes expected) that are not one start fragment followed by its continuations; ",
                                 d1.size, unsigned( layout_t::header( d1.buffer ) ), announced, announced + LLOH + 4 ) + history() );
                return true;
            }
            cls( c, "deliver:reassembled:" + input_class_sdu );
        }
        else
        {
            if ( ref.nq == 0 || d1.buffer != dut->receive_buffer() + ref.q[ 0 ].ring_off )
            {
                c.fail( "rx-delivery:not-the-oldest-pdu", mc::fmt( "returned buffer is neither receive_buffer_ nor the oldest PDU of the ring (%d PDUs in the ring)", int( ref.nq ) ) );
                return true;
            }
            const Frag& f = ref.q[ 0 ];
            std::uint8_t exp[ 256 ]; body_bytes( f, exp );
            const bool pass_ok = f.kind == K_CTRL || ( f.kind == K_START && f.body >= 4 && f.lfield + 4 == f.body );
            if ( !pass_ok || d1.size != std::size_t( LLOH + f.body ) || ( layout_t::header( d1.buffer ) & 3 ) != f.kind || ( layout_t::header( d1.buffer ) >> 8 ) != f.body
              || memcmp( d1.buffer + LLOH, exp, f.body ) != 0 )
            {
                c.fail( "rx-passthrough-mismatch:" + input_class, "handed out as it is: " + describe_frag( f ) + mc::fmt( ", %zu bytes returned", d1.size ) );
                return true;
            }
            cls( c, mc::fmt( "deliver:%s:%s", f.kind == K_CTRL ? "ctrl" : "unfragmented-sdu", ref.active ? "while-sdu-incomplete" : "idle" ) );
            if ( f.kind == K_START )
            {
                // every start fragment - also one that is a whole SDU and is handed out as it is - ends an incomplete SDU:
                // the continuations that follow belong to no SDU
                if ( ref.nh == 12 ) { for ( int i = 1; i != 12; ++i ) ref.h[ i - 1 ] = ref.h[ i ]; --ref.nh; }
                ref.h[ ref.nh++ ] = f;
                if ( ref.active ) ref.structural = A_UNFRAGMENTED_START_DURING;
                ref.active = 0; ref.total = 0; ref.got = 0;
            }
        }

        // the link layer is done with it
        std::uint8_t pre2[ sizeof( dut_t ) ]; memcpy( pre2, dut, sizeof pre2 );
        write_buffer head2{ nullptr, 0 };
        g = guarded( [&]{ dut->free_ll_l2cap_received(); head2 = dut->next_received(); } );
        if ( !g.empty() ) { c.fail( "rx-memory:" + g + ":free", "free_ll_l2cap_received()" ); return true; }
        d = frame_diff( pre2, post, map, { "receive_size_", "receive_buffer_used_", "ll_data_pdu_buffer::receive_buffer_ (ring)" } );
        if ( !d.empty() ) { c.fail( "rx-frame:free-changed-other-state", d ); return true; }
        if ( reassembled )
        {
            ref.nh = 0; memset( ref.h, 0, sizeof ref.h );
            ref.active = 0; ref.total = 0; ref.got = 0; ref.anomaly = A_NONE; ref.structural = A_NONE;
            c.obs = mc::fmt( "reassembled SDU of %zu bytes delivered and freed", d1.size );
        }
        else
        {
            const Frag f = ref.q[ 0 ];
            if ( head2.size != 0 && head2.buffer == dut->receive_buffer() + f.ring_off )
            {
                c.fail( "rx-duplicate-delivery:passthrough-pdu-during-reassembly",
                        mc::fmt( "%s was handed out while an SDU was incomplete (%u of %u bytes); free_ll_l2cap_received() then dropped the incomplete SDU "
                                 "(receive_buffer_used_ %zu -> %zu) instead of the PDU: the PDU is still the oldest in the receive ring and is handed out a second time",
                                 describe_frag( f ).c_str(), unsigned( ref.got ), unsigned( ref.total ), std::size_t( reinterpret_cast< const dut_t* >( pre2 )->receive_buffer_used_ ), sdu_used() ) );
                return true;
            }
            for ( int i = 1; i < ref.nq; ++i ) ref.q[ i - 1 ] = ref.q[ i ];
            --ref.nq; memset( &ref.q[ ref.nq ], 0, sizeof( Frag ) );
            if ( ( head2.size != 0 ) != ( ref.nq != 0 ) || ( ref.nq && head2.buffer != dut->receive_buffer() + ref.q[ 0 ].ring_off ) )
            {
                c.fail( "rx-ring-out-of-step:after-free", mc::fmt( "%d PDUs should be left in the receive ring", int( ref.nq ) ) );
                return true;
            }
            c.obs = "PDU handed out as it is and freed: " + describe_frag( f );
        }
        return true;
    }

    bool apply( int ev, mc::Ctx& c )
    {
        const Ev& e = events[ ev ];
        return e.kind == 9 ? consume( c ) : receive( e, c );
    }
};

} // namespace

struct Pass { const char* name; bool wide; int depth; };

int main( int argc, char** argv )
{
    mc::Args a = mc::parse_args( argc, argv );
    mc::Report total; total.property = "C19";
    total.unit = a.opt.count( "unit" ) ? a.opt[ "unit" ] : mc::fmt( "C19_rx-mtu%d-max%d", MTU, MAXS );
    static World w;
    const bool th = a.thorough();
    // the 251 byte configurations have a four times larger state image: one level less in the wide pass, two in the deep one;
    // where a whole SDU fits into one PDU many more sequences are accepted: one level less in the deep pass
    const int less = MAXS > 100 ? 1 : 0;
    const int deep_less = MAXS > 100 ? 2 : MAXBODY > MTU + 3 ? 1 : 0;
    // thorough: the wide pass keeps its depth but gets the larger alphabet (33..36 instead of 21..23 events)
    // (the cheap deep pass runs first, the wide one gets all the time that is left)
    const std::vector< Pass > passes = { { "deep", false, int( a.num( "deep-depth", ( th ? 9 : 7 ) - deep_less ) ) }, { th ? "wide-large" : "wide", true, int( a.num( "wide-depth", 4 - less ) ) } };
    std::string only;
    if ( !a.replay.empty() )
    {   // the trace's "detail" line starts with the pass name
        std::ifstream f( a.replay ); std::string l;
        while ( std::getline( f, l ) ) if ( l.rfind( "detail ", 0 ) == 0 ) only = l.substr( 7, l.find( ':' ) - 7 );
    }
    total.exhaustive = true;
    for ( std::size_t pi = 0; pi != passes.size(); ++pi )
    {
        // replay: the pass name in the trace, not the tier of the replaying run, selects the alphabet
        if ( !only.empty() && only != passes[ pi ].name && !( passes[ pi ].wide && only.rfind( "wide", 0 ) == 0 ) ) continue;
        w.set_alphabet( passes[ pi ].wide, only.empty() ? th : only == "wide-large" );
        w.seen_classes.clear();
        mc::Report rep; rep.property = "C19"; rep.unit = total.unit;
        mc::Args pa = a; pa.start = mc::now_s(); pa.deadline = pi + 1 == passes.size() ? a.remaining() : a.remaining() / 2;
        mc::BfsOptions o; o.max_depth = passes[ pi ].depth; o.max_states = 3000000;
        mc::Bfs< World > bfs( w, rep, pa, o );
        if ( !a.replay.empty() ) return bfs.replay_file( mc::read_replay( a.replay ) );
        bfs.run();
        total.states += rep.states; total.transitions += rep.transitions; total.evaluations += rep.evaluations;
        total.traces_validated += rep.traces_validated;
        total.exhaustive = total.exhaustive && rep.exhaustive;
        total.max_depth_completed = total.max_depth_completed < 0 ? rep.max_depth_completed : std::min( total.max_depth_completed, rep.max_depth_completed );
        for ( auto& cl : rep.classes ) total.cls( cl );
        for ( auto& s : rep.samples ) total.sample( std::string( passes[ pi ].name ) + ": " + s, 6 );
        total.counters[ std::string( "states " ) + passes[ pi ].name ] = rep.states;
        total.counters[ std::string( "depth " ) + passes[ pi ].name ] = std::uint64_t( rep.max_depth_completed );
        total.counters[ std::string( "events " ) + passes[ pi ].name ] = std::uint64_t( w.num_events() );
        for ( auto& n : rep.notes ) total.notes[ std::string( passes[ pi ].name ) + " " + n.first ] = n.second;
        for ( auto& v : rep.violations )
        {
            const bool isnew = total.fail( v.first, std::string( passes[ pi ].name ) + ": " + v.second.detail, v.second.trace );
            if ( !isnew ) total.violations[ v.first ].count += v.second.count - 1; else total.violations[ v.first ].count = v.second.count;
        }
    }
    total.notes[ "configuration" ] = mc::fmt( "ll_l2cap_sdu_buffer<ll_data_pdu_buffer<%zu,%zu>, MTU %d>, %s layout, max_rx_size %d, receive_buffer_ %zu bytes, sizeof object %zu",
                                              RING_TX, RING_RX, MTU, layout_name, MAXS, SDU_BUF, sizeof( dut_t ) );
    total.write( a );
    return 0;
}
